#!/venv/bin/python
"""Print, for every function of the library's four modules, how the Lean model is tied to it:

  translated   the function (or the named part of it) is translated statement by statement from the source on
               every run and a theorem proves the translation equal to the hand-written model function
  delegation   a thin method: its wrapper-language term is regenerated and proved to conform (C13b / C10b)
  table        data regenerated from the module (C14/C18 table theorems)
  by hand      modelled by hand; tied by the per-step correspondence and the oracles only

usage: tools/coverage.py [--md]   (reads /repo or $VERIF_REPO and the generated Lean files)"""
import ast, os, re, sys
ROOT = os.path.dirname(os.path.dirname(os.path.abspath(__file__)))
REPO = os.environ.get('VERIF_REPO', '/repo')
GEN = os.path.join(ROOT, 'lean', 'AnsiModel', 'Generated')

TRANSLATED = {      # (class, function) -> (part, theorem)
    ('AnsiString', '_shift_settings_idx'): ('whole', 'C12b.shift_is_code'),
    ('AnsiString', 'ljust'): ('whole', 'C12c.ljust_is_code'),
    ('AnsiString', 'rjust'): ('whole', 'C12b.rjust_is_code'),
    ('AnsiString', 'center'): ('whole', 'C12b.center_is_code'),
    ('AnsiString', 'assign_str'): ('whole', 'C11c.assign_is_code'),
    ('AnsiString', 'clip'): ('whole', 'C11d.clip_is_code'),
    ('AnsiString', '_strip'): ('whole', 'C11d.strip_is_code'),
    ('AnsiString', 'removeprefix'): ('whole', 'C11d.removeprefix_is_code'),
    ('AnsiString', 'removesuffix'): ('whole', 'C11d.removesuffix_is_code'),
    ('AnsiString', 'ansi_settings_at'): ('whole', 'C17c.ansiSettingsAt_is_code'),
    ('AnsiString', 'apply_formatting'): ('guard + everything after the scrubber', 'C06c.guard_is_code, C06d.applyCore_is_code'),
    ('AnsiString', 'remove_formatting'): ('guard + everything after the scrubber', 'C07b.guard_is_code, C07c.removeCore_eq / _is_code'),
    ('AnsiString', 'find_settings'): ('guard + everything after the scrubber', 'C17b.find_guard_is_code, C17d.findCore_is_code'),
    ('AnsiString', '__getitem__'): ('from `new_s._s = …` on (+ `_slice_val_to_idx`)', 'C04c.getItemCore_is_code'),
    ('AnsiString', '__iadd__'): ('after the operand is an AnsiString', 'C05d.iaddCore_eq / _is_code'),
    ('AnsiString', 'to_str'): ('whole: spec part with its regular expression, then the rendering loop', 'C12e.toStr_is_code, C01b.renderCore_is_code, C12d.spec_is_code'),
    ('AnsiString', '_slice_val_to_idx'): ('whole', 'C04b.sliceIdx_is_code'),
    ('AnsiString', '_find_setting_reference'): ('whole', 'C05c.find_reference_is_code'),
    ('AnsiString', '_same_setting_references'): ('whole', 'C05c.same_references_is_code'),
    ('AnsiString', '_find_settings_references'): ('whole', 'C05c.find_references_is_code'),
    ('AnsiString', 'is_formatting_valid'): ('whole', 'C15c.valid_is_code'),
    ('AnsiString', 'is_formatting_parsable'): ('whole', 'C15c.parsable_is_code'),
    ('AnsiString', 'format_matching'): ('the loop over the matches', 'C16b.format_matching_loop'),
    ('AnsiString', 'unformat_matching'): ('the loop over the matches', 'C16b.unformat_matching_loop'),
    ('_AnsiSettingPoint', 'insert_settings'): ('whole', 'C06d.insert_is_code'),
    ('_AnsiSettingPoint', '__bool__'): ('whole', 'C15c.point_bool_is_code'),
    ('_AnsiSettingsIterator', '__next__'): ('after the point is fetched', 'C09c.iter_step_is_code / _asserting'),
    ('AnsiStr', '__getnewargs__'): ('whole', 'C13c.code_newargs, copy_inv'),
    ('_AnsiControlFn', 'rgb'): ('the channel arithmetic', 'C14b.split_is_code, clamp_is_code'),
    ('AnsiString', '_split'): ('whole', 'C11e.split_is_code'),
    ('AnsiString', 'splitlines'): ('whole', 'C11e.splitlines_is_code'),
    ('AnsiString', 'partition'): ('whole', 'C11e.partition_is_code'),
    ('AnsiString', 'rpartition'): ('whole', 'C11e.rpartition_is_code'),
    ('AnsiString', '_apply_string_format'): ('whole (apply_formatting as a hand-modelled external); its five regular expressions', 'C12e.applyStringFormat_is_code, C12d.left_is_code'),
    ('_AnsiSettingPoint', '_parse_rgb_string'): ('its three regular expressions', 'C14c.rgb3_is_code, C14c.rgb1_is_code, C14c.color256_is_code'),
    ('-', 'settings_to_dict'): ('whole', 'C18b.settings_to_dict_is_code'),
    ('-', 'parse_graphic_sequence'): ('whole, both input forms', 'C18b.pgs_str_is_code, pgs_list_is_code'),
}


def lean_has(theorem):
    ns, _, nm = theorem.partition('.')
    path = os.path.join(ROOT, 'lean', 'AnsiProofs', 'Props', ns + '.lean')
    return os.path.exists(path) and re.search(r'theorem\s+%s\b' % re.escape(nm.split(' ')[0]), open(path).read()) is not None


def extra_from_generated():
    """translations added by later translators: picked up from the generated module names"""
    out = {}
    mdir = os.path.join(GEN, 'Methods')
    have = set(os.listdir(mdir)) if os.path.isdir(mdir) else set()
    if 'SettingValid.lean' in have: out[('AnsiSetting', 'valid')] = ('whole, with its cache', 'C15d.valid_is_code')
    if 'SettingParsable.lean' in have: out[('AnsiSetting', 'parsable')] = ('whole, with its cache', 'C15d.parsable_is_code')
    if 'SettingToList.lean' in have: out[('AnsiSetting', 'to_list')] = ('whole', 'C15d.to_list_is_code')
    if 'SettingInitialParam.lean' in have: out[('AnsiSetting', 'get_initial_param')] = ('whole', 'C15d.initial_param_is_code')
    if 'ScrubFormatString.lean' in have: out[('_AnsiSettingPoint', '_scrub_ansi_format_string')] = ('whole', 'C14d.format_string_is_code')
    if 'ScrubFormatInt.lean' in have: out[('_AnsiSettingPoint', '_scrub_ansi_format_int')] = ('whole', 'C14d.format_int_is_code')
    if 'ParseRgbString.lean' in have: out[('_AnsiSettingPoint', '_parse_rgb_string')] = ('whole, with its three regular expressions', 'C14d.parse_rgb_is_code, C14c.rgb3_is_code')
    if 'ScrubSettingsObjs.lean' in have: out[('_AnsiSettingPoint', '_scrub_ansi_settings')] = ('the instance for a list of AnsiSettings (the run-combining loop); the general recursive form is by hand', 'C14d.scrub_objs_is_code')
    if 'SetAnsiDiff.lean' in have: out[('AnsiString', 'set_ansi_str')] = ('the block computing settings_to_remove / settings_to_apply', 'C02c.diff_is_code, C02c.step_uses_diff')
    if 'Tokenize.lean' in have: out[('ParsedAnsiControlSequenceString', '__init__')] = ('whole', 'C19c.tokenize_is_code')
    if 'FormattedStr.lean' in have: out[('ParsedAnsiControlSequenceString', 'formatted_str')] = ('whole', 'C19c.formatted_is_code')
    return out


def main():
    tr = dict(TRANSLATED)
    tr.update(extra_from_generated())
    wrappers = open(os.path.join(GEN, 'Wrappers.lean')).read() if os.path.exists(os.path.join(GEN, 'Wrappers.lean')) else ''
    rows = []
    for mod in ('ansi_string.py', 'ansi_format.py', 'ansi_parsing.py', 'ansi_param.py'):
        tree = ast.parse(open(os.path.join(REPO, 'src', 'ansi_string', mod)).read())
        items = []
        for n in tree.body:
            if isinstance(n, ast.FunctionDef):
                items.append(('-', n))
            if isinstance(n, ast.ClassDef):
                for m in n.body:
                    if isinstance(m, ast.FunctionDef):
                        items.append((n.name, m))
        for cls, fn in items:
            nstmt = sum(1 for x in ast.walk(fn) if isinstance(x, ast.stmt)) - 1
            key = (cls, fn.name)
            if key in tr:
                part, thm = tr[key]
                ok = all(lean_has(t.strip().split(' ')[0]) for t in thm.split(',') if '.' in t)
                rows.append((mod, cls, fn.name, nstmt, 'translated' + ('' if ok else ' (theorem file missing!)'), part, thm))
                continue
            body = [s for s in fn.body if not (isinstance(s, ast.Expr) and isinstance(s.value, ast.Constant))]
            if cls in ('AnsiStr', 'AnsiString') and re.search(r'name := "%s",[^}]*?body := \.(lift|liftIAdd|fwd|attr|wrap|wrapEach|viaSelf|selfAdd|strFwd|strLen|caseMap)\b' % re.escape(fn.name), wrappers, re.S) \
                    and len(body) <= 3:
                rows.append((mod, cls, fn.name, nstmt, 'delegation', 'whole', 'C13b.table_conforms / C10b'))
                continue
            if mod == 'ansi_param.py' or (cls == 'AnsiFormat') or fn.name.endswith('_str') and cls == '-':
                rows.append((mod, cls, fn.name, nstmt, 'table', 'values', 'C14/C18/C19 table theorems'))
                continue
            rows.append((mod, cls, fn.name, nstmt, 'by hand', '', ''))
    tot = sum(r[3] for r in rows)
    by = {}
    for r in rows:
        k = r[4].split(' ')[0]
        by[k] = by.get(k, 0) + r[3]
    if '--md' in sys.argv:
        print('| module | class | function | statements | tie | part | theorem |')
        print('|---|---|---|---|---|---|---|')
        for r in rows:
            if r[3] >= 3 or r[4] != 'by hand':
                print('| %s | %s | `%s` | %d | %s | %s | %s |' % (r[0], r[1], r[2], r[3], r[4], r[5], r[6]))
        print()
    print('statements in the four modules: %d; in functions that are translated (at least in their main part): %d, delegations: %d, table-like: %d, modelled by hand only: %d'
          % (tot, by.get('translated', 0), by.get('delegation', 0), by.get('table', 0), by.get('by', 0)))


if __name__ == '__main__':
    main()
