#!/venv/bin/python
"""Confirm a seeded change (patch + demonstration) in a scratch worktree, keep it under
/verif/seeded/<id>/, then run the checks against it on /repo and record which ones catch it.

usage: seed.py <property> <k> <dir-with-patchK.diff,demoK.py,metaK.json> [--checks C01,C02,...|all]
"""
import sys, os, json, subprocess, shutil, tempfile

ROOT = os.path.dirname(os.path.dirname(os.path.abspath(__file__)))
REPO = os.environ.get('VERIF_REPO', '/repo')

def sh(cmd, cwd=None, env=None, timeout=3600):
    p = subprocess.run(cmd, cwd=cwd, env=env, stdout=subprocess.PIPE, stderr=subprocess.STDOUT, timeout=timeout)
    return p.returncode, p.stdout.decode(errors='replace')

def main():
    pid, k, src = sys.argv[1], sys.argv[2], sys.argv[3]
    checks = 'all'
    if '--checks' in sys.argv:
        checks = sys.argv[sys.argv.index('--checks') + 1]
    patch = os.path.join(src, 'patch%s.diff' % k)
    demo = os.path.join(src, 'demo%s.py' % k)
    meta = json.load(open(os.path.join(src, 'meta%s.json' % k)))
    tag = sys.argv[sys.argv.index('--tag') + 1] if '--tag' in sys.argv else None
    sid = '%s-%s-%s' % (pid, tag, k) if tag else '%s-%s' % (pid, k)
    out = os.path.join(ROOT, 'seeded', sid)
    os.makedirs(out, exist_ok=True)
    # 1. confirm in a scratch worktree
    wt = tempfile.mkdtemp(prefix='seedwt_')
    os.rmdir(wt)
    rc, o = sh(['git', '-C', REPO, 'worktree', 'add', '--detach', wt, 'HEAD'])
    assert rc == 0, o
    ran = {}
    try:
        env = dict(os.environ, PYTHONPATH=os.path.join(wt, 'src'))
        rc0, o0 = sh(['/venv/bin/python', demo], cwd=wt, env=env, timeout=120)
        ran['demo_on_clean_tree_exit'] = rc0
        rc, o = sh(['git', 'apply', patch], cwd=wt)
        ran['patch_applies'] = (rc == 0)
        if rc != 0:
            ran['apply_log'] = o[-500:]
        rc1, o1 = sh(['/venv/bin/python', demo], cwd=wt, env=env, timeout=120)
        ran['demo_on_changed_tree_exit'] = rc1
        ran['demo_output_changed'] = o1[-600:]
        rc2, o2 = sh(['/venv/bin/python', '-m', 'pytest', '-q', '-p', 'no:cacheprovider', 'tests'], cwd=wt, env=env, timeout=600)
        ran['suite_on_changed_tree'] = o2.strip().split('\n')[-1]
        ran['suite_passes'] = (rc2 == 0)
    finally:
        sh(['git', '-C', REPO, 'worktree', 'remove', '--force', wt])
    confirmed = ran.get('patch_applies') and ran['demo_on_clean_tree_exit'] == 0 and ran['demo_on_changed_tree_exit'] != 0 and ran['suite_passes']
    shutil.copy(patch, os.path.join(out, 'patch.diff'))
    shutil.copy(demo, os.path.join(out, 'demo.py'))
    result = dict(id=sid, property=pid, summary=meta.get('summary'), needs=meta.get('needs'), confirmed=bool(confirmed), ran=ran)
    if not confirmed:
        json.dump(result, open(os.path.join(out, 'meta.json'), 'w'), indent=1)
        print(json.dumps(result, indent=1))
        return 1
    # 2. run the checks against it on /repo
    rc, o = sh(['git', '-C', REPO, 'status', '--porcelain'])
    assert o.strip() == '', 'repo not clean: ' + o
    rc, o = sh(['git', '-C', REPO, 'apply', os.path.abspath(patch)])
    assert rc == 0, o
    caught = {}
    try:
        props = json.load(open(os.path.join(ROOT, 'MANIFEST.json')))['checks']
        ids = [c['property_id'] for c in props]
        if checks != 'all':
            ids = [i for i in ids if i in checks.split(',')]
        from concurrent.futures import ThreadPoolExecutor
        def one(i):
            rc, o = sh([os.path.join(ROOT, 'check'), i, '--tier', 'quick'], cwd=ROOT, timeout=1800)
            lines = [l for l in o.split('\n') if l.startswith('VIOLATION')]
            return i, dict(exit=rc, violation_lines=lines[:4])
        with ThreadPoolExecutor(5) as ex:
            for i, r in ex.map(one, ids):
                caught[i] = r
    finally:
        sh(['git', '-C', REPO, 'checkout', '--', '.'])
    result['checks'] = caught
    result['caught_by'] = sorted(i for i, c in caught.items() if c['exit'] == 1)
    result['caught_by_own_property'] = pid in result['caught_by']
    result['with_failing_input'] = sorted(i for i, c in caught.items() if c['exit'] == 1 and any('no-failing-input-found' not in l for l in c['violation_lines']))
    json.dump(result, open(os.path.join(out, 'meta.json'), 'w'), indent=1)
    print(sid, 'confirmed; caught by', result['caught_by'], '| with failing input:', result['with_failing_input'])
    return 0

if __name__ == '__main__':
    sys.exit(main())
