#!/bin/bash
# Regression of the translator ties against behaviour-preserving rewrites (harmless/*.diff, written blind by sub-agents):
# for each patch, apply it to a scratch worktree, regenerate the model from that tree into a scratch copy of /verif and
# build every theorem file; prints which obligations break.  Expected today: only a9 (`_split`, C11e).
# usage: tools/harmless.sh [patch…]      (scratch under /tmp, removed at the end; never touches /repo's working tree)
set -u
ROOT=$(cd "$(dirname "$0")/.." && pwd)
R=/tmp/harmless_repo.$$; V=/tmp/harmless_verif.$$
git -C /repo worktree add --detach $R HEAD >/dev/null 2>&1
rsync -a --exclude .git --exclude replays --exclude seeded $ROOT/ $V/
[ $# -eq 0 ] && set -- $ROOT/harmless/*.diff
for pf in "$@"; do
  tag=$(basename $pf .diff)
  git -C $R checkout -- . ; git -C $R apply $pf || { echo "$tag APPLY-FAILED"; continue; }
  (cd $V && /venv/bin/python harness/translate.py --repo $R > /dev/null 2>&1)
  stubs=$(grep -l "NOT.TRANSLATED" $V/lean/AnsiModel/Generated/Methods/*.lean 2>/dev/null | xargs -n1 basename 2>/dev/null | tr '\n' ' ')
  (cd $V/lean && lake build AnsiProofs > $V/build.log 2>&1); rc=$?
  bad=$(grep -o "^error: .*\.lean:[0-9]*" $V/build.log | sed 's/:[0-9]*$//; s/^error: //' | sort -u | tr '\n' ' ')
  echo "$tag rc=$rc stubs=[$stubs] failing=[$bad]"
done
git -C /repo worktree remove --force $R; git -C /repo worktree prune; rm -rf $V
