#!/venv/bin/python
"""Record the digests of /repo's functions as the baseline the check compares against (harness/digests.py).
Run after every commit to /repo (a "fix:" commit) once the checks are quiet on the new tree."""
import sys, os, json, subprocess
assert sys.version_info[:2] == (3, 12), "run with /venv/bin/python: the digests depend on the ast of the interpreter the check runs under"
ROOT = os.path.dirname(os.path.dirname(os.path.abspath(__file__)))
sys.path.insert(0, os.path.join(ROOT, 'harness'))
import digests
repo = os.environ.get('VERIF_REPO', '/repo')
st = subprocess.run(['git', '-C', repo, 'status', '--porcelain'], stdout=subprocess.PIPE).stdout.decode().strip()
assert st == '', 'repo not clean: ' + st
d = digests.digests(repo)
json.dump(d, open(digests.BASELINE, 'w'), indent=0, sort_keys=True)
print(len(d), 'functions;', 'HEAD', subprocess.run(['git', '-C', repo, 'rev-parse', '--short', 'HEAD'], stdout=subprocess.PIPE).stdout.decode().strip())
