#!/venv/bin/python
"""Re-run the own-property check against every kept seeded change (regression of the machinery itself).
Uses VERIF_REPO (a scratch worktree), never /repo unless told so.  Writes regress.json; does not touch seeded/*/meta.json.
usage: regress.py [id-prefix …]"""
import sys, os, json, subprocess, glob
ROOT = os.path.dirname(os.path.dirname(os.path.abspath(__file__)))
REPO = os.environ.get('VERIF_REPO', '/repo')
def sh(cmd, cwd=None, timeout=3600):
    p = subprocess.run(cmd, cwd=cwd, stdout=subprocess.PIPE, stderr=subprocess.STDOUT, timeout=timeout)
    return p.returncode, p.stdout.decode(errors='replace')
res = {}
for d in sorted(glob.glob(os.path.join(ROOT, 'seeded', '*'))):
    sid = os.path.basename(d)
    args = [a for a in sys.argv[1:] if not a.startswith('--')]
    if args and not any(sid.startswith(a) for a in args):
        continue
    if '--old-rounds' in sys.argv and ('-r3-' in sid or '-r4-' in sid or '-r5-' in sid):
        continue
    if '--new-rounds' in sys.argv and not ('-r3-' in sid or '-r4-' in sid or '-r5-' in sid):
        continue
    if '--only-k2' in sys.argv and not sid.endswith('-2'):
        continue
    if '--skip-r7' in sys.argv and '-r7-' in sid:
        continue
    if '--half-a' in sys.argv and int(sid[1:3]) > 9:
        continue
    if '--half-b' in sys.argv and int(sid[1:3]) <= 9:
        continue
    if os.path.exists(os.path.join(ROOT, 'regress.json')) and sid in json.load(open(os.path.join(ROOT, 'regress.json'))):
        res[sid] = json.load(open(os.path.join(ROOT, 'regress.json')))[sid]
        continue
    m = json.load(open(os.path.join(d, 'meta.json')))
    if not m.get('confirmed'):
        continue
    rc, o = sh(['git', '-C', REPO, 'status', '--porcelain'])
    assert o.strip() == '', o
    rc, o = sh(['git', '-C', REPO, 'apply', os.path.join(d, 'patch.diff')])
    if rc != 0:
        res[sid] = dict(applies=False)
        print(sid, 'patch no longer applies', flush=True)
        continue
    try:
        rc, o = sh([os.path.join(ROOT, 'check'), m['property'], '--tier', 'quick'], cwd=ROOT, timeout=1800)
    finally:
        sh(['git', '-C', REPO, 'checkout', '--', '.'])
    lines = [l for l in o.split('\n') if l.startswith('VIOLATION')]
    res[sid] = dict(applies=True, exit=rc, lines=lines[:3], with_input=any('no-failing-input-found' not in l for l in lines))
    print(sid, 'exit', rc, 'with input' if res[sid]['with_input'] else ('NO INPUT' if rc == 1 else 'NOT CAUGHT'), flush=True)
    json.dump(res, open(os.path.join(ROOT, 'regress.json'), 'w'), indent=1)
