#!/venv/bin/python
"""Validate the hand-written grammar oracle for directive strings (oracle.format_string_accepts) against the
*unchanged* implementation on perturbed strings: any disagreement is a mistake in the oracle (or a defect).
Used when the oracle was written (it found the trailing-newline reading of `$` and defect D35); not part of a check."""
import sys, os, random
ROOT = os.path.dirname(os.path.dirname(os.path.abspath(__file__)))
sys.path.insert(0, os.path.join(ROOT, 'harness'))
sys.path.insert(0, os.path.join(os.environ.get('VERIF_REPO', '/repo'), 'src'))
import oracle as O
from ansi_string import AnsiFormat
import ansi_string.ansi_string as core
names = AnsiFormat.__members__
rng = random.Random(int(sys.argv[1]) if len(sys.argv) > 1 else 9)
bases = ['rgb(12, 3, 4)', 'ul_color256(17)', 'bg_rgb(0xA0B0C0)', 'rgb(255,0,0)', 'dul_rgb(0x10,2,3)', 'fg_colour256(0x10)', 'color256([ 9 ])',
         'rgb([1, 2, 3])', 'red', 'bg_blue', '38;5;214', '1;31', 'red;bold', 'ul_rgb((1,2,3))', 'rgb(0x102030)', 'rgb(010, 020, 030)', 'rgb((1,2,3)',
         'rgb(1,2,3))', 'rgb([1,2,3)', 'color256(5]', 'rgb( 1 , 2 , 3 )', 'rgb(1,2,3) ', 'rgb (1,2,3)', 'bg_rgb(0x,1,2)', '[1', '[', '', 'rgb()', 'color256()']
alpha = ' ()[],;x0123abfgrRGB_-+\t\n\x0b\x1c\r'
bad = n = 0
for it in range(int(sys.argv[2]) if len(sys.argv) > 2 else 200000):
    t = rng.choice(bases)
    for _ in range(rng.choice([1, 1, 2, 3])):
        i = rng.randrange(len(t) + 1); k = rng.randrange(4)
        if k == 0: t = t[:i] + rng.choice(alpha) + t[i:]
        elif k == 1 and i < len(t): t = t[:i] + t[i + 1:]
        elif k == 2 and i < len(t): t = t[:i] + t[i].swapcase() + t[i + 1:]
        else: t = t[:i] + rng.choice(alpha) + t[i + 1:]
    want = O.format_string_accepts(t, names)
    if want is None:
        continue
    try:
        core._AnsiSettingPoint._scrub_ansi_settings(t); got = True
    except ValueError:
        got = False
    n += 1
    if got != want:
        bad += 1
        if bad < 15: print(repr(t), 'oracle', want, 'impl', got)
print(n, 'compared', bad, 'disagreements')
sys.exit(1 if bad else 0)
