#!/usr/bin/env python3
"""Regenerate the seeded-changes table at the end of DESIGN.md from seeded/*/meta.json."""
import json, os, glob
ROOT = os.path.dirname(os.path.dirname(os.path.abspath(__file__)))
rows = []
for d in sorted(glob.glob(os.path.join(ROOT, 'seeded', '*'))):
    mp = os.path.join(d, 'meta.json')
    if not os.path.exists(mp):
        continue
    m = json.load(open(mp))
    if not m.get('confirmed'):
        rows.append('| %s | (not confirmed: %s) | | | | |' % (m['id'], json.dumps(m.get('ran', {}))[:80]))
        continue
    own = 'yes' if m.get('caught_by_own_property') else 'NO'
    ran = sorted(m.get('checks', {}))
    rows.append('| %s | %s | %s | %s | %s | %s |' % (
        m['id'], (m.get('summary') or '').replace('|', '/')[:150], (m.get('needs') or '').replace('|', '/')[:120],
        own, ' '.join(m.get('with_failing_input', [])) or '-', 'all 19' if len(ran) == 19 else ' '.join(ran)))
conf = [json.load(open(os.path.join(d, 'meta.json'))) for d in sorted(glob.glob(os.path.join(ROOT, 'seeded', '*'))) if os.path.exists(os.path.join(d, 'meta.json'))]
conf = [m for m in conf if m.get('confirmed')]
summary = ('%d confirmed changes; caught by at least one check: %d; by the check of the property they were written against: %d '
           '(with a concrete failing input from that check: %d); caught only as "no-failing-input-found": %d.' % (
    len(conf), sum(1 for m in conf if m['caught_by']), sum(1 for m in conf if m['property'] in m['caught_by']),
    sum(1 for m in conf if m['property'] in m['with_failing_input']),
    sum(1 for m in conf if m['caught_by'] and not m['with_failing_input'])))
table = ['<!-- seeded-table-begin -->', summary, '', '| id | change | needs | caught by its own property\'s check | checks reporting a concrete failing input | checks run in the last evaluation |',
         '|---|---|---|---|---|---|'] + rows + ['<!-- seeded-table-end -->']
p = os.path.join(ROOT, 'DESIGN.md')
s = open(p).read()
if '<!-- seeded-table-begin -->' in s:
    a = s.index('<!-- seeded-table-begin -->'); b = s.index('<!-- seeded-table-end -->') + len('<!-- seeded-table-end -->')
    s = s[:a] + '\n'.join(table) + s[b:]
else:
    s += '\n## 13. Seeded changes and which checks catch them\n\n' + '\n'.join(table) + '\n'
open(p, 'w').write(s)
print(len(rows), 'rows')
