"""Codec / classifier / scrubber streams: pure functions of the library, compared with the model
step by step and checked by independent oracles (C14, C15, C18, C19, parts of C02)."""
import random, re, itertools
import proto as P
import oracle as O
import terminal as T
from gen import Step, good_sargs, bad_sargs, MEMBERS

CSI_RE = re.compile('\x1b\\[([^\x40-\x7e]*)([\x40-\x7e]?)', re.S)

def ref_tokenize(s, allow_empty, acceptable):
    """independent tokenisation with `re`"""
    text = ''
    seqs = {}
    i = 0
    while i < len(s):
        m = CSI_RE.match(s, i) if s.startswith('\x1b[', i) else None
        if m:
            seq, term = m.group(1), m.group(2)
            if (term or allow_empty) and (acceptable is None or term == '' or term in acceptable):
                seqs.setdefault(len(text), []).append((seq, term))
            else:
                text += m.group(0)
            i = m.end()
        else:
            text += s[i]
            i += 1
    return text, seqs

def call(fn):
    try:
        return ('ok', fn())
    except Exception as e:   # noqa
        return ('err', e)

def outcome(out, enc):
    return enc(out[1]) if out[0] == 'ok' else P.err_line(out[1])

class Codec:
    def __init__(self, seed, mod):
        self.rng = random.Random(seed)
        self.mod = mod
        self.steps = []
        self.stats = {'ops': {}}

    def emit(self, op, inp, exp, desc, viol):
        st = Step(op, inp, exp, desc)
        st.viol = list(viol)
        st.hist, st.idx = -1, len(self.steps)
        self.steps.append(st)
        self.stats['ops'][op] = self.stats['ops'].get(op, 0) + 1

    # ------------------------------------------------------------------ C19
    def tok_string(self, alphabet='\x1b[1;? mJx', maxlen=10):
        n = self.rng.randint(0, maxlen)
        return ''.join(self.rng.choice(alphabet) for _ in range(n))

    def csi_string(self):
        """text runs and control sequences with assorted final bytes (incl. the range ends @ and ~),
        sequences that will be rejected before ones that will be accepted, unterminated ones"""
        rng = self.rng
        out = ''
        for _ in range(rng.randint(0, 5)):
            r = rng.random()
            if r < 0.45:
                out += ''.join(rng.choice('ab c1;[') for _ in range(rng.randint(0, 3)))
            elif r < 0.9:
                out += '\x1b[' + ''.join(rng.choice('0123456789;? :<=>') for _ in range(rng.randint(0, 4))) + rng.choice('mmmJHK@~`{|}A[]\\BE')
            else:
                out += rng.choice(['\x1b[', '\x1b[12;', '\x1b', '\x1b\x1b[', '[', '\x1b[[A', '\x1b[[E1m', '\x1b[[', '\x1b[[Cx', '\x1b[1[B', '\x1b[]A', '\x1b[\\D'])
        return out

    def tokenize(self, s=None, flags=None):
        rng = self.rng
        if s is None and rng.random() < 0.03:
            run = ''.join(rng.choice(['\x1b[1m', '\x1b[31m', '\x1b[2J', '\x1b[m', '\x1b[38;5;9m', '\x1b[', '\x1b[4;3m']) for _ in range(rng.randint(2, 4)))
            s = 'a' * rng.randint(255, 262) + run + rng.choice(['', 'b', 'b' + run])
        if s is None:
            r = rng.random()
            s = self.tok_string() if r < 0.35 else (self.csi_string() if r < 0.8 else (
                self.tok_string('\x1b[0123456789;mHK @~?ab\n', 14) if r < 0.88 else (
                    self.tok_string('\x1b[\x9b\x9d\x901;m a', 9) if r < 0.94 else self.tok_string('\x1b[[ABE1;m', 8))))
        allow, acc = flags if flags else rng.choice([(True, None), (False, None), (False, 'm'), (True, 'm'), (True, 'mJ'), (False, 'HJ'), (False, '~m'), (True, '@'), (True, ''), (False, '')])
        inp = P.line('tokenize', P.e_str(s), P.e_bool(allow), P.e_optstr(acc))
        PS = self.mod.ParsedAnsiControlSequenceString
        out = call(lambda: PS(s, allow, acc))
        viol = []
        if out[0] != 'ok':
            viol.append(('C19', 'tokenize_total', repr(out[1])))
            self.emit('tokenize', inp, P.err_line(out[1]), 'tokenize %r' % s, viol)
            return
        p = out[1]
        text, seqs = ref_tokenize(s, allow, acc)
        got = {k: [(c.sequence, c.terminator) for c in v] for k, v in p.sequences.items()}
        if p.unformatted_str != text:
            viol.append(('C19', 'tokenize_unformatted', '%r %r: %r vs %r' % (s, (allow, acc), p.unformatted_str, text)))
        if got != seqs or list(got) != sorted(got):
            viol.append(('C19', 'tokenize_sequences', '%r %r: %r vs %r' % (s, (allow, acc), got, seqs)))
        # looking a position up that holds no sequence must not change the object
        probe = call(lambda: p.sequences[len(text) + 7])
        if not (probe[0] == 'err' and isinstance(probe[1], KeyError)) or {k: [(c.sequence, c.terminator) for c in v] for k, v in p.sequences.items()} != got:
            viol.append(('C19', 'tokenize_sequences', 'sequences[%d] (no such removal point) answered %r and left %r' % (len(text) + 7, probe[1], list(p.sequences))))
        for nm, f in (('formatted_str', lambda: p.formatted_str), ('str', lambda: str(p)), ('repr', lambda: repr(p))):
            r = call(f)
            if r[0] != 'ok' or r[1] != s:
                viol.append(('C19', 'tokenize_lossless', '%s of %r %r gives %r' % (nm, s, (allow, acc), r[1])))
        for k, v in got.items():
            for seq, term in v:
                if any(0x40 <= ord(c) <= 0x7e for c in seq) or len(term) > 1 or (term and not 0x40 <= ord(term) <= 0x7e) \
                        or (term == '' and not allow) or (acc is not None and term and term not in acc) or not (0 <= k <= len(text)):
                    viol.append(('C19', 'tokenize_wellformed', '%r -> %r' % (s, got)))
        toks = [len(p.sequences)]
        for k, v in p.sequences.items():
            toks += [k, len(v)]
            for c in v:
                toks += P.e_str(c.sequence) + P.e_str(c.terminator)
        fs = call(lambda: p.formatted_str)
        exp = ' '.join(str(t) for t in ['ok'] + P.e_str(p.unformatted_str) + toks + ['|'] + P.e_str(fs[1] if fs[0] == 'ok' else '?'))
        self.emit('tokenize', inp, exp, 'tokenize %r %r' % (s, (allow, acc)), viol)

    HELPERS = ['cursor_up_str', 'cursor_down_str', 'cursor_forward_str', 'cursor_backward_str',
               'cursor_next_line_str', 'cursor_previous_line_str', 'cursor_horizontal_absolute_str',
               'cursor_position_str', 'erase_in_display_str', 'erase_in_line_str', 'scroll_up_str', 'scroll_down_str']
    FINAL = dict(zip(HELPERS, 'ABCDEFGHJKST'))

    def helper(self):
        rng = self.rng
        k = rng.randrange(len(self.HELPERS))
        name = self.HELPERS[k]
        nargs = 2 if name == 'cursor_position_str' else 1
        args = [rng.choice([0, 1, 2, 3, 4, 5, 6, 7, 10, 255, -1, 10 ** 30, rng.randint(0, 500)]) for _ in range(nargs)]
        import ansi_string.ansi_string as core
        fn = getattr(core, name)
        if rng.random() < 0.08:
            # the result is a function of the arguments of *this* call: equal-comparing floats first, then the ints
            fl = [float(a) for a in args]
            r0 = call(lambda: fn(*fl))
            if r0[0] == 'ok' and r0[1] != '\x1b[' + ';'.join(str(a) for a in fl) + self.FINAL[name]:
                self.emit('noop', None, None, '%s%r' % (name, fl), [('C19', 'helper_one_sequence', '%s%r -> %r' % (name, fl, r0[1]))])
        inp = P.line('helper', [k, nargs], args)
        out = call(lambda: fn(*args))
        viol = []
        if out[0] == 'ok':
            want = '\x1b[' + ';'.join(str(a) for a in args) + self.FINAL[name]
            if out[1] != want:
                viol.append(('C19', 'helper_one_sequence', '%s%r -> %r' % (name, args, out[1])))
            p = self.mod.ParsedAnsiControlSequenceString(out[1])
            got = {k_: [(c.sequence, c.terminator) for c in v] for k_, v in p.sequences.items()}
            if p.unformatted_str != '' or got != {0: [(';'.join(str(a) for a in args), self.FINAL[name])]}:
                viol.append(('C19', 'helper_recognised', '%s%r -> %r' % (name, args, got)))
            if name == 'cursor_backward_str' and core.cursor_back_str(*args) != out[1]:
                viol.append(('C19', 'helper_alias', ''))
        else:
            viol.append(('C19', 'helper_total', repr(out[1])))
        self.emit('helper', inp, outcome(out, P.ok_str), '%s%r' % (name, args), viol)

    # ------------------------------------------------------------------ C18
    def code_list(self):
        rng = self.rng
        out = []
        for _ in range(rng.randint(0, 7)):
            q = rng.random()
            if q < 0.4: out.append(rng.choice([1, 2, 3, 4, 21, 22, 23, 24, 31, 34, 39, 42, 49, 10, 11, 12, 53, 55, 9, 29, 26, 50, 51, 54, 58, 59, 90, 107]))
            elif q < 0.5: out.append(0)
            elif q < 0.62: out += [rng.choice([38, 48, 58]), 5, rng.choice([0, 9, 255, 256, 300])]
            elif q < 0.68: out += [rng.choice([38, 48, 58]), 2, rng.choice([0, 255, 256]), rng.randrange(256), rng.randrange(256)]
            elif q < 0.72: out += [rng.choice([38, 48, 58]), 2] + [rng.choice([38, 48, 58, 2, 5, 0, 200]) for _ in range(3)]   # arguments that look like another group
            elif q < 0.80: out += rng.choice([[38], [48, 5], [58, 2, 1], [38, 7], [38, 2, 1, 2], [38, 38, 5, 1], [38, 5], [48, 2]])
            elif q < 0.92: out.append(rng.choice([77, 256, 1000, 56, 60, 5, 6, 7, 8]))
            else: out.append(rng.randint(0, 110))
        return out

    def alpha(self, d):
        """dict effect -> AnsiSetting  ==> terminal state (font 10 is the default font)"""
        st = {}
        for k, v in d.items():
            cs = T.setting_codes(str(v))
            if cs is None:
                return None
            if k.name == 'FONT_TYPE' and cs == [10]:
                continue
            st[k.name] = tuple(cs)
        return frozenset(st.items())

    def pgs(self):
        rng = self.rng
        codes = self.code_list()
        if rng.random() < 0.05:
            # more tokens than any per-sequence cap a terminal may have: what comes last still counts
            codes = [rng.choice([1, 3, 4, 9, 22, 23, 24, 29, 31, 42, 53]) for _ in range(rng.randint(28, 40))] + \
                    rng.choice([[0], [39, 49], [38, 5, 208], [0, 4], [48, 2, 1, 2, 3], [22, 23, 24, 29, 55, 39, 49], self.code_list()])
        add_err = rng.random() < 0.4
        junk = rng.random() < 0.12
        form = rng.choice(['str', 'ints', 'strs', 'ints', 'intlike'])
        items = list(codes)
        if junk:
            for _ in range(rng.randint(1, 2)):
                items.insert(rng.randint(0, len(items)), rng.choice(['x', '', ' ', '+1', '-1', '1_0', '?', ' 7 ']))
        if form == 'str':
            arg = ';'.join(str(i) for i in items)
            if rng.random() < 0.2: arg = arg.replace(';', '; ')
            inp = P.line('pgs', [0], P.e_bool(add_err), P.e_str(arg))
        else:
            arg = [(i if (form in ('ints', 'intlike') and isinstance(i, int)) else str(i)) for i in items]
            enc = [len(arg)]
            for i in arg:
                enc += ([0, i] if isinstance(i, int) else [1] + P.e_str(i))
            inp = P.line('pgs', [1], P.e_bool(add_err), enc)
            if form == 'intlike':
                # the same codes as a bool / an int subclass: they stand for their integer value
                arg = [(bool(i) if i in (0, 1) and rng.random() < 0.7 else P.IntSub(i)) if (isinstance(i, int) and rng.random() < 0.5) else i for i in arg]
        before = list(arg) if isinstance(arg, list) else arg
        pg, std = self.mod.parse_graphic_sequence, self.mod.settings_to_dict
        out = call(lambda: pg(arg, add_err))
        viol = []
        if out[0] != 'ok':
            viol.append(('C18', 'pgs_total', '%r: %r' % (arg, out[1])))
        else:
            ss = out[1]
            if arg != before:
                viol.append(('C18', 'pgs_pure', 'argument modified: %r -> %r' % (before, arg)))
            if not junk:
                want = frozenset(T.feed_codes({}, codes if codes else [0]).items())
                got = self.alpha(std(ss))
                if not add_err and got != want:
                    viol.append(('C18', 'pgs_terminal', '%r -> %r gives %r, terminal %r' % (arg, [str(s) for s in ss], sorted(got or ()), sorted(want))))
                if not add_err and not all(s.valid and (s.parsable or str(s) == '0' or (';' not in str(s))) for s in ss):
                    viol.append(('C18', 'pgs_parsable', '%r -> %r' % (arg, [str(s) for s in ss])))
                if not add_err and any(';' in str(s) and not s.parsable for s in ss):
                    viol.append(('C18', 'pgs_groups_intact', '%r -> %r' % (arg, [str(s) for s in ss])))
                if add_err and codes:
                    toks = [int(t) for s in ss for t in str(s).split(';')]
                    if toks != codes:
                        viol.append(('C18', 'pgs_erroneous_tokens', '%r -> %r' % (arg, [str(s) for s in ss])))
                pass
            if add_err and junk and out[0] == 'ok' and all(str(i) in ('x', '?', ' 7 ') or isinstance(i, int) or str(i).isdigit() for i in items):
                # "add_erroneous keeps every integer token": also when tokens that are no numbers sit among them
                want_ints = [int(str(i)) for i in items if str(i).strip().isdigit()]
                got_ints = [int(t) for s_ in ss for t in str(s_).split(';') if t.strip().isdigit()]
                if (want_ints or [0]) != got_ints and want_ints != got_ints:
                    viol.append(('C18', 'pgs_erroneous_tokens', '%r -> %r: integer tokens %r expected' % (arg, [str(s_) for s_ in ss], want_ints)))
            if not junk:
                if not codes and [str(s) for s in ss] != ['0']:
                    viol.append(('C18', 'pgs_empty', repr([str(s) for s in ss])))
        if out[0] == 'ok' and rng.random() < 0.5:
            # the answer depends on the arguments only: the other flag in between, then the same call again
            other = call(lambda: pg(list(arg) if isinstance(arg, list) else arg, not add_err))
            again = call(lambda: pg(list(arg) if isinstance(arg, list) else arg, add_err))
            if again[0] != 'ok' or [str(s) for s in again[1]] != [str(s) for s in out[1]]:
                viol.append(('C18', 'pgs_pure', '%r, add_erroneous=%r: %r at first, %r after asking with the other flag' % (
                    arg, add_err, [str(s) for s in out[1]], [str(s) for s in again[1]] if again[0] == 'ok' else again[1])))
            if other[0] == 'ok' and out[0] == 'ok' and any(a is b for a in other[1] for b in out[1]):
                viol.append(('C18', 'pgs_pure', 'two calls share a setting object'))
        self.emit('pgs', inp, outcome(out, lambda ss: P.ok_strs([str(s) for s in ss])), 'parse_graphic_sequence(%r,%r)' % (arg, add_err), viol)

    def todict(self):
        rng = self.rng
        S = self.mod.AnsiSetting
        pool = ['1', '2', '22', '31', '34', '39', '38;5;9', '38;2;1;2;3', '0', '4', '21', '24', '10', '12', '58;5;1', '59',
                '77', 'x', ' 1', '+1', '1;31', '38', '53', '55', '48;5;300', '-1', '1_1', '-86', '-108', '-2']
        ss = [rng.choice(pool) for _ in range(rng.randint(0, 5))]
        old_ss = [rng.choice(pool[:20]) for _ in range(rng.randint(0, 4))]
        std = self.mod.settings_to_dict
        old = std([S(t) for t in old_ss])
        old_items = list(old.items())
        settings = [S(t) for t in ss]
        enc_old = [len(old_items)]
        for k, v in old_items:
            enc_old += [k.value] + P.e_str(str(v))
        enc_ss = [len(ss)]
        for t in ss:
            enc_ss += P.e_str(t)
        inp = P.line('todict', enc_ss, enc_old)
        s_before = [str(s) for s in settings]
        out = call(lambda: std(settings, old))
        viol = []
        if out[0] == 'ok':
            d = out[1]
            if list(old.items()) != old_items or [str(s) for s in settings] != s_before:
                viol.append(('C18', 'std_pure', 'arguments modified'))
            if d is old:
                viol.append(('C18', 'std_pure', 'the result is the prior-state argument itself'))
            if any(re.fullmatch(r'-\d+', t) for t in ss):
                d_ref = call(lambda: std([S(t) for t in ss if not re.fullmatch(r'-\d+', t)], dict(old)))
                if d_ref[0] != 'ok' or [(k, str(v)) for k, v in d_ref[1].items()] != [(k, str(v)) for k, v in d.items()]:
                    viol.append(('C18', 'std_apply', 'negative numbers are no codes and contribute nothing: %r on %r gives %r, without them %r' % (
                        ss, old_ss, [(k.name, str(v)) for k, v in d.items()], [(k.name, str(v)) for k, v in d_ref[1].items()] if d_ref[0] == 'ok' else d_ref[1])))
            if rng.random() < 0.5:
                # the result belongs to the caller: writing into it must change neither the prior state given
                # nor what a later call without prior state starts from
                d0 = call(lambda: std(settings))
                if d0[0] == 'ok':
                    ref0 = [(k, str(v)) for k, v in d0[1].items()]
                    from ansi_string.ansi_param import AnsiParamEffect as _E
                    d2 = call(lambda: std(settings, old))
                    d0[1][_E.FG_COLOR] = S('31')
                    if d2[0] == 'ok':
                        d2[1][_E.BG_COLOR] = S('41'); d2[1].pop(_E.BOLDNESS, None)
                    d1 = call(lambda: std(settings))
                    if d1[0] != 'ok' or [(k, str(v)) for k, v in d1[1].items()] != ref0:
                        viol.append(('C18', 'std_pure', 'settings_to_dict(%r) changed after its earlier result was written to' % (ss,)))
                    if list(old.items()) != old_items:
                        viol.append(('C18', 'std_pure', 'writing to the result changed the prior-state argument'))
            if all(T.is_group(t) or t == '0' for t in ss + old_ss):
                codes = [c for t in ss for c in T.setting_codes(t)]
                a_old = self.alpha(old)
                want = frozenset(T.feed_codes(dict(a_old), codes).items())
                if self.alpha(d) != want:
                    viol.append(('C18', 'std_apply', '%r on %r -> %r' % (ss, old_ss, sorted(self.alpha(d) or ()))))
        else:
            viol.append(('C18', 'std_total', repr(out[1])))
        def enc(d):
            t = [len(d)]
            for k, v in d.items():
                t += [k.value] + P.e_str(str(v))
            return P.line('ok', t)
        self.emit('todict', inp, outcome(out, enc), 'settings_to_dict(%r, %r)' % (ss, old_ss), viol)

    # ------------------------------------------------------------------ C15
    def setting(self, t=None):
        rng = self.rng
        if t is None:
            if rng.random() < 0.6:
                t = ''.join(rng.choice('0123456789;;  :<=>?+-m@x~_') for _ in range(rng.randint(1, 8)))
            else:
                t = rng.choice(['1', '38;5;1', '38;2;1;2;3', '58;5;255', '48;2;0;0;256', '38;5', '38', '0', '00', '01', '1;2',
                                ' 1', '1 ', '+1', '-1', '77', '255', '256', '38;5;1;2', '38;2;1;2', '38;3;1', '107', '108',
                                '1_0', '\t4', '38; 5; 1', '5;', ';5', '4\n', '38;5;01', '21', '10', '59', '58', '48;5;0',
                                '38;5;', '58;2;1;;3', '38;2;;;', '48;5; ', '1;', ';', '3~', '1;~', '5@', '2`', '4{', '7[', '9]'])
        S = self.mod.AnsiSetting
        inp = P.line('setting', P.e_str(t))
        form = rng.random()
        if form < 0.15 and ';' in t and all(t.split(';')):
            arg = t.split(';')                       # AnsiSetting(list of str)
        elif form < 0.25 and ';' in t and all(q.isdigit() for q in t.split(';')):
            arg = tuple(int(q) if rng.random() < 0.5 and str(int(q)) == q else q for q in t.split(';'))
        else:
            arg = t
        if isinstance(arg, (list, tuple)) and ';'.join(str(q) for q in arg) != t:
            arg = t
        out = call(lambda: S(S(arg)) if rng.random() < 0.3 else S(arg))
        viol = []
        if out[0] != 'ok':
            self.emit('setting', inp, P.err_line(out[1]), 'AnsiSetting(%r)' % t, [('C15', 'setting_total', repr(out[1]))])
            return
        s = out[1]
        v, p = s.valid, s.parsable
        if v != O.grammar_valid(t):
            viol.append(('C15', 'valid_iff', '%r: %r' % (t, v)))
        if t.isascii() and p != O.grammar_parsable(t):
            viol.append(('C15', 'parsable_iff', '%r: %r' % (t, p)))
        if (s.valid, s.parsable) != (v, p):
            viol.append(('C15', 'flags_stable', repr(t)))
        # value equality (what `remove_formatting` and `in` use): by text, against a str or another setting
        eq = call(lambda: (s == t, s == S(t), s == S(t + ';1'), s == (t + 'x'), s == 5, s != S(t), str(s) == t))
        if eq[0] != 'ok' or eq[1] != (True, True, False, False, False, False, True):
            viol.append(('C07', 'setting_eq', 'AnsiSetting(%r): ==str, ==same, ==longer, ==other str, ==int, !=same, str() -> %r' % (t, eq[1])))
        ip = s.get_initial_param()
        ipl = 'N' if ip is None else '%d %d' % (ip.effect_type.value, ip.effect_fn.value)
        self.emit('setting', inp, 'ok %d %d %s' % (v, p, ipl), 'AnsiSetting(%r)' % t, viol)

    def members_parsable(self):
        """every member / known non-reset code / helper result is valid and parsable"""
        viol = []
        F = self.mod.AnsiFormat
        for name, m in F.__members__.items():
            for s in m.ansi_settings:
                if not (s.valid and s.parsable):
                    viol.append(('C15', 'members_parsable', name))
        from ansi_string.ansi_param import AnsiParam
        S = self.mod.AnsiSetting
        for pmem in AnsiParam:
            if pmem.value == 0 or pmem.value in (38, 48, 58):
                continue
            s = S(pmem.value)
            if not (s.valid and s.parsable):
                viol.append(('C15', 'members_parsable', 'code %d' % pmem.value))
        for fn in (F.rgb, F.fg_rgb, F.bg_rgb, F.ul_rgb, F.dul_rgb):
            for args in ((0, 0, 0), (255, 255, 255), (1, 2, 3), (300, -5, 7), (0x102030,)):
                for s in fn(*args):
                    if not (s.valid and s.parsable):
                        viol.append(('C15', 'members_parsable', '%s%r' % (fn.__name__, args)))
        for fn in (F.color256, F.fg_color256, F.bg_color256, F.ul_color256, F.dul_color256, F.colour256):
            for a in (0, 1, 255):
                for s in fn(a):
                    if not (s.valid and s.parsable):
                        viol.append(('C15', 'members_parsable', '%s(%r)' % (fn.__name__, a)))
        st = Step('noop', None, None, 'members_parsable sweep', ())
        st.viol = viol; st.hist, st.idx = -1, len(self.steps)
        self.steps.append(st)

    # ------------------------------------------------------------------ C14
    def scrub(self, a=None, desc=None):
        rng = self.rng
        if a is None:
            a = bad_sargs(rng) if rng.random() < 0.2 else good_sargs(rng)
            if rng.random() < 0.12:
                a = (rng.choice(['list', 'tuple']), [('int', c) for c in rng.choice([[38, 5], [48, 2, 10, 20], [1, 58, 5], [38, 2, 1, 2, 3, 4], [4, 38, 5, 200],
                                                                                    [38], [38, 5, 1, 48], [58, 2], [38, 7, 1], [0, 38, 5, 9, 0], [38, 5, 48, 5], [38, 2, 10, 58, 2, 4], [48, 5, 38, 2], [38, 5, 58], [48, 2, 10, 38, 200]])])
            if rng.random() < 0.2:
                a = ('list', [a, ('tuple', [good_sargs(rng), ('list', [good_sargs(rng)])])])
        import ansi_string.ansi_string as core
        arg = P.build_sarg(a, self.mod)
        inp = P.line('scrub', P.e_sarg(a))
        def _ascii(q):
            if q[0] == 'str': return q[1].isascii()
            if q[0] in ('list', 'tuple'): return all(_ascii(z) for z in q[1])
            return True
        if not _ascii(a):
            inp = None      # Unicode case mapping of names is not modelled: implementation and oracle only
        out = call(lambda: core._AnsiSettingPoint._scrub_ansi_settings(arg, make_unique=True))
        viol = []
        if out[0] == 'err' and not isinstance(out[1], (TypeError, ValueError)):
            viol.append(('C09', 'error_class', 'scrub %r: %r' % (a, out[1])))
        def _has_bad(q):
            return q[0] == 'bad' or (q[0] in ('list', 'tuple') and any(_has_bad(z) for z in q[1]))
        if a[0] == 'bad' and not (out[0] == 'err' and isinstance(out[1], TypeError)):
            viol.append(('C14', 'reject_type', 'a setting of type %s is %s' % (
                type(a[1]).__name__, 'accepted as %r' % [str(q) for q in out[1]] if out[0] == 'ok' else 'answered with %r' % out[1])))
        if a[0] in ('list', 'tuple') and any(q[0] == 'bad' and q[1] is not None and not isinstance(q[1], (list, tuple)) for q in a[1]) and out[0] == 'ok':
            viol.append(('C14', 'reject_type', 'a list holding an unsupported type is accepted: %r -> %r' % (a, [str(q) for q in out[1]])))
        if a[0] in ('list', 'tuple') and a[1] and all(q[0] in ('int', 'intlike') and q[1] >= 0 for q in a[1]) and out[0] == 'ok':
            # a run of integer codes is read like the same codes in one `;`-separated string: every colour
            # function with the arguments that follow it — complete or cut short by the end of the run — is ONE setting
            cs = [int(q[1]) for q in a[1]]
            groups, i = [], 0
            while i < len(cs):
                if cs[i] in (38, 48, 58) and i + 1 < len(cs) and cs[i + 1] in (5, 2):
                    k = 3 if cs[i + 1] == 5 else 5
                    groups.append(';'.join(str(c) for c in cs[i:i + k])); i += k
                else:
                    groups.append(str(cs[i])); i += 1
            got = [str(q) for q in out[1]]
            if got != groups:
                viol.append(('C14', 'int_grouping', 'the codes %r give the settings %r, read as one sequence they are %r' % (cs, got, groups)))
        if a[0] == 'str':
            want = O.format_string_accepts(a[1], self.mod.AnsiFormat.__members__)
            if want is True and out[0] != 'ok':
                viol.append(('C14', 'accept_wellformed', 'the directive string %r is rejected: %r' % (a[1], out[1])))
            if want is False and not (out[0] == 'err' and isinstance(out[1], ValueError)):
                viol.append(('C14', 'reject_malformed', 'the malformed directive string %r is %s' % (
                    a[1], 'accepted as %r' % [str(q) for q in out[1]] if out[0] == 'ok' else 'answered with %r' % out[1])))
        # "nested lists are flattened in order": wrapping each maximal run of ints in a list of its own
        # must not change the result
        # (not claimed when a string element itself carries integer codes: a colour group given partly as
        # a string and partly as ints is not one of the documented spellings, and the code joins such
        # codes only within one nesting level)
        mixed = any(q[0] == 'str' and any(it.strip().isdigit() for it in q[1].split(';')) for q in a[1]) if a[0] in ('list', 'tuple') else False
        if a[0] in ('list', 'tuple') and out[0] == 'ok' and any(q[0] in ('int', 'intlike') for q in a[1]) and not mixed:
            wrapped, run = [], []
            for q in a[1]:
                if q[0] in ('int', 'intlike'):
                    run.append(q)
                else:
                    if run: wrapped.append(('list', run)); run = []
                    wrapped.append(q)
            if run: wrapped.append(('list', run))
            if not any(q[0] == 'selfref' for q in a[1]):
                out2 = call(lambda: core._AnsiSettingPoint._scrub_ansi_settings(P.build_sarg(('list', wrapped), self.mod), make_unique=True))
                if out2[0] != 'ok' or [str(q) for q in out2[1]] != [str(q) for q in out[1]]:
                    viol.append(('C14', 'flatten_nested', '%r gives %r but with its integer runs wrapped in lists %r' % (
                        a, [str(q) for q in out[1]], [str(q) for q in out2[1]] if out2[0] == 'ok' else out2[1])))
        self.emit('scrub', inp, outcome(out, lambda ss: P.ok_strs([str(s) for s in ss])), desc or 'scrub %r' % (a,), viol)
        return out

    def spelling(self, name=None):
        """all documented spellings of one AnsiFormat member give the same settings and rendering"""
        rng = self.rng
        F = self.mod.AnsiFormat
        A = self.mod.AnsiString
        names = list(F.__members__)
        if name is None and rng.random() < 0.15:
            digit = [n for n in names if any(ch.isdigit() for ch in n)]
            name = rng.choice(digit) if digit else None
        if name is None and rng.random() < 0.5:
            multi = [n for n in names if any(';' in str(q) for q in F.__members__[n].ansi_settings) or len(F.__members__[n].ansi_settings) > 1]
            name = rng.choice(multi) if multi else None
        name = name or rng.choice(names)
        m = F.__members__[name]
        ts = [str(s) for s in m.ansi_settings]
        variant = ''.join((c.lower() if rng.random() < 0.5 else c) if c != '_' else rng.choice('_- ') for c in name)
        ints = [int(c) for t in ts for c in t.split(';')]
        forms = [('member', ('member', name)), ('lower', ('str', name.lower())), ('variant', ('str', variant)),
                 ('ints', ('list', [('int', i) for i in ints])), ('intstr', ('str', ';'.join(str(i) for i in ints))),
                 ('nested', ('list', [('tuple', [('member', name)])])),
                 ('strints', ('tuple', [('str', str(i)) for i in ints])),
                 ('verbatim_obj', ('list', [('obj', t) for t in ts]))]
        ref = A('x', m)
        want = ([ref.settings_at(0)], str(ref), [str(q) for q in ref.ansi_settings_at(0)], ref.is_formatting_parsable(), ref.to_str(optimize=False))
        viol = []
        for label, a in forms:
            out = self.scrub(a, 'spelling %s of %s' % (label, name))
            r = call(lambda: A('x', P.build_sarg(a, self.mod)))
            if r[0] != 'ok':
                viol.append(('C14', 'spelling_equiv', '%s %s: %r' % (name, label, r[1])))
            else:
                got = ([r[1].settings_at(0)], str(r[1]), [str(q) for q in r[1].ansi_settings_at(0)], r[1].is_formatting_parsable(), r[1].to_str(optimize=False))
                if got != want:
                    viol.append(('C14', 'spelling_equiv', '%s %s (%r): %r vs %r' % (name, label, a, got, want)))
        # the same spelling used twice around a conflicting setting: every spelling gives separate objects
        def scenario(f):
            z = A('abcd')
            z.apply_formatting(f, 0, 4)
            for c in (32, 42, 22, 24):
                z.apply_formatting(c, 0, 4)
            z.apply_formatting(f, 1, 2)
            z.remove_formatting(f, 2, 3)
            return [z.settings_at(i) for i in range(4)], str(z)
        want_sc = call(lambda: scenario(m))
        for label, a in forms[1:]:
            got_sc = call(lambda: scenario(P.build_sarg(a, self.mod)))
            if got_sc != want_sc and not (got_sc[0] == 'err' and want_sc[0] == 'err'):
                viol.append(('C14', 'spelling_equiv', '%s %s used twice around a conflicting setting: %r vs %r' % (name, label, got_sc[1], want_sc[1])))
        # ... and the member itself against its integer codes
        ints_sc = call(lambda: scenario([int(c) for t in ts for c in t.split(';')]))
        if ints_sc != want_sc and not (ints_sc[0] == 'err' and want_sc[0] == 'err'):
            viol.append(('C14', 'spelling_equiv', '%s as enum member used twice around a conflicting setting: %r vs its codes %r' % (name, want_sc[1], ints_sc[1])))
        v = A('x', '[' + ';'.join(ts))
        if v.settings_at(0) != ';'.join(ts) or T.run(str(v))[0] != T.run(str(ref))[0]:
            viol.append(('C14', 'spelling_verbatim', name))
        st = Step('noop', None, None, 'spelling %s' % name, ())
        st.viol = viol; st.hist, st.idx = -1, len(self.steps)
        self.steps.append(st)

    def colours(self):
        rng = self.rng
        F, A = self.mod.AnsiFormat, self.mod.AnsiString
        viol = []
        pfx = rng.choice(['', 'fg_', 'bg_', 'ul_', 'dul_'])
        comp = {'': 'fg', 'fg_': 'fg', 'bg_': 'bg', 'ul_': 'ul', 'dul_': 'dul'}[pfx]
        base = {'fg': [38], 'bg': [48], 'ul': [58], 'dul': [58]}[comp]
        lead = {'fg': [], 'bg': [], 'ul': ['4'], 'dul': ['21']}[comp]
        r, g, b = [rng.choice([0, 1, 127, 255, 256, 300, 1000, rng.randrange(256)]) for _ in range(3)]
        cl = lambda v: min(255, max(0, v))
        want3 = lead + [';'.join(str(x) for x in base + [2, cl(r), cl(g), cl(b)])]
        fn = getattr(F, pfx + 'rgb') if pfx else F.rgb
        forms = [('helper', lambda: A('x', fn(r, g, b))),
                 ('str', lambda: A('x', '%srgb(%d,%d,%d)' % (pfx, r, g, b))),
                 ('str_sp', lambda: A('x', '%srgb( %d , %d,%d )' % (pfx, r, g, b))),
                 ('str_hex', lambda: A('x', '%srgb(0x%x,0x%X,%d)' % (pfx, r, g, b))),
                 ('str_br', lambda: A('x', '%srgb([%d,%d,%d])' % (pfx, r, g, b))),
                 ('str_par', lambda: A('x', '%srgb((%d,%d,%d))' % (pfx, r, g, b)))]
        for label, f in forms:
            o = call(f)
            for a in ([('str', '%srgb(%d,%d,%d)' % (pfx, r, g, b))] if label == 'str' else []):
                self.scrub(a[0:2], 'rgb string')
            if o[0] != 'ok' or o[1].settings_at(0) != ';'.join(want3):
                viol.append(('C14', 'rgb_forms', '%s %s(%d,%d,%d): %r want %r' % (label, pfx, r, g, b, o[1].settings_at(0) if o[0] == 'ok' else o[1], ';'.join(want3))))
        v24 = rng.choice([0, 0xFFFFFF, 0x102030, 0x1000000 + 5, rng.randrange(1 << 24)])
        want1 = lead + [';'.join(str(x) for x in base + [2, (v24 >> 16) & 255, (v24 >> 8) & 255, v24 & 255])]
        for label, f in [('helper', lambda: A('x', fn(v24))), ('str', lambda: A('x', '%srgb(%d)' % (pfx, v24))),
                         ('hex', lambda: A('x', '%srgb(0x%06x)' % (pfx, v24)))]:
            o = call(f)
            if o[0] != 'ok' or o[1].settings_at(0) != ';'.join(want1):
                viol.append(('C14', 'rgb_split24', '%s %s(%#x): %r' % (label, pfx, v24, o[1].settings_at(0) if o[0] == 'ok' else o[1])))
        n = rng.choice([0, 1, 9, 214, 255])
        wantc = lead + [';'.join(str(x) for x in base + [5, n])]
        cfn = getattr(F, pfx + 'color256') if pfx else F.color256
        cfn2 = getattr(F, pfx + 'colour256') if pfx else F.colour256
        sp = rng.choice(['color', 'colour'])
        for label, f in [('helper', lambda: A('x', cfn(n))), ('helper_colour', lambda: A('x', cfn2(n))), ('str', lambda: A('x', '%s%s256(%d)' % (pfx, sp, n))),
                         ('hex', lambda: A('x', '%s%s256(0x%x)' % (pfx, sp, n))), ('br', lambda: A('x', '%s%s256([ %d ])' % (pfx, sp, n)))]:
            o = call(f)
            if o[0] != 'ok' or o[1].settings_at(0) != ';'.join(wantc):
                viol.append(('C14', 'color256_forms', '%s %s(%d): %r' % (label, pfx, n, o[1].settings_at(0) if o[0] == 'ok' else o[1])))
        self.scrub(('str', '%s%s256(%d)' % (pfx, sp, n)), 'color256 string')
        self.scrub(('str', '%srgb(0x%06x)' % (pfx, v24)), 'rgb 24 string')
        st = Step('noop', None, None, 'colour forms %s' % pfx, ())
        st.viol = viol; st.hist, st.idx = -1, len(self.steps)
        self.steps.append(st)

    def rejects(self):
        A = self.mod.AnsiString
        viol = []
        l = ['red']; l.append(l)
        cases = [('unknown name', 'nope', ValueError), ('negative int', -1, ValueError), ('malformed rgb', 'rgb(1,2)', ValueError),
                 ('malformed rgb2', 'rgb(1,2,3,4)', ValueError), ('malformed color', 'color256()', ValueError),
                 ('negative str', '-1', ValueError), ('float', 3.5, TypeError), ('none in list', ['red', None], TypeError),
                 ('dict', {}, TypeError), ('self list', l, ValueError), ('rgb dec hex', 'rgb(ff,0,0)', ValueError),
                 ('unknown in multi', 'red;nope', ValueError)]
        for label, arg, exc in cases:
            o = call(lambda: A('x', arg))
            if label == 'dict':
                continue    # an empty dict is falsy: `AnsiString('x', {})` applies nothing; not claimed
            if o[0] != 'err' or type(o[1]) is not exc:
                viol.append(('C14', 'reject_' + label.replace(' ', '_'), '%r -> %r' % (arg if label != 'self list' else '[..self..]', o[1] if o[0] == 'err' else str(o[1]))))
        multi = call(lambda: A('x', 'bold;red;rgb(1,2,3)'))
        if multi[0] != 'ok' or multi[1].settings_at(0) != '1;31;38;2;1;2;3':
            viol.append(('C14', 'multi_directive', repr(multi[1])))
        flat = call(lambda: (A('x', ['bold', ('red', ['underline'])]).settings_at(0), A('x', 'bold', 'red', 'underline').settings_at(0)))
        if flat[0] != 'ok' or flat[1][0] != flat[1][1]:
            viol.append(('C14', 'flatten_nested', repr(flat[1])))
        st = Step('noop', None, None, 'rejects', ())
        st.viol = viol; st.hist, st.idx = -1, len(self.steps)
        self.steps.append(st)

    NEAR = ['rgb(12, 3, 4)', 'ul_color256(17)', 'bg_rgb(0xA0B0C0)', 'rgb(255,0,0)', 'dul_rgb(0x10,2,3)', 'fg_colour256(0x10)',
            'color256([ 9 ])', 'rgb([1, 2, 3])', 'red', 'bg_blue', 'bold', 'no_bold_faint', 'double underline', 'fg_default',
            '38;5;214', '1;31', '[1', 'red;bold', 'ul_rgb((1,2,3))', 'rgb(0x102030)', 'rgb(010, 020, 030)', 'color256(007)',
            'fg_rgb(255,099,071)', 'rgb(0b1,0,0)', 'rgb(0o7,0,0)', 'color256(1_0)', 'rgb(+1,2,3)', 'rgb(1e2,0,0)', '007', '0x1f', '1_0']

    def near_miss(self):
        """a well-formed directive, then strings that differ from it by one edit (a blank inside a
        number or a keyword, letter case, a dropped/doubled character): each is accepted or rejected,
        and reads as, what the model says — whatever was used before in this process"""
        rng = self.rng
        base = rng.choice(self.NEAR)
        self.scrub(('str', base), 'near-miss base %r' % base)
        for _ in range(4):
            t = base
            for _ in range(rng.choice([1, 1, 2])):
                i = rng.randrange(len(t) + 1)
                k = rng.randrange(6)
                if k == 0: t = t[:i] + ' ' + t[i:]
                elif k == 1 and i < len(t): t = t[:i] + t[i + 1:]
                elif k == 2 and i < len(t): t = t[:i] + t[i].swapcase() + t[i + 1:]
                elif k == 3 and i < len(t): t = t[:i] + t[i] + t[i:]
                elif k == 4: t = t[:i] + rng.choice('_-;,()x0') + t[i:]
                else: t = t.upper() if rng.random() < 0.5 else t.replace(' ', '')
            if rng.random() < 0.2:
                t = ''.join({'k': '\u212a', 'i': '\u0131', 's': '\u017f', 'K': '\u212a', 'S': '\u017f', 'I': '\u0130'}.get(c, c)
                            if rng.random() < 0.5 else c for c in t)
            self.scrub(('str', t), 'near-miss %r of %r' % (t, base))
            if rng.random() < 0.3:
                self.scrub(('list', [('str', t), ('str', base)]), 'near-miss pair')

    def table_entry(self, k=None):
        """the regenerated Lean table, read back through the driver, equals what Python says
        (validates the translator itself)"""
        F = self.mod.AnsiFormat
        names = sorted(F.__members__)
        if k is None:
            k = self.rng.randrange(len(names))
        if k >= len(names):
            return
        m = F.__members__[names[k]]
        exp = P.line('ok', P.e_str(names[k]), [len(m.ansi_settings)], *[P.e_str(str(x)) for x in m.ansi_settings])
        self.emit('format', P.line('format', [k]), exp, 'formatTable[%d] = %s' % (k, names[k]), [])

    def table_sizes(self):
        from ansi_string.ansi_param import AnsiParam, EFFECT_CLEAR_DICT
        from ansi_string.ansi_format import _AnsiControlFn
        F = self.mod.AnsiFormat
        exp = 'ok %d %d %d %d' % (len(list(AnsiParam)), len(EFFECT_CLEAR_DICT), len(list(_AnsiControlFn)), len(F.__members__))
        self.emit('tables', 'tables', exp, 'table sizes', [])

    def exhaustive(self, pid):
        """small-scope exhaustive streams for the codec properties (thorough tier)"""
        import itertools
        if pid == 'C19':
            alpha = ['\x1b', '[', '1', ';', 'm', 'J', 'x']
            for n in range(0, 6):
                for tup in itertools.product(alpha, repeat=n):
                    s_ = ''.join(tup)
                    if n >= 4 and '\x1b' not in s_:
                        continue
                    for flags in ((True, None), (False, 'm'), (True, 'mJ')):
                        self.tokenize(s_, flags)
        elif pid in ('C18', 'C02'):
            codes = [0, 1, 22, 31, 38, 48, 5, 2, 255, 256, 39, 77]
            for n in range(0, 5):
                for tup in itertools.product(codes, repeat=n):
                    self.pgs_exact(list(tup), False)
                    if n <= 3:
                        self.pgs_exact(list(tup), True)
        elif pid == 'C15':
            alpha = ['1', '3', '8', ';', ' ', '5', 'm', '+', '0', '2']
            for n in range(1, 5):
                for tup in itertools.product(alpha, repeat=n):
                    self.setting(''.join(tup))

    def pgs_exact(self, codes, add_err):
        """parse_graphic_sequence on an exact list of ints (string form), with the terminal oracle"""
        arg = ';'.join(str(c) for c in codes)
        inp = P.line('pgs', [0], P.e_bool(add_err), P.e_str(arg))
        pg, std = self.mod.parse_graphic_sequence, self.mod.settings_to_dict
        out = call(lambda: pg(arg, add_err))
        viol = []
        if out[0] != 'ok':
            viol.append(('C18', 'pgs_total', '%r: %r' % (arg, out[1])))
        else:
            ss = out[1]
            if not add_err:
                want = frozenset(T.feed_codes({}, codes if codes else [0]).items())
                got = self.alpha(std(ss))
                if got != want:
                    viol.append(('C18', 'pgs_terminal', '%r -> %r gives %r, terminal %r' % (arg, [str(q) for q in ss], sorted(got or ()), sorted(want))))
                if any(';' in str(q) and not q.parsable for q in ss):
                    viol.append(('C18', 'pgs_groups_intact', '%r -> %r' % (arg, [str(q) for q in ss])))
            elif codes:
                toks = [int(t) for q in ss for t in str(q).split(';')]
                if toks != codes:
                    viol.append(('C18', 'pgs_erroneous_tokens', '%r -> %r' % (arg, [str(q) for q in ss])))
        self.emit('pgs', inp, outcome(out, lambda ss_: P.ok_strs([str(q) for q in ss_])), 'parse_graphic_sequence(%r,%r)' % (arg, add_err), viol)

    def terminal_twin(self, s):
        """the two terminal models must agree (an infrastructure check, not a property)"""
        shown, final, wf = T.run(s, {})
        def enc_state(st):
            items = sorted((T.GROUPS.index(k), v) for k, v in dict(st).items())
            t = [len(items)]
            for i, v in items:
                t += [i, len(v)] + list(v)
            return t
        toks = [len(shown)]
        for c, st in shown:
            toks += [ord(c)] + enc_state(st)
        exp = ' '.join(str(x) for x in ['ok'] + toks + ['|'] + enc_state(final) + ['|', 1 if wf else 0] + P.e_str(T.strip_sgr(s)))
        self.emit('term', P.line('term', P.e_str(s)), exp, 'terminal twin %r' % s, [])
