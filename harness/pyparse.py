"""Python -> Lean, statement by statement (part of translate.py's output, next to pyobj.py), for
  * the two free functions of ansi_parsing.py: `settings_to_dict` and `parse_graphic_sequence`;
  * four methods of `class AnsiSetting` (ansi_format.py): `valid`, `to_list`, `parsable`, `get_initial_param`;
  * `ParsedAnsiControlSequenceString.__init__` (the tokenizer) and `.formatted_str` (ansi_parsing.py);
  * static methods of `_AnsiSettingPoint` (ansi_string.py): `_scrub_ansi_format_int`, `_parse_rgb_string`,
    `_scrub_ansi_format_string`, and `_scrub_ansi_settings` for the argument types of the one call the latter
    makes (a list of AnsiSettings; its general, recursive, `id()`-checking form is not translated).

What comes from the source: the statements, their order, the conditions, the shapes of the loops.
What this module knows beforehand is a small table of *types and primitives* (below: `GLOBALS`, `GLOBAL_ITEMS`,
`SELF_FIELDS`, `SELF_METHODS`, `attribute`, `call`): how a name the functions use from elsewhere (`ansi_sep`,
`AnsiParam.RESET.value`, `ansi_term_ord_range[0]`, `_AnsiControlFn`, `AnsiSetting(...)`, `AnsiParam(...)`,
`.parsable`, `.get_initial_param()`, ...) is written over the hand-written model (`AnsiModel/Parse.lean`,
`Setting.lean`, `PyStr.lean`, `Obj.lean`, the generated tables) and the primitives of `PRIMS` (emitted as
Generated/Methods/ParsePrims.lean).

Subset (anything else raises `Unsupported`; the function then becomes a NOT-TRANSLATED stub with
`<name>Ok := false`):

  statements   `x = e`, `x: T = e`, `x += e`, `x -= e`, `l[i] = e`, `d[k] = e`, `self._valid = e`, `del d[k]`,
               `del l[i]`, `l.append(e)`, a call evaluated for what it may raise, `if/elif/else`,
               `for a, b in enumerate(l)`, `for x in <list or str>`, `for fn in _AnsiControlFn`, `continue`,
               `return e` (also inside loops), `raise ValueError()`,
               `try: … except ValueError: … [else: …]`, `pass`, doc strings
  expressions  names, literals, `[]`, `{}`, `[e, ...]`, `[e for x in l]`, `len`, `list(l)`, `dict(d)`, `int(e)`,
               `ord(c)`, `hasattr(self, '_valid')`, `isinstance(x, int|str)`, `AnsiSetting(e)`, `AnsiParam(e)`,
               `s.strip()`, `s.isdigit()`, `s.split(sep)`, `s.split(sep, 1)`, `l[i]`, `l[a:b]`,
               `self._str`, `self._valid`, `self.valid`, `self.to_list()`, …,
               `== != < <= > >=`, `in`/`not in` (dict), `is None`/`is not None`, `and or not`, `+ - *`,
               truth values of ints, strs, lists, dicts, int-or-str items

Shape of the output (the conventions of pyobj.py):

  * every function returns `Except Exc R`: an expression that can raise in Python (`l[i]`, `l[i] = v`,
    `del d[k]`, `AnsiSetting(x)` on an empty text, `s.split(sep)`, `self._valid` when absent) is
    `(…).bind fun t =>`; everything else is a `let`;  re-assignment is a shadowing `let`;
  * a `for` loop is `List.foldlM` over the iterated values with the variables the body assigns (and that
    exist before the loop) as an explicit state tuple, ordered by type (variables of one type: in the order of
    their first assignment in the body);
    `continue` yields the state;  `for i, v in enumerate(l)` runs over the indices `range(len(l))` and
    fetches `v = l[i]` from the *current* list at the start of every round (what the list iterator of
    CPython does) — the body may store into `l[...]`, it may not change the length of `l`;
  * `return e` inside a loop: the state gets a first component `ret_ : Option R` (`some r`: the function has
    returned `r`); a round starts with `if ret_.isSome then <state unchanged>`; after the loop,
    `match ret_ with | some r_ => <return r_> | none => <what follows the loop>`;
  * statements after an `if` both of whose branches go on are put into a local function (`k1_`, ...)
    of the variables assigned in the branches, called at the end of each branch;
  * `try: B except ValueError: H else: E`: H is a local function `h1_` of the variables B assigns; inside B,
    what raises ValueError — `raise ValueError()`, `int(<str>)` (`Py.int … = none`), `AnsiParam(<int>)`
    (`ansiParam … = none`) — is a call of it; E follows B outside the handler; other exceptions pass through.
    Outside a `try`, the same places are `.error (.py .valueError)`;
  * `if a or b` / `if a and b` where `b` can raise or needs what `isinstance(…)` in `a` established become
    nested `if`s; `if not (a and b)` swaps the branches;
  * a value that is an `int` or a `str` at run time is the model's `Code`; all lists of such values are
    `List Code`; `isinstance(v, int)` as the test of an `if` is a `match` that rebinds `v` as `Int` /
    `Str` in the branches;  a parameter annotated `Union[str, List[...]]` gives one Lean function per
    member of the union, `isinstance(param, str)` being decided while translating;
  * `while c: b` is `PyParse.whileM fuel_ <c> <b> <state>`, test and round as functions of the state (the
    variables the body assigns); `fuel_ : Nat`, a parameter of the generated function (handed on to translated
    functions it calls), bounds the number of rounds — running out of it is `Exc.outside`, and the theorems say
    from which value on that does not happen;
  * `ParsedAnsiControlSequenceString` is the model's `Parsed` (`_s` = text, `sequences` = seqs, a dictionary in
    insertion order: `PyParse.seqsHas/seqsAppend/seqsSet/seqsItems`); `__init__` returns the object it leaves;
  * `try … except KeyError` like `except ValueError` (`AnsiFormat[name]` is `PyParse.formatMember`, `none` =
    KeyError); a call of another translated function is a `.bind` (its exceptions pass through; inside a `try`
    that could catch them it is refused);
  * `re.search(<literal>, s)` is `Re.matchStart Gen.regex_<function>_<k> s` (the k-th call site, harness/pyre.py),
    `match.group(n)` is `Re.group caps n`, `if match:` a `match` on the option;
  * a condition the static types decide (`isinstance(x, list)`, `isinstance(setting, AnsiSetting)` for a list of
    AnsiSettings, …) is decided while translating: only the branch taken is translated; `id(x)` is an opaque value
    that can be stored, not inspected;
  * a variable assigned `None` and later a value is an `Option`; a list that holds AnsiSettings and ints (by the
    return annotation `List[Union[AnsiSetting,int]]`) is a `List SOut`;
  * `self` in a method of AnsiSetting is `PyParse.SObj` (the text and the two cache attributes as
    `Option Bool`, `none` = `hasattr` is False); a method that assigns attributes (or reads a property that
    does) returns `(result, self)`; reading such a property of self is
    `(Gen.settingValid self).bind fun t => let self := t.2` with the value `t.1`.
"""
import ast
import os
import re

from pyint import Unsupported, mangle

SRC = os.path.join('src', 'ansi_string', 'ansi_parsing.py')
SRC_FORMAT = os.path.join('src', 'ansi_string', 'ansi_format.py')
SRC_STRING = os.path.join('src', 'ansi_string', 'ansi_string.py')

# ---------------------------------------------------------------------------------------------------
# types

VARS = {}            # type variables (the element type of a `[]` not yet appended to) by number


class Ty:
    """kind in Str Int Bool Code Nat SettingTxt SettingObj Dict OptParam Param CtrlFn List Var"""
    _n = [0]

    def __init__(self, kind, elem=None):
        self.kind, self.elem, self.ref = kind, elem, None
        if kind == 'Var':
            Ty._n[0] += 1
            self.id = Ty._n[0]
            VARS[self.id] = self

    def r(self):
        t = self
        while t.kind == 'Var' and t.ref is not None:
            t = t.ref
        return t

    def __repr__(self):
        t = self.r()
        return 'List(%r)' % t.elem if t.kind == 'List' else t.kind


STR, INT, BOOL, CODE, NAT = Ty('Str'), Ty('Int'), Ty('Bool'), Ty('Code'), Ty('Nat')
STXT, SOBJ, DICT, OPTPARAM, PARAM, CTRLFN = Ty('SettingTxt'), Ty('SettingObj'), Ty('Dict'), Ty('OptParam'), Ty('Param'), Ty('CtrlFn')
CHAR, SELF = Ty('Char'), Ty('Self')          # Self: `self` inside a method of AnsiSetting (the text and the two cache attributes)
CTLSEQ, SEQS, OPTSTR, PSELF = Ty('CtlSeq'), Ty('Seqs'), Ty('OptStr'), Ty('PSelf')   # PSelf: self in ParsedAnsiControlSequenceString
OPTMATCH, MATCH, COMPDICT = Ty('OptMatch'), Ty('Match'), Ty('CompDict')      # re.search(...) / its match object; {prefix: component}
SOUT, MEMBER, IDENT = Ty('SOut'), Ty('Member'), Ty('Ident')   # an AnsiSetting or an int; an AnsiFormat member; the value of id(x)
LEAN_TY = {'Str': 'Str', 'Int': 'Int', 'Bool': 'Bool', 'Code': 'Code', 'Nat': 'Nat', 'SettingTxt': 'Str', 'SettingObj': 'Setting',
           'Dict': 'PyDict', 'OptParam': 'Option (Nat × Nat)', 'Param': 'Nat × Nat', 'CtrlFn': 'List Nat × Nat',
           'Char': 'Char', 'Self': 'PyParse.SObj', 'CtlSeq': 'CtlSeq', 'Seqs': 'List (Nat × List CtlSeq)', 'OptStr': 'Option Str',
           'PSelf': 'Parsed', 'Item': 'Int × List CtlSeq', 'OptMatch': 'Option Re.Caps', 'Match': 'Re.Caps',
           'CompDict': 'List (Str × Nat)', 'SOut': 'SOut', 'Member': 'Str × List Str', 'Ident': 'Unit'}
SCALAR = ('Int', 'Str', 'Code')
MUTABLE = ('List', 'Dict')


def List_(elem):
    return Ty('List', elem)


def lean_ty(t, paren=False):
    t = t.r()
    if t.kind == 'Var':
        return '⟪T%d⟫' % t.id
    if t.kind == 'Opt':
        s = 'Option ' + lean_ty(t.elem, True)
        return '(%s)' % s if paren else s
    if t.kind == 'List':
        s = 'List ' + lean_ty(t.elem, True)
        return '(%s)' % s if paren else s
    s = LEAN_TY[t.kind]
    return '(%s)' % s if paren and ' ' in s else s


def unify(a, b, what=''):
    a, b = a.r(), b.r()
    if a is b:
        return
    if a.kind == 'Var':
        a.ref = b
        return
    if b.kind == 'Var':
        b.ref = a
        return
    if a.kind != b.kind:
        raise Unsupported('type %r against %r %s' % (a, b, what))
    if a.kind in ('List', 'Opt'):
        unify(a.elem, b.elem, what)


def same(a, b):
    """equal without binding anything"""
    a, b = a.r(), b.r()
    if a is b:
        return True
    if a.kind == 'Var' or b.kind == 'Var' or a.kind != b.kind:
        return False
    return same(a.elem, b.elem) if a.kind in ('List', 'Opt') else True


def annotation(a):
    """the members of the (possibly one-member) union an annotation stands for"""
    if isinstance(a, ast.Name):
        t = {'str': STR, 'int': INT, 'bool': BOOL, 'AnsiSetting': SOBJ}.get(a.id)
        if t is None:
            raise Unsupported('annotation ' + a.id)
        return [t]
    if isinstance(a, ast.Subscript) and isinstance(a.value, ast.Name):
        args = list(a.slice.elts) if isinstance(a.slice, ast.Tuple) else [a.slice]
        if a.value.id == 'Union':
            out = []
            for x in args:
                out += annotation(x)
            if sorted(t.kind for t in out) == ['Int', 'Str']:
                return [CODE]
            if sorted(t.kind for t in out) == ['Int', 'SettingObj']:
                return [SOUT]
            return out
        if a.value.id == 'List' and len(args) == 1:
            e = annotation(args[0])
            if len(e) != 1:
                raise Unsupported('annotation ' + ast.unparse(a))
            return [List_(CODE if e[0].kind in SCALAR else e[0])]
        if a.value.id == 'Dict' and len(args) == 2 and ast.unparse(args[0]) == 'AnsiParamEffect' and ast.unparse(args[1]) == 'AnsiSetting':
            return [DICT]
    raise Unsupported('annotation ' + ast.unparse(a))


# ---------------------------------------------------------------------------------------------------
# the names the two functions take from elsewhere: (module they must be imported from, Lean text, type)

GLOBALS = {
    'ansi_sep': ('ansi_format', 'Gen.ansiSep', STR),
    'ansi_control_sequence_introducer': ('ansi_format', 'Gen.csi', STR),
    'AnsiParam.RESET.value': ('ansi_param', '(Gen.paramReset : Int)', INT),
    'AnsiParamEffectFn.APPLY_SETTING': ('ansi_param', 'Gen.fnApply', NAT),
    'AnsiParamEffectFn.CLEAR_SETTING': ('ansi_param', 'Gen.fnClear', NAT),
    'AnsiParamEffectFn.RESET_ALL': ('ansi_param', 'Gen.fnResetAll', NAT),
    # the components as the model numbers them (Scrub.component)
    'ColorComponentType.FOREGROUND': ('ansi_format', '(0 : Nat)', NAT),
    'ColorComponentType.BACKGROUND': ('ansi_format', '(1 : Nat)', NAT),
    'ColorComponentType.UNDERLINE': ('ansi_format', '(2 : Nat)', NAT),
    'ColorComponentType.DOUBLE_UNDERLINE': ('ansi_format', '(3 : Nat)', NAT),
}
ITERABLE_GLOBALS = {'_AnsiControlFn': ('ansi_format', 'Gen.ctrlFns', CTRLFN)}
CLASSES = {'AnsiSetting': 'ansi_format', 'AnsiParam': 'ansi_param', 'AnsiControlSequence': 'ansi_parsing'}
# items of module-level tuples
GLOBAL_ITEMS = {('ansi_term_ord_range', 0): ('ansi_format', '(Gen.termLo : Int)', INT),
                ('ansi_term_ord_range', 1): ('ansi_format', '(Gen.termHi : Int)', INT)}
# `self` inside the methods of AnsiSetting: attribute -> (field of PyParse.SObj, type, is a cache that may be absent)
SELF_FIELDS = {'_str': ('str', STR, False), '_valid': ('valid_', BOOL, True), '_parsable': ('parsable_', BOOL, True)}
# translated methods of AnsiSetting: name -> (Lean name, module, type of the result, assigns attributes of self, is a property)
SELF_METHODS = {'valid': ('settingValid', 'SettingValid', BOOL, True, True),
                'to_list': ('settingToList', 'SettingToList', List_(CODE), False, False),
                'parsable': ('settingParsable', 'SettingParsable', BOOL, True, True),
                'get_initial_param': ('settingInitialParam', 'SettingInitialParam', OPTPARAM, False, False)}
# `self` of the translated classes: kind -> Lean type, attributes, translated methods that may be called on it.
# ParsedAnsiControlSequenceString is the model's `Parsed` itself (`_s` = text, `sequences` = seqs: a dict with
# the positions as keys, kept in insertion order)
SELF_INFO = {'Self': dict(lean='PyParse.SObj', fields=SELF_FIELDS, methods=SELF_METHODS),
             'PSelf': dict(lean='Parsed', fields={'_s': ('text', STR, False), 'sequences': ('seqs', SEQS, False)}, methods={})}
# parameters whose annotation does not say what they are (`allow_empty_terminator:str=True`, `…:str=None`)
PARAM_TYPES = {('ParsedAnsiControlSequenceString', '__init__'): [('s', STR), ('allow_empty_terminator', BOOL), ('acceptable_terminators', OPTSTR)]}
ERRORS = {'ValueError': '.error (.py .valueError)', 'KeyError': '.error .key'}
# isinstance(x, cls): the static types for which it is True (for the others it is False, unless the type is a union)
INSTANCE_OF = {'int': ('Int',), 'str': ('Str',), 'AnsiSetting': ('SettingTxt', 'SettingObj'), 'list': ('List',), 'tuple': ()}
NARROWED = {'OptParam': PARAM, 'OptStr': STR, 'OptMatch': MATCH}


def lean_char(c):
    return "'%s'" % c if 32 <= ord(c) < 127 and c not in "'\\" else '(Char.ofNat %d)' % ord(c)


def lean_str(s):
    if s == '':
        return '([] : Str)'
    if all(32 <= ord(c) < 127 and c not in '"\\' for c in s):
        return '"%s".toList' % s
    return '[%s]' % ', '.join('Char.ofNat %d' % ord(c) for c in s)


def ind(lines, n=2):
    return [' ' * n + l for l in lines]


class Ctx:
    """where a block is: result type of the enclosing function body / loop body; what `return x` and `continue`
    are there; the lines a ValueError leads to (inside `try … except ValueError`; None: it leaves the function)"""
    def __init__(self, result, ret, cont=None, in_loop=False, handler=None):
        self.result, self.ret, self.cont, self.in_loop, self.handler = result, ret, cont, in_loop, handler
        self.cond = False

    def but(self, **kw):
        c = Ctx(self.result, self.ret, self.cont, self.in_loop, self.handler)
        c.cond = self.cond
        for a, v in kw.items():
            setattr(c, a, v)
        return c


class Fn:
    def __init__(self, fn, imports, params, cls=None, defaults=None):
        self.fn, self.imports, self.cls = fn, imports, cls
        self.defaults = defaults or []             # parameters left at their default value: (name, Lean text, type)
        self.params = params                       # [(name, Ty)]
        self.ret = Ty('Var')
        self.ntmp = 0
        self.njoin = 0
        self.nmark = 0
        self.deps = set()                          # generated modules of translated methods that are called
        self.scalar_elem = CODE                    # what a list of ints/strs holds: Code, or SOut when the function returns such a list
        # the `re.search(<literal>, …)` calls in source order: the k-th is Gen.regex_<function>_k (harness/pyre.py)
        sites = sorted((n.lineno, n.col_offset) for n in ast.walk(fn) if self.re_site(n))
        self.re_sites = {pos: k for k, pos in enumerate(sites, 1)}

    @staticmethod
    def re_site(n):
        return isinstance(n, ast.Call) and isinstance(n.func, ast.Attribute) and isinstance(n.func.value, ast.Name) \
            and n.func.value.id == 're' and n.func.attr in ('search', 'match', 'fullmatch')

    def tmp(self):
        self.ntmp += 1
        return 't%d_' % self.ntmp

    # -- expressions --------------------------------------------------------------------------------
    # ex(e, env) -> (binds, text, type); binds = [(kind, Lean expression, name)] to be run before:
    #   'bind'  an `Except`: `(e).bind fun name =>`
    #   'opt'   an `Option`, `none` being a ValueError: goes to the handler of the enclosing `try`, or leaves the function
    #   'optK'  the same for a KeyError
    #   'self'  a call of a translated method that assigns attributes of self: `(e).bind fun name =>`, self := name.2

    def dotted(self, e):
        parts = []
        while isinstance(e, ast.Attribute):
            parts.append(e.attr)
            e = e.value
        if isinstance(e, ast.Name):
            parts.append(e.id)
            return '.'.join(reversed(parts))
        return None

    def need_import(self, root, module):
        if self.imports.get(root) != module:
            raise Unsupported('%s is not the one imported from .%s' % (root, module))

    def ex(self, e, env, test=False):
        if isinstance(e, ast.Constant):
            v = e.value
            if isinstance(v, bool):
                return [], 'true' if v else 'false', BOOL
            if isinstance(v, int):
                return [], '(%d : Int)' % v, INT
            if isinstance(v, str):
                return [], lean_str(v), STR
            if v is None:
                t = Ty('Opt', Ty('Var'))
                return [], '(none : %s)' % lean_ty(t), t
            raise Unsupported('constant ' + repr(v))
        if isinstance(e, ast.Name):
            if e.id in env:
                return [], mangle(e.id), env[e.id]
            if e.id in GLOBALS and e.id not in self.locals:
                mod, text, ty = GLOBALS[e.id]
                self.need_import(e.id, mod)
                return [], text, ty
            raise Unsupported('name ' + e.id)
        if isinstance(e, ast.Attribute):
            d = self.dotted(e)
            if d in GLOBALS and d.split('.')[0] not in env and d.split('.')[0] not in self.locals:
                mod, text, ty = GLOBALS[d]
                self.need_import(d.split('.')[0], mod)
                return [], text, ty
            b, x, t = self.ex(e.value, env)
            b2, x2, t2 = self.attribute(x, t.r(), e.attr)
            return b + b2, x2, t2
        if isinstance(e, ast.UnaryOp) and isinstance(e.op, ast.Not):
            b, x = self.truth(e.operand, env)
            return b, '(!%s)' % x, BOOL
        if isinstance(e, ast.UnaryOp) and isinstance(e.op, ast.USub):
            b, x, t = self.ex(e.operand, env)
            if t.r().kind != 'Int':
                raise Unsupported(ast.unparse(e))
            return b, '(-%s)' % x, INT
        if isinstance(e, ast.BoolOp):
            nt = self.none_test(e.values[0], env)
            if nt is not None and (isinstance(e.op, ast.Or) == nt[1]):
                # `x is None or f(x)` / `x is not None and f(x)`: f sees x as what it is when not None
                name = nt[0]
                others = e.values[1] if len(e.values) == 2 else ast.BoolOp(op=e.op, values=list(e.values[1:]))
                env2 = dict(env)
                env2[name] = NARROWED[env[name].r().kind]
                b, x, t = self.ex(others, env2, test)
                if t.r().kind != 'Bool':
                    if not test:
                        raise Unsupported('and/or of values that are not bool, outside a condition: ' + ast.unparse(e))
                    b, x = self.truth(others, env2)
                if b:
                    raise Unsupported('something that can raise after a short-circuit operator: ' + ast.unparse(e))
                n = mangle(name)
                return [], '(match %s with | none => %s | some %s => %s)' % (n, 'true' if isinstance(e.op, ast.Or) else 'false', n, x), BOOL
            parts = []
            binds = []
            for k, v in enumerate(e.values):
                b, x, t = self.ex(v, env, test)
                if t.r().kind != 'Bool':
                    if not test:
                        raise Unsupported('and/or of values that are not bool, outside a condition: ' + ast.unparse(e))
                    b, x = self.truth(v, env)
                if b and k > 0:
                    raise Unsupported('something that can raise after a short-circuit operator: ' + ast.unparse(e))
                binds += b
                parts.append(x)
            return binds, '(%s)' % (' && ' if isinstance(e.op, ast.And) else ' || ').join(parts), BOOL
        if isinstance(e, ast.BinOp) and isinstance(e.op, (ast.Add, ast.Sub, ast.Mult)):
            bl, l, tl = self.ex(e.left, env)
            br, r, tr = self.ex(e.right, env)
            if tl.r().kind == 'Int' and tr.r().kind == 'Int':
                return bl + br, '(%s %s %s)' % (l, {ast.Add: '+', ast.Sub: '-', ast.Mult: '*'}[type(e.op)], r), INT
            if tl.r().kind == 'Str' and tr.r().kind == 'Str' and isinstance(e.op, ast.Add):
                return bl + br, '(%s ++ %s)' % (l, r), STR
            raise Unsupported(ast.unparse(e))
        if isinstance(e, ast.Compare):
            return self.compare(e, env)
        if isinstance(e, ast.List):
            if not e.elts:
                t = List_(Ty('Var'))
                return [], '([] : %s)' % lean_ty(t), t
            elem = Ty('Var')
            binds, xs = [], []
            for v in e.elts:
                b, x, t = self.ex(v, env)
                binds += b
                xs.append(self.coerce(x, t, elem))
            return binds, '[%s]' % ', '.join(xs), List_(elem)
        if isinstance(e, ast.Dict) and not e.keys:
            return [], '([] : PyDict)', DICT
        if isinstance(e, ast.Dict) and all(isinstance(k, ast.Constant) and isinstance(k.value, str) for k in e.keys):
            items = []          # {'<prefix>': ColorComponentType.X, …}
            for k, v in zip(e.keys, e.values):
                b, x, t = self.ex(v, env)
                if b or t.r().kind != 'Nat':
                    raise Unsupported(ast.unparse(e))
                items.append('(%s, %s)' % (lean_str(k.value), x))
            if len(set(k.value for k in e.keys)) != len(e.keys):
                raise Unsupported('a dictionary display with a key twice')
            return [], '[%s]' % ', '.join(items), COMPDICT
        if isinstance(e, ast.IfExp):
            bt, c = self.truth(e.test, env)
            b1, x1, t1 = self.ex(e.body, env)
            b2, x2, t2 = self.ex(e.orelse, env)
            if b1 or b2:
                raise Unsupported('something that can raise inside a conditional expression: ' + ast.unparse(e))
            unify(t1, t2, 'in ' + ast.unparse(e))
            return bt, '(if %s then %s else %s)' % (c, x1, x2), t1
        if isinstance(e, ast.ListComp):
            if len(e.generators) != 1 or e.generators[0].ifs or e.generators[0].is_async or not isinstance(e.generators[0].target, ast.Name):
                raise Unsupported(ast.unparse(e))
            g = e.generators[0]
            b, it, t = self.ex(g.iter, env)
            t = t.r()
            if t.kind != 'List':
                raise Unsupported('comprehension over ' + repr(t))
            if g.target.id in env:
                raise Unsupported('comprehension variable hides a local: ' + g.target.id)
            env2 = dict(env)
            env2[g.target.id] = t.elem
            b2, x, tx = self.ex(e.elt, env2)
            if b2:
                raise Unsupported('something that can raise inside a comprehension: ' + ast.unparse(e))
            elem = Ty('Var')
            x = self.coerce(x, tx, elem)
            return b, '(%s.map (fun (%s : %s) => %s))' % (it, mangle(g.target.id), lean_ty(t.elem), x), List_(elem)
        if isinstance(e, ast.Subscript) and isinstance(e.value, ast.Name) and e.value.id == 'AnsiFormat' \
                and 'AnsiFormat' not in env and 'AnsiFormat' not in self.locals and not isinstance(e.slice, ast.Slice):
            self.need_import('AnsiFormat', 'ansi_format')       # the member of that name; KeyError
            b, x, t = self.ex(e.slice, env)
            if t.r().kind != 'Str':
                raise Unsupported(ast.unparse(e))
            n = self.tmp()
            return b + [('optK', '(PyParse.formatMember %s)' % x, n)], n, MEMBER
        if isinstance(e, ast.Subscript):
            if isinstance(e.value, ast.Name) and isinstance(e.slice, ast.Constant) and (e.value.id, e.slice.value) in GLOBAL_ITEMS \
                    and e.value.id not in env and e.value.id not in self.locals:
                mod, text, ty = GLOBAL_ITEMS[(e.value.id, e.slice.value)]
                self.need_import(e.value.id, mod)
                return [], text, ty
            b, x, t = self.ex(e.value, env)
            t = t.r()
            if t.kind not in ('List', 'Str'):
                raise Unsupported('subscript of ' + repr(t))
            if isinstance(e.slice, ast.Slice):
                if e.slice.step is not None:
                    raise Unsupported('slice step')
                bounds = []
                for bd in (e.slice.lower, e.slice.upper):
                    if bd is None:
                        bounds.append('none')
                    else:
                        bb, bx, bt = self.ex(bd, env)
                        if bt.r().kind != 'Int':
                            raise Unsupported('slice bound ' + ast.unparse(bd))
                        b += bb
                        bounds.append('(some %s)' % bx)
                return b, '(Py.listSlice %s %s %s)' % (x, bounds[0], bounds[1]), t
            bi, i, ti = self.ex(e.slice, env)
            if ti.r().kind != 'Int':
                raise Unsupported('index ' + ast.unparse(e.slice))
            n = self.tmp()
            if t.kind == 'Str':         # a str of one character
                return b + bi + [('bind', 'Py.getIdx %s %s' % (x, i), n)], '[%s]' % n, STR
            return b + bi + [('bind', 'Py.getIdx %s %s' % (x, i), n)], n, t.elem
        if isinstance(e, ast.Call):
            return self.call(e, env)
        raise Unsupported(ast.unparse(e))

    def elem_default(self, t):
        """what a list holds whose first element has type t: ints and strs are kept as `Code`; in a function that
        returns a list of AnsiSettings and ints, those are kept as `SOut`"""
        if self.scalar_elem.kind == 'SOut' and t.kind in ('Int', 'SettingTxt'):
            return SOUT
        return self.scalar_elem if t.kind in SCALAR else t

    def coerce(self, x, t, want):
        """x : t as an element of a list / a value of the type `want`"""
        t, want = t.r(), want.r()
        if want.kind == 'Var':
            unify(want, self.elem_default(t))
            want = want.r()
        if t.kind == 'Var':
            unify(t, want)
            t = t.r()
        if want.kind == 'Code' and t.kind == 'Int':
            return '(Code.int %s)' % x
        if want.kind == 'Code' and t.kind == 'Str':
            return '(Code.str %s)' % x
        if want.kind == 'SOut' and t.kind == 'Int':
            return '(SOut.int %s)' % x
        if want.kind == 'SOut' and t.kind == 'SettingTxt':
            return '(SOut.setting %s)' % x
        if want.kind == 'Opt' and t.kind != 'Opt':
            return '(some %s)' % self.coerce(x, t, want.elem)
        if want.kind == 'List' and t.kind == 'List' and want.elem.r().kind == 'SOut' and t.elem.r().kind == 'SettingTxt':
            return '(%s.map SOut.setting)' % x
        unify(t, want, 'for ' + x)
        return x

    def attribute(self, x, t, attr):
        k = t.kind
        if k in SELF_INFO:
            info = SELF_INFO[k]
            if attr in info['fields']:
                field, ty, cache = info['fields'][attr]
                if not cache:
                    return [], '%s.%s' % (x, field), ty
                n = self.tmp()          # AttributeError when the attribute has not been assigned yet
                return [('bind', 'PyParse.getAttr %s.%s' % (x, field), n)], n, ty
            if attr in info['methods'] and info['methods'][attr][4]:
                return self.self_call(x, attr)
            raise Unsupported('attribute .%s of self' % attr)
        if k == 'CtlSeq' and attr in ('sequence', 'terminator'):
            return [], '%s.%s' % (x, attr), STR
        if k == 'Member' and attr == 'ansi_settings':          # a list nobody changes
            return [], '%s.2' % x, List_(STXT)
        if k == 'Opt':          # AttributeError on None
            n = self.tmp()
            b2, x2, t2 = self.attribute(n, t.elem.r(), attr)
            return [('bind', 'PyParse.getAttr %s' % x, n)] + b2, x2, t2
        if attr == 'parsable' and k == 'SettingTxt':
            return [], '(SettingTxt.parsable %s)' % x, BOOL
        if attr == 'parsable' and k == 'SettingObj':
            return [], '(SettingTxt.parsable %s.txt)' % x, BOOL
        if attr == 'valid' and k == 'SettingTxt':
            return [], '(SettingTxt.valid %s)' % x, BOOL
        if attr == 'valid' and k == 'SettingObj':
            return [], '(SettingTxt.valid %s.txt)' % x, BOOL
        if k == 'CtrlFn':
            if attr == 'total_seq_count':
                return [], '(((%s.1.length + %s.2 : Nat) : Int))' % (x, x), INT
            if attr == 'num_args':
                return [], '((%s.2 : Nat) : Int)' % x, INT
            if attr == 'setup_seq':           # a tuple of ints: never changed, so sharing it is harmless
                return [], '(%s.1.map Int.ofNat)' % x, List_(INT)
        if k == 'Param':
            if attr == 'effect_type':
                return [], '%s.1' % x, NAT
            if attr == 'effect_fn':
                return [], '%s.2' % x, NAT
        raise Unsupported('attribute .%s of %r' % (attr, t))

    def self_call(self, x, name):
        """a translated method of AnsiSetting called on self"""
        lean, mod, ty, mutates, _ = SELF_METHODS[name]
        if x != 'self':
            raise Unsupported('method of another object')
        self.deps.add(mod)
        n = self.tmp()
        if mutates:
            return [('self', 'Gen.%s %s' % (lean, x), n)], '%s.1' % n, ty
        return [('bind', 'Gen.%s %s' % (lean, x), n)], n, ty

    def truth(self, e, env):
        """-> (binds, Bool text): the truth value Python takes of e"""
        b, x, t = self.ex(e, env, test=True)
        k = t.r().kind
        if k == 'Bool':
            return b, x
        if k == 'Int':
            return b, '(%s != 0)' % x
        if k in ('Str', 'List', 'Dict'):
            return b, '(!(%s).isEmpty)' % x
        if k == 'Code':
            return b, '(PyParse.truthy %s)' % x
        if k in ('OptParam', 'OptMatch'):
            return b, '(%s).isSome' % x
        if k == 'OptStr':
            return b, '(PyParse.truthyOptStr %s)' % x
        if k == 'Match':
            return b, 'true'
        if k == 'Opt' and t.r().elem.r().kind == 'List':
            return b, '(Py.truthyOptList %s)' % x
        raise Unsupported('truth value of %r: %s' % (t, ast.unparse(e)))

    def compare(self, e, env):
        if len(e.ops) != 1:
            raise Unsupported('chained comparison ' + ast.unparse(e))
        op, a, c = e.ops[0], e.left, e.comparators[0]
        if isinstance(op, (ast.Is, ast.IsNot)):
            if not (isinstance(c, ast.Constant) and c.value is None):
                raise Unsupported(ast.unparse(e))
            b, x, t = self.ex(a, env)
            if t.r().kind not in NARROWED:
                raise Unsupported('is None of %r' % t)
            return b, '(%s).%s' % (x, 'isNone' if isinstance(op, ast.Is) else 'isSome'), BOOL
        bl, l, tl = self.ex(a, env)
        br, r, tr = self.ex(c, env)
        tl, tr = tl.r(), tr.r()
        if isinstance(op, (ast.In, ast.NotIn)):
            x = None
            if tr.kind == 'Dict' and tl.kind == 'Nat':
                x = '(PyDict.contains %s %s)' % (r, l)
            elif tr.kind == 'Seqs' and tl.kind == 'Int':
                x = '(PyParse.seqsHas %s %s)' % (r, l)
            elif tr.kind == 'Str' and tl.kind == 'Str':
                x = '(PyParse.strIn %s %s)' % (l, r)
            if x is not None:
                return bl + br, x if isinstance(op, ast.In) else '(!%s)' % x, BOOL
            raise Unsupported(ast.unparse(e))
        if isinstance(op, (ast.Eq, ast.NotEq)):
            if tl.kind == 'Code' and tr.kind in ('Int', 'Str'):
                r, tr = self.coerce(r, tr, CODE), CODE
            elif tr.kind == 'Code' and tl.kind in ('Int', 'Str'):
                l, tl = self.coerce(l, tl, CODE), CODE
            if tl.kind != tr.kind or tl.kind not in ('Int', 'Str', 'Nat', 'Bool', 'Code'):
                raise Unsupported('comparison of %r with %r: %s' % (tl, tr, ast.unparse(e)))
            return bl + br, '(%s %s %s)' % (l, '==' if isinstance(op, ast.Eq) else '!=', r), BOOL
        sym = {ast.Lt: '<', ast.LtE: '≤', ast.Gt: '>', ast.GtE: '≥'}.get(type(op))
        if sym and tl.kind == 'Int' and tr.kind == 'Int':
            return bl + br, '(decide (%s %s %s))' % (l, sym, r), BOOL
        raise Unsupported(ast.unparse(e))

    def static_isinstance(self, e, env):
        """isinstance(x, int|str) -> (name or None, text, type of x, 'int'|'str')"""
        if not (isinstance(e, ast.Call) and isinstance(e.func, ast.Name) and e.func.id == 'isinstance' and 'isinstance' not in self.locals
                and len(e.args) == 2 and not e.keywords and isinstance(e.args[1], ast.Name) and e.args[1].id in INSTANCE_OF
                and e.args[1].id not in env and e.args[1].id not in self.locals):
            return None
        return e.args[0], e.args[1].id

    @staticmethod
    def verdict(kind, cls):
        """isinstance(<a value of this static type>, cls): True, False, or None when only the value tells"""
        if kind in INSTANCE_OF[cls]:
            return True
        if kind in ('Code', 'SOut', 'Var', 'Opt') or kind.startswith('Opt'):
            return None
        return False

    def static_test(self, e, env):
        """the value of a condition that the static types decide and that evaluates nothing that can raise, or None"""
        if isinstance(e, ast.UnaryOp) and isinstance(e.op, ast.Not):
            v = self.static_test(e.operand, env)
            return None if v is None else not v
        if isinstance(e, ast.BoolOp):
            vs = [self.static_test(v, env) for v in e.values]
            if isinstance(e.op, ast.And):
                for v in vs:            # left to right: a False decides, an unknown before it does not
                    if v is None:
                        return None
                    if v is False:
                        return False
                return True
            for v in vs:
                if v is None:
                    return None
                if v is True:
                    return True
            return False
        si = self.static_isinstance(e, env)
        if si is not None and isinstance(si[0], ast.Name) and si[0].id in env:
            return self.verdict(env[si[0].id].r().kind, si[1])
        return None

    def call(self, e, env):
        f = e.func
        d = self.dotted(f) if isinstance(f, ast.Attribute) else None
        if d in ('AnsiFormat.rgb', 'AnsiFormat.color256') and 'AnsiFormat' not in env and 'AnsiFormat' not in self.locals:
            # the colour builders (not translated: the model's `colorSettings`), by their signatures
            self.need_import('AnsiFormat', 'ansi_format')
            names = {'AnsiFormat.rgb': ['r_or_rgb', 'g', 'b', 'component'], 'AnsiFormat.color256': ['val', 'component']}[d]
            if any(isinstance(a, ast.Starred) for a in e.args) or len(e.args) > len(names) or any(k.arg not in names[len(e.args):] for k in e.keywords) \
                    or len(set(k.arg for k in e.keywords)) != len(e.keywords):
                raise Unsupported(ast.unparse(e))
            given = dict(zip(names, e.args))
            given.update({k.arg: k.value for k in e.keywords})
            binds, vals = [], {}
            for n in names:             # positional first, then keywords, each in the order written: all pure here
                if n in given:
                    b, x, t = self.ex(given[n], env)
                    if b or t.r().kind != ('Nat' if n == 'component' else 'Int'):
                        raise Unsupported(ast.unparse(e))
                    vals[n] = x
            comp = vals.get('component', '(0 : Nat)')
            n = self.tmp()
            if d == 'AnsiFormat.color256' and 'val' in vals:
                return [('bind', 'PyParse.formatColor256 %s %s' % (vals['val'], comp), n)], n, List_(STXT)
            if d == 'AnsiFormat.rgb' and 'r_or_rgb' in vals and 'g' in vals and 'b' in vals:
                return [], '(PyParse.formatRgb3 %s %s %s %s)' % (vals['r_or_rgb'], vals['g'], vals['b'], comp), List_(STXT)
            if d == 'AnsiFormat.rgb' and 'r_or_rgb' in vals and 'g' not in vals and 'b' not in vals:
                return [('bind', 'PyParse.formatRgb1 %s %s' % (vals['r_or_rgb'], comp), n)], n, List_(STXT)
            raise Unsupported(ast.unparse(e))
        if e.keywords or any(isinstance(a, ast.Starred) for a in e.args):
            raise Unsupported(ast.unparse(e))
        if self.re_site(e) and 're' not in env and 're' not in self.locals:
            if self.imports.get('re') != 're' or f.attr != 'search' or len(e.args) != 2 or not (isinstance(e.args[0], ast.Constant) and isinstance(e.args[0].value, str)):
                raise Unsupported(ast.unparse(e)[:80])
            b, x, t = self.ex(e.args[1], env)
            if t.r().kind != 'Str':
                raise Unsupported(ast.unparse(e)[:80])
            self.deps.add('!Regexes')
            return b, '(Re.matchStart Gen.regex_%s_%d %s)' % (self.fn.name.lstrip('_'), self.re_sites[(e.lineno, e.col_offset)], x), OPTMATCH
        if isinstance(f, ast.Name) and f.id not in env and f.id not in self.locals:
            if f.id == 'len' and len(e.args) == 1:
                b, x, t = self.ex(e.args[0], env)
                if t.r().kind not in ('List', 'Str', 'Dict'):
                    raise Unsupported('len of %r' % t)
                return b, '((%s).length : Int)' % x, INT
            if f.id in ('list', 'dict') and len(e.args) == 1:
                b, x, t = self.ex(e.args[0], env)
                if t.r().kind != {'list': 'List', 'dict': 'Dict'}[f.id]:
                    raise Unsupported(ast.unparse(e))
                return b, x, t                                  # a copy: values are immutable here
            if f.id == 'isinstance':
                si = self.static_isinstance(e, env)
                if si is None:
                    raise Unsupported(ast.unparse(e))
                b, x, t = self.ex(si[0], env)
                k = t.r().kind
                if k == 'Code' and si[1] in ('int', 'str'):
                    return b, '(match %s with | .int _ => %s | .str _ => %s)' % (x, *(('true', 'false') if si[1] == 'int' else ('false', 'true'))), BOOL
                v = self.verdict(k, si[1])
                if v is not None:
                    return b, 'true' if v else 'false', BOOL
                raise Unsupported(ast.unparse(e))
            if f.id == 'parse_graphic_sequence' and len(e.args) == 2:
                self.need_import('parse_graphic_sequence', 'ansi_parsing')
                b1, x1, t1 = self.ex(e.args[0], env)
                b2, x2, t2 = self.ex(e.args[1], env)
                unify(t1, List_(CODE), 'argument of parse_graphic_sequence')
                if t2.r().kind != 'Bool':
                    raise Unsupported(ast.unparse(e))
                self.deps.add('ParseGraphicSequence')
                n = self.tmp()
                return b1 + b2 + [('call', 'Gen.parseGraphicSequenceList %s %s' % (x1, x2), n)], n, List_(STXT)
            if f.id == 'id' and len(e.args) == 1:
                b, x, t = self.ex(e.args[0], env)       # an identity: nothing can be done with it here but keep it
                return b, '()', IDENT
            if f.id == 'int' and len(e.args) == 2:
                # int(<digits>, base): base 10 or 16 on plain hexadecimal digits, as the patterns capture them
                b1, x1, t1 = self.ex(e.args[0], env)
                b2, x2, t2 = self.ex(e.args[1], env)
                if t1.r().kind == 'Str':
                    x1 = '(some %s)' % x1
                elif t1.r().kind != 'OptStr':
                    raise Unsupported(ast.unparse(e))
                if t2.r().kind != 'Int':
                    raise Unsupported(ast.unparse(e))
                n1, n2 = self.tmp(), self.tmp()
                return b1 + b2 + [('bind', 'PyParse.intBase %s %s' % (x1, x2), n1), ('opt', n1, n2)], n2, INT
            if f.id == 'int' and len(e.args) == 1:
                b, x, t = self.ex(e.args[0], env)
                if t.r().kind == 'Int':
                    return b, x, INT
                conv = {'Code': '(PyParse.int %s)', 'Str': '(Py.int %s)'}.get(t.r().kind)
                if conv is None:
                    raise Unsupported('int() of %r' % t)
                n = self.tmp()
                return b + [('opt', conv % x, n)], n, INT
            if f.id == 'ord' and len(e.args) == 1:
                b, x, t = self.ex(e.args[0], env)
                if t.r().kind == 'Str':         # TypeError unless it has one character
                    n = self.tmp()
                    return b + [('bind', 'PyParse.ordStr %s' % x, n)], n, INT
                if t.r().kind != 'Char':
                    raise Unsupported('ord() of %r' % t)
                return b, '((%s).toNat : Int)' % x, INT
            if f.id == 'AnsiControlSequence' and len(e.args) == 2:
                self.need_import('AnsiControlSequence', CLASSES['AnsiControlSequence'])
                b1, x1, t1 = self.ex(e.args[0], env)
                b2, x2, t2 = self.ex(e.args[1], env)
                if t1.r().kind != 'Str' or t2.r().kind != 'Str':
                    raise Unsupported(ast.unparse(e))
                return b1 + b2, '(CtlSeq.mk %s %s)' % (x1, x2), CTLSEQ
            if f.id == 'hasattr' and len(e.args) == 2 and isinstance(e.args[1], ast.Constant) and e.args[1].value in SELF_FIELDS \
                    and SELF_FIELDS[e.args[1].value][2]:
                b, x, t = self.ex(e.args[0], env)
                if t.r().kind != 'Self':
                    raise Unsupported(ast.unparse(e))
                return b, '(%s.%s).isSome' % (x, SELF_FIELDS[e.args[1].value][0]), BOOL
            if f.id == 'AnsiParam' and len(e.args) == 1:
                self.need_import('AnsiParam', CLASSES['AnsiParam'])
                b, x, t = self.ex(e.args[0], env)
                conv = {'Int': '(ansiParam %s)', 'Code': '(PyParse.ansiParamCode %s)'}.get(t.r().kind)
                if conv is None:
                    raise Unsupported('AnsiParam of %r' % t)
                n = self.tmp()
                return b + [('opt', conv % x, n)], n, PARAM
            if f.id == 'AnsiSetting' and len(e.args) == 1:
                self.need_import('AnsiSetting', CLASSES['AnsiSetting'])
                b, x, t = self.ex(e.args[0], env)
                t = t.r()
                if t.kind == 'List' and t.elem.r().kind == 'Var':
                    unify(t.elem, CODE)
                fnm = {'Str': 'settingOfStr', 'Int': 'settingOfInt', 'Code': 'settingOfCode', 'SettingTxt': 'settingOfStr'}.get(t.kind)
                if t.kind == 'List' and t.elem.r().kind == 'Code':
                    fnm = 'settingOfCodes'
                if fnm is None:
                    raise Unsupported('AnsiSetting of %r' % t)
                n = self.tmp()
                return b + [('bind', 'PyParse.%s %s' % (fnm, x), n)], n, STXT
            raise Unsupported('call of ' + f.id)
        if isinstance(f, ast.Attribute) and isinstance(f.value, ast.Name) and f.value.id == '__class__' and '__class__' not in env \
                and self.cls is not None and (self.cls, f.attr) in STATIC_CALLS:
            # another static method of the class, translated as well; what it raises passes through
            b = []
            args = [self.ex(a, env) for a in e.args]
            for a in args:
                b = b + a[0]
            cands = STATIC_CALLS[(self.cls, f.attr)]
            for lean, mod, ptys, rty, fuel in cands:
                if len(args) <= len(ptys) and all(same(a[2], pt) or (a[2].r().kind == 'List' and pt.kind == 'List' and
                                                                    (a[2].r().elem.r().kind == 'Var' or same(a[2].r().elem, pt.elem)))
                                                   for a, pt in zip(args, ptys)) and len(args) == len(ptys):
                    for a, pt in zip(args, ptys):
                        unify(a[2], pt, 'argument of ' + f.attr)
                    self.deps.add(mod)
                    if fuel:
                        self.uses_fuel = True
                    n = self.tmp()
                    return b + [('call', 'Gen.%s %s%s' % (lean, 'fuel_ ' if fuel else '', ' '.join(a[1] for a in args)), n)], n, rty
            raise Unsupported('call of %s with these types' % f.attr)
        if isinstance(f, ast.Attribute):
            b, x, t = self.ex(f.value, env)
            k = t.r().kind
            args = [self.ex(a, env) for a in e.args]
            for a in args:
                b = b + a[0]
            if f.attr == 'group' and k == 'Match' and len(e.args) == 1 and isinstance(e.args[0], ast.Constant) \
                    and isinstance(e.args[0].value, int) and not isinstance(e.args[0].value, bool) and e.args[0].value >= 1:
                return b, '(Re.group %s %d)' % (x, e.args[0].value), OPTSTR       # None when the group took no part
            if f.attr == 'get' and k == 'CompDict' and len(args) == 2 and args[0][2].r().kind in ('Str', 'OptStr') and args[1][2].r().kind == 'Nat':
                key = args[0][1] if args[0][2].r().kind == 'OptStr' else '(some %s)' % args[0][1]
                return b, '(PyParse.dictGetD %s %s %s)' % (x, key, args[1][1]), NAT
            if f.attr == 'strip' and k == 'Str' and not args:
                return b, '(Py.strip %s)' % x, STR
            if f.attr == 'split' and k == 'Str' and len(args) == 1 and args[0][2].r().kind == 'Str':
                n = self.tmp()
                return b + [('bind', 'PyParse.split %s %s' % (x, args[0][1]), n)], n, List_(STR)
            if f.attr == 'split' and k == 'Str' and len(args) == 2 and args[0][2].r().kind == 'Str' \
                    and isinstance(e.args[1], ast.Constant) and e.args[1].value == 1 and not isinstance(e.args[1].value, bool):
                n = self.tmp()          # maxsplit = 1
                return b + [('bind', 'PyParse.split1 %s %s' % (x, args[0][1]), n)], n, List_(STR)
            if f.attr == 'upper' and k == 'Str' and not args:
                return b, '(PyParse.upper %s)' % x, STR
            if f.attr == 'replace' and k == 'Str' and len(args) == 2 and all(isinstance(a, ast.Constant) and isinstance(a.value, str)
                                                                            and len(a.value) == 1 for a in e.args):
                return b, '(PyParse.replaceChar %s %s %s)' % (x, lean_char(e.args[0].value), lean_char(e.args[1].value)), STR
            if f.attr == 'startswith' and k == 'Str' and len(args) == 1 and args[0][2].r().kind == 'Str':
                return b, '(Py.startsWith %s %s)' % (x, args[0][1]), BOOL
            if f.attr == 'isdigit' and k == 'Str' and not args:
                return b, '(Py.isdigit %s)' % x, BOOL
            if k in SELF_INFO and f.attr in SELF_INFO[k]['methods'] and not SELF_INFO[k]['methods'][f.attr][4] and not args:
                b2, x2, t2 = self.self_call(x, f.attr)
                return b + b2, x2, t2
            if f.attr == 'seq_starts_with_fn' and k == 'CtrlFn' and len(args) == 1:
                ta = args[0][2].r()
                if ta.kind == 'List':
                    unify(ta.elem, CODE)
                    return b, '(SettingTxt.startsWithFn %s.1 %s)' % (x, args[0][1]), BOOL
            if f.attr == 'get_initial_param' and not args:
                if k == 'SettingObj':
                    return b, '(SettingTxt.initialParam %s.txt)' % x, OPTPARAM
                if k == 'SettingTxt':
                    return b, '(SettingTxt.initialParam %s)' % x, OPTPARAM
            raise Unsupported('method .%s of %r' % (f.attr, t))
        raise Unsupported(ast.unparse(e))

    # -- statements -----------------------------------------------------------------------------------

    def wrap(self, binds, lines, ctx):
        """the lines, after what has to be evaluated before them"""
        for kind, x, n in reversed(binds):
            if kind == 'call' and ctx is not None and ctx.handler:
                raise Unsupported('a call of a translated function inside try')     # what it raises would have to reach the handler
            if kind in ('bind', 'call'):
                lines = ['(%s).bind fun %s =>' % (x, n)] + lines
            elif kind == 'self':
                lines = ['(%s).bind fun %s =>' % (x, n), 'let self : PyParse.SObj := %s.2' % n] + lines
            else:
                cls = 'KeyError' if kind == 'optK' else 'ValueError'
                handler = ctx.handler[cls] if ctx.handler and cls in ctx.handler else [ERRORS[cls]]
                lines = ['(match %s with' % x, '| none =>'] + ind(handler) + ['| some %s =>' % n] + ind(lines)
                lines[-1] += ')'
        return lines

    def stores(self, stmts, out=None):
        """name -> kinds of stores ('bind', 'item', 'append', 'del'), in order of first occurrence"""
        out = {} if out is None else out

        def add(n, k):
            out.setdefault(n, set()).add(k)

        def target(t, k='bind'):
            if isinstance(t, ast.Name):
                add(t.id, k)
            elif isinstance(t, (ast.Tuple, ast.List)):
                for x in t.elts:
                    target(x, k)
            elif isinstance(t, ast.Subscript) and isinstance(t.value, ast.Name):
                add(t.value.id, 'item' if k == 'bind' else 'del')
            elif isinstance(t, ast.Attribute) and isinstance(t.value, ast.Name) and k == 'bind':
                add(t.value.id, 'bind')
            elif isinstance(t, ast.Subscript) and isinstance(t.value, ast.Attribute) and isinstance(t.value.value, ast.Name):
                add(t.value.value.id, 'bind')        # self.sequences[k] = …
            else:
                raise Unsupported('store into ' + ast.unparse(t))
        for s in stmts:
            for n in ast.walk(s):       # reading a translated property that fills its cache changes self
                if isinstance(n, ast.Attribute) and isinstance(n.value, ast.Name) and n.value.id == 'self' \
                        and n.attr in SELF_METHODS and SELF_METHODS[n.attr][3]:
                    add('self', 'bind')
            if isinstance(s, ast.Assign):
                for t in s.targets:
                    target(t)
            elif isinstance(s, (ast.AnnAssign, ast.AugAssign)):
                target(s.target)
            elif isinstance(s, ast.Delete):
                for t in s.targets:
                    target(t, 'del')
            elif isinstance(s, ast.Expr) and isinstance(s.value, ast.Call) and isinstance(s.value.func, ast.Attribute) \
                    and isinstance(s.value.func.value, ast.Name) and s.value.func.attr in ('append', 'extend', 'insert', 'pop', 'remove', 'clear', 'sort', 'reverse', 'update', 'setdefault', 'popitem'):
                add(s.value.func.value.id, 'append')
            elif isinstance(s, ast.Expr) and isinstance(s.value, ast.Call) and isinstance(s.value.func, ast.Attribute) \
                    and s.value.func.attr == 'append' and isinstance(s.value.func.value, ast.Subscript) \
                    and isinstance(s.value.func.value.value, ast.Attribute) and isinstance(s.value.func.value.value.value, ast.Name):
                add(s.value.func.value.value.value.id, 'bind')      # self.sequences[k].append(…)
            elif isinstance(s, ast.While):
                self.stores(s.body, out)
                self.stores(s.orelse, out)
            elif isinstance(s, ast.If):
                self.stores(s.body, out)
                self.stores(s.orelse, out)
            elif isinstance(s, ast.For):
                target(s.target)
                self.stores(s.body, out)
                self.stores(s.orelse, out)
            elif isinstance(s, ast.Try):
                self.stores(s.body, out)
                for h in s.handlers:
                    if h.name:
                        add(h.name, 'bind')
                    self.stores(h.body, out)
                self.stores(s.orelse, out)
                self.stores(s.finalbody, out)
            elif isinstance(s, (ast.With, ast.FunctionDef, ast.ClassDef, ast.Global, ast.Nonlocal, ast.Import, ast.ImportFrom, ast.Match)):
                raise Unsupported(type(s).__name__)
        return out

    def falls(self, stmts):
        """can control reach the end of the block"""
        for s in stmts:
            if isinstance(s, (ast.Return, ast.Continue, ast.Raise, ast.Break)):
                return False
            if isinstance(s, ast.If) and s.orelse and not self.falls(s.body) and not self.falls(s.orelse):
                return False
            if isinstance(s, ast.Try) and not self.falls(list(s.body) + list(s.orelse)) and not any(self.falls(h.body) for h in s.handlers):
                return False
        return True

    def bind_name(self, name, x, t, env):
        """`name = x` -> lines; env is updated"""
        t = t.r()
        if name in env and env[name].r().kind == 'Opt' and t.kind != 'Opt':
            x, t = self.coerce(x, t, env[name]), env[name].r()        # a variable that may hold None
        if name in env:
            unify(env[name], t, 'for ' + name)       # a variable keeps its type
        env[name] = t
        return ['let %s : %s := %s' % (mangle(name), lean_ty(t), x)]

    def assign(self, target, x, t, env):
        """target = x (x : t, already evaluated) -> lines"""
        if isinstance(target, ast.Name):
            return self.bind_name(target.id, x, t, env)
        if isinstance(target, ast.Subscript) and isinstance(target.value, ast.Name) and not isinstance(target.slice, ast.Slice):
            name = target.value.id
            if name not in env:
                raise Unsupported('name ' + name)
            tc = env[name].r()
            bk, k, tk = self.ex(target.slice, env)
            if any(kind.startswith('opt') for kind, _, _ in bk):
                raise Unsupported('subscript of the target: ' + ast.unparse(target))
            lines = self.wrap(bk, [], None)
            if tc.kind == 'List' and tk.r().kind == 'Int':
                v = self.coerce(x, t, tc.elem)
                return lines + ['(Py.setIdx %s %s %s).bind fun %s =>' % (mangle(name), k, v, mangle(name))]
            if tc.kind == 'Dict' and tk.r().kind == 'Nat' and t.r().kind == 'SettingObj':
                return lines + ['let %s : PyDict := (PyDict.insert %s %s %s)' % (mangle(name), mangle(name), k, x)]
        if isinstance(target, ast.Subscript) and isinstance(target.value, ast.Name) and isinstance(target.slice, ast.Slice) \
                and target.value.id in env and env[target.value.id].r().kind == 'List' and target.slice.step is None \
                and target.slice.lower is not None and target.slice.upper is not None:
            name = target.value.id          # l[a:b] = v
            b1, lo, t1 = self.ex(target.slice.lower, env)
            b2, hi, t2 = self.ex(target.slice.upper, env)
            if b1 or b2 or t1.r().kind != 'Int' or t2.r().kind != 'Int':
                raise Unsupported('assignment to ' + ast.unparse(target))
            v = self.coerce(x, t, env[name])
            return ['let %s : %s := (Py.sliceAssign %s %s %s %s)' % (mangle(name), lean_ty(env[name]), mangle(name), lo, hi, v)]
        if isinstance(target, ast.Attribute) and isinstance(target.value, ast.Name) and target.value.id in env \
                and env[target.value.id].r().kind in SELF_INFO and target.attr in SELF_INFO[env[target.value.id].r().kind]['fields']:
            info = SELF_INFO[env[target.value.id].r().kind]
            field, ty, cache = info['fields'][target.attr]
            if ty.kind == 'Seqs' and t.r().kind == 'Dict' and x == '([] : PyDict)':
                x, t = '([] : %s)' % lean_ty(SEQS), SEQS          # `{}`
            unify(t, ty, 'for ' + ast.unparse(target))
            n = mangle(target.value.id)
            return ['let %s : %s := { %s with %s := %s }' % (n, info['lean'], n, field, 'some %s' % x if cache else x)]
        if isinstance(target, ast.Subscript) and isinstance(target.value, ast.Attribute) and not isinstance(target.slice, ast.Slice):
            # self.sequences[k] = v
            bo, xo, to = self.ex(target.value, env)
            bk, kx, tk = self.ex(target.slice, env)
            if bo or any(kind.startswith('opt') for kind, _, _ in bk) or not isinstance(target.value.value, ast.Name):
                raise Unsupported('assignment to ' + ast.unparse(target))
            if to.r().kind == 'Seqs' and tk.r().kind == 'Int':
                unify(t, List_(CTLSEQ), 'for ' + ast.unparse(target))
                n = self.tmp()
                return self.wrap(bk, [], None) + ['(PyParse.seqsSet %s %s %s).bind fun %s =>' % (xo, kx, x, n)] + \
                    self.assign(target.value, n, SEQS, env)
        raise Unsupported('assignment to ' + ast.unparse(target))

    def value_for_store(self, e, env):
        """the right-hand side of an assignment; a bare mutable name would create an alias"""
        b, x, t = self.ex(e, env)
        if t.r().kind in MUTABLE and isinstance(e, (ast.Name, ast.Attribute, ast.Subscript)) and not \
                (isinstance(e, ast.Subscript) and isinstance(e.slice, ast.Slice)):
            raise Unsupported('a second name for a list or dict: ' + ast.unparse(e))
        return b, x, t

    def block(self, stmts, env, k, ctx):
        """lines of the block followed by k(env) (what comes after it)"""
        if not stmts:
            return k(env)
        s, rest = stmts[0], stmts[1:]
        go = lambda env2: self.block(rest, env2, k, ctx)
        if isinstance(s, ast.Pass) or (isinstance(s, ast.Expr) and isinstance(s.value, ast.Constant) and isinstance(s.value.value, str)):
            return go(env)
        if isinstance(s, ast.Assign):
            if len(s.targets) != 1:
                raise Unsupported(ast.unparse(s))
            if isinstance(s.targets[0], ast.Subscript) and isinstance(s.targets[0].slice, ast.Slice):
                b, x, t = self.ex(s.value, env)         # l[a:b] = v copies the items of v
            else:
                b, x, t = self.value_for_store(s.value, env)
            env = dict(env)
            return self.wrap(b, self.assign(s.targets[0], x, t, env) + go(env), ctx)
        if isinstance(s, ast.AnnAssign):
            if s.value is None or not isinstance(s.target, (ast.Name, ast.Attribute)):
                raise Unsupported(ast.unparse(s))
            b, x, t = self.value_for_store(s.value, env)
            if isinstance(s.target, ast.Name):
                ann = annotation(s.annotation)
                if len(ann) != 1:
                    raise Unsupported(ast.unparse(s))
                unify(t, ann[0], 'annotation of ' + s.target.id)
            env = dict(env)
            return self.wrap(b, self.assign(s.target, x, t, env) + go(env), ctx)
        if isinstance(s, ast.AugAssign):
            # target op= value: the target is read first (a name or an attribute of self: reading cannot raise here)
            if not (isinstance(s.target, (ast.Name, ast.Attribute)) and isinstance(s.op, (ast.Add, ast.Sub))):
                raise Unsupported(ast.unparse(s))
            bt, n, tt = self.ex(s.target, env)
            b, x, t = self.ex(s.value, env)
            if bt:
                raise Unsupported(ast.unparse(s))
            if tt.r().kind == 'Int' and t.r().kind == 'Int':
                new, ty = '(%s %s %s)' % (n, '+' if isinstance(s.op, ast.Add) else '-', x), INT
            elif tt.r().kind == 'Str' and t.r().kind == 'Str' and isinstance(s.op, ast.Add):
                new, ty = '(%s ++ %s)' % (n, x), STR
            elif tt.r().kind == 'List' and isinstance(s.op, ast.Add) and t.r().kind in ('List', 'Opt'):
                if t.r().kind == 'Opt':             # TypeError when it is None (here: outside)
                    n2 = self.tmp()
                    b, x, t = b + [('bind', 'Py.optGet %s' % x, n2)], n2, t.r().elem
                if tt.r().elem.r().kind == 'Var':
                    unify(tt.r().elem, self.elem_default(t.r().elem.r()))
                new, ty = '(%s ++ %s)' % (n, self.coerce(x, t, tt)), tt
            else:
                raise Unsupported(ast.unparse(s))
            env = dict(env)
            return self.wrap(b, self.assign(s.target, new, ty, env) + go(env), ctx)
        if isinstance(s, ast.Delete):
            if len(s.targets) != 1:
                raise Unsupported(ast.unparse(s))
            t0 = s.targets[0]
            if not (isinstance(t0, ast.Subscript) and isinstance(t0.value, ast.Name) and t0.value.id in env and not isinstance(t0.slice, ast.Slice)):
                raise Unsupported(ast.unparse(s))
            name = mangle(t0.value.id)
            tc = env[t0.value.id].r()
            bk, kx, tk = self.ex(t0.slice, env)
            if tc.kind == 'Dict' and tk.r().kind == 'Nat':
                return self.wrap(bk, ['(PyParse.dictDel %s %s).bind fun %s =>' % (name, kx, name)] + go(env), ctx)
            if tc.kind == 'List' and tk.r().kind == 'Int':
                return self.wrap(bk, ['(Py.delIdx %s %s).bind fun %s =>' % (name, kx, name)] + go(env), ctx)
            raise Unsupported(ast.unparse(s))
        if isinstance(s, ast.Expr):
            c = s.value
            if isinstance(c, ast.Call) and isinstance(c.func, ast.Attribute) and c.func.attr == 'append' and isinstance(c.func.value, ast.Name) \
                    and len(c.args) == 1 and not c.keywords and c.func.value.id in env and env[c.func.value.id].r().kind == 'List':
                name = c.func.value.id
                b, x, t = self.value_for_store(c.args[0], env)
                v = self.coerce(x, t, env[name].r().elem)
                env = dict(env)
                return self.wrap(b, self.bind_name(name, '(%s ++ [%s])' % (mangle(name), v), env[name], env) + go(env), ctx)
            if isinstance(c, ast.Call) and isinstance(c.func, ast.Attribute) and c.func.attr == 'append' and len(c.args) == 1 and not c.keywords \
                    and isinstance(c.func.value, ast.Subscript) and isinstance(c.func.value.value, ast.Attribute) \
                    and not isinstance(c.func.value.slice, ast.Slice):
                # self.sequences[k].append(v): the list inside the dictionary grows
                tgt = c.func.value
                bo, xo, to = self.ex(tgt.value, env)
                bk, kx, tk = self.ex(tgt.slice, env)
                bv, vx, tv = self.ex(c.args[0], env)
                if bo or to.r().kind != 'Seqs' or tk.r().kind != 'Int' or tv.r().kind != 'CtlSeq':
                    raise Unsupported(ast.unparse(s))
                n = self.tmp()
                env = dict(env)
                return self.wrap(bk + bv, ['(PyParse.seqsAppend %s %s %s).bind fun %s =>' % (xo, kx, vx, n)] +
                                 self.assign(tgt.value, n, SEQS, env) + go(env), ctx)
            if isinstance(c, ast.Call):               # evaluated for what it may raise
                b, x, t = self.ex(c, env)
                return self.wrap(b, go(env), ctx)
            raise Unsupported(ast.unparse(s))
        if isinstance(s, ast.Return) and getattr(ctx, 'cond', False):       # the value of a loop condition
            return ctx.ret('true' if s.value.value else 'false')
        if isinstance(s, ast.Return):
            if s.value is None:
                raise Unsupported('return without a value')
            if ctx.ret is None:
                raise Unsupported('return inside while')
            if isinstance(s.value, ast.Constant) and s.value.value is None:
                if not self.ret_optional:
                    raise Unsupported('return None')
                if self.ret_param:
                    b, x, t = [], '(none : Option (Nat × Nat))', OPTPARAM
                else:
                    t = Ty('Opt', Ty('Var'))
                    b, x = [], '(none : %s)' % lean_ty(self.ret)
                    unify(self.ret, t, 'returned')
                    t = self.ret
            else:
                b, x, t = self.ex(s.value, env)
                if self.ret_optional and t.r().kind == 'Param':
                    x, t = '(some %s)' % x, OPTPARAM
                elif self.ret_optional and not self.ret_param and t.r().kind != 'Opt':
                    x, t = '(some %s)' % x, Ty('Opt', t)
            if self.ret.r().kind == 'List' and t.r().kind == 'List':
                x, t = self.coerce(x, t, self.ret), self.ret
            unify(self.ret, t, 'returned')
            return self.wrap(b, ctx.ret(x), ctx)
        if isinstance(s, ast.Raise):
            e = s.exc
            if isinstance(e, ast.Call) and not e.keywords:       # the message is not modelled
                e = e.func
            if s.cause is not None or not (isinstance(e, ast.Name) and e.id == 'ValueError' and 'ValueError' not in self.locals):
                raise Unsupported(ast.unparse(s))
            return list(ctx.handler['ValueError']) if ctx.handler and 'ValueError' in ctx.handler else [ERRORS['ValueError']]
        if isinstance(s, ast.Continue):
            if not ctx.in_loop:
                raise Unsupported('continue outside a loop')
            return ctx.cont(env)
        if isinstance(s, ast.If):
            return self.if_(s, rest, env, k, ctx)
        if isinstance(s, ast.Try):
            return self.try_(s, rest, env, k, ctx)
        if isinstance(s, ast.For):
            return self.for_(s, rest, env, k, ctx)
        if isinstance(s, ast.While):
            return self.while_(s, rest, env, k, ctx)
        raise Unsupported(type(s).__name__ + ': ' + ast.unparse(s).split('\n')[0])

    # several ways on, one continuation ---------------------------------------------------------------

    def branching(self, alts, rest, env, k, ctx, assemble, extra=None, force=False):
        """alts = [(env of the branch, statements or a function (k) -> lines)];  assemble(list of the lines of
        each branch) -> lines.  What follows (`rest`, then k) is placed after the one branch that goes on, or
        into a local function when several do."""
        def run(a_env, body, kk):
            return body(a_env, kk) if callable(body) else self.block(body, dict(a_env), kk, ctx)
        going = [callable(body) or self.falls(body) for _, body in alts]
        if not rest or (sum(going) <= 1 and not force):
            # what follows sees the branch's own view of the variables (a narrowed `value`, names bound in the branch)
            kk = lambda env_b: self.block(rest, dict(env_b), k, ctx)
            return assemble([run(a_env, body, kk) for a_env, body in alts])
        # join point
        self.njoin += 1
        jn = 'k%d_' % self.njoin
        ends = []

        def kk(env_b):
            self.nmark += 1
            ends.append((self.nmark, env_b))
            return ['⟪J%d⟫' % self.nmark]
        out = [run(a_env, body, kk) for a_env, body in alts]
        assigned = dict(extra or {})         # `extra`: what a branch given as a function assigns
        for a_env, body in alts:
            if not callable(body):
                self.stores(body, assigned)
        params = [n for n in env if n in assigned]
        # names first bound in every branch that goes on
        if ends:
            for n in ends[0][1]:
                if n not in env and n in assigned and all(n in e and same(e[n], ends[0][1][n]) for _, e in ends):
                    params.append(n)
        jenv = dict(env)
        for n in params:
            if n in env:
                for _, e in ends:
                    unify(e[n], env[n], 'for %s at the end of a branch' % n)
            else:
                jenv[n] = ends[0][1][n]
        call = ' '.join([jn] + [mangle(n) for n in params])
        lines = assemble(out)
        lines = [re.sub(r'⟪J(\d+)⟫', lambda m: call if any(int(m.group(1)) == i for i, _ in ends) else m.group(0), l) for l in lines]
        body = self.block(rest, jenv, k, ctx)
        ty = ' → '.join([lean_ty(jenv[n], True) for n in params] + ['Except Exc %s' % ctx.result])
        if params:
            head = ['let %s : %s := (fun %s =>' % (jn, ty, ' '.join(mangle(n) for n in params))]
        else:
            head = ['let %s : %s := (' % (jn, ty)]
        body = ind(body, 4)
        body[-1] += ')'
        return head + body + lines

    def if_(self, s, rest, env, k, ctx):
        test, body, orelse = s.test, s.body, s.orelse
        if isinstance(test, ast.UnaryOp) and isinstance(test.op, ast.Not) and isinstance(test.operand, ast.BoolOp):
            return self.if_(ast.If(test=test.operand, body=list(orelse), orelse=list(body)), rest, env, k, ctx)
        if isinstance(test, ast.BoolOp) and len(test.values) >= 2:
            # `a or b` / `a and b` where b can raise, or relies on what `isinstance` in a established: nested ifs
            saved = (self.ntmp, set(self.deps))
            try:
                self.truth(test, env)
                plain = True
            except Unsupported:
                plain = False
            self.ntmp, self.deps = saved
            if not plain:
                first = test.values[0]
                others = test.values[1] if len(test.values) == 2 else ast.BoolOp(op=test.op, values=list(test.values[1:]))
                if isinstance(test.op, ast.Or):
                    new = ast.If(test=first, body=list(body), orelse=[ast.If(test=others, body=list(body), orelse=list(orelse))])
                else:
                    new = ast.If(test=first, body=[ast.If(test=others, body=list(body), orelse=list(orelse))], orelse=list(orelse))
                return self.if_(new, rest, env, k, ctx)
        st = self.static_test(test, env)
        if st is not None:          # decided by the types the function is being translated for
            return self.block(list(body if st else orelse) + list(rest), env, k, ctx)
        neg = False
        while isinstance(test, ast.UnaryOp) and isinstance(test.op, ast.Not) and \
                (self.static_isinstance(test.operand, env) or self.none_test(test.operand, env)):
            test, neg = test.operand, not neg
        si = self.static_isinstance(test, env)
        if si is not None and isinstance(si[0], ast.Name) and si[0].id in env:
            name, cls = si[0].id, si[1]
            kind = env[name].r().kind
            a, b = (orelse, body) if neg else (body, orelse)          # a: is an instance
            if kind == 'Code' and cls in ('int', 'str'):
                e_int, e_str = dict(env), dict(env)
                e_int[name], e_str[name] = INT, STR
                first, second = (a, b) if cls == 'int' else (b, a)
                n = mangle(name)

                def assemble(outs):
                    l = ['(match %s with' % n, '| .int %s =>' % n] + ind(outs[0]) + ['| .str %s =>' % n] + ind(outs[1])
                    l[-1] += ')'
                    return l
                return self.branching([(e_int, first), (e_str, second)], rest, env, k, ctx, assemble)
            v = self.verdict(kind, cls)
            if v is not None:
                # decided by the type the function is being translated for
                return self.block(list(a if v else b) + list(rest), env, k, ctx)
        elif si is not None and not isinstance(si[0], ast.Name):
            # isinstance(<expression>, cls): the expression is evaluated (it may raise), its static type decides
            bx, xx, tx = self.ex(si[0], env)
            v = self.verdict(tx.r().kind, si[1])
            if v is None:
                raise Unsupported(ast.unparse(test))
            a, b = (orelse, body) if neg else (body, orelse)
            return self.wrap(bx, self.block(list(a if v else b) + list(rest), env, k, ctx), ctx)
        nt = self.none_test(test, env)
        if nt is None and isinstance(test, ast.Name) and test.id in env and env[test.id].r().kind == 'OptMatch':
            nt = (test.id, False)           # `if match:` — a match object is true
        if nt is not None:
            name, is_none = nt
            if neg:
                is_none = not is_none
            a, b = (body, orelse) if is_none else (orelse, body)      # a: None
            e_some = dict(env)
            e_some[name] = NARROWED[env[name].r().kind]
            n = mangle(name)

            def assemble(outs):
                l = ['(match %s with' % n, '| some %s =>' % n] + ind(outs[0]) + ['| none =>'] + ind(outs[1])
                l[-1] += ')'
                return l
            return self.branching([(e_some, b), (dict(env), a)], rest, env, k, ctx, assemble)
        bt, x = self.truth(test, env)
        if neg:
            x = '(!%s)' % x

        def assemble(outs):
            return self.wrap(bt, ['if %s then' % x] + ind(outs[0]) + ['else'] + ind(outs[1]), ctx)
        return self.branching([(dict(env), body), (dict(env), orelse)], rest, env, k, ctx, assemble)

    def none_test(self, e, env):
        if isinstance(e, ast.Compare) and len(e.ops) == 1 and isinstance(e.ops[0], (ast.Is, ast.IsNot)) and isinstance(e.left, ast.Name) \
                and isinstance(e.comparators[0], ast.Constant) and e.comparators[0].value is None \
                and e.left.id in env and env[e.left.id].r().kind in NARROWED:
            return e.left.id, isinstance(e.ops[0], ast.Is)
        return None

    def try_(self, s, rest, env, k, ctx):
        """try: <body>  except ValueError: <handler>  [else: <orelse>].  Inside <body>, what raises ValueError
        (`raise ValueError()`, `int(<str>)`, `AnsiParam(<int>)`) goes to the handler — a local function `hN_` of
        the variables <body> assigns; other exceptions pass.  <orelse> runs after <body>, outside the handler."""
        if s.finalbody or len(s.handlers) != 1:
            raise Unsupported('try: ' + ast.unparse(s).split('\n')[1])
        h = s.handlers[0]
        if h.name is not None or not (isinstance(h.type, ast.Name) and h.type.id in ERRORS and h.type.id not in self.locals):
            raise Unsupported('except clause')
        assigned = self.stores(s.body)
        params = [n for n in env if n in assigned]

        def alt(a_env, kk):
            self.njoin += 1
            hn = 'h%d_' % self.njoin
            hbody = self.block(h.body, dict(a_env), kk, ctx)
            ty = ' → '.join([lean_ty(a_env[n], True) for n in params] + ['Except Exc %s' % ctx.result])
            head = ['let %s : %s := (%s' % (hn, ty, 'fun %s =>' % ' '.join(mangle(n) for n in params) if params else '')]
            hbody = ind(hbody, 4)
            hbody[-1] += ')'
            handlers = dict(ctx.handler or {})       # what this `try` does not catch goes to an enclosing one
            handlers[h.type.id] = [' '.join([hn] + [mangle(n) for n in params])]
            inner = ctx.but(handler=handlers)
            body = self.block(s.body, dict(a_env), lambda e: self.block(s.orelse, e, kk, ctx), inner)
            return head + hbody + body
        force = bool(rest) and self.falls(h.body) and self.falls(list(s.body) + list(s.orelse))
        return self.branching([(dict(env), alt)], rest, env, k, ctx, lambda outs: outs[0], extra=self.stores([s]), force=force)

    def for_(self, s, rest, env, k, ctx):
        if s.orelse:
            raise Unsupported('for … else')
        if ctx.handler is not None:
            raise Unsupported('a loop inside try')          # a ValueError raised in a round could not reach the handler
        body_stores = self.stores(s.body)
        has_return = any(isinstance(n, ast.Return) for st in s.body for n in ast.walk(st))
        it = s.iter
        pre = []           # lines at the start of each round
        targets = {}
        it_binds = []
        if isinstance(it, ast.Call) and isinstance(it.func, ast.Name) and it.func.id == 'enumerate' and 'enumerate' not in self.locals \
                and len(it.args) == 1 and not it.keywords and isinstance(it.args[0], ast.Name) and it.args[0].id in env \
                and env[it.args[0].id].r().kind == 'List' and isinstance(s.target, ast.Tuple) and len(s.target.elts) == 2 \
                and all(isinstance(x, ast.Name) for x in s.target.elts):
            live = it.args[0].id
            i_n, v_n = s.target.elts[0].id, s.target.elts[1].id
            if i_n == v_n:
                raise Unsupported('for target')
            if body_stores.get(live, set()) - {'item'}:
                raise Unsupported('the loop over %s changes more than its items' % live)
            item_ty, item_pat = INT, mangle(i_n)
            targets = {i_n: INT, v_n: env[live].r().elem}
            pre = ['(Py.getIdx %s %s).bind fun %s =>' % (mangle(live), mangle(i_n), mangle(v_n))]
            over = '(Py.rangeAsc ((%s).length : Int))' % mangle(live)
        elif isinstance(it, ast.Name) and it.id in ITERABLE_GLOBALS and it.id not in env and it.id not in self.locals and isinstance(s.target, ast.Name):
            mod, over, item_ty = ITERABLE_GLOBALS[it.id]
            self.need_import(it.id, mod)
            item_pat = mangle(s.target.id)
            targets = {s.target.id: item_ty}
        elif isinstance(it, ast.Call) and isinstance(it.func, ast.Attribute) and it.func.attr == 'items' and not it.args and not it.keywords \
                and isinstance(s.target, ast.Tuple) and len(s.target.elts) == 2 and all(isinstance(x, ast.Name) for x in s.target.elts) \
                and s.target.elts[0].id != s.target.elts[1].id:
            # the entries of `self.sequences`, in insertion order; the body does not change self
            it_binds, xd, td = self.ex(it.func.value, env)
            if td.r().kind != 'Seqs' or 'self' in body_stores:
                raise Unsupported('for %s in %s' % (ast.unparse(s.target), ast.unparse(it)))
            k_n, v_n = s.target.elts[0].id, s.target.elts[1].id
            item_ty, item_pat = Ty('Item'), 'it_'
            targets = {k_n: INT, v_n: List_(CTLSEQ)}
            pre = ['let %s : Int := it_.1' % mangle(k_n), 'let %s : List CtlSeq := it_.2' % mangle(v_n)]
            over = '(PyParse.seqsItems %s)' % xd
        elif isinstance(s.target, ast.Name):
            # a list or a str, evaluated once before the loop
            it_binds, over, t_it = self.ex(it, env)
            t_it = t_it.r()
            if t_it.kind == 'List':
                item_ty = t_it.elem
            elif t_it.kind == 'Str':
                item_ty = CHAR
            else:
                raise Unsupported('for %s in %s' % (ast.unparse(s.target), ast.unparse(it)))
            if isinstance(it, ast.Name) and it.id in body_stores:
                raise Unsupported('the loop over %s changes it' % it.id)
            item_pat = mangle(s.target.id)
            targets = {s.target.id: item_ty}
        else:
            raise Unsupported('for %s in %s' % (ast.unparse(s.target), ast.unparse(it)))
        for n in targets:
            if n in env:
                raise Unsupported('the loop variable %s exists before the loop' % n)
            if body_stores.get(n, set()) - {'bind'}:
                raise Unsupported('the loop variable %s is changed in the body' % n)
        state = [n for n in body_stores if n in env]
        if not state and not has_return:
            raise Unsupported('a loop that assigns nothing')
        body_env = dict(env)
        body_env.update(targets)

        def body_lines():
            tys = (['Option ⟪R⟫'] if has_return else []) + [lean_ty(env[n], True) for n in state]
            names = (['ret_'] if has_return else []) + [mangle(n) for n in state]
            st_ty = ' × '.join(tys)
            tup = names[0] if len(names) == 1 else '(%s)' % ', '.join(names)

            def yield_state(env_b):
                for n in state:
                    unify(env_b[n], env[n], 'for %s at the end of a round' % n)
                return ['.ok %s' % tup]

            def ret(x):           # `return x` inside the loop: the rounds that follow do nothing
                vals = ['(some %s)' % x] + names[1:]
                return ['.ok %s' % (vals[0] if len(vals) == 1 else '(%s)' % ', '.join(vals))]
            inner = Ctx(st_ty if len(names) == 1 else '(%s)' % st_ty, ret if has_return else None, yield_state, True)
            lines = pre + self.block(s.body, dict(body_env), yield_state, inner)
            if has_return:
                lines = ['if (ret_).isSome then .ok %s else' % tup] + lines
            return names, st_ty, tup, lines
        # the state: by type, variables of one type in the order of their first assignment in the body (a
        # convention that swapping branches or reordering the initialisations before the loop does not change);
        # in front of them `ret_ : Option R` when the body has a `return` (some r: the function has returned r).
        # The types of lists that start as `[]` are known only after the body has been gone through once.
        saved = (self.ntmp, self.njoin, self.nmark)
        body_lines()
        self.ntmp, self.njoin, self.nmark = saved
        state = sorted(state, key=lambda n: lean_ty(env[n]))
        names, st_ty, tup, body = body_lines()
        init = tup.replace('ret_', '(none : Option ⟪R⟫)', 1) if has_return else tup
        if len(names) == 1:
            head = ['(List.foldlM (m := Except Exc) (fun (%s : %s) (%s : %s) =>' % (names[0], st_ty, item_pat, lean_ty(item_ty))]
            tail = ['  %s %s).bind fun %s =>' % (init, over, names[0])]
        else:
            head = ['(List.foldlM (m := Except Exc) (fun (st_ : %s) (%s : %s) =>' % (st_ty, item_pat, lean_ty(item_ty)),
                    '    match st_ with', '    | %s =>' % tup]
            tail = ['  %s %s).bind fun st_ =>' % (init, over), 'match st_ with', '| %s =>' % tup]
        body = ind(body, 4)
        body[-1] += ')'
        after = self.block(rest, dict(env), k, ctx)
        if has_return:
            after = ['(match ret_ with', '| some r_ =>'] + ind(ctx.ret('r_')) + ['| none =>'] + ind(after)
            after[-1] += ')'
        return self.wrap(it_binds, head + body + tail + after, ctx)

    def while_(self, s, rest, env, k, ctx):
        """while <test>: <body> -> `PyParse.whileM fuel_ <test> <body> <state>`: the test and the rounds as functions
        of the state (the variables the body assigns); `fuel_`, a parameter of the generated function, bounds the
        number of rounds — running out of it is `Exc.outside`, and the theorem over the function says from which
        value of `fuel_` on that does not happen"""
        if s.orelse:
            raise Unsupported('while … else')
        if ctx.handler is not None:
            raise Unsupported('a loop inside try')
        for st in s.body:
            for n in ast.walk(st):
                if isinstance(n, (ast.Return, ast.Break)):
                    raise Unsupported('return/break inside while')
        body_stores = self.stores(s.body)
        state = [n for n in body_stores if n in env]
        if not state:
            raise Unsupported('a loop that assigns nothing')
        self.uses_fuel = True

        def parts():
            names = [mangle(n) for n in state]
            st_ty = ' × '.join(lean_ty(env[n], True) for n in state)
            tup = names[0] if len(names) == 1 else '(%s)' % ', '.join(names)

            def yield_state(env_b):
                for n in state:
                    unify(env_b[n], env[n], 'for %s at the end of a round' % n)
                return ['.ok %s' % tup]
            inner = Ctx(st_ty if len(names) == 1 else '(%s)' % st_ty, None, yield_state, True)
            body = self.block(s.body, dict(env), yield_state, inner)
            cctx = Ctx('Bool', lambda x: ['.ok %s' % x])
            cctx.cond = True
            test = ast.If(test=s.test, body=[ast.Return(value=ast.Constant(value=True))], orelse=[ast.Return(value=ast.Constant(value=False))])
            cond = self.if_(test, [], dict(env), lambda e: [], cctx)
            return names, st_ty, tup, cond, body
        saved = (self.ntmp, self.njoin, self.nmark)
        parts()
        self.ntmp, self.njoin, self.nmark = saved
        state = sorted(state, key=lambda n: lean_ty(env[n]))
        names, st_ty, tup, cond, body = parts()

        def fn(lines):
            if len(names) == 1:
                head = ['(fun (%s : %s) =>' % (names[0], st_ty)]
            else:
                head = ['(fun (st_ : %s) =>' % st_ty, '    match st_ with', '    | %s =>' % tup]
            lines = ind(lines, 4)
            lines[-1] += ')'
            return ind(head + lines)
        if len(names) == 1:
            tail = ['  %s).bind fun %s =>' % (tup, names[0])]
        else:
            tail = ['  %s).bind fun st_ =>' % tup, 'match st_ with', '| %s =>' % tup]
        return ['(PyParse.whileM fuel_'] + fn(cond) + fn(body) + tail + self.block(rest, dict(env), k, ctx)

    # -- the function ---------------------------------------------------------------------------------

    def lean(self, lean_name, doc):
        fn = self.fn
        a = fn.args
        if a.vararg or a.kwarg or a.kwonlyargs or a.posonlyargs:
            raise Unsupported('signature')
        st = self.stores(fn.body)
        self.locals = set(st) | {p for p, _ in self.params}
        self_kind = [t.r().kind for p, t in self.params if p == 'self' and t.r().kind in SELF_INFO]
        self.mutates_self = 'self' in st and bool(self_kind)
        self.uses_fuel = False
        is_init = fn.name == '__init__' and bool(self_kind)
        self.ret_optional = any(isinstance(n, ast.Return) and isinstance(n.value, ast.Constant) and n.value.value is None
                                for n in ast.walk(fn))
        self.ret_param = any(isinstance(n, ast.Return) and isinstance(n.value, ast.Call) and isinstance(n.value.func, ast.Name)
                             and n.value.func.id == 'AnsiParam' for n in ast.walk(fn))
        for n in self.locals:
            if re.fullmatch(r'(t|k|h)\d+_|st_|ret_|r_|it_|fuel_', n):
                raise Unsupported('a local named like a generated name: ' + n)
        env = {}
        for p, t in self.params:
            env[p] = t
        if len(env) != len(self.params):
            raise Unsupported('signature')
        pre_lines = []
        for p, x, t in self.defaults:          # parameters the callers leave at their default value
            env[p] = t
            pre_lines.append('let %s : %s := %s' % (mangle(p), lean_ty(t), x))
        if fn.returns is not None:          # a list of AnsiSettings and ints: what its lists of scalars hold
            try:
                ra = annotation(fn.returns)
            except Unsupported:
                ra = []
            if len(ra) == 1 and ra[0].kind == 'List' and ra[0].elem.r().kind == 'SOut':
                self.scalar_elem = SOUT
                unify(self.ret, ra[0])

        def fell_off(env_b):
            raise Unsupported('the end of the function can be reached without a return')
        if is_init:                 # the object once `__init__` has run; its first statements assign every attribute
            info = SELF_INFO[self_kind[0]]
            first = [st0 for st0 in fn.body if not (isinstance(st0, ast.Expr) and isinstance(st0.value, ast.Constant))]
            seen = set()
            for st0 in first:
                tg = st0.targets[0] if isinstance(st0, ast.Assign) and len(st0.targets) == 1 else st0.target if isinstance(st0, ast.AnnAssign) else None
                if not (isinstance(tg, ast.Attribute) and isinstance(tg.value, ast.Name) and tg.value.id == 'self' and
                        isinstance(st0.value, (ast.Constant, ast.Dict, ast.List))):
                    break
                seen.add(tg.attr)
            if seen != set(info['fields']):
                raise Unsupported('__init__ does not start by assigning the attributes ' + ', '.join(sorted(info['fields'])))
            if any(isinstance(n, ast.Return) for n in ast.walk(fn)):
                raise Unsupported('return in __init__')
            unify(self.ret, self.params[0][1])
            ctx = Ctx('⟪R⟫', None)
            fell_off = lambda env_b: ['.ok self']
            lines = ['let self : %s := {}' % info['lean']] + self.block(fn.body, env, fell_off, ctx)
        else:
            if self.mutates_self:       # the result and the object afterwards
                ctx = Ctx('(⟪R⟫ × %s)' % SELF_INFO[self_kind[0]]['lean'], lambda x: ['.ok (%s, self)' % x])
            else:
                ctx = Ctx('⟪R⟫', lambda x: ['.ok %s' % x])
            lines = pre_lines + self.block(fn.body, env, fell_off, ctx)
        text = '\n'.join(ind(lines))
        text = text.replace('⟪R⟫', lean_ty(self.ret, True))
        text = self.resolve_vars(text)
        ret = self.resolve_vars(ctx.result.replace('⟪R⟫', lean_ty(self.ret, True)))
        if re.search(r'⟪', text + ret):
            raise Unsupported('unresolved placeholder')
        sig = ' '.join((['(fuel_ : Nat)'] if self.uses_fuel else []) +
                       ['(%s : %s)' % (mangle(p), lean_ty(t)) for p, t in self.params if not (is_init and p == 'self')])
        return '/-- %s -/\ndef %s %s : Except Exc %s :=\n%s\n' % (doc, lean_name, sig, ret, text)

    def resolve_vars(self, text):
        def var(m):
            t = VARS.get(int(m.group(1)))
            if t is None or t.r().kind == 'Var':
                raise Unsupported('a list whose elements are never determined')
            return lean_ty(t.r(), True)
        for _ in range(8):
            new = re.sub(r'⟪T(\d+)⟫', var, text)
            if new == text:
                break
            text = new
        return text


# ---------------------------------------------------------------------------------------------------
# what is generated

PRIMS = '''/-  GENERATED by harness/translate.py (harness/pyparse.py) — do not edit.
    The primitives the statement-by-statement translation of `parse_graphic_sequence` and
    `settings_to_dict` (ansi_parsing.py) is written in, beside those of `AnsiModel/Obj.lean`: constant text,
    nothing here is read from the source.  Where Python can raise, the primitive returns `Except Exc`. -/
import AnsiModel.Obj
import AnsiModel.Parse
import AnsiModel.Scrub
import AnsiModel.Generated.Tables

namespace PyParse

/-- `int(v)` for a value that is an `int` or a `str`; `none` = ValueError -/
def int : Code → Option Int
  | .int i => some i
  | .str s => Py.int s

/-- truth value of a value that is an `int` or a `str` -/
def truthy : Code → Bool
  | .int i => i != 0
  | .str s => !s.isEmpty

/-- `s.split(sep)`: the model has the split at a one-character separator; an empty separator is a
    ValueError in Python, a longer one is outside the model -/
def split (s sep : Str) : Except Exc (List Str) :=
  match sep with
  | [] => .error (.py .valueError)
  | [c] => .ok (Py.splitOnChar c s)
  | _ :: _ :: _ => .error .outside

/-- the end of `AnsiSetting.__init__`: `if not setting: raise ValueError(...)`, then `self._str = setting` -/
def mkSetting (t : Str) : Except Exc Str := if t.isEmpty then .error (.py .valueError) else .ok t

/-- `AnsiSetting(<str>)` (the text of the new setting) -/
def settingOfStr (s : Str) : Except Exc Str := mkSetting s

/-- `AnsiSetting(<int>)`: `setting = str(setting)` -/
def settingOfInt (i : Int) : Except Exc Str := mkSetting (Py.intStr i)

/-- `AnsiSetting(<int or str>)` -/
def settingOfCode (c : Code) : Except Exc Str := mkSetting (Code.toStr c)

/-- `AnsiSetting(<list>)`: `setting = ansi_sep.join([str(s) for s in setting])` -/
def settingOfCodes (l : List Code) : Except Exc Str := mkSetting (joinSep Gen.ansiSep (l.map Code.toStr))

/-- `s.split(sep, 1)`: at most one split, at the first separator -/
def splitFirst (c : Char) : Str → List Str
  | [] => [[]]
  | x :: rest =>
    if x == c then [[], rest]
    else
      match splitFirst c rest with
      | [] => [[x]]
      | h :: t => (x :: h) :: t

def split1 (s sep : Str) : Except Exc (List Str) :=
  match sep with
  | [] => .error (.py .valueError)
  | [c] => .ok (splitFirst c s)
  | _ :: _ :: _ => .error .outside

/-- `AnsiParam(v)` for a value that is an `int` or a `str`: `(effect_type.value, effect_fn.value)`; `none` =
    ValueError (no `str` is a member of the IntEnum) -/
def ansiParamCode : Code → Option (Nat × Nat)
  | .int i => ansiParam i
  | .str _ => none

/-- `self` inside the methods of `AnsiSetting`: the text `_str` (assigned once, in `__init__`) and the two
    attributes `valid` and `parsable` keep their results in (`none`: the attribute does not exist yet) -/
structure SObj where
  str : Str
  valid_ : Option Bool := none
  parsable_ : Option Bool := none
  deriving DecidableEq, Repr

/-- reading an attribute that may not exist (AttributeError: not an exception the model has) -/
def getAttr {α : Type} : Option α → Except Exc α
  | some a => .ok a
  | none => .error .outside

/-- `ord(s)` for a `str`: TypeError unless it has exactly one character -/
def ordStr : Str → Except Exc Int
  | [c] => .ok (c.toNat : Int)
  | _ => .error (.py .typeError)

/-- `sub in s` for two `str` -/
def strIn (sub s : Str) : Bool := (Py.find s sub).isSome

/-- `while c: b` with a bound on the number of rounds: `Exc.outside` when the bound is used up with `c` still true -/
def whileM {σ : Type} : Nat → (σ → Except Exc Bool) → (σ → Except Exc σ) → σ → Except Exc σ
  | 0, cond, _, st => (cond st).bind fun b => if b then .error .outside else .ok st
  | fuel + 1, cond, body, st => (cond st).bind fun b => if b then (body st).bind (whileM fuel cond body) else .ok st

/-- `k in d` for the dictionary `sequences` (positions as keys, insertion order) and an `int` k -/
def seqsHas (d : List (Nat × List CtlSeq)) (k : Int) : Bool := decide (0 ≤ k) && d.any (fun kv => kv.1 == k.toNat)

/-- `d[k].append(v)`; KeyError when absent -/
def seqsAppend (d : List (Nat × List CtlSeq)) (k : Int) (v : CtlSeq) : Except Exc (List (Nat × List CtlSeq)) :=
  if seqsHas d k then .ok (d.map (fun kv => if kv.1 == k.toNat then (kv.1, kv.2 ++ [v]) else kv)) else .error .key

/-- `d[k] = l`: overwrite in place, or a new last entry; a negative key is outside the model -/
def seqsSet (d : List (Nat × List CtlSeq)) (k : Int) (l : List CtlSeq) : Except Exc (List (Nat × List CtlSeq)) :=
  if k < 0 then .error .outside
  else if seqsHas d k then .ok (d.map (fun kv => if kv.1 == k.toNat then (kv.1, l) else kv))
  else .ok (d ++ [(k.toNat, l)])

/-- `d.items()` -/
def seqsItems (d : List (Nat × List CtlSeq)) : List (Int × List CtlSeq) := d.map (fun kv => ((kv.1 : Int), kv.2))

/-- truth value of `match.group(n)`: `None` (the group took no part) or a `str` -/
def truthyOptStr : Option Str → Bool
  | none => false
  | some s => !s.isEmpty

/-- `int(digits, base)` where `digits` is `match.group(n)`: TypeError on `None`; modelled for base 10 and 16 on a
    non-empty string of plain hexadecimal digits (what the patterns of `_parse_rgb_string` capture) — signs,
    underscores, white space, a `0x` prefix are outside; `.ok none` = ValueError -/
def intBase (digits : Option Str) (base : Int) : Except Exc (Option Int) :=
  match digits with
  | none => .error (.py .typeError)
  | some d =>
    if d.isEmpty || !d.all Scrub.isHex then .error .outside
    else if base == 16 then .ok (some (Scrub.hexVal d : Int))
    else if base == 10 then .ok (if d.all Py.isDigit then some (Py.digitsVal d : Int) else none)
    else .error .outside

/-- `{prefix: component}.get(key, default)` where `key` is `match.group(n)` (`None` is no key of it) -/
def dictGetD (d : List (Str × Nat)) (key : Option Str) (dflt : Nat) : Nat :=
  match key with
  | none => dflt
  | some k => ((d.find? (fun kv => kv.1 == k)).map (·.2)).getD dflt

/-- `AnsiFormat.rgb(r, g, b, component)`: each value clamped to 0..255 (the builder itself is not translated:
    the model's `Scrub.colorSettings`) -/
def formatRgb3 (r g b : Int) (comp : Nat) : List Str :=
  Scrub.colorSettings comp true [(min 255 (max 0 r)).toNat, (min 255 (max 0 g)).toNat, (min 255 (max 0 b)).toNat]

/-- `AnsiFormat.rgb(rgb, component=…)`: the three bytes of a non-negative `rgb` -/
def formatRgb1 (v : Int) (comp : Nat) : Except Exc (List Str) :=
  if v < 0 then .error .outside
  else .ok (Scrub.colorSettings comp true [(v.toNat / 65536) % 256, (v.toNat / 256) % 256, v.toNat % 256])

/-- `AnsiFormat.color256(val, component=…)` for a non-negative `val` -/
def formatColor256 (v : Int) (comp : Nat) : Except Exc (List Str) :=
  if v < 0 then .error .outside else .ok (Scrub.colorSettings comp false [v.toNat])

/-- `s.upper()` (ASCII, as the model) -/
def upper (s : Str) : Str := s.map Scrub.upperAscii

/-- `s.replace(a, b)` for two one-character strings -/
def replaceChar (s : Str) (a b : Char) : Str := s.map (fun c => if c == a then b else c)

/-- `AnsiFormat[name]`: the member as `(name, [str(x) for x in member.ansi_settings])`; `none` = KeyError -/
def formatMember (name : Str) : Option (Str × List Str) := Gen.formatTable.find? (fun r => r.1 == name)

/-- `del d[k]`; KeyError when absent -/
def dictDel (d : PyDict) (k : Nat) : Except Exc PyDict := if d.contains k then .ok (d.erase k) else .error .key

end PyParse
'''

# what is translated: (python name, class or None, generated module); for the stubs, the signatures expected
FUNCS = [('settings_to_dict', None, 'SettingsToDict'), ('parse_graphic_sequence', None, 'ParseGraphicSequence')]
METHODS = [('valid', 'AnsiSetting', 'SettingValid'), ('to_list', 'AnsiSetting', 'SettingToList'),
           ('parsable', 'AnsiSetting', 'SettingParsable'), ('get_initial_param', 'AnsiSetting', 'SettingInitialParam')]
STRING_METHODS = [('_scrub_ansi_format_int', '_AnsiSettingPoint', 'ScrubFormatInt'), ('_parse_rgb_string', '_AnsiSettingPoint', 'ParseRgbString'),
                  ('_scrub_ansi_settings', '_AnsiSettingPoint', 'ScrubSettingsObjs'),
                  ('_scrub_ansi_format_string', '_AnsiSettingPoint', 'ScrubFormatString')]
PARSING_METHODS = [('__init__', 'ParsedAnsiControlSequenceString', 'Tokenize'), ('formatted_str', 'ParsedAnsiControlSequenceString', 'FormattedStr')]
CLASS_KIND = {'AnsiSetting': SELF, 'ParsedAnsiControlSequenceString': PSELF}
# static methods: (class, method) -> Lean name
STATIC_METHODS = {('_AnsiSettingPoint', '_scrub_ansi_format_int'): 'scrubFormatIntCode',
                  ('_AnsiSettingPoint', '_parse_rgb_string'): 'parseRgbStringCode',
                  ('_AnsiSettingPoint', '_scrub_ansi_settings'): 'scrubSettingsObjsCode',
                  ('_AnsiSettingPoint', '_scrub_ansi_format_string'): 'scrubFormatStringCode'}
# a static method translated for particular types of its arguments (it is dynamically typed; the other types are
# not translated): the parameters, and those left at their default value as (name, Lean text, type).
# `_scrub_ansi_settings(<list of AnsiSettings>, make_unique)` is the call `_scrub_ansi_format_string` makes.
STATIC_PARAMS = {('_AnsiSettingPoint', '_scrub_ansi_settings'):
                 ([('settings', List_(STXT)), ('make_unique', BOOL)], [('parsed_ids', '([] : List Unit)', List_(IDENT))])}
# calls `__class__.<name>(…)` among the translated static methods: (Lean name, module, argument types, result type, takes fuel_)
STATIC_CALLS = {
    ('_AnsiSettingPoint', '_parse_rgb_string'): [('parseRgbStringCode', 'ParseRgbString', [STR], Ty('Opt', List_(STXT)), False)],
    ('_AnsiSettingPoint', '_scrub_ansi_format_int'): [('scrubFormatIntCode', 'ScrubFormatInt', [INT], INT, False)],
    ('_AnsiSettingPoint', '_scrub_ansi_settings'): [('scrubSettingsObjsCode', 'ScrubSettingsObjs', [List_(STXT), BOOL], List_(STXT), True)],
}
# (class, method) -> (Lean name, is a property)
CLASS_METHODS = {('AnsiSetting', n): (v[0], v[4]) for n, v in SELF_METHODS.items()}
CLASS_METHODS.update({('ParsedAnsiControlSequenceString', '__init__'): ('tokenizeInit', False),
                      ('ParsedAnsiControlSequenceString', 'formatted_str'): ('formattedStr', True)})
EXPECTED = {
    'settingsToDictCode': ('(settings : List Setting) (old_settings_dict : PyDict)', 'PyDict'),
    'parseGraphicSequenceStr': ('(sequence : Str) (add_erroneous : Bool)', '(List Str)'),
    'parseGraphicSequenceList': ('(sequence : List Code) (add_erroneous : Bool)', '(List Str)'),
    'settingValid': ('(self : PyParse.SObj)', '(Bool × PyParse.SObj)'),
    'settingToList': ('(self : PyParse.SObj)', '(List Code)'),
    'settingParsable': ('(self : PyParse.SObj)', '(Bool × PyParse.SObj)'),
    'settingInitialParam': ('(self : PyParse.SObj)', '(Option (Nat × Nat))'),
    'tokenizeInit': ('(fuel_ : Nat) (s : Str) (allow_empty_terminator : Bool) (acceptable_terminators : Option Str)', 'Parsed'),
    'formattedStr': ('(self : Parsed)', 'Str'),
    'scrubFormatIntCode': ('(ansi_format : Int)', 'Int'),
    'parseRgbStringCode': ('(s : Str)', '(Option (List Str))'),
    'scrubSettingsObjsCode': ('(fuel_ : Nat) (settings : List Str) (make_unique : Bool)', '(List Str)'),
    'scrubFormatStringCode': ('(fuel_ : Nat) (ansi_format : Str) (make_unique : Bool)', '(List SOut)'),
}
VARIANTS = {'settings_to_dict': ['settingsToDictCode'], 'parse_graphic_sequence': ['parseGraphicSequenceStr', 'parseGraphicSequenceList'],
            'valid': ['settingValid'], 'to_list': ['settingToList'], 'parsable': ['settingParsable'],
            'get_initial_param': ['settingInitialParam'], '__init__': ['tokenizeInit'], 'formatted_str': ['formattedStr'],
            '_scrub_ansi_format_int': ['scrubFormatIntCode'], '_parse_rgb_string': ['parseRgbStringCode'],
            '_scrub_ansi_settings': ['scrubSettingsObjsCode'], '_scrub_ansi_format_string': ['scrubFormatStringCode']}


def camel(name):
    parts = [p for p in name.split('_') if p]
    return parts[0] + ''.join(p[0].upper() + p[1:] for p in parts[1:])


def module_imports(tree, modname):
    """name -> module it comes from: `from .m import name` -> m; defined at the top level of this file -> modname"""
    imp = {}
    for st in tree.body:
        if isinstance(st, ast.ImportFrom) and st.level == 1 and st.module:
            for a in st.names:
                imp[a.asname or a.name] = st.module
        if isinstance(st, ast.Import):
            for a in st.names:
                if a.name == 're':
                    imp[a.asname or 're'] = 're'
    for st in tree.body:
        names = []
        if isinstance(st, (ast.FunctionDef, ast.ClassDef)):
            names = [st.name]
        elif isinstance(st, ast.Assign):
            names = [t.id for t in st.targets if isinstance(t, ast.Name)]
        elif isinstance(st, (ast.AnnAssign, ast.AugAssign)) and isinstance(st.target, ast.Name):
            names = [st.target.id]
        for n in names:
            imp[n] = modname
    return imp


def stub(lean_name, why):
    sig, ret = EXPECTED[lean_name]
    why = ' '.join(str(why).split())[:300].replace('-/', '- /')
    return ('/-- NOT TRANSLATED (outside the fragment of harness/pyparse.py): %s -/\n'
            'def %s %s : Except Exc %s := .error .outside\n'
            'def %sOk : Bool := false\n') % (why, lean_name, sig, ret, lean_name)


def translate_function(tree, pyname, modname, cls=None):
    """-> ([(lean name, text)], generated modules it calls) for the variants of one function / method; never raises"""
    out = []
    deps = set()
    try:
        scope = tree.body
        if cls is not None:
            classes = [c for c in tree.body if isinstance(c, ast.ClassDef) and c.name == cls]
            if len(classes) != 1:
                raise Unsupported('%d definitions of class %s' % (len(classes), cls))
            scope = classes[0].body
        fns = [f for f in scope if isinstance(f, ast.FunctionDef) and f.name == pyname]
        if len(fns) != 1:
            raise Unsupported('%d definitions of %s' % (len(fns), pyname))
        fn = fns[0]
        for d in fn.decorator_list:
            if not (cls is not None and isinstance(d, ast.Name) and d.id in ('property', 'staticmethod')):
                raise Unsupported('decorated')
        is_static = any(d.id == 'staticmethod' for d in fn.decorator_list)
        is_property = bool(fn.decorator_list) and not is_static
        imports = module_imports(tree, modname)
        variants = []
        if cls is not None and (cls, pyname) in STATIC_METHODS:
            if not is_static:
                raise Unsupported('not a static method')
            params, defaults = [], []
            if (cls, pyname) in STATIC_PARAMS:
                params, defaults = STATIC_PARAMS[(cls, pyname)]
                if [a.arg for a in fn.args.args] != [n for n, _ in params] + [n for n, _, _ in defaults] \
                        or len(fn.args.defaults) < len(defaults) or \
                        any(not (isinstance(dv, ast.List) and not dv.elts) for dv in fn.args.defaults[len(fn.args.defaults) - len(defaults):]):
                    raise Unsupported('parameters ' + ', '.join(a.arg for a in fn.args.args))
            else:
                for a in fn.args.args:
                    if a.annotation is None:
                        raise Unsupported('parameter %s without annotation' % a.arg)
                    al = annotation(a.annotation)
                    if len(al) != 1:
                        raise Unsupported('parameter %s of union type' % a.arg)
                    params.append((a.arg, al[0]))
            variants.append((STATIC_METHODS[(cls, pyname)], params, '`%s.%s`%s, statement by statement' % (
                cls, pyname, ' for %s' % ', '.join('%s : %s' % (n, lean_ty(t)) for n, t in params) if defaults else ''), defaults))
        elif cls is not None:
            lean_name, prop = CLASS_METHODS[(cls, pyname)]
            names = [a.arg for a in fn.args.args]
            params = [('self', CLASS_KIND[cls])]
            if (cls, pyname) in PARAM_TYPES:          # the types of the parameters, by name
                if names[1:] != [n for n, _ in PARAM_TYPES[(cls, pyname)]]:
                    raise Unsupported('parameters ' + ', '.join(names))
                params += PARAM_TYPES[(cls, pyname)]
            elif names != ['self'] or fn.args.defaults:
                raise Unsupported('a method with parameters')
            if names[:1] != ['self'] or prop != is_property:
                raise Unsupported('property or method: not what the callers are translated for')
            variants.append((lean_name, params, '`%s.%s`, statement by statement%s' % (
                cls, pyname, ': the result and the object afterwards (its cache attributes)'
                if cls == 'AnsiSetting' and SELF_METHODS[pyname][3] else ': the object it leaves' if pyname == '__init__' else '')))
        else:
            alts = []
            for a in fn.args.args:
                if a.annotation is None:
                    raise Unsupported('parameter %s without annotation' % a.arg)
                alts.append(annotation(a.annotation))
            unions = [i for i, al in enumerate(alts) if len(al) > 1]
            if len(unions) > 1:
                raise Unsupported('two parameters of union type')
            if unions:
                for t in alts[unions[0]]:
                    suffix = {'Str': 'Str', 'List': 'List', 'Int': 'Int'}.get(t.kind)
                    if suffix is None:
                        raise Unsupported('union member %r' % t)
                    variants.append((camel(pyname) + suffix, [(a.arg, t if i == unions[0] else alts[i][0]) for i, a in enumerate(fn.args.args)],
                                     '`%s` (`%s` a `%s`), statement by statement' % (pyname, fn.args.args[unions[0]].arg, {'Str': 'str', 'List': 'list', 'Int': 'int'}[t.kind])))
            else:
                variants.append((camel(pyname) + 'Code', [(a.arg, alts[i][0]) for i, a in enumerate(fn.args.args)], '`%s`, statement by statement' % pyname))
    except Exception as e:                                           # noqa: the generator itself never fails
        return [(n, stub(n, '%s: %s' % (type(e).__name__, e))) for n in VARIANTS[pyname]], deps
    done = {}
    for lean_name, params, doc, *more in variants:
        try:
            if lean_name not in EXPECTED:
                raise Unsupported('unexpected variant ' + lean_name)
            f = Fn(fn, imports, params, cls, more[0] if more else None)
            text = f.lean(lean_name, doc)
            sig, ret = EXPECTED[lean_name]
            if 'def %s %s : Except Exc %s :=' % (lean_name, sig, ret) not in text:
                raise Unsupported('not the signature the callers and the theorems expect: ' + text.split(':=')[0].split('\n')[-1])
            text += 'def %sOk : Bool := true\n' % lean_name
            deps |= f.deps
        except Exception as e:                                       # noqa
            text = stub(lean_name, '%s: %s' % (type(e).__name__, e)) if lean_name in EXPECTED else None
        if text is not None:
            done[lean_name] = text
    for n in VARIANTS[pyname]:
        out.append((n, done.get(n) or stub(n, 'no such variant in the signature')))
    return out, deps


def header(what):
    return ['/-  GENERATED by harness/translate.py (harness/pyparse.py) from the working tree of the repository — do not edit.',
            '    %s, translated statement by statement. -/' % what,
            'import AnsiModel.Obj', 'import AnsiModel.Parse', 'import AnsiModel.PyStr', 'import AnsiModel.Setting',
            'import AnsiModel.Generated.Tables', 'import AnsiModel.Generated.Methods.ParsePrims']


def generate(repo, src=None, src_format=None, src_string=None):
    """relative file name -> Lean source.  `src` / `src_format` / `src_string`: paths of the Python files to read
    instead of ansi_parsing.py / ansi_format.py / ansi_string.py of the repository"""
    files = {'Methods/ParsePrims.lean': PRIMS}
    for path, modname, items, what in ((src or os.path.join(repo, SRC), 'ansi_parsing', FUNCS, 'One function of ansi_parsing.py'),
                                       (src or os.path.join(repo, SRC), 'ansi_parsing', PARSING_METHODS,
                                        'One method of ParsedAnsiControlSequenceString (ansi_parsing.py)'),
                                       (src_format or os.path.join(repo, SRC_FORMAT), 'ansi_format', METHODS, 'One method of AnsiSetting (ansi_format.py)'),
                                       (src_string or os.path.join(repo, SRC_STRING), 'ansi_string', STRING_METHODS,
                                        'One static method of _AnsiSettingPoint (ansi_string.py)')):
        try:
            import pynorm
            tree = pynorm.normalize(ast.parse(open(path).read()))
        except Exception as e:                                       # noqa
            tree = ast.parse('')
        for pyname, cls, mod in items:
            parts, deps = translate_function(tree, pyname, modname, cls)
            L = header(what) + (['import AnsiModel.Generated.Regexes'] if '!Regexes' in deps else []) + \
                ['import AnsiModel.Generated.Methods.%s' % d for d in sorted(deps) if d != mod and not d.startswith('!')]
            L += ['', 'set_option linter.unusedVariables false', '', 'namespace Gen', ''] + [t for _, t in parts] + ['end Gen', '']
            files['Methods/%s.lean' % mod] = '\n'.join(L)
    return files


MODULES = ['ParsePrims'] + [m for _, _, m in FUNCS] + [m for _, _, m in METHODS] + [m for _, _, m in PARSING_METHODS] + \
    [m for _, _, m in STRING_METHODS]


if __name__ == '__main__':
    import argparse
    import sys
    ap = argparse.ArgumentParser()
    ap.add_argument('--repo', default='/repo')
    ap.add_argument('--src', default=None, help='translate this copy of ansi_parsing.py instead')
    ap.add_argument('--src-format', default=None, help='translate this copy of ansi_format.py instead')
    ap.add_argument('--src-string', default=None, help='translate this copy of ansi_string.py instead')
    ap.add_argument('--out', default=None, help='write the files under this directory (default: print)')
    a = ap.parse_args()
    fs = generate(a.repo, a.src, a.src_format, a.src_string)
    for name, text in fs.items():
        if a.out:
            p = os.path.join(a.out, name)
            os.makedirs(os.path.dirname(p), exist_ok=True)
            open(p, 'w').write(text)
        else:
            sys.stdout.write('-- %s\n%s\n' % (name, text))
