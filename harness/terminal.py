"""Conforming SGR terminal over 15 effect groups — the Python twin of lean/AnsiSpec/Terminal.lean.

Hand-written from the SGR standard's reading; it does not import anything from the library.
State: dict group -> value (tuple of ints).  One value per group (bold/faint exclude each other,
single/double underline exclude each other) — the terminal model the properties name.
"""

GROUPS = ['BOLDNESS', 'ITALICS', 'UNDERLINE', 'OVERLINE', 'BLINKING', 'SWAP_BG_FG', 'VISIBILITY',
          'CROSSED_OUT', 'FONT_TYPE', 'SPACING', 'BOXING', 'FG_COLOR', 'BG_COLOR', 'UL_COLOR']

def spec_effect(c):
    """('set', group) | ('clear', group) | ('reset',) | ('ext', group) | None for code c."""
    if c == 0: return ('reset',)
    if c in (1, 2): return ('set', 'BOLDNESS')
    if c == 3: return ('set', 'ITALICS')
    if c in (4, 21): return ('set', 'UNDERLINE')
    if c in (5, 6): return ('set', 'BLINKING')
    if c == 7: return ('set', 'SWAP_BG_FG')
    if c == 8: return ('set', 'VISIBILITY')
    if c == 9: return ('set', 'CROSSED_OUT')
    if c == 10: return ('clear', 'FONT_TYPE')
    if 11 <= c <= 20: return ('set', 'FONT_TYPE')
    if c == 22: return ('clear', 'BOLDNESS')
    if c == 23: return ('clear', 'ITALICS')
    if c == 24: return ('clear', 'UNDERLINE')
    if c == 25: return ('clear', 'BLINKING')
    if c == 26: return ('set', 'SPACING')
    if c == 27: return ('clear', 'SWAP_BG_FG')
    if c == 28: return ('clear', 'VISIBILITY')
    if c == 29: return ('clear', 'CROSSED_OUT')
    if 30 <= c <= 37 or 90 <= c <= 97: return ('set', 'FG_COLOR')
    if c == 38: return ('ext', 'FG_COLOR')
    if c == 39: return ('clear', 'FG_COLOR')
    if 40 <= c <= 47 or 100 <= c <= 107: return ('set', 'BG_COLOR')
    if c == 48: return ('ext', 'BG_COLOR')
    if c == 49: return ('clear', 'BG_COLOR')
    if c == 50: return ('clear', 'SPACING')
    if c in (51, 52): return ('set', 'BOXING')
    if c == 53: return ('set', 'OVERLINE')
    if c == 54: return ('clear', 'BOXING')
    if c == 55: return ('clear', 'OVERLINE')
    if c == 58: return ('ext', 'UL_COLOR')
    if c == 59: return ('clear', 'UL_COLOR')
    return None

def feed_codes(state, codes):
    """codes: list of ints (or None for a parameter that is not a number: ignored)."""
    st = dict(state)
    i = 0
    n = len(codes)
    while i < n:
        c = codes[i]
        eff = spec_effect(c) if isinstance(c, int) and c >= 0 else None
        if eff is None:
            i += 1
        elif eff[0] == 'reset':
            st = {}
            i += 1
        elif eff[0] == 'set':
            st[eff[1]] = (c,)
            i += 1
        elif eff[0] == 'clear':
            st.pop(eff[1], None)
            i += 1
        else:  # extended colour
            if i + 1 < n and codes[i + 1] == 5:
                if i + 2 < n:
                    v = codes[i + 2]
                    if isinstance(v, int) and 0 <= v <= 255:
                        st[eff[1]] = (c, 5, v)
                    i += 3
                else:
                    break       # incomplete group: the rest contributes nothing
            elif i + 1 < n and codes[i + 1] == 2:
                if i + 4 < n:
                    vs = codes[i + 2:i + 5]
                    if all(isinstance(v, int) and 0 <= v <= 255 for v in vs):
                        st[eff[1]] = (c, 2) + tuple(vs)
                    i += 5
                else:
                    break
            else:
                i += 1          # lone 38/48/58 contributes nothing, reading continues
    return st

BLANKS = ' \t\n\r\x0b\x0c\x1c\x1d\x1e\x1f'

def parse_params(p):
    """parameter string of an SGR sequence -> list of ints / None (not a number)"""
    out = []
    for item in p.split(';'):
        item = item.strip(BLANKS)
        if item == '':
            out.append(0)
        elif item.isascii() and item.isdigit():
            out.append(int(item))
        else:
            out.append(None)
    return out

def well_formed_params(p):
    return all(x is not None for x in parse_params(p))

def tokens(s):
    """Own tokenizer: yields ('char', c) and ('sgr', params); every `ESC [ p* m` with p outside
    0x40..0x7E is an SGR sequence, everything else is displayed text."""
    i = 0
    n = len(s)
    while i < n:
        if s[i] == '\x1b' and i + 1 < n and s[i + 1] == '[':
            j = i + 2
            while j < n and not (0x40 <= ord(s[j]) <= 0x7e):
                j += 1
            if j < n and s[j] == 'm':
                yield ('sgr', s[i + 2:j])
                i = j + 1
                continue
            # not SGR (other final byte, or unterminated): displayed as it is
            end = j + 1 if j < n else n
            for c in s[i:end]:
                yield ('char', c)
            i = end
        else:
            yield ('char', s[i])
            i += 1

def run(s, state=None):
    """-> (list of (char, frozen state), final state, all_params_well_formed)"""
    st = dict(state or {})
    shown = []
    wf = True
    for kind, v in tokens(s):
        if kind == 'char':
            shown.append((v, frozenset(st.items())))
        else:
            ps = parse_params(v)
            if any(x is None for x in ps):
                wf = False
            st = feed_codes(st, ps)
    return shown, st, wf

def strip_sgr(s):
    return ''.join(v for kind, v in tokens(s) if kind == 'char')

def setting_codes(txt):
    """codes of one setting text, or None if it is not a list of decimal numbers"""
    ps = parse_params(txt)
    if any(x is None for x in ps):
        return None
    return ps

def is_group(txt):
    """one well-formed SGR parameter group: a single decimal code other than a lone 38/48/58,
    or a complete extended-colour group with values 0..255 (digits only, no padding)"""
    items = [it.strip(BLANKS) for it in txt.split(';')]     # blank padding of a number does not change its reading
    if not all(it.isascii() and it.isdigit() for it in items):
        return False
    cs = [int(it) for it in items]
    if len(cs) == 1:
        return cs[0] not in (38, 48, 58)
    if cs[0] in (38, 48, 58):
        if cs[1] == 5:
            return len(cs) == 3 and cs[2] <= 255
        if cs[1] == 2:
            return len(cs) == 5 and all(v <= 255 for v in cs[2:])
    return False

def is_groups(txt):
    """a `;`-join of complete parameter groups (e.g. the verbatim `1;32`): joining such settings with
    `;` cannot fuse or split a group, so the terminal reads exactly their concatenated codes"""
    items = [it.strip(BLANKS) for it in txt.split(';')]      # blank padding of a number does not change its reading
    if not all(it.isascii() and it.isdigit() for it in items):
        return False
    cs = [int(it) for it in items]
    i = 0
    while i < len(cs):
        if cs[i] in (38, 48, 58):
            if i + 2 < len(cs) and cs[i + 1] == 5 and cs[i + 2] <= 255:
                i += 3
            elif i + 4 < len(cs) and cs[i + 1] == 2 and all(v <= 255 for v in cs[i + 2:i + 5]):
                i += 5
            else:
                return False
        else:
            i += 1
    return True

def eff(setting_texts):
    """effective state of an ordered list of setting texts (later overrides earlier)"""
    codes = []
    for t in setting_texts:
        c = setting_codes(t)
        if c is None:
            return None
        codes += c
    return frozenset(feed_codes({}, codes).items())
