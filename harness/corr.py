"""Correspondence runner: pipes the Mode-A step lines to the compiled Lean driver and diffs."""
import os, subprocess, sys
HERE = os.path.dirname(os.path.abspath(__file__))
LEAN = os.path.join(HERE, '..', 'lean')
DRIVER = os.path.join(LEAN, '.lake', 'build', 'bin', 'driver')

def run_driver(lines):
    """lines: list of input lines -> list of output lines (same length)"""
    if not lines:
        return []
    data = ('\n'.join(lines) + '\n').encode()
    if os.path.exists(DRIVER):
        cmd = [DRIVER]
    else:
        cmd = ['lake', 'env', 'lean', '--run', 'Main.lean']
    p = subprocess.run(cmd, input=data, stdout=subprocess.PIPE, stderr=subprocess.PIPE, cwd=LEAN, timeout=600)
    if p.returncode != 0:
        raise RuntimeError('driver failed: %s' % p.stderr.decode()[-2000:])
    out = p.stdout.decode().split('\n')
    if out and out[-1] == '':
        out.pop()
    if len(out) != len(lines):
        raise RuntimeError('driver returned %d lines for %d' % (len(out), len(lines)))
    return out

def compare(steps):
    """-> list of (step, model_output) where model and implementation differ"""
    todo = [s for s in steps if s.inp is not None]
    outs = run_driver([s.inp for s in todo])
    diffs = []
    for s, o in zip(todo, outs):
        if ' '.join(o.split()) != ' '.join(s.exp.split()):
            diffs.append((s, o))
    return diffs
