"""Seeded history generator + executor against the real classes.

A history is a short sequence of public operations over a small pool of live values.  For every
operation the runner
  1. encodes the operation with the *implementation's own pre-state* of every operand (text and
     change-point table, identities renamed) as one input line for the Lean driver (Mode A step),
  2. performs it on the real objects (WITH_ASSERTIONS=True, per-op timeout),
  3. encodes what the implementation produced as the expected output line,
  4. evaluates the direct oracles of the properties on the implementation's observations,
  5. observes every live value before/after for the value-semantics check (C08) and outcome
     classes / self-check for C09.
All random choices come from one `random.Random(seed)`.
"""
import sys, os, random, signal, re as _re, copy

HERE = os.path.dirname(os.path.abspath(__file__))
sys.path.insert(0, HERE)
import proto as P
import oracle as O
import terminal as T

class Timeout(Exception):
    pass

def _alarm(signum, frame):
    raise Timeout()

def load_impl(repo='/repo'):
    src = os.path.join(repo, 'src')
    if src not in sys.path:
        sys.path.insert(0, src)
    import ansi_string
    assert os.path.realpath(ansi_string.__file__).startswith(os.path.realpath(src)), ansi_string.__file__
    import ansi_string.ansi_string as core
    core.AnsiString.WITH_ASSERTIONS = True
    return ansi_string

class Step:
    __slots__ = ('op', 'inp', 'exp', 'hist', 'idx', 'viol', 'desc', 'tags')
    def __init__(self, op, inp, exp, desc, tags=()):
        self.op, self.inp, self.exp, self.desc, self.tags = op, inp, exp, desc, tuple(tags)
        self.viol = []
        self.hist = self.idx = None

TEXT_ALPHA = 'aaabbbcc  \t\n-:;0123xyzABsk\'+|\x7f' + 'éß' + '\u0130\u017f\u03a3\u212a' + '\u65e5'   # İ ſ Σ K(elvin), a wide character: case folding that changes length / differs from lower()

MEMBERS = ['BOLD', 'FAINT', 'NO_BOLD_FAINT', 'RED', 'BLUE', 'FG_DEFAULT', 'UNDERLINE', 'DOUBLE_UNDERLINE',
           'NO_UNDERLINE', 'BG_GREEN', 'BG_DEFAULT', 'ITALIC', 'DEFAULT_FONT', 'ALT_FONT_2', 'UL_RED', 'ORANGE',
           'BG_ALICE_BLUE', 'DUL_GRAY', 'OVERLINED', 'FRAMED', 'HIDE']

def good_sargs(rng):
    """settings forms that scrub without error (conflicts are common on purpose)"""
    k = rng.randrange(17)
    if k == 16:
        # codes given as a bool, an int subclass, an IntEnum member: they stand for their integer value
        one = lambda: rng.choice([('intlike', 1, 'bool'), ('intlike', rng.choice([1, 31, 4, 9, 214, 38, 5, 2, 0]), 'sub'),
                                  ('intlike', rng.choice([1, 3, 4, 31, 44]), 'enum')])
        return rng.choice([one(), ('list', [('int', 38), ('int', 5), one()]), ('tuple', [one(), ('str', 'red')]),
                           ('list', [one(), one()]), ('list', [('str', '38;5'), one()])])
    if k == 0: return ('member', rng.choice(MEMBERS))
    if k == 1: return ('str', rng.choice(['red', 'Bold', 'bg-blue', 'fg red', 'faint', 'no_bold_faint', 'blue',
                                          'underline', 'double underline', 'fg_default', 'italic', 'UL_Blue']))
    if k == 2: return ('int', rng.choice([1, 2, 22, 31, 34, 39, 4, 21, 24, 42, 3, 10, 12, 53, 77, 256, 90, 97, 100, 107, 49, 51, 52, 54, 55, 59, 26, 50]))
    if k == 3: return ('str', rng.choice(['31', '1;31', '38;5;214', '4;58;2;1;2;3', '38;2;1;2;3;1', '22', '01;034']))
    if k == 4: return ('str', rng.choice(['[38;5;214', '[1', '[31', '[1;31', '[38;5;300', '[ 1', '[22', '[10', '[1 ', '[ 38;5;200',
                                          '[48 ;2;1;2;3', '[ 31 ; 1', '[\t4', '[01', '[4 ;58;5; 9', '[[1', '[[[38;5;1', '[[', '[38;5;1\u00e9', '[\u00e91', '[31;', '[1;.5', '[38;5;-1', '[4;:3']))
    if k == 5: return ('str', rng.choice(['rgb(1,2,3)', 'bg_rgb(0x102030)', 'ul_color256(9)', 'dul_rgb(300, 0, 5)',
                                          'fg_colour256(0x10)', 'rgb([1, 2, 3])', 'color256(214)']))
    if k == 6: return ('obj', rng.choice(['1', '31', '34', '1;31', '38;5;214', '38;5;300', '22', '4', '+1', '2;', '10', '\u00b2', '1;\u2460']))
    if k == 13: return rng.choice([('list', [('int', 38), ('str', 'bold')]), ('str', '38;bold'), ('list', [('int', 38), ('int', 5), ('member', 'RED')]),
                                   ('list', [('int', 58), ('int', 5), ('str', 'italic'), ('int', 4)]), ('str', '38;5;300;red'),
                                   ('obj', ['1', '3H']), ('obj', [4, '2J']), ('obj', (1, 31)), ('obj', ['38', '5', '1']), ('obj', 31),
                                   ('list', [('int', 38), ('str', '5;208')]), ('list', [('str', '38;5'), ('int', 208)]),
                                   ('list', [('str', '48;2;1'), ('str', '2;3')]), ('list', [('str', 'bold;58'), ('int', 5), ('int', 9)]),
                                   ('tuple', [('int', 4), ('str', '58;2;1;2'), ('int', 3)]), ('list', [('str', '38'), ('str', '5'), ('str', '1')]),
                                   ('list', [('int', 1), ('member', 'BLUE'), ('int', 31)]), ('str', '1;blue;31'), ('list', [('int', 32), ('obj', '1'), ('int', 31), ('int', 0)]),
                                   ('list', [('int', 0), ('int', 31)]), ('tuple', [('int', 38), ('int', 2), ('int', 255), ('int', 0), ('int', 0)])])
    if k == 12: return rng.choice([('obj', '3H'), ('str', '[1m'), ('obj', 'x'), ('str', '[2J'), ('obj', '5~'), ('str', '[38;5;'),
                                   ('list', [('obj', '1A'), ('obj', '2B')]), ('list', [('str', '[x'), ('str', '[y'), ('member', 'BOLD')])])
    if k == 7: return ('list', [good_sargs(rng) for _ in range(rng.randrange(0, 3))])
    if k == 8: return ('list', [('int', 38), ('int', 5), ('int', rng.choice([0, 214, 255, 256]))])
    if k == 9: return ('tuple', [('member', rng.choice(MEMBERS)), ('int', rng.choice([1, 31, 34]))])
    if k == 10: return ('str', rng.choice(['red;bold', 'bold;;blue', ';', 'red;38;5;1', '4;rgb(1,2,3)']))
    if k == 11: return ('list', [('int', 4), ('int', 38), ('int', 2), ('int', 1), ('int', 2), ('int', 3)])
    return ('member', rng.choice(MEMBERS[:10]))

def bad_sargs(rng):
    k = rng.randrange(13)
    if k == 0: return ('str', 'nope')
    if k == 1: return ('int', -1)
    if k == 2: return ('str', 'rgb(1,2)')
    if k == 3: return ('bad', 3.5)
    if k == 4: return ('list', [('member', 'RED'), ('bad', None)])
    if k == 5: return ('list', [('member', 'RED'), ('selfref',)])
    if k == 6: return ('str', '[')
    if k == 7: return rng.choice([('str', ''), ('str', ';;'), ('str', ';'), ('list', [('str', '')]), ('list', [('list', [])]), ('tuple', [('str', ''), ('list', [])])])
    if k == 8: return ('int', 0)
    if k == 9: return ('list', [])
    if k == 10: return ('str', rng.choice(['-1', 'rgb(ff,0,0)', 'red;nope', 'colour256()', 'x1']))
    if k == 11: return rng.choice([('bad', b'\x01'), ('bad', range(1, 3)), ('bad', bytearray(b'\x1f')), ('bad', 2.0), ('bad', {1}),
                                   ('list', [('int', 1), ('bad', range(38, 39))])])
    return ('bad', {})

class Runner:
    def __init__(self, seed, mod=None, weights=None, max_len=12, timeout=5.0, thorough=False):
        self.rng = random.Random(seed)
        self.mod = mod or load_impl()
        self.A = self.mod.AnsiString
        self.S = self.mod.AnsiStr
        self.steps = []
        self.live = []
        self.weights = weights or {}
        self.max_len = max_len
        self.timeout = timeout
        self.thorough = thorough
        self.tainted = False
        self.pending_probe = []
        self.frozen = []
        self.last_written = None
        self.stats = {'ops': {}, 'errors': {}, 'bounds_on_cp': 0, 'bounds_adj_cp': 0, 'bounds': 0,
                      'conflicts': 0, 'text_len': {}, 'timeouts': 0}
        signal.signal(signal.SIGALRM, _alarm)

    def reseed(self, seed, hidx):
        """every history has its own PRNG state derived from (seed, history index)"""
        self.rng = random.Random((seed * 1000003 + hidx) * 7919 + 13)

    # ----------------------------------------------------------------- helpers
    def call(self, fn):
        signal.setitimer(signal.ITIMER_REAL, self.timeout)
        try:
            return ('ok', fn())
        except Timeout:
            self.stats['timeouts'] += 1
            return ('timeout', None)
        except Exception as e:          # noqa
            return ('err', e)
        finally:
            signal.setitimer(signal.ITIMER_REAL, 0)

    def text(self, lo=0, hi=None, esc=False):
        hi = self.max_len if hi is None else hi
        n = self.rng.randint(lo, hi)
        s = ''.join(self.rng.choice(TEXT_ALPHA) for _ in range(n))
        if n >= 2 and self.rng.random() < 0.12:
            i = self.rng.randint(0, n - 1)
            s = (s[:i] + self.rng.choice(['\r\n', '\r', '\r\n\n', '\x0b', '\x1c']) + s[i:])[:max(n, 3)]
        if esc and self.rng.random() < 0.5:
            i = self.rng.randint(0, len(s))
            s = s[:i] + self.rng.choice(['\x1b[2J', '\x1b[', '\x1b', '\x1b[1m', '\x1b[38;5;1m', '\x1b[0m', '\x1b[m', '\x9b', '\x9b1m', '\x9d', '\x07', '\x1b[3~', '\x1b[200~', '\x1b[15~\x1b[1m', '\x1b[1M']) + s[i:]
        return s

    def sgr_text(self):
        """text with SGR sequences from a grammar (codec stream)"""
        rng = self.rng
        out = ''
        for _ in range(rng.randint(0, 6)):
            if rng.random() < 0.6:
                out += ''.join(rng.choice('abc xy') for _ in range(rng.randint(0, 3)))
            r = rng.random()
            if r < 0.7:
                ps = []
                for _ in range(rng.randint(0, 5)):
                    q = rng.random()
                    if q < 0.45: ps.append(str(rng.choice([1, 2, 3, 4, 21, 22, 24, 31, 34, 39, 42, 49, 10, 12, 53, 55, 9, 29])))
                    elif q < 0.55: ps.append('0')
                    elif q < 0.62: ps.append('')
                    elif q < 0.72: ps.append('%d;5;%d' % (rng.choice([38, 38, 48, 58]), rng.choice([0, 9, 255, 256, 300, 38, 48, 58, 5, 2])))
                    elif q < 0.80: ps.append('%d;2;%d;%d;%d' % (rng.choice([38, 48, 58]), rng.choice([0, 255, 256, 38, 58]), rng.choice([rng.randrange(256), 38, 48, 2, 5]), rng.choice([rng.randrange(256), 2, 5, 58])))
                    elif q < 0.86: ps.append(rng.choice(['38', '48;5', '58;2;1', '38;7', '38;2;1;2']))
                    elif q < 0.92: ps.append(str(rng.choice([77, 256, 1000, 56, 60])))
                    elif q < 0.93: ps.append(rng.choice([' 1', '1 ', '01', '031', '04', '044', '023', '00', '000']))
                    elif q < 0.95: ps.append(rng.choice([' ', '  ', ' 0', '0 ', ' 0 ']))      # blank: the same as empty, i.e. reset
                    elif q < 0.975: ps.append(rng.choice(['4:3', '4:0', '38:2::1:2:3', ':', '38:5:208', '1:2', '58:2::0:0:255', '4:', ':1', '1:', '3:4:1']))
                    else: ps.append(rng.choice(['+1', 'x', '1:2', '?25', '-1', '1_0', '\u00b2', '\u2460']))
                if rng.random() < 0.04:
                    # one long sequence: more parameters than any reasonable cap, the ones that matter at the end
                    ps = [str(rng.choice([1, 3, 4, 22, 23, 24, 39, 49])) for _ in range(rng.randint(30, 40))] + ps
                out += '\x1b[' + ';'.join(ps) + 'm'
            elif r < 0.85:
                out += rng.choice(['\x1b[2J', '\x1b[1;2H', '\x1b[', '\x1b[1;3', '\x1b', '\x1b[?25l', '\x1b[3~', '\x1b[15~', '\x9b1m', '\x1b[1M'])
        if rng.random() < 0.7:
            out += ''.join(rng.choice('abc xy') for _ in range(rng.randint(0, 3)))
        return out

    def change_points(self, x):
        return sorted(x._fmts.keys())

    def bound(self, x, allow_none=True):
        rng = self.rng
        n = len(x._s)
        cps = self.change_points(x)
        cands = set([0, n, n + 1, n - 1, -1, -n, -n - 1, 10 * n + 3])
        for c in cps:
            cands |= {c, c - 1, c + 1}
        self.stats['bounds'] += 1
        if rng.random() < 0.8:
            pool = sorted(cands)
            if allow_none:
                pool.append(None)
            b = rng.choice(pool)
        else:
            b = rng.randint(-n - 2, n + 2)
        if b is not None:
            bn = b if b >= 0 else n + b
            if bn in cps: self.stats['bounds_on_cp'] += 1
            elif bn - 1 in cps or bn + 1 in cps: self.stats['bounds_adj_cp'] += 1
        return b

    def pick(self):
        f = getattr(self, 'force_pick', None)
        if f is not None:
            self.force_pick = None
            return f
        return self.rng.choice(self.live)

    def add_live(self, x):
        if len(x._s) > 150:
            return          # keep the work per operation small: a slow operation is not a hanging one
        self.live.append(x)
        if len(self.live) > 6:
            del self.live[self.rng.randrange(len(self.live) - 1)]

    def count(self, op, outcome):
        self.stats['ops'][op] = self.stats['ops'].get(op, 0) + 1
        if outcome[0] != 'ok':
            k = outcome[0] if outcome[0] == 'timeout' else type(outcome[1]).__name__
            self.stats['errors'][k] = self.stats['errors'].get(k, 0) + 1

    def run_probes(self):
        viol = []
        for r, v in self.pending_probe:
            try:
                before = O.Snap(v)
            except Exception as e:   # noqa
                viol.append(('C08', 'frame', 'a value sharing structure with a result can no longer be observed: %r' % (e,)))
                self.tainted = True
                break
            try:
                for k in sorted(r._fmts):
                    r._fmts[k].add.append(self.mod.AnsiSetting('95'))
                    r._fmts[k].rem[:] = []
                changed = not before.same_as(O.Snap(v))
            except Exception:   # noqa
                changed = True
            self.tainted = True      # the probe destroyed the result: the history ends here
            if changed:
                viol.append(('C08', 'result_aliased', 'editing the markers of a result changed another value (shared list objects)'))
                own = self.OP_PROP.get(getattr(self, 'cur_op', None) or '')
                if own and own != 'C08':
                    # the result of a slice / concatenation / pad … is a value of its own: one that changes when its
                    # source is edited is not the value the operation's property describes
                    viol.append((own, 'result_aliased', 'the result of %s shares marker lists with another value: editing one changes the other' % self.cur_op))
                break
        self.pending_probe = []
        return viol

    def emit(self, op, inp, exp, desc, viol=(), tags=()):
        st = Step(op, inp, exp, desc, tags)
        st.viol = list(viol)
        if self.pending_probe:
            st.viol += self.run_probes()
        self.steps.append(st)
        return st

    def outcome_line(self, outcome, enc):
        if outcome[0] == 'ok':
            return enc(outcome[1])
        if outcome[0] == 'timeout':
            return 'timeout'
        return P.err_line(outcome[1])

    def c09(self, outcome, op, desc, allowed=(TypeError, ValueError)):
        """documented error classes only; no timeout"""
        if outcome[0] == 'timeout':
            return [('C09', 'terminates', '%s %s' % (op, desc))]
        if outcome[0] == 'err' and not isinstance(outcome[1], allowed):
            return [('C09', 'error_class', '%s %s raised %s' % (op, desc, type(outcome[1]).__name__))]
        if outcome[0] == 'err' and 'could not remove setting' in str(outcome[1]):
            return [('C09', 'self_check', '%s %s' % (op, desc))]
        return []

    # ----------------------------------------------------------------- value-semantics frame
    def check_frozen(self):
        """C13/C08: an AnsiStr made earlier still has payload == rendering and an unchanged wrapped value"""
        viol = []
        for t, snap in self.frozen:
            try:
                now = O.Snap(t._s)
                if not snap.same_as(now):
                    viol.append(('C08', 'frame', 'an AnsiStr made earlier changed: %r -> %r' % (snap.render[0], now.render[0])))
                    viol.append(('C13', 'ansistr_immutable', 'an AnsiStr made earlier changed: %r -> %r' % (snap.render[0], now.render[0])))
                    self.tainted = True
                if str.__str__(t) != t._s.to_str() or str.__str__(t) != t.to_str() or ('%s' % t) != t._s.to_str():
                    viol.append(('C13', 'ansistr_payload', 'payload %r but rendering %r' % (str.__str__(t), t._s.to_str())))
                    # str(a) is a rendering too: it no longer shows the text and styles the object reports
                    viol.append(('C01', 'str_eq', 'str() of an AnsiStr is %r, its to_str() %r' % (str.__str__(t), t._s.to_str())))
                    if '\x1b' not in t.base_str and T.strip_sgr(str.__str__(t)) != t.base_str:
                        viol.append(('C10', 'len_eq', 'an AnsiStr answers queries for the text %r while str() shows %r' % (t.base_str, T.strip_sgr(str.__str__(t)))))
                    try:
                        back = self.A(str.__str__(t))
                        if back._s != t.base_str or O.effs(back) != O.effs(t._s):
                            viol.append(('C03', 'roundtrip_display', 'AnsiString(str(a)) of an AnsiStr has other text/styles than a reports: str() %r, reported rendering %r' % (str.__str__(t), t._s.to_str())))
                    except Exception:   # noqa
                        pass
                    if t.is_formatting_valid() and '\x1b' not in t.base_str and T.strip_sgr(str.__str__(t)) != t.base_str:
                        viol.append(('C15', 'render_strip', 'an AnsiStr reports valid formatting, but stripping the escape sequences of str() %r does not give base_str %r' % (str.__str__(t), t.base_str)))
                    self.tainted = True
            except Exception as e:   # noqa
                viol.append(('C13', 'ansistr_payload', 'an AnsiStr made earlier can no longer be observed: %r' % (e,)))
                self.tainted = True
        return viol

    def framed(self, writes, fn):
        """run fn(); every live value not in `writes` (by identity) must be observably unchanged"""
        before = [(v, O.Snap(v)) for v in self.live if not any(v is w for w in writes)]
        if writes:
            self.last_written = writes[0]
        res = fn()
        viol = []
        if isinstance(res, tuple) and len(res) == 2 and res[0] == 'ok':
            viol += self.alias_check(res[1], writes)
        viol += self.check_frozen()
        for v, s in before:
            try:
                now = O.Snap(v)
            except Exception as e:   # noqa
                viol.append(('C08', 'frame', 'a value that was not written now fails: %r' % (e,)))
                viol.append(('C09', 'self_check', 'a value that was not written now fails: %r' % (e,)))
                self.tainted = True
                continue
            if not s.same_as(now):
                viol.append(('C08', 'frame', 'a value that was not written changed: %r -> %r' % (s.render[0], now.render[0])))
                self.tainted = True
        return res, viol

    @staticmethod
    def _lists(x):
        ids = {id(x._fmts)}
        for p in x._fmts.values():
            ids |= {id(p), id(p.add), id(p.rem)}
        return ids

    def alias_check(self, result, writes):
        """C08: a result of a non-in-place operation is a new object that shares no mutable
        structure (table, point, marker list) with any other live value; a suspected sharing is
        confirmed by actually mutating the result and watching the other value."""
        rs = result if isinstance(result, (list, tuple)) else [result]
        rs = [r for r in rs if isinstance(r, self.A)]
        viol = []
        for r in rs:
            if any(r is w for w in writes):
                continue
            for v in self.live + [t._s for t, _ in self.frozen]:
                if r is v:
                    viol.append(('C08', 'result_is_source', 'a non-in-place method returned the receiver/argument itself'))
                    return viol
                if self._lists(r) & self._lists(v):
                    # confirmed at the end of the step (the probe edits the result's markers)
                    self.pending_probe.append((r, v))
        return viol

    def after_error(self, x, snap, outcome):
        """C09: after a raised error the receiver is unchanged"""
        if outcome[0] == 'err':
            try:
                if not snap.same_as(O.Snap(x)):
                    return [('C09', 'error_atomic', 'receiver changed by a failed call')]
            except Exception as e:   # noqa
                return [('C09', 'error_atomic', 'receiver broken by a failed call: %r' % (e,))]
        return []

    @staticmethod
    def ttable(v):
        return (v._s, {k: ([str(q) for q in p_.add], [str(q) for q in p_.rem]) for k, p_ in sorted(v._fmts.items())})

    def own_lists_distinct(self, x, what):
        """the start and stop lists of one value are separate objects (two markers sharing a list: a later
        edit of one shows up at the other)"""
        ls = [l for p in x._fmts.values() for l in (p.add, p.rem)]
        if len(set(id(l) for l in ls)) != len(ls) or len(set(id(p) for p in x._fmts.values())) != len(x._fmts):
            out = [('C08', 'frame', 'after %s two markers of one value share a list or a point object' % what),
                   ('C09', 'self_check', 'after %s two markers of one value share a list or a point object' % what)]
            own = self.OP_PROP.get(getattr(self, 'cur_op', None) or '') or self.OP_PROP.get(what)
            if own:
                out.append((own, 'result_unobservable', 'after %s two markers of the result share a list: an edit of one end shows at the other' % what))
            return out
        return []

    def health(self, x, what):
        """C09: every reachable value passes the self-check and can be queried/rendered/sliced"""
        viol = []
        try:
            O.Snap(x)
            x[:]
            x + 'z'
        except Exception as e:  # noqa
            viol.append(('C09', 'self_check', '%s: %r' % (what, e)))
            self.tainted = True
            return viol
        n = len(x._s)
        ks = sorted(x._fmts)
        if ks and ks[-1] > n:
            viol.append(('C09', 'wf_keys', '%s: marker at %d beyond length %d' % (what, ks[-1], n)))
        if (x + 'z').ansi_settings_at(n):
            viol.append(('C09', 'wf_closed', '%s: style stays open past the end' % what))
        viol += self.own_lists_distinct(x, what)
        return viol

    # ----------------------------------------------------------------- constructors
    def op_new(self):
        rng = self.rng
        if rng.random() < 0.35:
            s = self.sgr_text()
        else:
            s = self.text(esc=rng.random() < 0.15)
        k = rng.choice([0, 0, 1, 1, 2])
        sargs = [(bad_sargs(rng) if rng.random() < 0.08 else good_sargs(rng)) for _ in range(k)]
        inp = self._inp = P.line('new', P.e_str(s), [len(sargs)], *[P.e_sarg(a) for a in sargs])
        built = [P.build_sarg(a, self.mod) for a in sargs]
        before = [[repr(q) for q in b_] if (isinstance(b_, list) and a_[0] == 'list' and not any(q[0] == 'selfref' for q in a_[1])) else None
                  for a_, b_ in zip(sargs, built)]
        out = self.call(lambda: self.A(s, *built))
        self.count('new', out)
        viol = self.c09(out, 'new', repr((s, sargs)))
        for b_, was in zip(built, before):
            if was is not None and [repr(q) for q in b_] != was:
                viol.append(('C08', 'arg_unchanged', 'settings list modified by the constructor: %s -> %r' % (was, b_)))
        if out[0] == 'err' and not sargs:
            # parsing a str never fails: what is not understood is kept as text or thrown out
            viol.append(('C02', 'parse_total', 'AnsiString(%r) raises %r' % (s, out[1])))
            viol.append(('C09', 'parse_total', 'AnsiString(%r) raises %r' % (s, out[1])))
        if out[0] == 'ok' and not sargs and self.live and rng.random() < 0.25:
            # the public re-parse on an object that already holds text and formatting: same as a fresh parse
            old = self.pick().copy()
            r2 = self.call(lambda: (old.set_ansi_str(s), old)[1])
            fresh = out[1]
            tt = lambda v: {k: ([str(q) for q in p_.add], [str(q) for q in p_.rem]) for k, p_ in v._fmts.items()}
            if r2[0] != 'ok' or r2[1]._s != fresh._s or tt(r2[1]) != tt(fresh) or str(r2[1]) != str(fresh):
                viol.append(('C02', 'set_ansi_str_fresh', 'set_ansi_str(%r) on an object that already held formatting differs from AnsiString(%r): %r vs %r' % (
                    s, s, str(r2[1]) if r2[0] == 'ok' else r2[1], str(fresh))))
        if out[0] == 'ok':
            x = out[1]
            if not sargs:
                viol += O.check_parse(s, x)
            viol += self.health(x, 'new')
            self.add_live(x)
        self.emit('new', inp, self.outcome_line(out, P.ok_astr), 'AnsiString(%r, %r)' % (s, sargs), viol)

    def op_copy(self):
        x = self.pick()
        rng = self.rng
        sargs = [good_sargs(rng)] if rng.random() < 0.3 else []
        ids = P.InIds()
        inp = self._inp = P.line('copynew', P.e_astr(x, ids), [len(sargs)], *[P.e_sarg(a) for a in sargs])
        kind = rng.choice(['ctor', 'copy', 'AnsiStr', 'AnsiStr', 'deepcopy', 'pickle'])
        pyc = []
        def run():
            if kind == 'copy' and not sargs:
                return x.copy()
            if kind in ('deepcopy', 'pickle') and not sargs:
                # the copies Python itself makes of the mutable class: equal, and sharing nothing
                import copy as _copy, pickle as _pickle
                return _copy.deepcopy(x) if kind == 'deepcopy' else _pickle.loads(_pickle.dumps(x, rng.choice([2, 3, 4, 5])))
            if kind == 'AnsiStr':
                t = self.S(x, *[P.build_sarg(a, self.mod) for a in sargs])
                self.frozen.append((t, O.Snap(t._s)))
                if rng.random() < 0.6:
                    # … and of the immutable one (copy protocol of a str subclass: __new__ from
                    # __getnewargs__, then the instance dict is put back): a reachable AnsiStr like any other
                    import copy as _copy, pickle as _pickle
                    how = rng.choice(['copy.copy', 'copy.deepcopy', 'pickle'])
                    t2 = (_copy.copy(t) if how == 'copy.copy' else _copy.deepcopy(t) if how == 'copy.deepcopy'
                          else _pickle.loads(_pickle.dumps(t, rng.choice([0, 1, 2, 3, 4, 5]))))
                    pyc.append((how, t, t2))
                    self.frozen.append((t2, O.Snap(t2._s)))
                del self.frozen[:-4]
                return self.A(t)
            return self.A(x, *[P.build_sarg(a, self.mod) for a in sargs])
        pre_viol = []
        if kind in ('deepcopy', 'pickle') and not sargs:
            # a copy made by Python is an operand like the original: with the library as shipped (self-check off),
            # text appended to it is as unformatted as text appended to the original
            import copy as _copy, pickle as _pickle
            core = sys.modules[self.A.__module__]
            was = core.AnsiString.WITH_ASSERTIONS
            core.AnsiString.WITH_ASSERTIONS = False
            try:
                def shipped():
                    y_ = _copy.deepcopy(x) if kind == 'deepcopy' else _pickle.loads(_pickle.dumps(x))
                    return ((y_ + 'q').settings_at(len(x._s)), (x + 'q').settings_at(len(x._s)),
                            str(self.A('p') + y_ + 'q'), str(self.A('p') + x + 'q'))
                r6 = self.call(shipped)
            finally:
                core.AnsiString.WITH_ASSERTIONS = was
            if r6[0] != 'ok' or r6[1][0] != r6[1][1] or r6[1][2] != r6[1][3]:
                pre_viol.append(('C05', 'iadd_plain_right', '%s of %r as an operand: %r' % (kind, x._s, r6[1])))
                pre_viol.append(('C08', 'copy_eq', '%s of %r concatenates differently from the original: %r' % (kind, x._s, r6[1])))
                self.emit('noop', None, None, '%s of %r as an operand' % (kind, x._s), pre_viol)
                self.tainted = True
                return
        (out), fv = self.framed([], lambda: self.call(run))
        self.count('copy', out)
        viol = self.c09(out, 'copy', kind) + fv
        if out[0] == 'ok':
            y = out[1]
            if not sargs:
                if not (y == x) or O.Snap(y).render != O.Snap(x).render:
                    viol.append(('C08', 'copy_eq', kind))
                fl = lambda v: (v.is_formatting_valid(), v.is_formatting_parsable(), v.is_optimizable())
                if fl(y) != fl(x):
                    # a copy / conversion holds the same settings: what the flags say about them cannot change
                    viol.append(('C15', 'flags_preserved', '%s of %r: (valid, parsable, optimizable) %r became %r' % (kind, x._s, fl(x), fl(y))))
            self.add_live(y)
            if kind in ('deepcopy', 'pickle') and not sargs:
                self._concat_next = y
        for how, t, t2 in pyc:
            if type(t2) is not type(t) or not (t2 == t) or str.__str__(t2) != str.__str__(t) or not O.same_value(O.Snap(t2._s), O.Snap(t._s)):
                viol.append(('C13', 'ansistr_pycopy', '%s of an AnsiStr is not the AnsiStr: payload %r / rendering %r, original %r' % (
                    how, str.__str__(t2), t2._s.to_str(), str.__str__(t))))
                viol.append(('C08', 'copy_eq', '%s of an AnsiStr differs from it' % how))
        self.emit('copynew', inp, self.outcome_line(out, P.ok_astr), '%s of %r %r' % (kind, x._s, sargs), viol)

    # ----------------------------------------------------------------- apply / remove
    def op_apply(self):
        rng = self.rng
        x = self.pick()
        a = bad_sargs(rng) if rng.random() < 0.1 else good_sargs(rng)
        st, en = self.bound(x), self.bound(x)
        if rng.random() < 0.3: st = 0
        if rng.random() < 0.3: en = None
        top = rng.random() < 0.6
        if rng.random() < 0.15:
            # directed: re-apply a setting exactly where an equal-valued one stops (or starts)
            stops = [(k, q) for k, p in x._fmts.items() for q in (p.rem if rng.random() < 0.7 else p.add)]
            if stops:
                k, q = rng.choice(stops)
                a = ('obj', str(q))
                st = k
                en = rng.choice([None, k + 1, k + 2, len(x._s)])
                ends = [k2 for k2, p2 in x._fmts.items() if any(r is q for r in p2.rem)]
                if ends and rng.random() < 0.5:
                    # ... or over exactly the range of an equal-valued setting that is already there
                    starts = [k1 for k1, p1 in x._fmts.items() if any(r is q for r in p1.add)]
                    if starts:
                        st, en = starts[0], ends[0]
        self.do_apply(x, a, st, en, top)

    def do_apply(self, x, a, st, en, top):
        ids = P.InIds()
        inp = self._inp = P.line('apply', P.e_astr(x, ids), P.e_sarg(a), P.e_optint(st), P.e_optint(en), P.e_bool(top))
        pre = O.Snap(x)
        arg = P.build_sarg(a, self.mod)
        arg_before = copy.copy(arg) if isinstance(arg, list) else None
        def run():
            x.apply_formatting(arg, 0 if st is None else st, en, top) if st is not None else x.apply_formatting(arg, end=en, topmost=top)
            return x
        out, fv = self.framed([x], lambda: self.call(run))
        self.count('apply', out)
        viol = self.c09(out, 'apply', repr((a, st, en, top))) + fv + self.after_error(x, pre, out)
        if arg_before is not None and a[0] == 'list' and not any(q[0] == 'selfref' for q in a[1]) and arg != arg_before:
            viol.append(('C08', 'arg_unchanged', 'settings list modified'))
        if out[0] == 'ok':
            viol += self.oracle_apply(pre, x, st, en, top, a)
            viol += self.health(x, 'apply')
        self.emit('apply', inp, self.outcome_line(out, P.ok_astr), 'apply(%r,%r,%r,top=%r) on %r' % (a, st, en, top, pre.text), viol)

    def oracle_apply(self, pre, x, st, en, top, a):
        viol = []
        n = len(pre.text)
        s, e = O.norm_idx(n, st, 0), O.norm_idx(n, en, n)
        post = O.acts(x)
        if x._s != pre.text:
            return [('C06', 'apply_text', '')]
        old_ids_all = set(i for ac in pre.acts for i, _ in ac)
        Nref = None
        for i in range(n):
            old, new = pre.acts[i], post[i]
            if not (s <= i < e):
                if not O.same_prec(old, new):
                    viol.append(('C06', 'apply_outside', 'i=%d %r -> %r' % (i, O.texts(old), O.texts(new))))
                    break
                continue
            added = [q for q in new if q[0] not in old_ids_all]
            kept = [q for q in new if q[0] in old_ids_all]
            if kept != old:
                viol.append(('C06', 'apply_inside_keeps', 'i=%d %r -> %r' % (i, O.texts(old), O.texts(new))))
                break
            if Nref is None:
                Nref = O.texts(added)
                exp = simple_texts(a, self.mod)
                if exp is not None and Nref != exp:
                    viol.append(('C06', 'apply_order', 'i=%d: %r gives the settings %r, in the order given they are %r' % (i, a, Nref, exp)))
                    break
                if only_codes(a) and not all(_re.fullmatch(r'[0-9]+(;[0-9]+)*', q_) for q_ in Nref):
                    # integer codes (also given as a bool, an int subclass, an enum member) and AnsiFormat members
                    # can only produce numeric settings: valid by construction
                    viol.append(('C15', 'codes_valid', 'apply(%r): the settings added are %r — not numeric codes' % (a, Nref)))
                    viol.append(('C14', 'int_text', 'apply(%r): the settings added are %r — not numeric codes' % (a, Nref)))
                    viol.append(('C06', 'apply_inside_adds', 'apply(%r): the settings added are %r — not numeric codes' % (a, Nref)))
                    break
                if a[0] == 'obj' and Nref != [P.obj_text(a[1])]:
                    viol.append(('C06', 'apply_inside_adds', 'i=%d: the setting %r was to be added, new on this character: %r' % (i, P.obj_text(a[1]), Nref)))
                    break
                if a[0] == 'str' and a[1].startswith('[') and len(a[1]) > 1:
                    # verbatim: the text after '[' is the setting, its flags are what the grammar says (C15)
                    t = a[1][1:]
                    if Nref == [t]:
                        so = x.ansi_settings_at(i)[[q[0] for q in new].index(added[0][0])]
                        if so.valid != O.grammar_valid(t):
                            viol.append(('C15', 'valid_iff', 'verbatim %r applied: valid=%r' % (t, so.valid)))
                        if t.isascii() and so.parsable != O.grammar_parsable(t):
                            viol.append(('C15', 'parsable_iff', 'verbatim %r applied: parsable=%r' % (t, so.parsable)))
                    if Nref != [t]:
                        viol.append(('C15', 'verbatim_intact', 'apply(%r): new setting texts %r' % (a[1], Nref)))
                        viol.append(('C06', 'apply_inside_adds', 'apply(%r): new setting texts %r' % (a[1], Nref)))
                        break
            elif O.texts(added) != Nref:
                viol.append(('C06', 'apply_inside_same', 'i=%d' % i))
                break
            gN = O.groups_touched(O.texts(added))
            gO = O.groups_touched(O.texts(old))
            if gN is None or gO is None or not all(T.is_group(q) for q in O.texts(new)):
                continue
            if gN & gO:
                self.stats['conflicts'] += 1
            if not top:
                if O.eff_on(O.texts(new), gO) != O.eff_on(O.texts(old), gO):
                    viol.append(('C06', 'apply_bottom_display', 'i=%d %r -> %r' % (i, O.texts(old), O.texts(new))))
                    break
            else:
                began_between = any(s < k <= i and pre.table[k][0] for k in pre.table)
                if not began_between and O.eff_on(O.texts(new), gN) != O.eff_on(O.texts(added), gN):
                    viol.append(('C06', 'apply_top_display', 'i=%d %r -> %r' % (i, O.texts(old), O.texts(new))))
                    break
        if s >= e or s >= n:
            if not pre.same_as(O.Snap(x)):
                viol.append(('C06', 'apply_noop', 'empty range changed the value'))
        if a[0] == 'str' and a[1].strip(';') == '' or (a[0] in ('list', 'tuple') and all(q[0] == 'str' and q[1].strip(';') == '' or q[0] in ('list', 'tuple') and not q[1] for q in a[1])):
            if not pre.same_as(O.Snap(x)):
                viol.append(('C06', 'apply_noop', 'settings %r name nothing, yet the value changed: table %r -> %r' % (a, pre.table, O.table(x))))
        return viol

    def op_remove(self):
        rng = self.rng
        x = self.pick()
        present = sorted(set(t for ac in O.acts(x) for t in O.texts(ac)))
        r = rng.random()
        if r < 0.2: a = None
        elif r < 0.6 and present:
            ts = rng.sample(present, rng.randint(1, min(2, len(present))))
            a = ('list', [('obj', t) for t in ts]) if rng.random() < 0.7 else ('obj', ts[0])
        elif r < 0.9: a = good_sargs(rng)
        else: a = bad_sargs(rng)
        st, en = self.bound(x), self.bound(x)
        if rng.random() < 0.3: st = 0
        if rng.random() < 0.3: en = None
        if rng.random() < 0.2:
            # directed: the range ends exactly where a setting (preferably one equal to a removed one) starts
            starts = [(k, q) for k, p in x._fmts.items() for q in p.add if k > 0]
            if starts:
                k, q = rng.choice(starts)
                en = k
                st = rng.choice([0, max(0, k - 1), max(0, k - 2), rng.randint(0, k)])
                if rng.random() < 0.7:
                    a = ('obj', str(q)) if rng.random() < 0.6 else None
        self.do_remove(x, a, st, en)

    def do_remove(self, x, a, st, en):
        ids = P.InIds()
        inp = self._inp = P.line('remove', P.e_astr(x, ids), P.e_optsarg(a), P.e_optint(st), P.e_optint(en))
        pre = O.Snap(x)
        arg = None if a is None else P.build_sarg(a, self.mod)
        arg_before = [repr(q) for q in arg] if (a is not None and a[0] == 'list') else None
        def run():
            x.remove_formatting(arg, 0 if st is None else st, en) if st is not None else x.remove_formatting(arg, end=en)
            return x
        out, fv = self.framed([x], lambda: self.call(run))
        self.count('remove', out)
        viol = self.c09(out, 'remove', repr((a, st, en))) + fv + self.after_error(x, pre, out)
        if arg_before is not None and not any(q[0] == 'selfref' for q in a[1]) and [repr(q) for q in arg] != arg_before:
            viol.append(('C08', 'arg_unchanged', 'settings list modified by remove_formatting: %s -> %r' % (arg_before, arg)))
        if out[0] == 'ok':
            viol += self.oracle_remove(pre, x, st, en, a, arg)
            viol += self.health(x, 'remove')
        self.emit('remove', inp, self.outcome_line(out, P.ok_astr), 'remove(%r,%r,%r) on %r' % (a, st, en, pre.text), viol)

    def oracle_remove(self, pre, x, st, en, a, arg):
        viol = []
        n = len(pre.text)
        s, e = O.norm_idx(n, st, 0), O.norm_idx(n, en, n)
        if x._s != pre.text:
            return [('C07', 'remove_text', '')]
        post = O.acts(x)
        if a is not None and not a_truthy(a):
            sel = None      # falsy non-None settings: no-op
            noop = True
        else:
            noop = False
            if a is None:
                sel = None
            else:
                try:
                    sel = [str(q) for q in self.mod.ansi_string._AnsiSettingPoint._scrub_ansi_settings(arg)]
                except Exception:   # noqa
                    return viol
        if s >= e or s >= n or noop:
            if not pre.same_as(O.Snap(x)):
                viol.append(('C07', 'remove_noop', 'empty range / empty settings changed the value'))
            return viol
        for i in range(n):
            old, new = pre.acts[i], post[i]
            if s <= i < e:
                want = [q for q in old if not (sel is None or q[1] in sel)]
                if O.texts(new) != O.texts(want):
                    viol.append(('C07', 'remove_inside', 'i=%d %r -> %r want %r' % (i, O.texts(old), O.texts(new), O.texts(want))))
                    break
            else:
                if not O.same_prec(old, new):
                    viol.append(('C07', 'remove_outside', 'i=%d %r -> %r' % (i, O.texts(old), O.texts(new))))
                    break
        return viol

    def op_clear(self):
        x = self.pick()
        ids = P.InIds()
        inp = self._inp = P.line('clear', P.e_astr(x, ids))
        out, fv = self.framed([x], lambda: self.call(lambda: (x.clear_formatting(), x)[1]))
        self.count('clear', out)
        viol = self.c09(out, 'clear', '') + fv
        if out[0] == 'ok' and any(O.acts(x)):
            viol.append(('C07', 'clear_all', ''))
        self.emit('clear', inp, self.outcome_line(out, P.ok_astr), 'clear_formatting', viol)

    # ----------------------------------------------------------------- slicing
    def op_slice(self):
        rng = self.rng
        x = self.pick()
        a, b = self.bound(x), self.bound(x)
        self.do_slice(x, a, b, rng.choice(['getitem', 'clip', 'getitem', 'clip_inplace']), rng.random() < 0.5)

    def do_slice(self, x, a, b, how, keep):
        ids = P.InIds()
        inp = self._inp = P.line('slice', P.e_astr(x, ids), P.e_optint(a), P.e_optint(b))
        pre = O.Snap(x, with_render=False)
        def run():
            if how == 'getitem': return x[a:b]
            if how == 'clip': return x.clip(a, b)
            if a is None and self.rng.random() < 0.5: return x.clip(end=b, inplace=True)
            return x.clip(a, b, inplace=True)
        out, fv = self.framed([x] if how == 'clip_inplace' else [], lambda: self.call(run))
        self.count('slice', out)
        viol = self.c09(out, 'slice', repr((a, b))) + fv
        if out[0] == 'ok':
            y = out[1]
            if how == 'clip_inplace' and y is not x:
                viol.append(('C08', 'inplace_returns_self', 'clip'))
            if y._s == '' and any(p_.add or p_.rem for p_ in y._fmts.values()):
                viol.append(('C04', 'slice_closed', 'an empty slice carries markers %r: text added to it in place would be styled' % (O.table(y),)))
            viol += self.oracle_slice(pre, y, a, b)
            viol += self.health(y, 'slice')
            if keep and y is not x:
                self.add_live(y)
        self.emit('slice', inp, self.outcome_line(out, P.ok_astr), '%s[%r:%r] of %r' % (how, a, b, pre.text), viol)

    def oracle_slice(self, pre, y, a, b):
        """pre: snapshot of the source taken before the slice"""
        viol = []
        if y._s != pre.text[a:b]:
            return [('C04', 'getitem_text', '%r vs %r' % (y._s, pre.text[a:b]))]
        n = len(pre.text)
        st = O.norm_idx(n, a, 0)
        ax, ay = pre.acts, O.acts(y)
        for k in range(len(y._s)):
            if not O.same_prec(ay[k], ax[st + k]):
                viol.append(('C04', 'getitem_settings', 'k=%d %r vs %r' % (k, O.texts(ay[k]), O.texts(ax[st + k]))))
                break
        z = y + 'q'
        if z.ansi_settings_at(len(y._s)):
            viol.append(('C04', 'getitem_closed', 'appended text reports %r' % (z.settings_at(len(y._s)),)))
        return viol

    def op_index(self):
        rng = self.rng
        x = self.pick()
        n = len(x._s)
        i = rng.choice([0, -1, n - 1, -n, n, -n - 1, rng.randint(-n - 1, n + 1), -n - 2, -2 * n, -2 * n - 1, 2 * n])
        ids = P.InIds()
        inp = self._inp = P.line('index', P.e_astr(x, ids), P.e_int(i))
        pre = O.Snap(x, with_render=False)
        out, fv = self.framed([], lambda: self.call(lambda: x[i]))
        self.count('index', out)
        viol = self.c09(out, 'index', repr(i), allowed=(IndexError,)) + fv
        valid = -n <= i < n
        if valid != (out[0] == 'ok'):
            viol.append(('C04', 'getitem_int_range', 'i=%d n=%d outcome=%s' % (i, n, out[0])))
            viol.append(('C09', 'index_outcome', 'an integer index outside -len..len-1 raises IndexError, inside it succeeds: i=%d n=%d outcome=%s' % (i, n, out[0])))
        if out[0] == 'ok':
            y = out[1]
            j = i if i >= 0 else n + i
            w = x[j:j + 1]
            if y._s != w._s or [O.texts(q) for q in O.acts(y)] != [O.texts(q) for q in O.acts(w)]:
                viol.append(('C04', 'getitem_int', 'i=%d: %r %r vs slice %r' % (i, y._s, y.settings_at(0), w.settings_at(0))))
            viol += self.oracle_slice(pre, y, j, j + 1)
        self.emit('index', inp, self.outcome_line(out, P.ok_astr), '[%d] of %r' % (i, x._s), viol)

    def op_iter(self):
        x = self.pick()
        ids = P.InIds()
        inp = self._inp = P.line('iter', P.e_astr(x, ids))
        pre = O.Snap(x, with_render=False)
        out, fv = self.framed([], lambda: self.call(lambda: list(x)))
        self.count('iter', out)
        viol = self.c09(out, 'iter', '') + fv
        if out[0] == 'ok':
            ys = out[1]
            if len(ys) != len(pre.text) or any(y._s != pre.text[i] or O.texts(O.acts(y)[0]) != O.texts(pre.acts[i]) for i, y in enumerate(ys)):
                viol.append(('C04', 'iter_eq', ''))
            # an iterator taken up again goes on where it stopped (for both classes), and ends
            for obj, nm in ((x, 'AnsiString'), (self.S(x), 'AnsiStr')):
                def resumed():
                    it = iter(obj)
                    head = [next(it).base_str for _ in range(min(2, len(pre.text)))]
                    tail = []
                    for c in it:
                        tail.append(c.base_str)
                        if len(tail) > len(pre.text) + 2:
                            break
                    return ''.join(head + tail)
                r2 = self.call(resumed)
                if r2[0] != 'ok' or r2[1] != pre.text:
                    viol.append(('C04', 'iter_eq', 'iterating an %s in two goes yields %r for %r' % (nm, r2[1], pre.text)))
            # the consumer edits the item it was handed before it asks for the next one: items are s[k], not each other
            def editing():
                got = []
                for c in x:
                    got.append((c._s, O.texts(O.acts(c)[0]) if c._s else None))
                    c.apply_formatting('[99', 0, None)
                    c += 'zz'
                return got
            r4 = self.call(editing)
            want4 = [(pre.text[i], O.texts(pre.acts[i])) for i in range(len(pre.text))]
            if r4[0] != 'ok' or r4[1] != want4:
                viol.append(('C04', 'iter_eq', 'iterating %r while the items handed out are edited yields %r, the characters are %r' % (pre.text, r4[1], want4)))
            # the value changes while it is iterated (in place: shorter, longer, other text): every item is the
            # character then at its index, and the iteration ends at the then current length — it never raises
            if len(pre.text) >= 2:
                y = x.copy()
                how = self.rng.choice(['clip', 'assign_shorter', 'assign_longer', 'rstrip', 'append'])
                at = self.rng.randrange(0, len(pre.text))
                def mutating():
                    got, n = [], 0
                    for c in y:
                        got.append((c.base_str, y._s[n] if n < len(y._s) else None))
                        if n == at:
                            if how == 'clip': y.clip(0, max(1, len(y._s) // 2), inplace=True)
                            elif how == 'assign_shorter': y.assign_str(y._s[:max(1, len(y._s) - 2)].upper())
                            elif how == 'assign_longer': y.assign_str(y._s + 'zz')
                            elif how == 'rstrip': y.assign_str(y._s[:n + 1] + '   '); y.rstrip(inplace=True)
                            else: y.__iadd__('q')
                        n += 1
                        if n > 3 * len(pre.text) + 8:
                            break
                    return got, n
                r3 = self.call(mutating)
                if r3[0] != 'ok':
                    viol.append(('C04', 'iter_mutating', 'iterating %r while it is edited in place (%s at item %d) raises %r' % (pre.text, how, at, r3[1])))
                    viol.append(('C09', 'iter_mutating', 'iterating %r while it is edited in place (%s at item %d) raises %r' % (pre.text, how, at, r3[1])))
                elif any(a_ != b_ for a_, b_ in r3[1][0]) or r3[1][1] != max(at + 1, len(y._s)):
                    viol.append(('C04', 'iter_mutating', 'iterating %r while it is edited in place (%s at item %d): items %r, final text %r' % (
                        pre.text, how, at, r3[1][0], y._s)))
        self.emit('iter', inp, self.outcome_line(out, P.ok_astrs), 'iter %r' % x._s, viol)

    # ----------------------------------------------------------------- concatenation
    def operand(self):
        """right operand: AnsiString (maybe the same object), AnsiStr, or str"""
        r = self.rng.random()
        if r < 0.55:
            return ('A', self.pick())
        if r < 0.7:
            if self.frozen and self.rng.random() < 0.5:
                return ('S', self.rng.choice(self.frozen)[0])      # an AnsiStr made earlier (checked after every step)
            t = self.S(self.pick())
            self.frozen.append((t, O.Snap(t._s)))                  # operands are arguments: they must not change
            del self.frozen[:-4]
            return ('S', t)
        if self.rng.random() < 0.08:
            return ('s', RaddStr(self.text(1, 3)))       # a str subclass that answers `<str> + self` itself
        if self.rng.random() < 0.25:
            return ('s', self.rng.choice(['WARN \x1b[33m', 'x\x1b[3', '1mred?', '\x1b[1m', 'a\x1b[0m', '\x1b', '[31mz', self.text(0, 4, esc=True)]))
        return ('s', self.text(0, 4))

    def as_astr(self, kv):
        k, v = kv
        if k == 'A': return v
        if k == 'S': return v._s
        return self.A(v)

    def op_concat(self):
        rng = self.rng
        a = self.pick()
        nxt = getattr(self, '_concat_next', None)
        if nxt is not None:
            self._concat_next = None
            if any(nxt is v for v in self.live):
                # a copy made by `copy.deepcopy` / `pickle` as the left operand: its stop markers must still be the
                # objects its start markers are
                self.do_concat(nxt, ('s', rng.choice(['q', 'xy'])) if rng.random() < 0.5 else ('A', self.pick()), False, None, False)
                return
        if rng.random() < 0.04:
            # directed seam: the left operand (a slice) ends with equal-valued settings around a conflicting one whose
            # activation order is the reverse of the order of its stop markers; the right operand starts with the same
            # values and stops its first one early — pairing the seam by value instead of by object goes wrong here
            c1, c2 = rng.choice([('red', 'blue'), ('bold', 'faint'), ('[31', '[34'), ('underline', 'double_underline')])
            n = rng.randint(3, 5)
            src = self.A(self.text(n, n).replace('\x1b', 'e') or 'abcd')
            src.apply_formatting(c1, 0, None); src.apply_formatting(c1, 1, 2); src.apply_formatting(c2, 0, 2)
            a = src[:2]
            t = self.text(2, 4)
            b = self.A(t)
            b.apply_formatting(c1, 0, 1); b.apply_formatting(c2); b.apply_formatting(c1)
            self.add_live(a)
            self.do_concat(a, ('A', b), rng.random() < 0.4, None, True)
            return
        if rng.random() < 0.06:
            # directed seam: verbatim multi-code settings whose codes, read together, coincide although the settings differ
            la, lb = rng.choice([('[1;31', '[4'), ('[1', '[31;4'), ('[38;5', '[9'), ('[1;3', '[4')])
            ra, rb = rng.choice([('[1', '[31;4'), ('[1;31', '[4'), ('[38', '[5;9'), ('[1', '[3;4')])
            a = self.A(self.text(1, 3) or 'ab')
            a.apply_formatting(la); a.apply_formatting(lb)
            t = self.text(2, 4)
            b = self.A(t)
            b.apply_formatting(ra, 0, rng.choice([1, None])); b.apply_formatting(rb)
            self.add_live(a)
            self.do_concat(a, ('A', b), rng.random() < 0.4, None, True)
            return
        if rng.random() < 0.15:
            kv = ('A', a)           # value with itself
        elif rng.random() < 0.25:
            # s[:k] + s[k:]
            k = rng.randint(0, len(a._s))
            src = a
            a = src[:k]
            kv = ('A', src[k:])
            self._split_src = (src, k)
        elif rng.random() < 0.2 and len(a._s) > 0:
            # directed seam: the right operand starts with the settings that end the left one, in the same
            # or another order, some of them stopping early / equal-valued ones nested inside
            ts = O.texts(O.acts(a)[-1])
            rng.shuffle(ts) if rng.random() < 0.5 else None
            t = self.text(1, 4)
            b = self.A(t, *[self.mod.AnsiSetting(q) for q in ts]) if ts else self.A(t, 'red')
            if len(t) > 1 and ts and rng.random() < 0.6:
                b.remove_formatting(self.mod.AnsiSetting(rng.choice(ts)), 1)
            if len(t) > 2 and ts and rng.random() < 0.5:
                b.apply_formatting(self.mod.AnsiSetting(rng.choice(ts)), 1, 2)
            if ts and rng.random() < 0.35:
                # the same setting objects on two separate stretches of the right operand
                src = self.A(self.text(2, 4) + 'xy', *[self.mod.AnsiSetting(q) for q in ts])
                b = src[0:1] + rng.choice(['-', '']) + src[1:2] + rng.choice(['.', '', 'zz'])
                if rng.random() < 0.4:
                    b = b + src[2:3]
            kv = ('A', b)
        elif rng.random() < 0.12:
            # directed: the receiver has been rendered (whatever it remembers about itself is settled), then
            # grows in place by a value with a verbatim multi-code setting that ends while another goes on;
            # the value is rendered again right after (history step)
            a.to_str(); a.is_formatting_parsable()
            t = self.text(2, 5)
            b = self.A(t, rng.choice(['underline', 'bg_blue', 'italic']))
            b.apply_formatting(rng.choice(['[1;31', '[1;32', '[4;34', '[0']), 0, rng.randint(1, len(t) - 1))
            self.do_concat(a, ('A', b), True, None, True)
            if not self.tainted:
                self.do_tostr(a, None, True, False, True)
            return
        else:
            kv = self.operand()
        split_src = getattr(self, '_split_src', None)
        self._split_src = None
        self.do_concat(a, kv, rng.random() < 0.4 and split_src is None, split_src, rng.random() < 0.6)

    def do_concat(self, a, kv, inplace, split_src, keep):
        b_astr = self.as_astr(kv)
        ids = P.InIds()
        inp = self._inp = P.line('iadd', P.e_astr(a, ids), P.e_astr(b_astr, ids))
        pre_a, pre_b = O.Snap(a), O.Snap(b_astr)
        ref = None
        if inplace:
            ref = self.call(lambda: self.ttable(a.copy() + (kv[1].copy() if (kv[0] == 'A' and kv[1] is a) else kv[1])))
            def run():
                nonlocal a
                t = a
                t += kv[1]
                return t
            out, fv = self.framed([a], lambda: self.call(run))
            if out[0] == 'ok' and out[1] is not a:
                fv.append(('C08', 'inplace_returns_self', '+='))
        else:
            out, fv = self.framed([], lambda: self.call(lambda: a + kv[1]))
        self.count('concat', out)
        viol = self.c09(out, 'concat', kv[0]) + fv
        if out[0] == 'err':
            # the operands are an AnsiString and a str / AnsiStr / AnsiString: concatenation is defined for them
            viol.append(('C05', 'iadd_total', '%r + %s:%r raises %r' % (pre_a.text, kv[0], pre_b.text, out[1])))
        if out[0] == 'ok' and ref is not None and ref[0] == 'ok' and self.ttable(out[1]) != ref[1]:
            viol.append(('C08', 'inplace_eq', '+= leaves %r, + on copies gives %r' % (self.ttable(out[1]), ref[1])))
        if out[0] == 'ok':
            r = out[1]
            viol += self.oracle_concat(pre_a, pre_b, r, kv)
            try:
                z = r + 'q'
                if z.ansi_settings_at(len(r._s)):
                    viol.append(('C05', 'iadd_plain_right', 'plain text appended to the result reports %r' % (z.settings_at(len(r._s)),)))
                z2 = self.A.join(r, 'q')
                if z2.ansi_settings_at(len(r._s)):
                    viol.append(('C05', 'iadd_plain_right', 'join(result, plain) reports %r' % (z2.settings_at(len(r._s)),)))
            except Exception as e:   # noqa
                viol.append(('C05', 'iadd_plain_right', 'appending plain text to the result raised %r' % (e,)))
            viol += self.health(r, 'concat')
            if kv[0] != 'A' or kv[1] is not a or not inplace:
                try:
                    if not pre_b.same_as(O.Snap(b_astr)):
                        viol.append(('C08', 'right_operand_unchanged', ''))
                except Exception as e:   # noqa
                    viol.append(('C08', 'right_operand_unchanged', repr(e)))
            if split_src is not None:
                src, k = split_src
                if [O.texts(q) for q in O.acts(r)] != [O.texts(q) for q in O.acts(src)] and \
                        not all(O.same_prec(p, q) for p, q in zip(O.acts(r), O.acts(src))):
                    viol.append(('C05', 'split_concat', 'k=%d' % k))
                if '\x1b' not in src._s and all(T.is_group(t) for ac in O.acts(src) for t in O.texts(ac)):
                    if T.run(str(r), {})[0] != T.run(str(src), {})[0]:
                        viol.append(('C05', 'split_concat_display', 'k=%d %r vs %r' % (k, str(r), str(src))))
            if not inplace and keep:
                self.add_live(r)
        self.emit('iadd', inp, self.outcome_line(out, P.ok_astr), '%r %s %s:%r' % (pre_a.text, '+=' if inplace else '+', kv[0], pre_b.text), viol)

    def oracle_concat(self, pre_a, pre_b, r, kv):
        viol = []
        if r._s != pre_a.text + pre_b.text:
            return [('C05', 'iadd_text', '%r' % r._s)]
        ar = O.acts(r)
        na = len(pre_a.text)
        for i in range(na):
            if not O.same_prec(ar[i], pre_a.acts[i]):
                viol.append(('C05', 'iadd_left', 'i=%d %r vs %r' % (i, O.texts(ar[i]), O.texts(pre_a.acts[i]))))
                return viol
        for k in range(len(pre_b.text)):
            want = pre_b.acts[k] if kv[0] != 's' else []
            if kv[0] == 's' and '\x1b' in kv[1]:
                want = pre_b.acts[k]
            if not O.same_prec(ar[na + k], want):
                viol.append(('C05', 'iadd_right', 'k=%d %r vs %r' % (k, O.texts(ar[na + k]), O.texts(want))))
                return viol
        return viol

    def op_join(self):
        rng = self.rng
        k = rng.randint(0, 4)
        kvs = [self.operand() for _ in range(k)]
        vals = [self.as_astr(kv) for kv in kvs]
        ids = P.InIds()
        inp = self._inp = P.line('join', [k], *[P.e_astr(v, ids) for v in vals])
        out, fv = self.framed([], lambda: self.call(lambda: self.A.join(*[kv[1] for kv in kvs])))
        self.count('join', out)
        viol = self.c09(out, 'join', '') + fv
        if out[0] == 'ok':
            r = out[1]
            if kvs:
                w = self.A(kvs[0][1]) if kvs[0][0] != 'A' else kvs[0][1].copy()
                for kv in kvs[1:]:
                    w = w + kv[1]
                if r._s != w._s or [O.texts(q) for q in O.acts(r)] != [O.texts(q) for q in O.acts(w)] or str(r) != str(w):
                    viol.append(('C05', 'join_fold', ''))
            elif r._s != '' or r._fmts:
                viol.append(('C05', 'join_nil', ''))
            viol += self.health(r, 'join')
        self.emit('join', inp, self.outcome_line(out, P.ok_astr), 'join of %d' % k, viol)

    # ----------------------------------------------------------------- padding / format
    def op_pad(self):
        rng = self.rng
        x = self.pick()
        n = len(x._s)
        kind = rng.choice(['ljust', 'rjust', 'center', 'zfill'])
        w = rng.choice([n - 1, n, n + 1, n + 2, n + 5, 0, n + 4, -3])
        fill = rng.choice([' ', ':', '+', '-', '0', '7', '*', '', 'ab']) if rng.random() < 0.9 else 'é'
        ext = rng.random() < 0.6
        inplace = rng.random() < 0.4
        self.do_pad(x, kind, w, fill, ext, inplace, rng.random() < 0.6)

    def do_pad(self, x, kind, w, fill, ext, inplace, keep):
        ids = P.InIds()
        if kind == 'zfill':
            inp = self._inp = P.line('zfill', P.e_astr(x, ids), P.e_int(w))
            fill, ext = '0', True
            fn = lambda: x.zfill(w, inplace)
        else:
            inp = self._inp = P.line(kind, P.e_astr(x, ids), P.e_int(w), P.e_str(fill), P.e_bool(ext))
            fn = lambda: getattr(x, kind)(w, fill, inplace, ext)
        pre = O.Snap(x)
        out, fv = self.framed([x] if inplace else [], lambda: self.call(fn))
        self.count(kind, out)
        viol = self.c09(out, kind, repr((w, fill, ext))) + fv + self.after_error(x, pre, out)
        if kind != 'zfill' and len(fill) != 1 and not (out[0] == 'err' and isinstance(out[1], ValueError)):
            # the documented contract of the fill character, whatever the width (str raises TypeError here)
            viol.append(('C12', 'pad_fillchar', '%s(%r, %r): a fill string that is not one character must raise ValueError, got %s' % (kind, w, fill, out[0])))
            viol.append(('C09', 'pad_outcome', '%s(%r, %r): a fill string that is not one character must raise ValueError, got %s' % (kind, w, fill, out[0])))
        elif out[0] == 'ok':
            y = out[1]
            if inplace and y is not x:
                viol.append(('C08', 'inplace_returns_self', kind))
            viol += self.oracle_pad(pre, y, kind, w, fill, ext)
            viol += self.health(y, kind)
            if not inplace and keep:
                self.add_live(y)
        self.emit(kind, inp, self.outcome_line(out, P.ok_astr), '%s(%r,%r,ext=%r,inplace=%r) on %r' % (kind, w, fill, ext, inplace, pre.text), viol)

    def oracle_pad(self, pre, y, kind, w, fill, ext):
        viol = []
        t = pre.text
        al = {'ljust': '<', 'rjust': '>', 'center': '^', 'zfill': '>'}[kind]
        n = len(t)
        num = max(0, w - n)
        left = {'<': 0, '>': num, '^': num // 2}[al]
        want = fill * left + t + fill * (num - left)
        if y._s != want:
            # C12 (text as format()) and C10 (ljust/rjust/zfill as str; center like format()'s '^')
            return [('C12', 'pad_text', '%s(%r,%r) on %r: %r vs %r' % (kind, w, fill, t, y._s, want)),
                    ('C10', 'pad_text', '%s(%r,%r) on %r: %r vs %r' % (kind, w, fill, t, y._s, want))]
        ay = O.acts(y)
        for k in range(n):
            if not O.same_prec(ay[left + k], pre.acts[k]):
                return [('C12', 'pad_original', 'k=%d' % k)]
        for j in list(range(left)) + list(range(left + n, len(want))):
            if ext and n > 0:
                src = pre.acts[0] if j < left else pre.acts[n - 1]
            else:
                src = []
            if not O.same_prec(ay[j], src):
                return [('C12', 'pad_fill', 'j=%d %r vs %r (ext=%r)' % (j, O.texts(ay[j]), O.texts(src), ext))]
        return viol

    def spec(self):
        rng = self.rng
        if rng.random() < 0.12:
            return rng.choice(['x', '<<5', '5:nope', '+5', ' 5', 'a+b', ':-1', '^^', '<+5', '> 5', '1.5', 'ab<5', '\n', 'x<5\n', '5\n', ':\n', '>5:red\n', '>6x', '*>6abc', '*->6.2', '>6 :bold', '<6x', '^6 ', '6x', '>6>', '*<6:red:blue',
                               # a width is ASCII digits only
                               '\u0666', '\u0967\u0968', '\uff18', '1\u0666', '\u0666:red', '*<\u0666', '>\uff11\uff12:bold'])
        fill = rng.choice(['', '', ' ', ':', '+', '-', '0', '7', '*', '<', 'é'])
        sign = rng.choice(['', '', '+', '-'])
        al = rng.choice(['<', '>', '^', ''])
        width = rng.choice(['', '0', '3', '7', '12', '05', '010', '007', '00'])
        if rng.random() < 0.012:
            width = rng.choice(['65536', '70001', '65535'])      # no cap on the width: the grammar has none
        if not al:
            fill = sign = ''
        spec = fill + sign + al + width
        if rng.random() < 0.6:
            spec += ':' + rng.choice(['red', 'bold;blue', '', 'bg_rgb(1,2,3)', '[1;2', 'nope', '1;31', ';', '[4;red', '[01;031', 'red;[1', '[', '[;', 'bold;;', '1;blue;31'])
        return spec

    def op_tostr(self):
        rng = self.rng
        x = self.pick()
        spec = self.spec() if rng.random() < 0.5 else rng.choice([None, ''])
        o, rs, re_ = rng.random() < 0.6, rng.random() < 0.4, rng.random() < 0.7
        self.do_tostr(x, spec, o, rs, re_)

    def do_tostr(self, x, spec, o, rs, re_):
        ids = P.InIds()
        inp = self._inp = P.line('tostr', P.e_astr(x, ids), P.e_optstr(spec), P.e_bool(o), P.e_bool(rs), P.e_bool(re_))
        pre = O.Snap(x)
        out, fv = self.framed([], lambda: self.call(lambda: x.to_str(spec, o, rs, re_)))
        self.count('tostr', out)
        viol = self.c09(out, 'tostr', repr(spec), allowed=(ValueError,)) + fv
        if out[0] == 'err' and (not spec or not isinstance(out[1], ValueError)):
            # rendering never fails (a format spec outside the grammar: ValueError, nothing else)
            viol.append(('C01', 'render_total', 'to_str(%r,%r,%r,%r) raises %r' % (spec, o, rs, re_, out[1])))
        if not pre.same_as(O.Snap(x)):
            viol.append(('C12', 'format_pure', repr(spec)))
        if out[0] == 'ok' and not spec:
            viol += O.check_render(x)
            viol += O.check_valid_render(x)
            viol += O.check_flags(x)
            if self.rng.random() < 0.3:
                # the same claim for the immutable class: its renderings of the same value
                a = self.call(lambda: self.S(x))
                if a[0] == 'ok':
                    viol += O.check_render(x, via=a[1])
        if spec:
            viol += self.oracle_spec(x, spec, out, o, rs, re_)
        self.emit('tostr', inp, self.outcome_line(out, P.ok_str), 'to_str(%r,%r,%r,%r) on %r' % (spec, o, rs, re_, x._s), viol, tags=('spec',) if spec else ())
        if spec and out[0] == 'ok' and len(x._s) >= 1 and not getattr(self, '_again', False) and self.rng.random() < 0.25 and not self.tainted:
            # the same question again after the markers were changed in place (text unchanged): the answer is for
            # the value as it is now
            self._again = True
            try:
                if self.rng.random() < 0.6:
                    self.do_apply(x, ('str', self.rng.choice(['red', 'bold', 'bg_blue', '[1;31'])), self.rng.randrange(0, len(x._s)), None, True)
                else:
                    self.do_remove(x, None, 0, self.rng.randint(1, len(x._s)))
                if not self.tainted:
                    self.do_tostr(x, spec, o, rs, re_)
            finally:
                self._again = False

    def oracle_spec(self, x, spec, out, o, rs, re_):
        """C12: grammar, text as format(), equals pad + apply on a copy"""
        viol = []
        if spec.endswith('\n'):
            # tolerated: the library's `$` also matches before one final newline
            spec = spec[:-1]
            if not spec:
                return viol
        m = _re.fullmatch(r'(?:(?P<fill>[^\n])?(?P<sign>[+-])?(?P<al>[<>^]))?(?P<w>[0-9]*)(?::(?P<ansi>[^\n]*))?', spec)
        if m and not m.group('al') and (m.group('fill') or m.group('sign')):
            m = None
        # `X<` where X is a sign character and no fill: the regex above reads it as sign; the library reads
        # a lone '+'/'-' before the alignment as the fill — both are in the documented grammar
        if m is None:
            if out[0] == 'ok':
                # outside the grammar: must raise ValueError, except that the library documents '.?' as any fill
                viol.append(('C12', 'fmtspec_grammar', 'spec %r accepted' % spec))
            return viol
        if out[0] != 'ok':
            if spec.startswith(':'):
                # ambiguous: a leading colon may be the fill character; the library reads it so and then
                # finds no alignment.  Not demanded either way.
                return viol
            # ansi part may be invalid
            ansi = m.group('ansi')
            if ansi:
                try:
                    self.mod.ansi_string._AnsiSettingPoint._scrub_ansi_settings(ansi)
                except Exception:   # noqa
                    return viol
            viol.append(('C12', 'fmtspec_grammar', 'spec %r rejected: %r' % (spec, out[1])))
            return viol
        fill, sign, al, w, ansi = m.group('fill'), m.group('sign'), m.group('al') or '<', m.group('w'), m.group('ansi')
        if fill is None and sign is not None and m.group('al'):
            # a lone sign before the alignment: the library takes it as the extend flag with default fill
            pass
        ext = sign != '-'
        fillc = fill if fill else ' '
        c = x.copy()
        if not ext and ansi:
            c.apply_formatting(ansi)
        if w:
            {'<': c.ljust, '>': c.rjust, '^': c.center}[al](int(w), fillc, True, ext)
        if ext and ansi:
            c.apply_formatting(ansi)
        want = c.to_str(None, o, rs, re_)
        if out[1] != want:
            viol.append(('C12', 'format_eq_pad_apply', 'spec %r: %r vs %r' % (spec, out[1], want)))
        if w and '\x1b' not in x._s:
            ft = format(x._s, (fillc + al + w))
            if c._s != ft:
                viol.append(('C12', 'pad_text', 'spec %r: %r vs format() %r' % (spec, c._s, ft)))
        return viol

    # ----------------------------------------------------------------- queries
    def op_find(self):
        rng = self.rng
        x = self.pick()
        present = sorted(set(t for ac in O.acts(x) for t in O.texts(ac)))
        r = rng.random()
        if r < 0.6 and present:
            ts = rng.sample(present, rng.randint(1, min(2, len(present))))
            a = ('list', [('obj', t) for t in ts])
        elif r < 0.7: a = ('list', [])
        elif r < 0.93: a = good_sargs(rng)
        else: a = bad_sargs(rng)
        st, en = self.bound(x), self.bound(x)
        if rng.random() < 0.4: st = 0
        if rng.random() < 0.4: en = None
        rev = rng.random() < 0.35
        self.do_find(x, a, st, en, rev)

    def do_find(self, x, a, st, en, rev):
        ids = P.InIds()
        inp = self._inp = P.line('find', P.e_astr(x, ids), P.e_sarg(a), P.e_optint(st), P.e_optint(en), P.e_bool(rev))
        arg = P.build_sarg(a, self.mod)
        arg_before = [repr(q) for q in arg] if a[0] == 'list' else None
        out, fv = self.framed([], lambda: self.call(lambda: x.find_settings(arg, 0 if st is None else st, en, rev)))
        self.count('find', out)
        viol = self.c09(out, 'find', repr((a, st, en, rev))) + fv
        if arg_before is not None and not any(q[0] == 'selfref' for q in a[1]) and [repr(q) for q in arg] != arg_before:
            viol.append(('C08', 'arg_unchanged', 'settings list modified by find_settings: %s -> %r' % (arg_before, arg)))
        if out[0] == 'ok':
            try:
                want = [str(q) for q in self.mod.ansi_string._AnsiSettingPoint._scrub_ansi_settings(arg)]
                viol += O.check_find(x, want, st, en, rev, out[1])
            except Exception:   # noqa
                pass
        enc = lambda r_: 'ok %s %s' % tuple('N' if v is None else v for v in r_)
        self.emit('find', inp, self.outcome_line(out, enc), 'find_settings(%r,%r,%r,%r) on %r' % (a, st, en, rev, x._s), viol)

    def op_settingsat(self):
        x = self.pick()
        n = len(x._s)
        i = self.rng.choice([0, -1, n - 1, n, n + 3, self.rng.randint(-2, n + 1)])
        ids = P.InIds()
        inp = self._inp = P.line('settingsat', P.e_astr(x, ids), P.e_int(i))
        out = self.call(lambda: (x.ansi_settings_at(i), x.settings_at(i)))
        self.count('settingsat', out)
        viol = self.c09(out, 'settingsat', repr(i))
        if out[0] == 'ok':
            l, s = out[1]
            if not (0 <= i < n) and l:
                viol.append(('C17', 'settings_at_oob', 'i=%d' % i))
            if s != ';'.join(str(q) for q in l):
                viol.append(('C17', 'settings_at_join', 'i=%d' % i))
        enc = lambda r_: P.line('ok', P.e_settings(r_[0], P.IdMap()), P.e_str(r_[1]))
        self.emit('settingsat', inp, self.outcome_line(out, enc), 'settings_at(%d) on %r' % (i, x._s), viol)

    def text_inert(self, t, keys=None):
        """the text holds no escape character, or only complete control sequences that are not styles (`ESC[2K`,
        `ESC[1;2H`, …): parsing it keeps it as it is, wherever a style change is written into it"""
        if '\x1b' not in t and '\x9b' not in t:
            return True
        pat = '\x1b\\[[0-9;?]*[A-Za-ln-z~@`]'
        rest = _re.sub(pat, '', t)
        if '\x1b' in rest or '\x9b' in rest:
            return False
        # … and no style change is written *into* one of them (the rendering would cut the sequence in two)
        spans = [(m.start(), m.end()) for m in _re.finditer(pat, t)]
        return not any(a < k < b for k in (keys or ()) for a, b in spans)

    def kept_seq_value(self):
        """a value whose *text* holds a control sequence that is not a style (it stays text), in front of a style change
        that does not start at index 0 — where an index computed from pieces instead of characters goes wrong"""
        rng = self.rng
        ctl = rng.choice(['\x1b[2K', '\x1b[1A', '\x1b[?25l', '\x1b[10;20H', '\x1b[2J', '\x1b[3~', '\x1b[', '\x1b[1;3'])
        pre_, mid, post = self.text(0, 2), self.text(1, 3), self.text(1, 4)
        x = self.A(pre_ + ctl + mid + post)
        st = len(pre_ + ctl + mid)
        x.apply_formatting(rng.choice(['red', 'bold', 'bg_blue', '[1;31']), st, rng.choice([None, st + 1]))
        if rng.random() < 0.4:
            x.apply_formatting('underline', rng.randrange(0, st + 1), None)
        self.add_live(x)
        return x

    def op_simplify(self):
        x = self.pick() if (getattr(self, 'force_pick', None) is not None or self.rng.random() > 0.08) else self.kept_seq_value()
        ids = P.InIds()
        inp = self._inp = P.line('simplify', P.e_astr(x, ids))
        pre = O.Snap(x)
        pre_effs = O.effs(x)
        ok_scope = self.text_inert(x._s, list(x._fmts)) and all(T.is_group(t) or not O.grammar_valid(t) for ac in pre.acts for t in O.texts(ac))
        # does the value hold a valid but unparsable setting (verbatim multi-code, unknown code, …)?  Then its
        # first rendering is not optimised.
        nongroup = any(q.valid and not q.parsable for p in x._fmts.values() for q in p.add)
        x0 = x.copy()
        out, fv = self.framed([x], lambda: self.call(lambda: (x.simplify(), x)[1]))
        self.count('simplify', out)
        viol = self.c09(out, 'simplify', '') + fv
        if out[0] == 'ok':
            if x._s != pre.text and '\x1b' not in pre.text:
                viol.append(('C03', 'simplify_text', ''))
            if ok_scope:
                want = [O.eff([t for t in O.texts(ac) if O.grammar_valid(t)]) for ac in pre.acts]
                if x._s == pre.text and O.effs(x) != want:
                    viol.append(('C03', 'simplify_display', '%r -> %r' % (pre.render[0], str(x))))
            if '\x1b' not in pre.text:
                if not x.is_formatting_parsable():
                    viol.append(('C03', 'simplify_parsable', ''))
                if any(not s.valid for p in x._fmts.values() for s in p.add + p.rem):
                    viol.append(('C03', 'simplify_no_invalid', ''))
                s1 = str(x)
                y = x.copy(); y.simplify()
                s2 = str(y)
                def settles(v):
                    # does repeated simplify() reach a fixed rendering within four more rounds?
                    v = v.copy(); last = str(v)
                    for _ in range(4):
                        v.simplify()
                        if str(v) == last: return True
                        last = str(v)
                    return False
                if s2 != s1:
                    same = T.run(s1, {})[0] == T.run(s2, {})[0]
                    viol.append(('C03', 'simplify_idem', 'display_same=%r settles=%r settings_same=%r: %r then %r' % (
                        same, settles(y), O.same_settings_modulo_order(x, y), s1, s2)))
                pv = self.A(s1)
                p1 = str(pv)
                if p1 != s1:
                    same = T.run(s1, {})[0] == T.run(p1, {})[0]
                    viol.append(('C03', 'render_fixed_point', 'display_same=%r settles=%r settings_same=%r: %r then %r' % (
                        same, settles(pv), O.same_settings_modulo_order(x, pv), s1, p1)))
            viol += self.health(x, 'simplify')
            if self.rng.random() < 0.3:
                # the immutable class: same result (so everything above holds for it), receiver untouched
                ra = self.call(lambda: self.S(x0).simplify())
                if ra[0] != 'ok' or type(ra[1]) is not self.S or ra[1].base_str != x._s or str(ra[1]) != str(x) \
                        or [ra[1].settings_at(i) for i in range(len(x._s))] != [x.settings_at(i) for i in range(len(x._s))]:
                    viol.append(('C03', 'simplify_ansistr', 'AnsiStr(%r).simplify() gives %r, AnsiString.simplify() %r' % (
                        pre.render[0], str(ra[1]) if ra[0] == 'ok' else ra[1], str(x))))
        self.emit('simplify', inp, self.outcome_line(out, P.ok_astr), 'simplify %r' % (pre.render[0],), viol)

    def op_roundtrip(self):
        """AnsiString(str(v)) — recorded as a `new` step on the rendering"""
        x = self.pick() if (getattr(self, 'force_pick', None) is not None or self.rng.random() > 0.08) else self.kept_seq_value()
        s = str(x)
        inp = self._inp = P.line('new', P.e_str(s), [0])
        out = self.call(lambda: self.A(s))
        self.count('roundtrip', out)
        viol = self.c09(out, 'roundtrip', repr(s))
        if out[0] == 'err':
            viol.append(('C03', 'roundtrip_total', 'AnsiString(str(v)) raises %r for %r' % (out[1], s)))
            viol.append(('C09', 'parse_total', 'AnsiString(%r) raises %r' % (s, out[1])))
        if out[0] == 'ok':
            y = out[1]
            if self.text_inert(x._s, list(x._fmts)) and all(T.is_group(t) for ac in O.acts(x) for t in O.texts(ac)):
                if y._s != x._s:
                    viol.append(('C03', 'roundtrip_text', repr(s)))
                elif O.effs(y) != O.effs(x):
                    viol.append(('C03', 'roundtrip_display', repr(s)))
                viol += O.check_parse(s, y)
        self.emit('new', inp, self.outcome_line(out, P.ok_astr), 'AnsiString(str(v)) %r' % s, viol, tags=('roundtrip',))

    # ----------------------------------------------------------------- str-likes
    def pattern(self, x):
        rng = self.rng
        t = x._s
        r = rng.random()
        if t and r < 0.6:
            i = rng.randrange(len(t)); j = rng.randint(i + 1, min(len(t), i + 3))
            return t[i:j]
        return rng.choice(['a', 'ab', 'aa', ' ', '-', 'b', 'zz', 'bb', '\t', '', ':', 'é'])

    def op_strip(self):
        rng = self.rng
        x = self.pick()
        kind = rng.choice(['strip', 'lstrip', 'rstrip'])
        chars = rng.choice([None, None, ' ', 'ab', 'a \t', '', ' \n'])
        inplace = rng.random() < 0.3
        ids = P.InIds()
        inp = self._inp = P.line('strip', P.e_astr(x, ids), P.e_optstr(chars), P.e_bool(kind != 'rstrip'), P.e_bool(kind != 'lstrip'), P.e_bool(inplace))
        pre = O.Snap(x)
        out, fv = self.framed([x] if inplace else [], lambda: self.call(lambda: getattr(x, kind)(chars, inplace)))
        self.count(kind, out)
        viol = self.c09(out, kind, repr(chars)) + fv
        if out[0] == 'ok':
            y = out[1]
            cs = ' \t\n\r\x0b\x0c' if chars is None else chars
            want = getattr(pre.text, kind)(cs)
            viol += self.piece(pre, y, want, pre.text.find(want) if kind != 'rstrip' else 0, 'C10', kind + '_text')
            if inplace and y is not x:
                viol.append(('C08', 'inplace_returns_self', kind))
            viol += self.health(y, kind)
        self.emit('strip', inp, self.outcome_line(out, P.ok_astr), '%s(%r, inplace=%r) on %r' % (kind, chars, inplace, pre.text), viol)

    def piece(self, pre, y, want_text, off, prop_text, clause):
        """result y must have text want_text and the settings of pre at offset off"""
        if y._s != want_text:
            return [(prop_text, clause, '%r vs %r' % (y._s, want_text)),
                    ('C11', 'piece_offset', '%s: the piece %r is not the text %r at its true offset, so it cannot carry those characters\' settings' % (clause, y._s, want_text))]
        ay = O.acts(y)
        for k in range(len(want_text)):
            if not O.same_prec(ay[k], pre.acts[off + k]):
                return [('C11', 'piece_settings', '%s k=%d: %r vs %r' % (clause, k, O.texts(ay[k]), O.texts(pre.acts[off + k])))]
        return []

    def op_affix(self):
        rng = self.rng
        x = self.pick()
        t = x._s
        kind = rng.choice(['removeprefix', 'removesuffix'])
        p = rng.choice(['', 'a', t[:2], t[-2:], t, t[:1] + 'q', t[-1:]])
        inplace = rng.random() < 0.3
        ids = P.InIds()
        inp = self._inp = P.line(kind, P.e_astr(x, ids), P.e_str(p))
        pre = O.Snap(x)
        out, fv = self.framed([x] if inplace else [], lambda: self.call(lambda: getattr(x, kind)(p, inplace)))
        self.count(kind, out)
        viol = self.c09(out, kind, repr(p)) + fv
        if out[0] == 'ok':
            y = out[1]
            want = getattr(t, kind)(p)
            off = len(p) if (kind == 'removeprefix' and t.startswith(p)) else 0
            viol += self.piece(pre, y, want, off, 'C10', kind + '_text')
            viol += self.health(y, kind)
            if inplace and y is not x:
                viol.append(('C08', 'inplace_returns_self', kind))
        self.emit(kind, inp, self.outcome_line(out, P.ok_astr), '%s(%r) on %r' % (kind, p, t), viol)

    def op_split(self):
        rng = self.rng
        x = self.pick()
        t = x._s
        r = rng.random()
        kind = rng.choice(['split', 'rsplit', 'splitlines', 'partition', 'rpartition'])
        if kind == 'splitlines' and rng.random() < 0.5:
            # a value with assorted line ends and non-uniform formatting
            t = ''.join(rng.choice(['a', 'b', 'cd', '\r\n', '\n', '\r', '\n\n', '\x0c', ' ']) for _ in range(rng.randint(2, 7)))
            x = self.A(t, rng.choice(['red', 'bold']))
            if len(t) > 2:
                x.apply_formatting('blue', rng.randint(0, len(t) - 1), rng.randint(1, len(t)))
            self.add_live(x)
        ids = P.InIds()
        pre = O.Snap(x)
        if kind in ('split', 'rsplit'):
            sep = None if rng.random() < 0.35 else self.pattern(x)
            m = rng.choice([-1, -1, 0, 1, 2, 5])
            inp = self._inp = P.line('split', P.e_astr(x, ids), P.e_optstr(sep), P.e_int(m), P.e_bool(kind == 'rsplit'))
            fn = lambda: getattr(x, kind)(sep, m)
            want = None
            try:
                want = getattr(t, kind)(sep, m)
            except ValueError:
                pass
            desc = '%s(%r,%r) on %r' % (kind, sep, m, t)
        elif kind == 'splitlines':
            keep = rng.random() < 0.5
            inp = self._inp = P.line('splitlines', P.e_astr(x, ids), P.e_bool(keep))
            fn = lambda: x.splitlines(keep)
            want = t.splitlines(keep)
            sep = None
            desc = 'splitlines(%r) on %r' % (keep, t)
        else:
            sep = self.pattern(x)
            inp = self._inp = P.line('partition', P.e_astr(x, ids), P.e_str(sep), P.e_bool(kind == 'rpartition'))
            fn = lambda: list(getattr(x, kind)(sep))
            want = None
            if sep:
                want = list(getattr(t, kind)(sep))
                if kind == 'rpartition' and sep not in t:
                    want = [t, '', '']
            desc = '%s(%r) on %r' % (kind, sep, t)
        out, fv = self.framed([], lambda: self.call(fn))
        self.count(kind, out)
        viol = self.c09(out, kind, desc) + fv
        if out[0] == 'ok' and want is not None:
            ys = out[1]
            if [y._s for y in ys] != want:
                viol.append(('C10', kind + '_text', '%r vs %r' % ([y._s for y in ys], want)))
                viol.append(('C11', 'piece_offset', '%s: pieces %r are not the str pieces %r' % (kind, [y._s for y in ys], want)))
            else:
                offs = true_offsets(t, want, kind, sep)
                if offs is not None:
                    for y, w, off in zip(ys, want, offs):
                        viol += self.piece(pre, y, w, off, 'C10', kind + '_text')
                for y in ys:
                    viol += self.health(y, kind)
        if out[0] == 'ok' and len(set(id(y) for y in out[1])) != len(out[1]):
            viol.append(('C08', 'result_is_source', '%s: two of the returned pieces are one and the same object' % desc))
        if out[0] == 'ok' and any(y is x for y in out[1]):
            viol.append(('C08', 'result_is_source', '%s: a returned piece is the receiver itself' % desc))
        if out[0] == 'ok' and want is None and kind in ('split', 'rsplit'):
            viol.append(('C09', 'error_class', 'str raises ValueError for %s' % desc))
        if out[0] == 'ok' and rng.random() < 0.3 and out[1]:
            self.add_live(rng.choice(out[1]))
        self.emit(inp.split(' ', 1)[0], inp, self.outcome_line(out, P.ok_astrs), desc, viol)

    def op_replace(self):
        rng = self.rng
        x = self.pick()
        t = x._s
        old = self.pattern(x)
        r = rng.random()
        if r < 0.5:
            new = ('s', rng.choice(['', 'x', 'xy', old + old, 'a', '--', old[::-1]]))
            if rng.random() < 0.2:
                new = ('s', StrSub(new[1]))          # an instance of a str subclass is a str (not an AnsiStr)
        elif r < 0.8:
            new = ('A', self.pick())
        else:
            new = ('S', self.S(self.pick()))
        count = rng.choice([-1, -1, 0, 1, 2, -2, -7, 3])
        inplace = rng.random() < 0.3
        nlen = len(new[1]) if new[0] == 's' else len(self.as_astr(new)._s)
        if (len(t) + 1) * max(1, nlen) > 600:
            new = ('s', rng.choice(['', 'x', 'xy']))      # bounded work (see add_live)
        ids = P.InIds()
        if new[0] == 's':
            inp = self._inp = P.line('replace', P.e_astr(x, ids), P.e_str(old), [0], P.e_str(new[1]), P.e_int(count))
            newtext = new[1]
        else:
            nv = new[1] if new[0] == 'A' else new[1]._s
            inp = self._inp = P.line('replace', P.e_astr(x, ids), P.e_str(old), [1], P.e_astr(nv, ids), P.e_int(count))
            newtext = nv._s
        pre = O.Snap(x)
        pre_new = O.Snap(self.as_astr(new)) if new[0] != 's' else None
        writes = [x] if inplace else []
        ref = self.call(lambda: self.ttable(x.copy().replace(old, new[1].copy() if (new[0] == 'A' and new[1] is x) else new[1], count))) if inplace else None
        out, fv = self.framed(writes, lambda: self.call(lambda: x.replace(old, new[1], count, inplace)))
        if inplace and out[0] == 'ok' and ref[0] == 'ok' and self.ttable(out[1]) != ref[1]:
            fv.append(('C08', 'inplace_eq', 'replace(%r, …, inplace=True) leaves %r, the non-in-place call on a copy gives %r' % (old, self.ttable(out[1]), ref[1])))
        self.count('replace', out)
        viol = self.c09(out, 'replace', repr((old, new[0], count))) + fv
        if out[0] == 'ok':
            y = out[1]
            want = t.replace(old, newtext, count)
            if new[0] == 's' and '\x1b' in newtext:
                # a replacement *string* is parsed by the constructor (documented), so escape sequences in it
                # do not become text: the text clause is not claimed for such arguments
                pass
            elif y._s != want:
                viol.append(('C10', 'replace_text', '%r.replace(%r,%r,%r): %r vs %r' % (t, old, newtext, count, y._s, want)))
            elif old:
                viol += self.oracle_replace(pre, pre_new, y, old, newtext, count, new)
            if pre_new is not None and not (new[0] == 'A' and new[1] is x and inplace):
                if not pre_new.same_as(O.Snap(self.as_astr(new))):
                    viol.append(('C08', 'arg_unchanged', 'replacement value modified'))
            viol += self.health(y, 'replace')
            if inplace and y is not x:
                viol.append(('C08', 'inplace_returns_self', 'replace'))
            if not inplace and rng.random() < 0.5:
                self.add_live(y)
        self.emit('replace', inp, self.outcome_line(out, P.ok_astr), 'replace(%r,%s:%r,%r,inplace=%r) on %r' % (old, new[0], newtext, count, inplace, t), viol)

    def oracle_replace(self, pre, pre_new, y, old, newtext, count, new):
        viol = []
        t = pre.text
        ay = O.acts(y)
        i = 0; j = 0; c = count
        while i <= len(t):
            k = t.find(old, i)
            if k < 0 or c == 0:
                k = len(t)
                stop = True
            else:
                stop = False
            for q in range(i, k):
                if not O.same_prec(ay[j], pre.acts[q]):
                    return [('C11', 'replace_outside', 'orig idx %d: %r vs %r' % (q, O.texts(ay[j]), O.texts(pre.acts[q])))]
                j += 1
            if stop:
                break
            for q in range(len(newtext)):
                want = pre.acts[k] if new[0] == 's' else pre_new.acts[q]
                if new[0] == 's' and '\x1b' in newtext:
                    break
                if not O.same_prec(ay[j + q], want):
                    return [('C11', 'replace_settings', 'match at %d, char %d: %r vs %r' % (k, q, O.texts(ay[j + q]), O.texts(want)))]
            j += len(newtext)
            i = k + len(old)
            if c > 0: c -= 1
        return viol

    def op_case(self):
        rng = self.rng
        x = self.pick()
        kind = rng.choice(['upper', 'lower', 'capitalize', 'casefold', 'swapcase', 'title'])
        inplace = rng.random() < 0.3
        t2 = getattr(x._s, kind)()
        ids = P.InIds()
        inp = self._inp = P.line('maptext', P.e_astr(x, ids), P.e_str(t2))
        pre = O.Snap(x)
        out, fv = self.framed([x] if inplace else [], lambda: self.call(lambda: getattr(x, kind)(inplace)))
        self.count(kind, out)
        viol = self.c09(out, kind, '') + fv
        if out[0] == 'ok':
            y = out[1]
            if y._s != t2:
                viol.append(('C10', kind + '_text', ''))
            elif len(t2) == len(pre.text):
                if [O.texts(q) for q in O.acts(y)] != [O.texts(q) for q in pre.acts]:
                    viol.append(('C11', 'case_settings', kind))
            if inplace and y is not x:
                viol.append(('C08', 'inplace_returns_self', kind))
        self.emit('maptext', inp, self.outcome_line(out, P.ok_astr), '%s(inplace=%r) on %r' % (kind, inplace, pre.text), viol)

    def op_assign(self):
        rng = self.rng
        x = self.pick()
        n = len(x._s)
        t2 = self.text(0, n + 3)
        ids = P.InIds()
        inp = self._inp = P.line('assign', P.e_astr(x, ids), P.e_str(t2))
        pre = O.Snap(x)
        out, fv = self.framed([x], lambda: self.call(lambda: (x.assign_str(t2), x)[1]))
        self.count('assign', out)
        viol = self.c09(out, 'assign', repr(t2)) + fv
        if out[0] == 'ok':
            ay = O.acts(x)
            if x._s != t2:
                viol.append(('C11', 'assign_text', ''))
            else:
                for k in range(len(t2)):
                    src = pre.acts[k] if k < n else (pre.acts[n - 1] if n else [])
                    if not O.same_prec(ay[k], src):
                        viol.append(('C11', 'assign_settings', 'k=%d %r vs %r' % (k, O.texts(ay[k]), O.texts(src))))
                        break
            viol += self.health(x, 'assign')
        self.emit('assign', inp, self.outcome_line(out, P.ok_astr), 'assign_str(%r) on %r' % (t2, pre.text), viol)

    def op_expandtabs(self):
        x = self.pick()
        k = self.rng.choice([0, 1, 4, 8, -1])
        ids = P.InIds()
        inp = self._inp = P.line('expandtabs', P.e_astr(x, ids), P.e_int(k))
        pre = O.Snap(x)
        inplace = self.rng.random() < 0.3
        out, fv = self.framed([x] if inplace else [], lambda: self.call(lambda: x.expandtabs(k, inplace=True) if inplace else x.expandtabs(k)))
        self.count('expandtabs', out)
        viol = self.c09(out, 'expandtabs', repr(k)) + fv
        if out[0] == 'ok':
            y = out[1]
            if inplace and y is not x:
                viol.append(('C08', 'inplace_returns_self', 'expandtabs'))
            want = pre.text.replace('\t', ' ' * k)
            if y._s != want:
                viol.append(('C10', 'expandtabs_text', ''))
            else:
                viol += self.oracle_replace(pre, None, y, '\t', ' ' * max(k, 0), -1, ('s', ' ' * max(k, 0)))
        self.emit('expandtabs', inp, self.outcome_line(out, P.ok_astr), 'expandtabs(%d) on %r' % (k, pre.text), viol)

    def op_query(self):
        """delegating queries: executed and compared with str directly (no model step needed)"""
        rng = self.rng
        x = self.pick()
        if rng.random() < 0.08:
            # texts that mean something to Python itself: keywords, soft keywords, dunder names, digits first
            x = self.A(rng.choice(['class', 'None', 'def', 'True', 'lambda', 'match', 'Class', '__init__', '_', '1a', 'a b', 'ünï', 'yield', 'print']),
                       rng.choice(['red', 'bold']))
        t = x._s
        sub = self.pattern(x)
        a, b = self.bound(x), self.bound(x)
        viol = []
        checks = [
            ('len', lambda: len(x), lambda: len(t)),
            ('in', lambda: sub in x, lambda: sub in t),
            ('in_ansistr', lambda: self.S(sub, 'bold') in x, lambda: sub in t),
            ('in_ansistring', lambda: self.A(sub, 'red') in x, lambda: sub in t),
            ('in_on_ansistr', lambda: self.S(sub, 'bold') in self.S(x), lambda: sub in t),
            ('count', lambda: x.count(sub, a, b), lambda: t.count(sub, a, b)),
            ('find', lambda: x.find(sub, a, b), lambda: t.find(sub, a, b)),
            ('rfind', lambda: x.rfind(sub, a, b), lambda: t.rfind(sub, a, b)),
            ('index', lambda: x.index(sub, a, b), lambda: t.index(sub, a, b)),
            ('rindex', lambda: x.rindex(sub, a, b), lambda: t.rindex(sub, a, b)),
            ('endswith', lambda: x.endswith(sub, a, b), lambda: t.endswith(sub, a, b)),
            ('endswith_tuple', lambda: x.endswith((sub, 'b'), a, b), lambda: t.endswith((sub, 'b'), a, b)),
        ] + [(nm, (lambda nm=nm: getattr(x, nm)()), (lambda nm=nm: getattr(t, nm)())) for nm in
             ['isalnum', 'isalpha', 'isascii', 'isdecimal', 'isdigit', 'isidentifier', 'islower', 'isnumeric',
              'isprintable', 'isspace', 'istitle', 'isupper']]
        for nm, f, g in checks:
            if nm.startswith('in') and '\x1b' in sub:
                continue
            r1 = self.call(f)
            try:
                r2 = ('ok', g())
            except Exception as e:   # noqa
                r2 = ('err', e)
            same = (r1[0] == r2[0]) and (r1[1] == r2[1] if r1[0] == 'ok' else type(r1[1]) is type(r2[1]))
            if not same:
                viol.append(('C10', nm + '_eq', '%r sub=%r a=%r b=%r: %r vs %r' % (t, sub, a, b, r1, r2)))
        self.count('query', ('ok', None))
        self.emit('noop', None, None, 'queries on %r' % t, viol)

    def op_match(self):
        rng = self.rng
        x = self.pick()
        t = x._s
        if rng.random() < 0.2:
            x = self.A(rng.choice(['(a)', 'c++', '[1+1]?', 'a.b*c', 'C++ c++', '$^', 'a|b|a', '\\d+']), rng.choice(['red', 'bold']))
            if rng.random() < 0.5:
                x.apply_formatting('blue', 1, 3)
            self.add_live(x)
            t = x._s
        regex = rng.random() < 0.35
        if regex:
            pat = rng.choice(['a+', 'a*', '[ab]', 'b?', '(a)(b)?', '\\s', '.', 'a|b', '^', '$', 'x*', '(?:ab)+', '^a', '^.', '.$', 'b$', '^\\w+', '\\w$', '^[ab]|c$', 'x?|a+', '^|a', 'a*?', '(?=a)|a', '|b',
                              # no cased character in the pattern, yet case matters for what it matches
                              '[@-\\[]+', '[\\101-\\132]+', '[\\x41-\\x5a]', '[^\\W\\d_]+', '[\\141-\\172]', '\\x41', '[`-{]+'])
        else:
            pat = rng.choice([self.pattern(x), self.pattern(x), t, t[:3], t[-3:], '.', 'a.', '(', 'a+', '[', '\\', 'A', 'B', '*', '++', '(a)', '[1+1]', '|', 'a|b', ' | ', '^', '$', '{', '}', 'a{1}', '?'])
        mc = rng.random() < 0.4
        if not regex and rng.random() < 0.3:
            pat = rng.choice([pat.upper(), pat.lower(), pat.swapcase(), 's', 'S', 'k', 'i', '\u03c3', '\u03c2'])
        count = rng.choice([-1, -1, 0, 1, 2, -2, -7, 3])
        un = rng.random() < 0.4
        present = sorted(set(q for ac in O.acts(x) for q in O.texts(ac)))
        if un:
            r = rng.random()
            if r < 0.25: fmt = []
            elif r < 0.33: fmt = [None]
            elif r < 0.45: fmt = rng.choice([[None, good_sargs(rng)], [good_sargs(rng), None], [None, ('obj', rng.choice(present or ['1']))]])
            elif r < 0.8 and present: fmt = [('obj', rng.choice(present))]
            else: fmt = [good_sargs(rng)]
        else:
            fmt = [good_sargs(rng) for _ in range(rng.choice([1, 1, 2, 0]))]
            r = rng.random()
            if r < 0.05: fmt = [bad_sargs(rng)]
            elif r < 0.10: fmt = [good_sargs(rng), bad_sargs(rng)]        # a valid specifier before an invalid one: all or nothing
            elif r < 0.13: fmt = [('list', [('int', 1), ('int', 31)]), ('list', [('int', 38), ('int', 5), ('int', 214)])]
            elif r < 0.18: fmt = rng.choice([[('int', 38), ('int', 5), ('int', 214)], [('str', 'bold'), ('int', 38), ('int', 5), ('int', 214)],
                                             [('str', '38'), ('str', '5'), ('str', '9')], [('int', 4), ('int', 58), ('int', 2), ('int', 1), ('int', 2), ('int', 3)]])
        if un and rng.random() < 0.1:
            fmt = [('list', [('int', 1), ('int', 31)])]
        if rng.random() < 0.08:
            # one colour given as separate integer arguments, with a value that occurs twice
            fmt = rng.choice([[('int', 38), ('int', 5), ('int', 5)], [('int', 48), ('int', 2), ('int', 255), ('int', 255), ('int', 0)],
                              [('int', 1), ('int', 38), ('int', 5), ('int', 1)], [('int', 58), ('int', 5), ('int', 58)],
                              [('int', 38), ('int', 2), ('int', 2), ('int', 2), ('int', 2)], [('str', 'bold'), ('str', 'bold')]])
            if un and rng.random() < 0.7:
                # … and the value carries exactly that colour on some range, so that removing it is visible
                x.apply_formatting(tuple(P.build_sarg(f, self.mod) for f in fmt), rng.randrange(0, max(1, len(t))), None)
        if regex and rng.random() < 0.06:
            pat = rng.choice(['g(', '(x', '[1', 'a)', '*a', 'a{2', '(?P<n', '\\'])
        try:
            spans = [(m.start(), m.end()) for m in _re.finditer(pat if regex else _re.escape(pat), t, 0 if mc else _re.IGNORECASE)]
        except _re.error:
            # not a regular expression: `re` refuses it, and so must the method — nothing is formatted
            pre = O.Snap(x)
            args = [P.build_sarg(f, self.mod) for f in fmt if f is not None] or ['bold']
            r_ = self.call(lambda: x.unformat_matching(pat, regex=True, match_case=mc) if un else x.format_matching(pat, *args, regex=True, match_case=mc, count=count))
            v_ = []
            if not (r_[0] == 'err' and isinstance(r_[1], _re.error)):
                v_.append(('C16', 'matching_eq_fold', 'regex=True with %r, which re rejects: outcome %r instead of re.error' % (pat, r_[1] if r_[0] == 'err' else 'ok')))
            if not pre.same_as(O.Snap(x)):
                v_.append(('C16', 'matching_eq_fold', 'regex=True with %r, which re rejects: the value changed' % (pat,)))
            self.emit('noop', None, None, 'matching with an invalid regex %r' % pat, v_)
            return
        ids = P.InIds()
        sp = [count, len(spans)] + [v for se in spans for v in se]
        if count >= 0:
            spans = spans[:count]
        if un:
            arg_ast = None if (not fmt or None in fmt) else ('tuple', fmt)
            inp = self._inp = P.line('unfmatch', P.e_astr(x, ids), P.e_optsarg(arg_ast), sp)
        else:
            arg_ast = ('tuple', fmt)
            inp = self._inp = P.line('fmatch', P.e_astr(x, ids), P.e_sarg(arg_ast), sp)
        args = [None if f is None else P.build_sarg(f, self.mod) for f in fmt]
        ref = x.copy()
        pre = O.Snap(x)
        def run():
            if un: x.unformat_matching(pat, *args, regex=regex, match_case=mc, count=count)
            else: x.format_matching(pat, *args, regex=regex, match_case=mc, count=count)
            return x
        args_before = [[repr(q) for q in a_] if isinstance(a_, list) else None for a_ in args]
        out, fv = self.framed([x], lambda: self.call(run))
        self.count('unfmatch' if un else 'fmatch', out)
        viol = self.c09(out, 'match', repr((pat, regex, mc, count))) + fv + self.after_error(x, pre, out)
        for a_, b_ in zip(args, args_before):
            if b_ is not None and [repr(q) for q in a_] != b_:
                viol.append(('C08', 'arg_unchanged', 'settings list modified by %s: %s -> %r' % ('unformat_matching' if un else 'format_matching', b_, a_)))
        # the property's right-hand side, executed on a copy
        def rhs():
            for (s_, e_) in spans:
                if un: ref.remove_formatting(None if (not args or None in args) else tuple(args), s_, e_)
                else: ref.apply_formatting(tuple(args), s_, e_)
            return ref
        out2 = self.call(rhs)
        if out[0] != out2[0]:
            viol.append(('C16', 'matching_eq_fold', 'outcome %s vs explicit loop %s' % (out[0], out2[0])))
        elif out[0] == 'ok':
            if x._s != pre.text:
                viol.append(('C16', 'matching_text', ''))
            if [O.texts(q) for q in O.acts(x)] != [O.texts(q) for q in O.acts(ref)] or O.Snap(x).render != O.Snap(ref).render:
                viol.append(('C16', 'matching_eq_fold', 'pat=%r regex=%r mc=%r count=%r' % (pat, regex, mc, count)))
            inside = set(i for s_, e_ in spans for i in range(s_, e_))
            ax = O.acts(x)
            for i in range(len(t)):
                if i not in inside and not O.same_prec(ax[i], pre.acts[i]):
                    viol.append(('C16', 'matching_outside', 'i=%d' % i))
                    break
            viol += self.health(x, 'match')
        if any(v[0] == 'C16' for v in viol):
            # (un)format_matching is remove/apply over the matches: the range operation's own property is broken too
            viol.append(('C07', 'unformat_is_remove', viol[-1][2]) if un else ('C06', 'format_is_apply', viol[-1][2]))
        self.emit('unfmatch' if un else 'fmatch', inp, self.outcome_line(out, P.ok_astr),
                  '%s(%r,%r,regex=%r,match_case=%r,count=%r) on %r' % ('unformat_matching' if un else 'format_matching', pat, fmt, regex, mc, count, t), viol)

    # ----------------------------------------------------------------- long values (indices beyond 256)
    def op_long(self):
        """a value longer than 256 characters with change points beyond index 256, then one range operation
        whose bounds are computed integers at those points (CPython caches only small ints: `is` on an
        index, a dict keyed by position reused across objects, … show up only there)"""
        rng = self.rng
        if rng.random() < 0.35:
            # many settings on one range: a change point with dozens of parameters (each colour is 3 or 5 of them),
            # rendered with every flag combination — what a terminal does with the bytes is the oracle
            t = self.text(3, 7)
            x = self.A(t)
            a = rng.randrange(0, max(1, len(t) - 1)); b = rng.randint(a + 1, len(t))
            cols = ['rgb(%d,%d,%d)', 'bg_rgb(%d,%d,%d)', 'ul_rgb(%d,%d,%d)', 'dul_rgb(%d,%d,%d)']
            for _ in range(rng.randint(6, 12)):
                r = rng.random()
                if r < 0.6:
                    sa = ('str', rng.choice(cols) % (rng.randrange(256), rng.randrange(256), rng.randrange(256)))
                elif r < 0.8:
                    sa = ('str', rng.choice(['color256(%d)', 'bg_color256(%d)', 'ul_color256(%d)']) % rng.randrange(256))
                else:
                    sa = ('str', rng.choice(['bold', 'italic', 'underline', 'blink', 'overlined', 'crossed_out', 'faint']))
                self.do_apply(x, sa, a, b, rng.random() < 0.8)
                if self.tainted:
                    return
            if rng.random() < 0.5:
                # a valid setting the library cannot parse: the value is rendered in full (`0;<everything active>`) by default
                self.do_apply(x, ('str', rng.choice(['[73', '[1;31', '[38;5;300'])), a, b, True)
            for opt in (False, True):
                self.do_tostr(x, None, opt, rng.random() < 0.5, rng.random() < 0.8)
            if rng.random() < 0.5:
                self.do_slice(x, a, b, 'getitem', False)
            # … and read back: AnsiString(str(x)) and simplify() show what x shows
            self.live.append(x)
            self.force_pick = x
            self.op_roundtrip()
            self.force_pick = x
            self.op_simplify()
            if len(self.live) > 6:
                del self.live[0]
            return
        n0 = rng.randint(257, 290)
        x = self.A('a' * n0 + self.text(4, 8))
        n = len(x._s)
        pts = sorted(set([rng.randint(256, n - 1), rng.randint(257, n), n0 + 1, n - 2]))
        x.apply_formatting(rng.choice(['red', 'bold', '[1;31']), 0, pts[0] + 0)
        x.apply_formatting(rng.choice(['blue', 'italic', 4]), pts[0] + 0, pts[-1] + 0)
        if rng.random() < 0.5:
            x.apply_formatting('underline', pts[1] + 0, None)
        a = rng.choice([None, 0, 250 + 5, pts[0] + 0])
        b = rng.choice(pts) + 0
        k = rng.randrange(5)
        if k == 0:
            y0 = len(self.steps)
            self.do_slice(x, a, b, rng.choice(['getitem', 'clip']), False)
            r = self.call(lambda: x[a:b])
            if r[0] == 'ok':
                self.do_concat(r[1], ('s', 'xy'), False, None, False)
        elif k == 1:
            self.do_apply(x, good_sargs(rng), a, b, rng.random() < 0.5)
        elif k == 2:
            self.do_remove(x, rng.choice([None, ('str', 'blue'), ('str', 'red')]), a, b)
        elif k == 3:
            # … also with the range ending exactly on a change point beyond 256 where the wanted setting starts
            self.do_find(x, rng.choice([('str', 'blue'), ('str', 'red'), ('str', 'italic'), ('int', 4)]), a,
                         rng.choice([None, pts[0] + 0, pts[-1] + 0, pts[1] + 0]), rng.random() < 0.5)
        else:
            self.do_tostr(x, None, True, False, True)

    # ----------------------------------------------------------------- AnsiStr twin (C13)
    def op_twin(self):
        rng = self.rng
        x = self.pick()
        if rng.random() < 0.2 and '\x1b' not in x._s:
            x = self.A(x._s)          # a receiver without any formatting: there is no shortcut through `str` for it
        exotic = False
        if rng.random() < 0.2:
            exotic = True
            # a value only the twin sees: blanks that `str` strips/splits on but the library's own set does not
            # contain (no model step is involved here: the Lean model knows ASCII blanks only)
            t = ''.join(rng.choice('ab \xa0\x85\u2003\x1c\t\n\u3000c') for _ in range(rng.randint(1, 9)))
            x = self.A(t)
            if len(t) > 1:
                x.apply_formatting(rng.choice(['red', 'bold']), rng.randrange(len(t)), None)
                x.apply_formatting('blue', 0, rng.randint(1, len(t)))
        viol = []
        if exotic and rng.random() < 0.35:
            # a verbatim setting / a parsed sequence with a parameter longer than the interpreter converts to an int
            # (sys.get_int_max_str_digits()): still text for the flags, the renderings and the parser — nothing raises
            import sys as _sys
            lim = getattr(_sys, 'get_int_max_str_digits', lambda: 4300)() or 4300
            big = '1' * rng.choice([lim - 1, lim + 1, lim + 700])
            forms = [lambda: self.A('ab', '[1;' + big), lambda: self.A('ab', self.mod.AnsiSetting(big)),
                     lambda: self.A('a\x1b[' + big + 'mb\x1b[1;' + big + ';3mc'), lambda: self.S('ab', '[' + big + ';31')]
            mk = rng.choice(forms)
            r0 = self.call(mk)
            if r0[0] != 'ok':
                viol.append(('C09', 'parse_total', 'a %d-digit parameter: construction raises %r' % (len(big), r0[1])))
                viol.append(('C15', 'flags_total', 'a %d-digit parameter: construction raises %r' % (len(big), r0[1])))
                viol.append(('C14', 'verbatim_total', 'a %d-digit parameter: construction raises %r' % (len(big), r0[1])))
            else:
                v = r0[1]
                for nm in ('is_formatting_valid', 'is_formatting_parsable', 'is_optimizable', '__str__', 'to_str', 'is_formatting_parsable'):
                    r1 = self.call(lambda: getattr(v, nm)())
                    if r1[0] != 'ok':
                        viol.append(('C15', 'flags_total', 'a %d-digit parameter: %s() raises %r' % (len(big), nm, r1[1])))
                        viol.append(('C01', 'render_total', 'a %d-digit parameter: %s() raises %r' % (len(big), nm, r1[1])))
                        break
                r2 = self.call(lambda: [q.to_list()[:1] for p_ in (v._s if isinstance(v, str) else v)._fmts.values() for q in p_.add])
                if r2[0] != 'ok':
                    viol.append(('C15', 'flags_total', 'a %d-digit parameter: AnsiSetting.to_list() raises %r' % (len(big), r2[1])))
        try:
            a = self.S(x)
        except Exception as e:   # noqa
            self.emit('noop', None, None, 'AnsiStr(x) failed', [('C13', 'ctor', repr(e))])
            return
        def same(r_s, r_a, what):
            if isinstance(r_a, (list, tuple)):
                if not isinstance(r_s, (list, tuple)) or len(r_s) != len(r_a):
                    return [('C13', 'ansistr_op_eq', what + ': shapes differ')]
                out = []
                for p, q in zip(r_s, r_a):
                    out += same(p, q, what)
                return out
            if isinstance(r_a, self.A):
                if type(r_s) is not self.S:
                    return [('C13', 'ansistr_type', '%s: %s' % (what, type(r_s).__name__))]
                if r_s.base_str != r_a._s or [r_s.settings_at(i) for i in range(len(r_a._s))] != [r_a.settings_at(i) for i in range(len(r_a._s))]:
                    return [('C13', 'ansistr_op_eq', what + ': text/settings differ')]
                if str(r_s) != str(r_a) or r_s.to_str(None, False, True, False) != r_a.to_str(None, False, True, False) or format(r_s) != format(r_a):
                    return [('C13', 'ansistr_op_eq', what + ': rendering differs')]
                if str.__str__(r_s) != str(r_s._s) or '%s' % r_s != str(r_s._s):
                    return [('C13', 'ansistr_payload', what)]
                e_s, e_a = self.call(lambda: str(r_s + 'xy')), self.call(lambda: str(r_a + 'xy'))
                if e_s != e_a and not (e_s[0] == 'err' and e_a[0] == 'err'):
                    return [('C13', 'ansistr_op_eq', what + ": the two results differ once 'xy' is appended: %r vs %r" % (e_s[1], e_a[1]))]
                return []
            if r_s != r_a:
                return [('C13', 'ansistr_op_eq', '%s: %r vs %r' % (what, r_s, r_a))]
            return []
        viol += same(a, x, 'ctor')
        # ---- constructor forms: AnsiStr(src, *settings) against AnsiString(src, *settings), src a str,
        #      an AnsiString or an AnsiStr (also one whose wrapped value does not survive re-parsing)
        for _ in range(2):
            kind = rng.choice(['str', 'A', 'S', 'S'])
            src = {'str': rng.choice([str(x), self.sgr_text(), self.text(esc=True)]), 'A': x, 'S': a}[kind]
            k = rng.choice([0, 1, 1, 2])
            sg = [(bad_sargs(rng) if rng.random() < 0.05 else good_sargs(rng)) for _ in range(k)]
            r_a = self.call(lambda: self.A(src, *[P.build_sarg(q, self.mod) for q in sg]))
            r_s = self.call(lambda: self.S(src, *[P.build_sarg(q, self.mod) for q in sg]))
            what = 'ctor(%s %r, %r)' % (kind, str(src)[:40], sg)
            if r_a[0] != r_s[0] or (r_a[0] == 'err' and type(r_a[1]) is not type(r_s[1])):
                viol.append(('C13', 'ansistr_op_eq', '%s: outcome %r vs %r' % (what, r_s, r_a)))
            elif r_a[0] == 'ok':
                viol += same(r_s[1], r_a[1], what)
                if kind != 'str' and same(a, x, 'source after ctor'):
                    viol.append(('C13', 'ansistr_immutable', what))
        n = len(x._s)
        g = good_sargs(rng)
        arg = P.build_sarg(g, self.mod)
        st, en = self.bound(x), self.bound(x)
        st = 0 if st is None else st
        pat = self.pattern(x)
        if rng.random() < 0.2:
            pat = rng.choice([pat.upper(), pat.lower(), pat.swapcase()])      # the same letters in another case
        other = self.operand()
        w = rng.choice([n, n + 3, 0])
        present = sorted(set(q for ac in O.acts(x) for q in O.texts(ac)))
        unf = rng.choice([(), (None,), (None, 'red'), ('bold', None), (arg,)] + ([(self.mod.AnsiSetting(rng.choice(present)),), (None, self.mod.AnsiSetting(rng.choice(present)))] if present else []))
        mo = None
        try:
            mo = _re.search(_re.escape(pat) if pat else 'a?', x._s)
        except _re.error:
            pass
        spec = rng.choice([None, '', '>8:red', '*^9', '>7', '*^8:bold', '<6', '.-<9:blue', ':bold;red', '12',
                           # where the library's grammar and Python's mini-language part ways: the library's wins
                           '08', '>08', '^08', 'x-<8', '_+^8', '0<7', '+>9', '<'])

        calls = [
            ('apply_formatting', (arg, st, en, rng.random() < 0.5), {}),
            ('apply_formatting', (arg, 0, None, False), {}), ('apply_formatting', (arg,), dict(topmost=False)), ('apply_formatting', (arg, 0), {}),
            ('remove_formatting', (), {}), ('remove_formatting', (arg,), {}), ('remove_formatting', (None, 0, None), {}),
            ('remove_formatting', (rng.choice([None, None, arg]), st, en), {}),
            ('clear_formatting', (), {}),
            ('__getitem__', (slice(self.bound(x), self.bound(x)),), {}),
            ('__getitem__', (rng.randint(-n - 1, n),), {}),
            ('clip', (self.bound(x), self.bound(x)), {}),
            ('__add__', (other[1],), {}), ('__iadd__', (other[1],), {}),
            ('ljust', (w, '*'), {}), ('rjust', (w, '*'), {}), ('center', (w, '*'), {}), ('zfill', (w,), {}),
            ('ljust', (w,), {}), ('center', (n + 4,), {}),
            ('strip', (), {}), ('lstrip', ('a ',), {}), ('rstrip', (), {}), ('strip', (x._s[:1] + x._s[-1:],), {}),
            ('removeprefix', (x._s[:1],), {}), ('removesuffix', (x._s[-1:],), {}), ('removeprefix', ('',), {}), ('removesuffix', ('',), {}),
            ('removesuffix', (x._s[-2:],), {}), ('lstrip', (), {}), ('rstrip', (' \t',), {}), ('strip', (None,), {}),
            ('replace', (pat, 'Q', rng.choice([-1, 1])), {}), ('replace', (pat, other[1]), {}),
            ('split', (rng.choice([None, pat or None]),), {}), ('rsplit', (None, 1), {}), ('splitlines', (), {}),
            ('split', (pat or None, 1), {}), ('splitlines', (True,), {}), ('split', (None, 0), {}), ('rsplit', (None, 0), {}),
            ('split', (pat or None, 0), {}), ('rsplit', (pat or None, rng.choice([0, 1, 2, -1])), {}),
            ('partition', (pat or 'a',), {}), ('rpartition', (pat or 'a',), {}),
            ('upper', (), {}), ('lower', (), {}), ('title', (), {}), ('capitalize', (), {}), ('swapcase', (), {}), ('casefold', (), {}),
            ('expandtabs', (4,), {}), ('expandtabs', (), {}), ('simplify', (), {}),
            ('format_matching', (pat, 'bold'), {}), ('unformat_matching', (pat,) + unf, {}),
            ('format_matching', (pat, arg), dict(match_case=rng.random() < 0.5, count=rng.choice([-1, 0, 1, 2]))),
            ('unformat_matching', (pat,) + unf, dict(match_case=rng.random() < 0.5, count=rng.choice([-1, 1]))),
            ('format_matching', (rng.choice(['a+', '[ab]', '.', r'\s', 'a|b']), 'red', 'bold'), dict(regex=True)),
            ('to_str', (spec,), {}), ('__format__', ('' if spec is None else spec,), {}),
            ('to_str', (None, rng.random() < 0.5, True, rng.random() < 0.5), {}), ('to_str', (None, False, False, False), {}),
            ('to_str', (rng.choice(['', '>7', '*^8:bold']), True, True, True), {}),
            ('to_str', (), dict(reset_end=False)), ('to_str', (), dict(optimize=False)), ('to_str', (), dict(reset_start=True)),
            ('settings_at', (rng.randint(-1, n),), {}), ('ansi_settings_at', (rng.randint(-1, n),), {}),
            ('find_settings', (arg,), {}), ('find_settings', (arg, st, en, rng.random() < 0.5), {}),
            ('is_formatting_valid', (), {}), ('is_formatting_parsable', (), {}), ('is_optimizable', (), {}),
            ('count', (pat,), {}), ('find', (pat,), {}), ('endswith', (pat,), {}), ('__len__', (), {}), ('__contains__', (pat,), {}),
            ('rfind', (pat, st), {}), ('index', (x._s[:1],), {}), ('rindex', (x._s[-1:], 0, None), {}), ('count', (pat, st, en), {}),
            ('isalnum', (), {}), ('isalpha', (), {}), ('isascii', (), {}), ('isdecimal', (), {}), ('isdigit', (), {}),
            ('__contains__', ('\x1b[1m' + pat + '\x1b[m',), {}), ('center', (0, 'xy'), {}), ('ljust', (n, ''), {}), ('rjust', (n - 1, 'ab'), {}),
            ('center', (n + 1, '*'), {}), ('center', (n + 2, '-'), {}), ('endswith', ((pat, 'b'), st, en), {}),
            ('isidentifier', (), {}), ('islower', (), {}), ('isnumeric', (), {}), ('isprintable', (), {}), ('isspace', (), {}),
            ('istitle', (), {}), ('isupper', (), {}), ('encode', (), {}), ('__contains__', (other[1],), {}),
        ]
        if mo is not None:
            calls.append(('apply_formatting_for_match', (arg, mo), {}))
            calls.append(('apply_formatting_for_match', (arg, mo, 0), {}))
        # ---- short-lived AnsiStr objects made from different values: each answers for its own value
        #      (an answer remembered for an object that no longer exists must not come back)
        for _ in range(3):
            v = self.pick()
            k = rng.randint(0, max(0, len(v._s) - 1))
            got = self.call(lambda: ([str(q) for q in self.S(v).ansi_settings_at(k)], self.S(v).settings_at(k), self.S(v).find_settings(arg)))
            ref = self.call(lambda: ([str(q) for q in v.ansi_settings_at(k)], v.settings_at(k), v.find_settings(arg)))
            if got[0] != ref[0] or (got[0] == 'ok' and got[1] != ref[1]):
                viol.append(('C13', 'ansistr_op_eq', 'a fresh AnsiStr of %r answers %r at %d, the AnsiString %r' % (v._s, got[1], k, ref[1])))
                viol.append(('C17', 'ansistr_twin', 'a fresh AnsiStr of %r answers %r at %d, the AnsiString %r' % (v._s, got[1], k, ref[1])))
        # ---- an answer is the caller's: editing the list ansi_settings_at() returned changes nothing for the next caller
        for obj, nm in ((self.S(x), 'AnsiStr'), (x.copy(), 'AnsiString')):
            for k in (rng.randint(0, max(0, len(x._s) - 1)), len(x._s) + 2, -1):
                def probe():
                    first = obj.ansi_settings_at(k)
                    want = [str(q) for q in first]
                    first.append(self.mod.AnsiSetting('95')); first[:0] = [self.mod.AnsiSetting('7')]
                    if len(first) > 2:
                        del first[1]
                    return want, [str(q) for q in obj.ansi_settings_at(k)], obj.settings_at(k)
                r5 = self.call(probe)
                if r5[0] != 'ok' or r5[1][0] != r5[1][1] or ';'.join(r5[1][0]) != r5[1][2]:
                    viol.append(('C17', 'settings_at_join', '%s of %r: ansi_settings_at(%d) gave %r, after the caller edited that list it gives %r, settings_at %r' % (
                        nm, x._s, k, r5[1][0] if r5[0] == 'ok' else r5[1], r5[1][1] if r5[0] == 'ok' else None, r5[1][2] if r5[0] == 'ok' else None)))
                    viol.append(('C08', 'result_aliased', '%s.ansi_settings_at(%d) hands out a list it keeps' % (nm, k)))
                    if nm == 'AnsiStr':
                        viol.append(('C13', 'ansistr_op_eq', 'AnsiStr.ansi_settings_at(%d) hands out a list it keeps' % k))
                    break
        # ---- things that are not plain method calls
        r1 = self.call(lambda: [str(c) for c in a]); r2 = self.call(lambda: [str(c) for c in x])
        if r1 != r2 and not (r1[0] == 'err' and r2[0] == 'err'):
            viol.append(('C13', 'ansistr_op_eq', '__iter__: %r vs %r' % (r1, r2)))
        xc0 = x.copy()
        if (a == self.S(xc0)) is not True or (a != self.S(xc0)) is not False:
            viol.append(('C13', 'ansistr_op_eq', '__eq__: AnsiStr(x) != AnsiStr(x.copy())'))
        if a.base_str != x.base_str:
            viol.append(('C13', 'ansistr_op_eq', 'base_str'))
        jargs = [rng.choice([a, x, other[1], 'q', self.S(other[1]) if not isinstance(other[1], str) else other[1]]) for _ in range(rng.randint(1, 3))]
        jx = [q._s.copy() if isinstance(q, self.S) else q for q in jargs]
        r_s = self.call(lambda: self.S.join(*jargs)); r_a = self.call(lambda: self.A.join(*jx)); r_m = self.call(lambda: self.A.join(*jargs))
        for rr, nm_ in ((r_s, 'AnsiStr.join'), (r_m, 'AnsiString.join')):
            if rr[0] != r_a[0]:
                viol.append(('C13', 'ansistr_op_eq', '%s%r: outcome %r vs %r' % (nm_, jargs, rr, r_a)))
            elif rr[0] == 'ok':
                if nm_ == 'AnsiStr.join':
                    viol += same(rr[1], r_a[1], nm_)
                elif rr[1].base_str != r_a[1].base_str or str(rr[1]) != str(r_a[1]):
                    viol.append(('C13', 'ansistr_op_eq', nm_ + ' with AnsiStr arguments differs from the same call with their AnsiString values'))
        if same(a, x, 'receiver after join'):
            viol.append(('C13', 'ansistr_immutable', 'join'))
        chosen = rng.sample(calls, 20)
        # the core operations are compared on every twin step, whatever the sample holds
        core = {'apply_formatting', 'remove_formatting', '__getitem__', '__add__', 'to_str', 'simplify', 'replace', 'split'}
        seen = set(c_[0] for c_ in chosen)
        for c_ in calls:
            if c_[0] in core and c_[0] not in seen:
                chosen.append(c_); seen.add(c_[0])
        if exotic:
            chosen += [c_ for c_ in calls if c_[0] in ('strip', 'lstrip', 'rstrip', 'split', 'rsplit', 'splitlines') and c_[1][:1] in ((), (None,))]
        for name, args, kw in chosen:
            self.stats['ops']['twin.' + name] = self.stats['ops'].get('twin.' + name, 0) + 1
            xc = x.copy()
            inplace_names = {'apply_formatting', 'remove_formatting', 'clear_formatting', 'simplify', 'format_matching', 'unformat_matching', 'apply_formatting_for_match'}
            def on_string():
                r = getattr(xc, name)(*args, **kw)
                return xc if name in inplace_names else r
            r_a = self.call(on_string)
            r_s = self.call(lambda: getattr(a, name)(*args, **kw))
            nv = len(viol)
            if r_a[0] != r_s[0] or (r_a[0] == 'err' and type(r_a[1]) is not type(r_s[1])):
                viol.append(('C13', 'ansistr_op_eq', '%s%r: outcome %r vs %r' % (name, args, r_s, r_a)))
            elif r_a[0] == 'ok':
                viol += same(r_s[1], r_a[1], '%s%r' % (name, args))
            if len(viol) > nv and name in self.TWIN_OWNER:
                # the operation's own property speaks about both classes: the immutable one must do the same
                detail = viol[-1][2]
                for own in [self.TWIN_OWNER[name]] + {'unformat_matching': ['C07'], 'format_matching': ['C06'], 'apply_formatting_for_match': ['C06']}.get(name, []):
                    viol.append((own, 'ansistr_twin', 'AnsiStr.%s%r differs from AnsiString.%s: %s' % (name, args, name, detail)))
            v2 = same(a, x, 'receiver after ' + name)
            if v2:
                viol.append(('C13', 'ansistr_immutable', name))
        self.count('twin', ('ok', None))
        self.emit('noop', None, None, 'AnsiStr twin on %r' % x._s, viol)

    TWIN_OWNER = {'apply_formatting': 'C06', 'remove_formatting': 'C07', 'clear_formatting': 'C07', '__getitem__': 'C04', 'clip': 'C04',
                  '__add__': 'C05', '__iadd__': 'C05', 'ljust': 'C12', 'rjust': 'C12', 'center': 'C12', 'zfill': 'C12', '__format__': 'C12',
                  'to_str': 'C01', 'simplify': 'C03', 'strip': 'C11', 'lstrip': 'C11', 'rstrip': 'C11', 'removeprefix': 'C11',
                  'removesuffix': 'C11', 'replace': 'C11', 'split': 'C11', 'rsplit': 'C11', 'splitlines': 'C11', 'partition': 'C11',
                  'rpartition': 'C11', 'upper': 'C11', 'lower': 'C11', 'title': 'C11', 'capitalize': 'C11', 'swapcase': 'C11',
                  'casefold': 'C11', 'expandtabs': 'C11', 'format_matching': 'C16', 'unformat_matching': 'C16',
                  'apply_formatting_for_match': 'C16', 'find_settings': 'C17', 'settings_at': 'C17', 'ansi_settings_at': 'C17',
                  'is_formatting_valid': 'C15', 'is_formatting_parsable': 'C15', 'is_optimizable': 'C15',
                  'count': 'C10', 'find': 'C10', 'rfind': 'C10', 'index': 'C10', 'rindex': 'C10', 'endswith': 'C10', '__len__': 'C10',
                  '__contains__': 'C10', 'isalnum': 'C10', 'isalpha': 'C10', 'isascii': 'C10', 'isdecimal': 'C10', 'isdigit': 'C10',
                  'isidentifier': 'C10', 'islower': 'C10', 'isnumeric': 'C10', 'isprintable': 'C10', 'isspace': 'C10', 'istitle': 'C10',
                  'isupper': 'C10'}

    # ----------------------------------------------------------------- histories
    OPS = ['new', 'copy', 'apply', 'remove', 'clear', 'slice', 'index', 'iter', 'concat', 'join', 'pad', 'tostr',
           'find', 'settingsat', 'simplify', 'roundtrip', 'strip', 'affix', 'split', 'replace', 'case', 'assign',
           'expandtabs', 'query', 'match', 'twin', 'long']
    OP_PROP = {'new': 'C02', 'apply': 'C06', 'remove': 'C07', 'slice': 'C04', 'index': 'C04', 'iter': 'C04',
               'concat': 'C05', 'join': 'C05', 'pad': 'C12', 'simplify': 'C03', 'roundtrip': 'C03', 'strip': 'C11',
               'affix': 'C11', 'split': 'C11', 'replace': 'C11', 'assign': 'C11', 'expandtabs': 'C11', 'match': 'C16',
               'twin': 'C13', 'find': 'C17', 'tostr': 'C01', 'long': 'C04'}
    BASE_W = {'new': 3, 'copy': 2, 'apply': 10, 'remove': 7, 'clear': 1, 'slice': 7, 'index': 2, 'iter': 1,
              'concat': 8, 'join': 2, 'pad': 6, 'tostr': 8, 'find': 4, 'settingsat': 2, 'simplify': 3,
              'roundtrip': 3, 'strip': 3, 'affix': 2, 'split': 4, 'replace': 4, 'case': 2, 'assign': 2,
              'expandtabs': 1, 'query': 2, 'match': 3, 'twin': 3, 'long': 0.6}

    def run_op(self, nm):
        """run one generated operation; a harness failure while observing a value is a finding
        (a reachable value that can no longer be observed), never a crash"""
        self._inp = None
        self.cur_op = nm
        try:
            getattr(self, 'op_' + nm)()
        except Timeout:
            raise
        except Exception as e:   # noqa
            import traceback
            tb = traceback.format_exc().strip().split('\n')
            vs = [('C09', 'self_check', 'a reachable value can no longer be observed: %r | %s' % (e, ' / '.join(tb[-4:])[:400]))]
            own = self.OP_PROP.get(nm)
            if own:
                # the operation's own result (or receiver) is broken: its property fails on this input
                vs.append((own, 'result_unobservable', 'after %s a value raises when queried: %r' % (nm, e)))
            self.emit('noop-' + nm, getattr(self, '_inp', None), 'impl: observation failed', 'observation of a live value failed during op %s' % nm, vs)
            self.tainted = True

    def guard(self, nm, fn):
        """like run_op for a directly parameterised operation (small-scope enumeration)"""
        self.op__tmp = fn
        self.run_op('_tmp')
        own = self.OP_PROP.get(nm)
        if self.steps and self.steps[-1].op == 'noop-_tmp' and own:
            self.steps[-1].viol.append((own, 'result_unobservable', 'after %s a value raises when queried' % nm))

    def history(self, hidx, length):
        self.live = []
        self.frozen = []
        self.tainted = False
        start = len(self.steps)
        for _ in range(self.rng.randint(1, 3)):
            self.run_op('new')
            if not self.live:
                self.live.append(self.A(self.text(1, 6), 'red'))
        if self.live and self.rng.random() < 0.8:
            for _ in range(self.rng.randint(1, 3)):
                if not self.tainted:
                    self.run_op('apply')
        names = self.OPS
        ws = [self.BASE_W[n] * self.weights.get(n, 1) for n in names]
        for _ in range(length):
            if self.tainted:
                break
            nm = self.rng.choices(names, ws)[0]
            self.last_written = None
            self.run_op(nm)
            w = self.last_written
            if w is not None and not self.tainted and self.rng.random() < 0.35 and any(w is v for v in self.live):
                # render the value that was just mutated in place (a cache that was not invalidated, a
                # table that only fails when replayed)
                self.op__tmp = lambda: self.do_tostr(w, None, True, self.rng.random() < 0.3, self.rng.random() < 0.7)
                self.run_op('_tmp')
            self.live = [v for v in self.live if len(v._s) <= 300] or self.live[:1]
            for v in self.live:
                self.stats['text_len'][len(v._s)] = self.stats['text_len'].get(len(v._s), 0) + 1
        for k, st in enumerate(self.steps[start:]):
            st.hist, st.idx = hidx, k

def exhaustive(runner, family, nbases=120):
    """Small-scope exhaustive enumeration for one op family: text 'abcd', settings {red, blue, bold},
    every bound in [-5, 5] ∪ {None}; bases = the plain text, all single applications on a coarse grid and
    `nbases` random two-/three-step values."""
    A = runner.A
    rng = runner.rng
    bounds = [None] + list(range(-5, 6))
    setts = [('member', 'RED'), ('member', 'BLUE'), ('member', 'BOLD')]
    fam_prop = {'slice': 'C04', 'apply': 'C06', 'remove': 'C07', 'find': 'C17', 'concat': 'C05', 'pad': 'C12'}.get(family, 'C09')
    def base():
        # built with plain library calls: on a broken tree these may raise or leave a value that cannot be
        # rendered -- that is a finding (C09, and the family's own property), not a reason to stop
        log = []
        try:
            x = A('abcd')
            for _ in range(rng.randint(1, 3)):
                args = (rng.choice(['red', 'blue', 'bold']), rng.choice(bounds) or 0, rng.choice(bounds), rng.random() < 0.7)
                log.append('apply_formatting%r' % (args,))
                x.apply_formatting(*args)
            if rng.random() < 0.3:
                args = (rng.choice(['red', 'blue', 'bold', None]), rng.choice(bounds) or 0, rng.choice(bounds))
                log.append('remove_formatting%r' % (args,))
                x.remove_formatting(*args)
            str(x); [x.settings_at(i) for i in range(4)]
            return x
        except Exception as e:   # noqa
            desc = "AnsiString('abcd') then %s: %r" % ('; '.join(log), e)
            runner.emit('noop', None, None, desc, [('C09', 'reachable_ok', desc), (fam_prop, 'result_unobservable', desc)])
            return None
    bases = [A('abcd'), A('abcd', 'red'), A('abcd', 'red', 'blue')] + [b_ for b_ in (base() for _ in range(nbases)) if b_ is not None]
    runner.live = []
    for x in bases:
        runner.live = [x]
        runner.tainted = False
        if family == 'slice':
            for a in bounds:
                for b in bounds:
                    runner.guard('slice', lambda: runner.do_slice(x, a, b, 'getitem', False))
        elif family == 'apply':
            for a in bounds[::2] if len(bases) > 60 else bounds:
                for b in bounds:
                    for top in (True, False):
                        y = x.copy(); runner.live = [y]
                        runner.guard('apply', lambda: runner.do_apply(y, setts[(hash((a, b)) % 3)], a, b, top))
        elif family == 'remove':
            for a in bounds:
                for b in bounds:
                    y = x.copy(); runner.live = [y]
                    sel = rng.choice([None, ('obj', '31'), ('obj', '34'), ('obj', '1'), ('list', [('obj', '31'), ('obj', '1')])])
                    runner.guard('remove', lambda: runner.do_remove(y, sel, a, b))
        elif family == 'find':
            for a in bounds:
                for b in bounds:
                    sel = rng.choice([('obj', '31'), ('obj', '34'), ('obj', '1'), ('list', [('obj', '31'), ('obj', '1')])])
                    runner.guard('find', lambda: runner.do_find(x, sel, a, b, rng.random() < 0.4))
        elif family == 'concat':
            for y in bases[:45]:
                runner.live = [x, y]
                runner.guard('concat', lambda: runner.do_concat(x, ('A', y), False, None, False))
            for k in range(0, 5):
                runner.live = [x]
                runner.guard('concat', lambda: runner.do_concat(x[:k], ('A', x[k:]), False, (x, k), False))
        elif family == 'pad':
            for kind in ('ljust', 'rjust', 'center'):
                for w in range(0, 10):
                    for ext in (True, False):
                        runner.guard('pad', lambda: runner.do_pad(x, kind, w, '*', ext, False, False))
        if runner.tainted:
            break
    for k, st in enumerate(runner.steps):
        if st.hist is None:
            st.hist, st.idx = -3, k

SIMPLE_CODES = set([1, 2, 3, 4, 5, 6, 7, 8, 9, 21, 22, 23, 24, 25, 27, 28, 29, 39, 49, 53, 55]) | set(range(30, 38)) | set(range(40, 48)) \
    | set(range(90, 98)) | set(range(100, 108)) | set(range(11, 21))

def simple_texts(a, mod):
    """For a list/tuple of single-code ints and members with exactly one single-code setting (no colour
    functions, no reset, nothing that could fuse with a neighbour): the setting texts in the order given —
    "later in the list = later in precedence".  None when the argument is not of that simple kind."""
    if a[0] not in ('list', 'tuple') or not a[1]:
        return None
    out = []
    for q in a[1]:
        if q[0] in ('int', 'intlike') and int(q[1]) in SIMPLE_CODES:
            out.append(str(int(q[1])))
        elif q[0] == 'member':
            ts = [str(s_) for s_ in mod.AnsiFormat[q[1]].ansi_settings]
            if len(ts) != 1 or not ts[0].isdigit() or int(ts[0]) not in SIMPLE_CODES:
                return None
            out.append(ts[0])
        else:
            return None
    return out

class RaddStr(str):
    """a str subclass whose `__radd__` rewrites the left operand (as markupsafe.Markup escapes it): whoever
    writes `text + value` instead of taking `str(value)` lets the argument rewrite the receiver"""
    __slots__ = ()
    def __radd__(self, other):
        return RaddStr(str(other).upper().replace('a', '&amp;') + str(self))


class StrSub(str):
    """a user-defined str subclass (like an enum.StrEnum member): a str for every purpose"""
    __slots__ = ()


def only_codes(a):
    t = a[0]
    if t in ('int', 'intlike'):
        return int(a[1]) >= 0
    if t == 'member':
        return True
    if t in ('list', 'tuple'):
        return bool(a[1]) and all(only_codes(q) for q in a[1])
    return False

def a_truthy(a):
    t = a[0]
    if t == 'str': return bool(a[1])
    if t == 'int': return a[1] != 0
    if t == 'intlike': return int(a[1]) != 0
    if t in ('list', 'tuple'): return bool(a[1])
    if t == 'bad': return bool(a[1])
    return True

def true_offsets(t, pieces, kind, sep):
    """offsets of the pieces of a str split in t, computed independently of find()"""
    offs = []
    if kind in ('partition', 'rpartition'):
        o = 0
        for p in pieces:
            offs.append(o); o += len(p)
        return offs
    if kind == 'splitlines':
        o = 0
        for p in pieces:
            offs.append(o)
            o += len(p)
            if o < len(t) and not p.endswith(('\n', '\r', '\x0b', '\x0c', '\x1c', '\x1d', '\x1e', '\x85', ' ', ' ')):
                o += 2 if t[o:o + 2] == '\r\n' else 1
        return offs
    if sep is not None:
        if not sep:
            return None
        o = 0
        for p in pieces:
            offs.append(o); o += len(p) + len(sep)
        return offs
    # whitespace split
    if kind == 'split':
        o = 0
        for p in pieces:
            while o < len(t) and t[o].isspace(): o += 1
            offs.append(o); o += len(p)
        return offs
    o = len(t)
    for p in reversed(pieces):
        while o > 0 and t[o - 1].isspace(): o -= 1
        o -= len(p)
        offs.append(o)
    return list(reversed(offs))
