"""Mode B — whole-history correspondence through the `Store` op language.

A script is a sequence of operations over named variables.  It is executed start to finish on the
real classes and, independently, by the Lean model's `Store.run` (driver op `script`); after EVERY
operation the outcome and the full state of ALL variables (text + change-point table, identities
renamed in order of first appearance across the whole dump, so sharing of setting objects between
values is compared too) must agree.  This is what ties `Store.step` — the subject of the C08 frame
theorems and the C09 history invariant — to the code, and it checks that the model also *composes*
like the code (fresh identities, re-targeting in `+=`, results independent of their sources).
"""
import random, signal
import proto as P
from gen import Step, good_sargs, bad_sargs, Timeout, _alarm

class ScriptRunner:
    def __init__(self, seed, mod, max_len=8, timeout=3.0):
        self.rng = random.Random(seed)
        self.mod = mod
        self.A = mod.AnsiString
        self.max_len = max_len
        self.timeout = timeout
        self.steps = []
        self.stats = {'ops': {}, 'scripts': 0}

    def text(self, lo=0, hi=None):
        hi = self.max_len if hi is None else hi
        return ''.join(self.rng.choice('aab  \t\n-:1xyBé') for _ in range(self.rng.randint(lo, hi)))

    def bound(self, x):
        n = len(x._s)
        cps = sorted(x._fmts)
        pool = [0, n, n + 1, n - 1, -1, -n, -n - 1, None] + cps + [c - 1 for c in cps] + [c + 1 for c in cps]
        return self.rng.choice(pool)

    def dump(self, vars_):
        ids = P.IdMap()
        toks = [len(vars_)]
        for k in sorted(vars_):
            toks.append(k)
            toks += P.e_astr(vars_[k], ids)
        return ' '.join(str(t) for t in toks)

    def one_script(self, hidx, nops):
        rng = self.rng
        vars_ = {}
        enc = []
        outs = []
        viol = []
        signal.signal(signal.SIGALRM, _alarm)
        for step in range(nops):
            names = sorted(vars_)
            def newvar():
                return rng.choice([1, 2, 3, 4, 5])
            if not names or rng.random() < 0.15:
                kind = 'new'
            else:
                kind = rng.choice(['copy', 'apply', 'apply', 'remove', 'clear', 'slice', 'slice', 'index', 'iadd', 'add', 'add',
                                   'addStr', 'ljust', 'rjust', 'center', 'assign', 'simplify', 'strip', 'removeprefix',
                                   'removesuffix', 'replace', 'render', 'find',
                                   'zfill', 'clip', 'join', 'fmatch', 'unfmatch', 'splitPiece', 'linePiece', 'partPiece', 'expandtabs'])
            if names and max(len(vars_[k]._s) for k in names) > 200 and kind in ('iadd', 'add', 'addStr', 'replace', 'center', 'ljust', 'rjust'):
                kind = 'slice'          # bounded work: a slow operation is not a hanging one
            self.stats['ops'][kind] = self.stats['ops'].get(kind, 0) + 1
            sarg = (lambda: bad_sargs(rng) if rng.random() < 0.08 else good_sargs(rng))
            mk = lambda a: P.build_sarg(a, self.mod)
            try:
                if kind == 'new':
                    d = newvar(); t = self.text(); ss = [sarg() for _ in range(rng.choice([0, 1, 1, 2]))]
                    e = [0, d] + P.e_str(t) + [len(ss)] + [q for a in ss for q in P.e_sarg(a)]
                    fn = lambda: ('set', d, self.A(t, *[mk(a) for a in ss]))
                else:
                    v = rng.choice(names); x = vars_[v]
                    if kind == 'copy':
                        d = newvar(); ss = [sarg()] if rng.random() < 0.3 else []
                        e = [1, d, v, len(ss)] + [q for a in ss for q in P.e_sarg(a)]
                        fn = lambda: ('set', d, self.A(x, *[mk(a) for a in ss]))
                    elif kind == 'apply':
                        a = sarg(); st, en, top = self.bound(x), self.bound(x), rng.random() < 0.6
                        e = [2, v] + P.e_sarg(a) + P.e_optint(st) + P.e_optint(en) + P.e_bool(top)
                        fn = lambda: ('none', None, x.apply_formatting(mk(a), 0 if st is None else st, en, top)) if st is not None else ('none', None, x.apply_formatting(mk(a), end=en, topmost=top))
                    elif kind == 'remove':
                        present = sorted(set(str(s) for p in x._fmts.values() for s in p.add))
                        a = None if rng.random() < 0.25 else (('obj', rng.choice(present)) if present and rng.random() < 0.6 else sarg())
                        st, en = self.bound(x), self.bound(x)
                        e = [3, v] + P.e_optsarg(a) + P.e_optint(st) + P.e_optint(en)
                        fn = lambda: ('none', None, x.remove_formatting(None if a is None else mk(a), 0 if st is None else st, en)) if st is not None else ('none', None, x.remove_formatting(None if a is None else mk(a), end=en))
                    elif kind == 'clear':
                        e = [4, v]; fn = lambda: ('none', None, x.clear_formatting())
                    elif kind == 'slice':
                        d = newvar(); a, b = self.bound(x), self.bound(x)
                        e = [5, d, v] + P.e_optint(a) + P.e_optint(b)
                        fn = lambda: ('set', d, x[a:b])
                    elif kind == 'index':
                        d = newvar(); n = len(x._s); i = rng.choice([0, -1, n - 1, n, -n, -n - 1])
                        e = [6, d, v, i]; fn = lambda: ('set', d, x[i])
                    elif kind == 'iadd':
                        w = rng.choice(names); y = vars_[w]
                        e = [7, v, w]
                        def fn():
                            t = x; t += y
                            return ('none', None, None)
                    elif kind == 'add':
                        d = newvar(); w = rng.choice(names); y = vars_[w]
                        e = [8, d, v, w]; fn = lambda: ('set', d, x + y)
                    elif kind == 'addStr':
                        d = newvar(); t = self.text(0, 4)
                        e = [9, d, v] + P.e_str(t); fn = lambda: ('set', d, x + t)
                    elif kind in ('ljust', 'rjust', 'center'):
                        d = newvar(); n = len(x._s); w = rng.choice([n - 1, n, n + 1, n + 2, n + 5, 0])
                        f = rng.choice(['*', ' ', ':', '', 'ab']); ext = rng.random() < 0.6
                        e = [{'ljust': 10, 'rjust': 11, 'center': 12}[kind], d, v, w] + P.e_str(f) + P.e_bool(ext)
                        fn = lambda: ('set', d, getattr(x, kind)(w, f, False, ext))
                    elif kind == 'assign':
                        t = self.text(0, len(x._s) + 3)
                        e = [13, v] + P.e_str(t); fn = lambda: ('none', None, x.assign_str(t))
                    elif kind == 'simplify':
                        e = [14, v]; fn = lambda: ('none', None, x.simplify())
                    elif kind == 'strip':
                        d = newvar(); cs = rng.choice([None, None, 'a ', ' \n']); l, r = rng.choice([(1, 1), (1, 0), (0, 1)])
                        e = [15, d, v] + P.e_optstr(cs) + [l, r]
                        fn = lambda: ('set', d, x._strip(cs, False, bool(l), bool(r)))
                    elif kind in ('removeprefix', 'removesuffix'):
                        d = newvar(); t = x._s
                        p = rng.choice(['', t[:1], t[:2], t[-1:], t[-2:], 'zz'])
                        e = [16 if kind == 'removeprefix' else 17, d, v] + P.e_str(p)
                        fn = lambda: ('set', d, getattr(x, kind)(p))
                    elif kind == 'replace':
                        d = newvar(); t = x._s
                        old = rng.choice([t[:1], t[1:2], 'a', ' ', '', 'ab', '-']) if t else rng.choice(['', 'a'])
                        count = rng.choice([-1, -1, 0, 1, 2])
                        if rng.random() < 0.5:
                            w = rng.choice(names); y = vars_[w]
                            e = [18, d, v] + P.e_str(old) + [0, w, count]; fn = lambda: ('set', d, x.replace(old, y, count))
                        else:
                            nw = rng.choice(['', 'x', 'xy', '--'])
                            e = [18, d, v] + P.e_str(old) + [1] + P.e_str(nw) + [count]; fn = lambda: ('set', d, x.replace(old, nw, count))
                    elif kind == 'zfill':
                        d = newvar(); n = len(x._s); w = rng.choice([n, n + 1, n + 3, 0])
                        e = [21, d, v, w]; fn = lambda: ('set', d, x.zfill(w))
                    elif kind == 'clip':
                        d = newvar(); a, b = self.bound(x), self.bound(x)
                        e = [22, d, v] + P.e_optint(a) + P.e_optint(b); fn = lambda: ('set', d, x.clip(a, b))
                    elif kind == 'join':
                        d = newvar(); vs = [rng.choice(names) for _ in range(rng.randint(0, 3))]
                        e = [23, d, len(vs)] + vs
                        fn = lambda: ('set', d, self.A.join(*[vars_[q] for q in vs]))
                    elif kind in ('fmatch', 'unfmatch'):
                        import re as _re
                        t = x._s
                        pat = rng.choice([t[:1], t[1:3], 'a', 'b', ' ', '-', 'x']) or 'a'
                        mc = rng.random() < 0.5; count = rng.choice([-1, -1, 0, 1, 2])
                        spans = [(m_.start(), m_.end()) for m_ in _re.finditer(_re.escape(pat), t, 0 if mc else _re.IGNORECASE)]
                        sp = [count, len(spans)] + [q for se in spans for q in se]
                        if kind == 'fmatch':
                            a = sarg()
                            e = [24, v] + P.e_sarg(('tuple', [a])) + sp
                            fn = lambda: ('none', None, x.format_matching(pat, mk(a), match_case=mc, count=count))
                        else:
                            present = sorted(set(str(s_) for p_ in x._fmts.values() for s_ in p_.add))
                            a = None if rng.random() < 0.4 else (('obj', rng.choice(present)) if present and rng.random() < 0.7 else sarg())
                            e = [25, v] + P.e_optsarg(None if a is None else ('tuple', [a])) + sp
                            fn = (lambda: ('none', None, x.unformat_matching(pat, match_case=mc, count=count))) if a is None else \
                                 (lambda: ('none', None, x.unformat_matching(pat, mk(a), match_case=mc, count=count)))
                    elif kind in ('splitPiece', 'linePiece', 'partPiece'):
                        d = newvar(); t = x._s; j = rng.choice([0, 0, 1, 1, 2, 3])
                        if kind == 'splitPiece':
                            sep = rng.choice([None, None, t[:1] or None, ' ', '-', '', 'ab'])
                            m_ = rng.choice([-1, -1, 0, 1]); r_ = rng.random() < 0.4
                            e = [26, d, v] + P.e_optstr(sep) + [m_] + P.e_bool(r_) + [j]
                            get = lambda: (x.rsplit(sep, m_) if r_ else x.split(sep, m_))
                        elif kind == 'linePiece':
                            k_ = rng.random() < 0.5
                            e = [27, d, v] + P.e_bool(k_) + [j]
                            get = lambda: x.splitlines(k_)
                        else:
                            sep = rng.choice([t[:1], t[1:2], ' ', '-', 'ab', 'zz']) or 'a'
                            r_ = rng.random() < 0.4
                            e = [28, d, v] + P.e_str(sep) + P.e_bool(r_) + [j]
                            get = lambda: list(x.rpartition(sep) if r_ else x.partition(sep))
                        def fn():
                            ps = get()
                            if j < len(ps):
                                return ('set', d, ps[j])
                            return ('unbound', None, None)
                    elif kind == 'expandtabs':
                        d = newvar(); k_ = rng.choice([0, 1, 4, 8])
                        e = [29, d, v, k_]; fn = lambda: ('set', d, x.expandtabs(k_))
                    elif kind == 'render':
                        spec = rng.choice([None, None, '', '>8:red', '*^7', '5', 'x', '<+4:bold'])
                        o, rs, re_ = rng.random() < 0.6, rng.random() < 0.4, rng.random() < 0.7
                        e = [19, v] + P.e_optstr(spec) + P.e_bool(o) + P.e_bool(rs) + P.e_bool(re_)
                        fn = lambda: ('str', None, x.to_str(spec, o, rs, re_))
                    else:
                        a = sarg(); st, en, rev = self.bound(x), self.bound(x), rng.random() < 0.4
                        e = [20, v] + P.e_sarg(a) + P.e_optint(st) + P.e_optint(en) + P.e_bool(rev)
                        fn = lambda: ('range', None, x.find_settings(mk(a), 0 if st is None else st, en, rev))
            except Exception:   # building an argument failed: skip this op
                continue
            enc.append(e)
            signal.setitimer(signal.ITIMER_REAL, self.timeout)
            try:
                tag, d, val = fn()
                if tag == 'set':
                    vars_[d] = val
                    oc = 'ok'
                elif tag == 'none':
                    oc = 'ok'
                elif tag == 'unbound':
                    oc = 'unbound'
                elif tag == 'str':
                    oc = 'str ' + ' '.join(str(t) for t in P.e_str(val))
                else:
                    oc = 'range %s %s' % tuple('N' if q is None else q for q in val)
            except Timeout:
                oc = 'timeout'
                viol.append(('C09', 'terminates', 'script op %s' % kind))
            except Exception as ex:   # noqa
                oc = P.err_line(ex)
            finally:
                signal.setitimer(signal.ITIMER_REAL, 0)
            try:
                outs.append(oc + ' ; ' + self.dump(vars_))
            except Exception as ex:   # noqa
                outs.append(oc + ' ; <dump failed %r>' % (ex,))
                viol.append(('C09', 'self_check', 'script: state cannot be dumped after %s: %r' % (kind, ex)))
                break
        inp = ' '.join(str(t) for t in ['script', len(enc)] + [q for e in enc for q in e])
        st = Step('script', inp, ' || '.join(outs), 'script of %d ops' % len(enc))
        st.viol = viol
        st.hist, st.idx = hidx, 0
        self.steps.append(st)
        self.stats['scripts'] += 1
