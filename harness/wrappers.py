"""AST translator for the *thin* methods of ansi_string.py (part of translate.py's output).

Every method of `class AnsiStr` and `class AnsiString` is read from the working tree's source and
turned into a term of the small wrapper language of lean/AnsiModel/Wrap.lean:

    lift      cpy = self._s.copy(); cpy.T(…); return AnsiStr(cpy)
    liftIAdd  cpy = self._s.copy(); cpy += e; return AnsiStr(cpy)
    fwd       return self._s.T(…)              (AnsiStr: _s is the wrapped AnsiString)
    attr      return self._s.name
    wrap      return AnsiStr(self._s.T(…))
    wrapEach  return [AnsiStr(x) for x in self._s.T(…)]
    viaSelf   return self.T(…)
    selfAdd   return self + e
    strFwd    return self._s.T(a, b, …)        (AnsiString: _s is the str)
    strLen    return len(self._s)
    caseMap   if inplace: obj = self else: obj = self.copy(); obj._s = obj._s.T(); return obj
    newargsInner  return (self._s,)
    other     anything else: only a digest of the normalised AST is kept

Calls are *bound here* against the signature of the target method (positional, `*args`, keyword),
so the Lean side sees, per parameter of the target, the expression it receives; a call that cannot
be bound statically (`**kw`, too many positionals, unknown keyword) makes the body `other`.
Local variable names do not matter (`cpy`, `obj`, `x` may be renamed); docstrings and annotations are
dropped.  Nothing here decides a property: the Lean theorems over the generated table do.
"""
import ast, hashlib, json, os, sys
sys.path.insert(0, os.path.dirname(os.path.abspath(__file__)))


def q(s):
    """Lean string literal"""
    return json.dumps(s, ensure_ascii=True)


class Sig:
    def __init__(self, fn):
        a = fn.args
        self.self_name = a.args[0].arg if a.args and not any(
            isinstance(d, ast.Name) and d.id == 'staticmethod' for d in fn.decorator_list) else None
        pos = a.posonlyargs + a.args
        defaults = [None] * (len(pos) - len(a.defaults)) + list(a.defaults)
        if self.self_name is not None:
            pos, defaults = pos[1:], defaults[1:]
        self.params = []      # (name, kind, default-source | None)
        for p, d in zip(pos, defaults):
            self.params.append((p.arg, 0, None if d is None else ast.unparse(d)))
        if a.vararg:
            self.params.append((a.vararg.arg, 1, None))
        for p, d in zip(a.kwonlyargs, a.kw_defaults):
            self.params.append((p.arg, 2, None if d is None else ast.unparse(d)))
        self.kwarg = a.kwarg.arg if a.kwarg else None

    def names(self):
        return [p[0] for p in self.params]


def strip_doc(body):
    return [s for s in body if not (isinstance(s, ast.Expr) and isinstance(s.value, ast.Constant) and isinstance(s.value.value, str))]


def digest(fn):
    """digest of the method's AST without docstrings and annotations"""
    fn2 = ast.parse(ast.unparse(fn)).body[0]
    for n in ast.walk(fn2):
        if isinstance(n, (ast.FunctionDef, ast.AsyncFunctionDef)):
            n.body = strip_doc(n.body) or [ast.Pass()]
            n.returns = None
            for a in n.args.posonlyargs + n.args.args + n.args.kwonlyargs + [x for x in (n.args.vararg, n.args.kwarg) if x]:
                a.annotation = None
    return hashlib.sha256(ast.dump(fn2, annotate_fields=False, include_attributes=False).encode()).hexdigest()[:16]


class Tr:
    """translation of one method"""
    def __init__(self, cls_sigs, wrapped_sigs, fn, wrapper_cls):
        self.own = cls_sigs            # signatures of the methods of the class the method lives in
        self.wrapped = wrapped_sigs    # signatures of the class behind `self._s` (None: a plain str)
        self.fn = fn
        self.sig = Sig(fn)
        self.wrapper_cls = wrapper_cls  # name of the class used to re-wrap results ('AnsiStr')

    # -- expressions ------------------------------------------------------------------------------
    def expr(self, e):
        names = {p[0]: p[1] for p in self.sig.params}
        if isinstance(e, ast.Name) and e.id in names:
            return '.param ' + q(e.id)       # (a variadic parameter named without `*` is the tuple itself)
        if isinstance(e, ast.Starred) and isinstance(e.value, ast.Name) and names.get(e.value.id) == 1:
            return '.star ' + q(e.value.id)
        if isinstance(e, ast.Constant):
            return '.const ' + q(ast.unparse(e))
        return '.other ' + q(ast.unparse(e))

    def bind(self, call, target_sig):
        """-> Lean list literal of (target parameter, expression) or None"""
        if target_sig is None or target_sig.kwarg:
            return None
        ps = target_sig.params
        pos = [p for p in ps if p[1] == 0]
        var = [p for p in ps if p[1] == 1]
        bound = {}
        i = 0
        for a in call.args:
            if isinstance(a, ast.Starred):
                if not var or var[0][0] in bound:
                    return None
                bound[var[0][0]] = self.expr(a)
            else:
                if i >= len(pos) or (var and var[0][0] in bound):
                    return None
                bound[pos[i][0]] = self.expr(a)
                i += 1
        for kw in call.keywords:
            if kw.arg is None or kw.arg in bound or kw.arg not in [p[0] for p in ps if p[1] != 1]:
                return None
            bound[kw.arg] = self.expr(kw.value)
        out = []
        for name, kind, d in ps:
            if name in bound:
                out.append('(%s, %s)' % (q(name), bound[name]))
            else:
                out.append('(%s, .dflt %s)' % (q(name), q('()' if kind == 1 else ('' if d is None else d))))
        return '[' + ', '.join(out) + ']'

    # -- recognisers ------------------------------------------------------------------------------
    def is_self(self, e):
        return isinstance(e, ast.Name) and e.id == self.sig.self_name and self.sig.self_name is not None

    def is_inner(self, e):
        """self._s"""
        return isinstance(e, ast.Attribute) and e.attr == '_s' and self.is_self(e.value)

    def inner_call(self, e):
        """self._s.T(…) -> (T, call) """
        if isinstance(e, ast.Call) and isinstance(e.func, ast.Attribute) and self.is_inner(e.func.value):
            return e.func.attr, e
        return None

    def rewrap_of(self, e):
        """AnsiStr(<x>) -> x"""
        if isinstance(e, ast.Call) and isinstance(e.func, ast.Name) and e.func.id == self.wrapper_cls \
                and len(e.args) == 1 and not e.keywords and not isinstance(e.args[0], ast.Starred):
            return e.args[0]
        return None

    def body(self):
        b = strip_doc(self.fn.body)
        r = self.thin(b)
        if r is not None:
            return r
        return '.other ' + q('h:' + digest(self.fn))

    def thin(self, b):
        W = self.wrapped
        # ---- three-statement copy / call / re-wrap
        if len(b) == 3 and isinstance(b[0], ast.Assign) and len(b[0].targets) == 1 and isinstance(b[0].targets[0], ast.Name) \
                and isinstance(b[2], ast.Return) and b[2].value is not None:
            v = b[0].targets[0].id
            ic = self.inner_call(b[0].value)
            rw = self.rewrap_of(b[2].value)
            if W is not None and ic and ic[0] == 'copy' and not ic[1].args and not ic[1].keywords \
                    and isinstance(rw, ast.Name) and rw.id == v and v not in self.sig.names():
                st = b[1]
                if isinstance(st, ast.Expr) and isinstance(st.value, ast.Call) and isinstance(st.value.func, ast.Attribute) \
                        and isinstance(st.value.func.value, ast.Name) and st.value.func.value.id == v:
                    t = st.value.func.attr
                    f = self.bind(st.value, W.get(t))
                    if f is not None:
                        return '.lift %s %s' % (q(t), f)
                if isinstance(st, ast.AugAssign) and isinstance(st.op, ast.Add) and isinstance(st.target, ast.Name) and st.target.id == v:
                    return '.liftIAdd (%s)' % self.expr(st.value)
        # ---- inplace switch + case mapping of the text (AnsiString)
        if W is None and len(b) == 3 and isinstance(b[0], ast.If) and isinstance(b[0].test, ast.Name) and b[0].test.id == 'inplace' \
                and len(b[0].body) == 1 and len(b[0].orelse) == 1 and isinstance(b[2], ast.Return):
            s1, s2 = b[0].body[0], b[0].orelse[0]
            if isinstance(s1, ast.Assign) and isinstance(s2, ast.Assign) and len(s1.targets) == 1 and len(s2.targets) == 1 \
                    and isinstance(s1.targets[0], ast.Name) and isinstance(s2.targets[0], ast.Name) \
                    and s1.targets[0].id == s2.targets[0].id and self.is_self(s1.value) \
                    and isinstance(s2.value, ast.Call) and isinstance(s2.value.func, ast.Attribute) and s2.value.func.attr == 'copy' \
                    and self.is_self(s2.value.func.value) and not s2.value.args and not s2.value.keywords:
                o = s1.targets[0].id
                st = b[1]
                def obj_s(e):
                    return isinstance(e, ast.Attribute) and e.attr == '_s' and isinstance(e.value, ast.Name) and e.value.id == o
                if isinstance(st, ast.Assign) and len(st.targets) == 1 and obj_s(st.targets[0]) and isinstance(st.value, ast.Call) \
                        and isinstance(st.value.func, ast.Attribute) and obj_s(st.value.func.value) and not st.value.args \
                        and not st.value.keywords and isinstance(b[2].value, ast.Name) and b[2].value.id == o \
                        and o not in self.sig.names() and 'inplace' in self.sig.names():
                    return '.caseMap %s' % q(st.value.func.attr)
        # ---- single return
        if len(b) == 1 and isinstance(b[0], ast.Return) and b[0].value is not None:
            e = b[0].value
            ic = self.inner_call(e)
            if ic:
                if W is not None:
                    f = self.bind(ic[1], W.get(ic[0]))
                    if f is not None:
                        return '.fwd %s %s' % (q(ic[0]), f)
                elif not ic[1].keywords and not any(isinstance(a, ast.Starred) for a in ic[1].args):
                    return '.strFwd %s [%s]' % (q(ic[0]), ', '.join(self.expr(a) for a in ic[1].args))
            if W is not None and isinstance(e, ast.Attribute) and self.is_inner(e.value):
                return '.attr %s' % q(e.attr)
            if W is not None and isinstance(e, ast.Tuple) and len(e.elts) == 1 and self.is_inner(e.elts[0]):
                return '.newargsInner'
            if W is None and isinstance(e, ast.Call) and isinstance(e.func, ast.Name) and e.func.id == 'len' and len(e.args) == 1 \
                    and not e.keywords and self.is_inner(e.args[0]):
                return '.strLen'
            rw = self.rewrap_of(e)
            if W is not None and rw is not None:
                ic = self.inner_call(rw)
                if ic:
                    f = self.bind(ic[1], W.get(ic[0]))
                    if f is not None:
                        return '.wrap %s %s' % (q(ic[0]), f)
            if W is not None and isinstance(e, ast.ListComp) and len(e.generators) == 1:
                g = e.generators[0]
                rw = self.rewrap_of(e.elt)
                if isinstance(g.target, ast.Name) and not g.ifs and not g.is_async and isinstance(rw, ast.Name) and rw.id == g.target.id \
                        and g.target.id not in self.sig.names():
                    ic = self.inner_call(g.iter)
                    if ic:
                        f = self.bind(ic[1], W.get(ic[0]))
                        if f is not None:
                            return '.wrapEach %s %s' % (q(ic[0]), f)
            if isinstance(e, ast.Call) and isinstance(e.func, ast.Attribute) and self.is_self(e.func.value):
                f = self.bind(e, self.own.get(e.func.attr))
                if f is not None:
                    return '.viaSelf %s %s' % (q(e.func.attr), f)
            if isinstance(e, ast.BinOp) and isinstance(e.op, ast.Add) and self.is_self(e.left):
                return '.selfAdd (%s)' % self.expr(e.right)
        return None


def match_loop(own, fn):
    """`format_matching` / `unformat_matching`: the loop over `re.finditer` as a `Wrap.MatchLoop`, or None"""
    t = Tr(own, None, fn, 'AnsiStr')
    b = strip_doc(fn.body)
    def src(e):
        return ast.unparse(e)
    escape = False
    none_all = False
    if b and isinstance(b[0], ast.If) and src(b[0].test) == 'not regex' and not b[0].orelse and len(b[0].body) == 1 \
            and src(b[0].body[0]) == 'matchspec = re.escape(matchspec)':
        escape = True
        b = b[1:]
    if b and isinstance(b[0], ast.If) and src(b[0].test) == 'not format or None in format' and not b[0].orelse \
            and len(b[0].body) == 1 and src(b[0].body[0]) == 'format = None':
        none_all = True
        b = b[1:]
    if len(b) != 1 or not isinstance(b[0], ast.For) or b[0].orelse or not isinstance(b[0].target, ast.Name):
        return None
    loop = b[0]
    mv = loop.target.id
    it = loop.iter
    if not (isinstance(it, ast.Call) and src(it.func) == 're.finditer' and not it.keywords):
        return None
    fargs = [src(a) for a in it.args]
    if len(loop.body) != 1 or not isinstance(loop.body[0], ast.If):
        return None
    test = loop.body[0]
    guard = src(test.test)
    else_break = len(test.orelse) == 1 and isinstance(test.orelse[0], ast.Break)
    if test.orelse and not else_break:
        return None
    body = test.body
    dec = False
    if len(body) == 2 and isinstance(body[1], ast.If) and src(body[1].test) == 'count > 0' and not body[1].orelse \
            and len(body[1].body) == 1 and src(body[1].body[0]) == 'count -= 1':
        dec = True
        body = body[:1]
    if len(body) != 1 or not isinstance(body[0], ast.Expr) or not isinstance(body[0].value, ast.Call):
        return None
    call = body[0].value
    if not (isinstance(call.func, ast.Attribute) and t.is_self(call.func.value)):
        return None
    # the loop variable is a local, not a parameter: written `.other "<source>"`
    f = t.bind(call, own.get(call.func.attr))
    if f is None:
        return None
    return ('{ escapeUnlessRegex := %s, noneMeansAll := %s, matchVar := %s, finditerArgs := [%s], perMatchTest := %s, '
            'stepTarget := %s, stepArgs := %s, decrement := %s, elseBreak := %s }') % (
        'true' if escape else 'false', 'true' if none_all else 'false', q(mv), ', '.join(q(a) for a in fargs), q(guard),
        q(call.func.attr), f, 'true' if dec else 'false', 'true' if else_break else 'false')


def for_match(own, fn):
    """`apply_formatting_for_match`: `s = <e1>; e = <e2>; self.T(…)` with the two locals inlined, or None"""
    t = Tr(own, None, fn, 'AnsiStr')
    b = strip_doc(fn.body)
    lets = {}
    while b and isinstance(b[0], ast.Assign) and len(b[0].targets) == 1 and isinstance(b[0].targets[0], ast.Name) \
            and b[0].targets[0].id not in lets and b[0].targets[0].id not in t.sig.names():
        lets[b[0].targets[0].id] = b[0].value
        b = b[1:]
    if len(b) != 1 or not isinstance(b[0], ast.Expr) or not isinstance(b[0].value, ast.Call):
        return None
    call = b[0].value
    if not (isinstance(call.func, ast.Attribute) and t.is_self(call.func.value)):
        return None
    class Inline(ast.NodeTransformer):
        def visit_Name(self, n):
            return lets.get(n.id, n) if isinstance(n.ctx, ast.Load) else n
    call = ast.fix_missing_locations(Inline().visit(call))
    f = t.bind(call, own.get(call.func.attr))
    if f is None:
        return None
    return '(%s, %s)' % (q(call.func.attr), f)


def class_methods(tree, name):
    for c in tree.body:
        if isinstance(c, ast.ClassDef) and c.name == name:
            return [f for f in c.body if isinstance(f, ast.FunctionDef)]
    return []


def deco_of(fn):
    ds = []
    for d in fn.decorator_list:
        ds.append(ast.unparse(d))
    return ','.join(ds)


def generate(repo):
    import pynorm
    path = os.path.join(repo, 'src', 'ansi_string', 'ansi_string.py')
    tree = ast.parse(open(path).read())               # the delegation table is read from the source as written
    string_fns = class_methods(tree, 'AnsiString')
    str_fns = class_methods(tree, 'AnsiStr')
    string_sigs = {f.name: Sig(f) for f in string_fns}
    str_sigs = {f.name: Sig(f) for f in str_fns}
    L = []
    w = L.append
    w('/-  GENERATED by harness/translate.py (harness/wrappers.py) from the working tree of the repository — do not edit.')
    w('    One entry per method of `class AnsiStr` and `class AnsiString`, translated from the AST. -/')
    w('import AnsiModel.Wrap')
    w('import AnsiModel.Setting')
    w('')
    w('namespace Gen')
    w('open Wrap')
    w('')
    def table(lean_name, fns, own, wrapped, doc):
        w('/-- %s -/' % doc)
        w('def %s : List WMethod := [' % lean_name)
        rows = []
        for f in fns:
            t = Tr(own, wrapped, f, 'AnsiStr')
            ps = ', '.join('⟨%s, %d, %s⟩' % (q(n), k, 'none' if d is None else 'some ' + q(d)) for n, k, d in t.sig.params)
            rows.append('  { name := %s, deco := %s, params := [%s],\n    body := %s }' % (q(f.name), q(deco_of(f)), ps, t.body()))
        w(',\n'.join(rows))
        w(']')
        w('')
    table('ansiStr', str_fns, str_sigs, string_sigs, 'the methods of `class AnsiStr(str)` in source order; `self._s` is an `AnsiString`')
    table('ansiString', string_fns, string_sigs, None, 'the methods of `class AnsiString` in source order; `self._s` is a `str`')
    fns = {f.name: f for f in class_methods(pynorm.normalize(ast.parse(open(path).read())), 'AnsiString')}   # loops and guards: normalised
    for lean_name, py in (('formatMatchingLoop', 'format_matching'), ('unformatMatchingLoop', 'unformat_matching')):
        r = match_loop(string_sigs, fns[py]) if py in fns else None
        w('/-- `AnsiString.%s`: the loop over `re.finditer`, or `none` if the body is not of that form -/' % py)
        w('def %s : Option MatchLoop :=' % lean_name)
        w('  none' if r is None else '  some ' + r)
        w('')
    r = for_match(string_sigs, fns['apply_formatting_for_match']) if 'apply_formatting_for_match' in fns else None
    w('/-- `AnsiString.apply_formatting_for_match`: the call it makes, locals inlined -/')
    w('def applyForMatch : Option (String × List (String × WExpr)) :=')
    w('  none' if r is None else '  some ' + r)
    w('')
    import pyint
    if '_slice_val_to_idx' in fns:
        src, _ = pyint.translate(fns['_slice_val_to_idx'], 'sliceValToIdx',
                                 '`AnsiString._slice_val_to_idx(val, default)` translated statement by statement; `len_s` is `len(self._s)`')
    else:
        src = 'def sliceValToIdx (_len_s : Int) (_val : Option Int) (_default : Int) : Int := 0\ndef sliceValToIdxOk : Bool := false\n'
    w(src)
    for py, ln in (('apply_formatting', 'applyGuard'), ('remove_formatting', 'removeGuard'), ('find_settings', 'findGuard'),
                   ('ansi_settings_at', 'settingsAtGuard'), ('_shift_settings_idx', 'shiftGuard')):
        if py in fns:
            w(pyint.translate_prefix(fns[py], ln, 'what `AnsiString.%s` does before its first statement outside the translated subset: '
                                                  '0 = goes on, 1 = has returned, 2 = has raised' % py))
        else:
            w('def %s : Int := 0\n' % ln)
    import pylist
    point_fns = {f.name: f for f in class_methods(tree, '_AnsiSettingPoint')}
    LISTFNS = [
        (fns, '_find_setting_reference', 'findSettingReference', [('find', 'Setting'), ('in_list', 'List Setting')], 'Int'),
        (fns, '_same_setting_references', 'sameSettingReferences', [('list1', 'List Setting'), ('list2', 'List Setting')], 'Bool'),
        (fns, '_find_settings_references', 'findSettingsReferences', [('find_list', 'List Setting'), ('in_list', 'List Setting')], 'List (Nat × Nat)'),
        (fns, 'is_formatting_valid', 'isFormattingValid', [('fmts', 'Fmts')], 'Bool'),
        (fns, 'is_formatting_parsable', 'isFormattingParsable', [('fmts', 'Fmts')], 'Bool'),
        (point_fns, '__bool__', 'pointBool', [('p', 'Point')], 'Bool'),
    ]
    for table, py, ln, params, ret in LISTFNS:
        if py in table:
            w(pylist.translate(table[py], ln, params, ret, '`%s` translated by loop idiom (harness/pylist.py); `is` is identity (`.id`)' % py))
        else:
            w('def %sOk : Bool := false\n' % ln)
    ftree = pynorm.normalize(ast.parse(open(os.path.join(repo, 'src', 'ansi_string', 'ansi_format.py')).read()))
    cfn = {f.name: f for f in class_methods(ftree, '_AnsiControlFn')}
    w(pyint.translate_rgb(cfn['rgb']) if 'rgb' in cfn else 'def rgbChannelsOk : Bool := false\n')
    w('end Gen')
    return '\n'.join(L) + '\n'


if __name__ == '__main__':
    import sys
    sys.stdout.write(generate(sys.argv[1] if len(sys.argv) > 1 else '/repo'))


METHODS = ['_shift_settings_idx', 'ljust', 'rjust', 'center', 'assign_str', 'clip',
           dict(py='_split', ret='olist', join=True), dict(py='splitlines', ret='olist', join=True),
           dict(py='partition', ret='otriple'), dict(py='rpartition', ret='otriple'), dict(py='_strip', join=True), 'removeprefix', 'removesuffix',
           dict(py='insert_settings', point=True, types={'apply': 'bool', 'settings': 'slist', 'topmost': 'bool'}),
           dict(py='__next__', iter=True, lean='iterStep', after_target='settings',
                entry=[('current_settings', 'slist'), ('settings', 'point'), ('with_assertions', 'bool')]),
           dict(py='ansi_settings_at', lean='ansiSettingsAtCode', ret='slist'),
           dict(py='apply_formatting', lean='applyCore', after='_scrub_ansi_settings', join=True,
                entry=[('ansi_settings', 'slist'), ('start', 'int'), ('end', 'int'), ('topmost', 'bool')]),
           dict(py='_apply_string_format', lean='applyStringFormatCode', extra=[('nid', 'nat')],
                types={'settings': 'optstr'}),
           dict(py='to_str', lean='renderCore', after_store='ifany:optimize', ret='str', join=True,
                entry=[('obj', 'obj'), ('optimize', 'bool'), ('reset_start', 'bool'), ('reset_end', 'bool')]),
           dict(py='to_str', lean='toStrCode', ret='str', extra=[('nid', 'nat')], join=True,
                outline=dict(call='renderCore', after_store='ifany:optimize',
                             entry=[('obj', 'obj'), ('optimize', 'bool'), ('reset_start', 'bool'), ('reset_end', 'bool')])),
           dict(py='set_ansi_str', lean='setAnsiDiff', block=('settings_to_remove', 'settings_to_remove'),
                entry=[('new_settings', 'effdict'), ('current_settings', 'effdict')], result=['settings_to_remove', 'settings_to_apply']),
           dict(py='find_settings', lean='findCore', after='_scrub_ansi_settings', ret='optpair', join=True,
                entry=[('ansi_settings', 'slist'), ('start', 'int'), ('end', 'int'), ('reverse', 'bool')]),
           dict(py='__getitem__', lean='getItemCore', after_store='new_s._s', join=True,
                entry=[('new_s', 'obj'), ('st', 'int'), ('en', 'int')]),
           dict(py='remove_formatting', lean='removeCore', after_store='if:ansi_settings', join=True,
                entry=[('ansi_settings', 'optslist'), ('start', 'int'), ('end', 'int')]),
           dict(py='__iadd__', lean='iaddCore', after_store='ifany:incoming_fmts', join=True,
                entry=[('incoming_str', 'str'), ('incoming_fmts', 'fmtitems')])]


def generate_methods(repo):
    """Generated/Methods/<Name>.lean: object-mutating methods translated statement by statement (pyobj.py), one
    file per method (so that a translation that does not type-check breaks the theorems about that method and
    about its callers, nothing else), and Generated/Methods.lean importing them all"""
    import pyobj, re, pynorm
    path = os.path.join(repo, 'src', 'ansi_string', 'ansi_string.py')
    tree = pynorm.normalize(ast.parse(open(path).read()))
    fns = {f.name: f for f in class_methods(tree, 'AnsiString')}
    pfns = {f.name: f for f in class_methods(tree, '_AnsiSettingPoint')}
    ifns = {f.name: f for f in class_methods(tree, '_AnsiSettingsIterator')}
    wa = False              # the class constant AnsiString.WITH_ASSERTIONS as shipped
    for n in ast.walk(tree):
        if isinstance(n, ast.ClassDef) and n.name == 'AnsiString':
            for st in n.body:
                if isinstance(st, ast.Assign) and len(st.targets) == 1 and isinstance(st.targets[0], ast.Name) \
                        and st.targets[0].id == 'WITH_ASSERTIONS' and isinstance(st.value, ast.Constant):
                    wa = bool(st.value.value)
    parts = pyobj.translate(fns, METHODS, pfns, ifns, wa, have=('pointBool', 'sameSettingReferences', 'findSettingsReferences'))
    files = {}
    names = [n for n, _ in parts]
    for k, (nm, text) in enumerate(parts):
        deps = [d for d in names[:k] if re.search(r'(?<![A-Za-z0-9_.])%s(?![A-Za-z0-9_])' % re.escape(d), text.split(':=', 1)[-1])]
        mod = nm[0].upper() + nm[1:]
        L = ['/-  GENERATED by harness/translate.py (harness/pyobj.py) from the working tree of the repository — do not edit.',
             '    One method of the source, translated statement by statement. -/',
             'import AnsiModel.Obj', 'import AnsiModel.Replay', 'import AnsiModel.PyStr', 'import AnsiModel.Render', 'import AnsiModel.Generated.Tables',
             'import AnsiModel.Generated.Wrappers']
        if 'regex_' in text:
            L.append('import AnsiModel.Generated.Regexes')
        L += ['import AnsiModel.Generated.Methods.%s' % (d[0].upper() + d[1:]) for d in deps]
        L += ['', 'namespace Gen', '', text, 'end Gen', '']
        files['Methods/%s.lean' % mod] = '\n'.join(L)
    try:                    # the free functions of ansi_parsing.py (pyparse.py); a failure there leaves the files above as they are
        import pyparse
        files.update(pyparse.generate(repo))
        names = names + pyparse.MODULES
    except Exception:
        pass
    files['Methods.lean'] = '\n'.join(['/-  GENERATED by harness/translate.py — do not edit.  All translated methods. -/'] +
                                      ['import AnsiModel.Generated.Methods.%s' % (n[0].upper() + n[1:]) for n in names] + [''])
    return files
