"""Corpus of minimised past failures: one scenario per defect found on the pinned tree (DESIGN §9).
They run first in every check; each returns the clauses that fail *now* on the real code."""
import signal
import oracle as O
import terminal as T

class _TO(Exception):
    pass

def _alarm(*a):
    raise _TO()

def run(pid, repo='/repo'):
    import gen
    mod = gen.load_impl(repo)
    A, S, F, AS = mod.AnsiString, mod.AnsiStr, mod.AnsiFormat, mod.AnsiSetting
    PS, pgs, std = mod.ParsedAnsiControlSequenceString, mod.parse_graphic_sequence, mod.settings_to_dict
    out = []
    ran = 0

    def sat(x):
        return [x.settings_at(i) for i in range(len(x))]

    def case(name, props, fn):
        nonlocal ran
        if pid not in props:
            return
        ran += 1
        signal.signal(signal.SIGALRM, _alarm)
        signal.setitimer(signal.ITIMER_REAL, 3.0)
        try:
            bad = fn()
        except _TO:
            bad = 'does not terminate'
        except Exception as e:   # noqa
            bad = 'raised %r' % (e,)
        finally:
            signal.setitimer(signal.ITIMER_REAL, 0)
        if bad:
            cl = props[pid]
            out.append(dict(clause=cl, detail='%s: %s' % (name, bad), op='corpus', desc='corpus case ' + name, hist=-2, idx=0, inp=None, impl=None))

    # D1
    case('D1 reset_start with no_bold_faint', {'C01': 'reset_start_begins'},
         lambda: (lambda r: None if r.startswith('\x1b[0') or r.startswith('\x1b[m') else repr(r))(A('abc', 'no_bold_faint').to_str(reset_start=True)))
    # D2
    case('D2 colour group not first', {'C18': 'pgs_groups_intact', 'C02': 'parse_style', 'C14': 'spelling_equiv', 'C03': 'simplify_display'},
         lambda: None if ([str(s) for s in pgs('1;38;5;214')] == ['1', '38;5;214']
                          and [str(s) for s in pgs('38;2;1;2;3;4')] == ['38;2;1;2;3', '4']
                          and A('\x1b[1;38;5;214mX').settings_at(0) == '1;38;5;214'
                          and A('x', [4, 38, 5, 200]).settings_at(0) == '4;38;5;200'
                          and (lambda s: (s.simplify(), s.settings_at(0))[1])(A('x', 'bold', 'rgb(1,2,3)')) == '1;38;2;1;2;3') else 'mis-grouped')
    # D3
    case('D3 negative int index', {'C04': 'getitem_int'}, lambda: None if A('abc', 'red')[-1].settings_at(0) == '31' else 'unformatted')
    # D4
    def d4():
        s = A('abcdef'); s.apply_formatting('red', 0, 4); s.apply_formatting('red', 1, 3)
        t = s[1:3] + 'zz'
        return None if sat(t)[2:] == ['', ''] else repr(sat(t))
    case('D4 equal overlapping settings, slice left open', {'C04': 'getitem_closed', 'C05': 'iadd_right'}, d4)
    # D5
    def d5():
        s = A('ab', 'red').center(6)
        t = s + 'x'
        return None if (max(s._fmts) <= 6 and t.settings_at(6) == '') else 'marker at %d, appended %r' % (max(s._fmts), t.settings_at(6))
    case('D5 center moves end marker twice', {'C12': 'pad_fill', 'C05': 'iadd_right', 'C09': 'wf_keys'}, d5)
    # D6
    def d6():
        s = A('abc'); s.apply_formatting('bold', 0, 10)
        t = s + 'x'
        if t.settings_at(3) != '' or max(s._fmts) > 3:
            return 'apply beyond the end stays open'
        s.remove_formatting('bold', 1, 2)
        if max(s._fmts) > 3:
            return 'dangling marker'
        if A('abc').find_settings([], -2, 100) != (1, 3):
            return 'find_settings range %r' % (A('abc').find_settings([], -2, 100),)
        return None
    case('D6 bounds past the end are clamped', {'C06': 'apply_outside', 'C07': 'remove_outside', 'C09': 'wf_keys', 'C17': 'find_empty'}, d6)
    # D7
    def d7():
        s = A('abc', 'no_bold_faint', 'bold'); s.apply_formatting('bold', 1, 3, topmost=False)
        if sat(s)[1] != '1;22;1':
            return 'a: %r' % sat(s)
        s = A('abcd', 'red'); s.apply_formatting('blue', 1, 4); s.apply_formatting('bold', 1, 3, topmost=False)
        if sat(s)[1] != '1;31;34':
            return 'b: %r' % sat(s)
        return None
    case('D7 topmost=False precedence', {'C06': 'apply_bottom_display'}, d7)
    # D8
    def d8():
        s = A('abcd', 'red', 'blue'); s.remove_formatting('red', 1, 2)
        if sat(s) != ['31;34', '34', '31;34', '31;34']:
            return 'a: %r' % sat(s)
        s = A('abcdefg'); s.apply_formatting(['red', 'blue'], 1, 6); s.remove_formatting(None, 0, 3)
        if sat(s)[3:6] != ['31;34'] * 3:
            return 'b: %r' % sat(s)
        return None
    case('D8 remove_formatting restart order', {'C07': 'remove_outside'}, d8)
    # D9 / D14 / D18
    def d9():
        a = A('a', 'red'); b = A('b', 'red'); c = a + b
        if str(b) != '\x1b[31mb\x1b[m' or sat(c) != ['31', '31']:
            return 'right operand damaged'
        s = A('ab', 'red'); s += s
        if sat(s) != ['31'] * 4:
            return 's += s: %r' % sat(s)
        r = A('a-b-c', 'red').replace('-', A('+', 'red'))
        if sat(r) != ['31'] * 5:
            return 'reused replacement: %r' % sat(r)
        return None
    case('D9 += rewrites the right operand', {'C05': 'iadd_right', 'C08': 'right_operand_unchanged', 'C09': 'self_check', 'C11': 'replace_settings'}, d9)
    # D10
    def d10():
        s = A('abcdef'); s.apply_formatting('red', 2, 4); b = (str(s), s.to_str(optimize=False))
        t = s[1:5]; t.apply_formatting('bold', 1, 3); t.remove_formatting('red')
        return None if (str(s), s.to_str(optimize=False)) == b else 'source changed'
    case('D10 slice shares lists', {'C08': 'frame'}, d10)
    # D11
    case('D11 replace with empty old', {'C09': 'terminates', 'C10': 'replace_text'},
         lambda: None if A('abc', 'red').replace('', 'x').base_str == 'xaxbxcx' else 'wrong text')
    # D12
    case('D12 removesuffix empty', {'C10': 'removesuffix_text'}, lambda: None if A('abc', 'red').removesuffix('').base_str == 'abc' else 'emptied')
    # D13
    def d13():
        s = A('xabbbb'); s.apply_formatting('red', 0, 3)
        p = s.split('ab')
        return None if [sat(q) for q in p] == [['31'], ['', '', '']] else repr([sat(q) for q in p])
    case('D13 split offset inside separator', {'C11': 'piece_settings'}, d13)
    # D15
    def d15():
        a = S('a')
        if str(S(A('a'), 'bold')) != '\x1b[1ma\x1b[m' or str(S(a, 'bold')) != '\x1b[1ma\x1b[m' or str(a) != 'a':
            return 'settings dropped / source aliased'
        return None
    case('D15 AnsiStr(AnsiString, settings)', {'C13': 'ansistr_op_eq'}, d15)
    # D16
    def d16():
        s = 'a\x1b[1mb\x1b[2Jc\x1b['
        p = PS(s)
        return None if (p.formatted_str == s and str(p) == s and repr(p) == s) else repr(p.formatted_str)
    case('D16 formatted_str', {'C19': 'tokenize_lossless'}, d16)
    # D22
    def d22():
        a = A('abc'); a.apply_formatting('blue', 1, 3); a.apply_formatting('red', 0, 3)
        c = a + A('x', 'blue', 'red')
        return None if c.settings_at(3) == '34;31' else c.settings_at(3)
    case('D22 seam merge flips precedence', {'C05': 'iadd_right'}, d22)
    # D23
    def d23():
        s = A('abcdef'); s.apply_formatting('red', 3, 6)
        r = (s.find_settings('red', 0, 3), s.find_settings('red', 3, 3))
        return None if r == ((None, None), (None, None)) else repr(r)
    case('D23 find_settings start at end', {'C17': 'find_none_iff'}, d23)
    # D24
    case('D24 signed parameter parsable', {'C15': 'parsable_iff'}, lambda: None if not AS('+1').parsable and AS(' 1').parsable else 'signed accepted')
    # D25
    def d25():
        s = A('x', '[38;5;300'); s.simplify()
        return None if s.is_formatting_parsable() and [str(q) for q in pgs('1;38;5;300;4')] == ['1', '4'] else 'out-of-range colour kept'
    case('D25 out-of-range colour argument', {'C03': 'simplify_parsable', 'C18': 'pgs_parsable'}, d25)
    # D27
    def d27():
        s = A('abcd', 'red'); b = s.to_str(optimize=False)
        try:
            s.remove_formatting('nope', 1, 2)
        except ValueError:
            pass
        return None if s.to_str(optimize=False) == b and s == A('abcd', 'red') else 'changed by failed call'
    case('D27 failed remove_formatting leaves markers', {'C09': 'error_atomic'}, d27)
    # D28
    case('D28 empty parameter is reset', {'C02': 'parse_style', 'C18': 'pgs_terminal'},
         lambda: None if A('\x1b[1;;3mx').settings_at(0) == '3' else A('\x1b[1;;3mx').settings_at(0))
    # D29
    def d29():
        l = ['1', '31']; pgs(l)
        return None if l == ['1', '31'] else repr(l)
    case('D29 list argument rewritten', {'C18': 'pgs_pure', 'C08': 'arg_unchanged'}, d29)
    # D30
    def d30():
        s = A('a\x1b[') + '1mbc'
        return None if s[0:5].base_str == s.base_str[0:5] and s[3:].base_str == '1mbc' else repr(s[0:5].base_str)
    case('D30 slice re-parses text', {'C04': 'getitem_text'}, d30)
    # D31
    def d31():
        s = A('abc', 'red'); r = s.replace('x', 'y')
        if r is s:
            return 'replace() without a match returned the receiver itself'
        r.apply_formatting('bold')
        return None if str(s) == '\x1b[31mabc\x1b[m' else 'receiver changed through the result'
    case('D31 replace without match returns self', {'C08': 'result_is_source'}, d31)
    # D32 (found by the Lean proof attempt of iadd_right)
    def d32():
        x = A('a', 'red'); b1 = A('ce') + x + 'd'
        b1.apply_formatting('blue', 1, 4); b1.apply_formatting('red', 0, 4)
        c = x + b1
        return None if sat(c)[1:] == sat(b1) else '%r vs %r' % (sat(c)[1:], sat(b1))
    case('D32 seam merge with an object that starts again later', {'C05': 'iadd_right'}, d32)
    # D33
    case('D33 replace with an escape sequence in the replacement skips matches', {'C11': 'replace_settings', 'C10': 'replace_text'},
         lambda: None if A('bcbc').replace('c', '\x1b[4mZ').base_str == 'bZbZ' else A('bcbc').replace('c', '\x1b[4mZ').base_str)
    # D34 (found by the thorough tier's twin execution)
    def d34():
        a = S('a\x1b[') + '1mbc'
        c = a.clear_formatting()
        return None if c.base_str == a.base_str and str(c) == a.base_str else '%r vs %r' % (c.base_str, a.base_str)
    case('D34 AnsiStr.clear_formatting re-parses the text', {'C13': 'ansistr_op_eq', 'C07': 'clear_all'}, d34)
    # D35 (found by the near-miss directive stream + grammar oracle)
    def d35():
        bad = []
        for t in ('rgb()1,2,3)', 'ul_color256()17)', 'bg_rgb()0x102030)'):
            try:
                A('x', t); bad.append(t)
            except ValueError:
                pass
        return None if not bad else 'accepted: %r' % bad
    case('D35 stray ) accepted as opening bracket of rgb()/color256()', {'C14': 'reject_malformed'}, d35)
    # D36 (reported by two round-7 agents as an observation on the unchanged tree)
    def d36():
        import copy, pickle
        a = S('abc', '[77', 'bold', 'bold')
        bad = []
        for nm, f in (('copy.copy', copy.copy), ('copy.deepcopy', copy.deepcopy), ('pickle', lambda v: pickle.loads(pickle.dumps(v)))):
            b = f(a)
            if str.__str__(b) != b.to_str() or str.__str__(b) != str.__str__(a):
                bad.append('%s: payload %r, rendering %r' % (nm, str.__str__(b), b.to_str()))
        return None if not bad else '; '.join(bad)
    case('D36 copy/pickle of an AnsiStr re-parses the payload', {'C13': 'ansistr_payload', 'C01': 'str_eq'}, d36)
    # D26 — known finding: byte-level idempotence of simplify() with verbatim multi-code settings
    def d26(build):
        def f():
            s = build()
            s.simplify(); r1 = str(s); v1 = s.copy(); s.simplify(); r2 = str(s); v2 = s.copy()
            rs = [r2]
            for _ in range(4):
                s.simplify(); rs.append(str(s))
            if r1 == r2:
                return None
            same = T.run(r1, {})[0] == T.run(r2, {})[0]
            return 'display_same=%r settles=%r settings_same=%r: after one simplify %r, after two %r' % (
                same, rs[-1] == rs[-2], O.same_settings_modulo_order(v1, v2), r1, r2)
        return f
    def w1():
        s = A('ab'); s.apply_formatting('blue', 0, 1); s.apply_formatting('[1;31', 1, 2); return s
    def w2():
        s = A('abc'); s.apply_formatting(['1', '31', '4', '3'], 0, 1); s.apply_formatting(['32', '1'], 1, 2)
        s.apply_formatting(['33', '2'], 2, 3); return s
    case('D26 simplify not byte-idempotent (verbatim multi-code setting)', {'C03': 'simplify_idem'}, d26(w1))
    case('D26 simplify not byte-idempotent (parsable settings, reset form chosen by the optimiser)', {'C03': 'simplify_idem'}, d26(w2))
    def w3():
        # font ended with code 10, read back as the setting "default font": three rounds to settle
        return A('\x1b[10;58;5;3;4my\x1b[10mxcy\x1b[0;42;53;34;10;21m c\x1b[m')
    case('D26 simplify not byte-idempotent (font-clear code 10 read back as a setting)', {'C03': 'simplify_idem'}, d26(w3))
    return dict(viol=out, ran=ran)
