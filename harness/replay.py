"""Re-run one recorded Mode-A step on the real code: decode the pre-state from the step line,
rebuild the objects (private table), perform the operation and print what comes out."""
import sys

class Toks:
    def __init__(self, s):
        self.t = s.split()
        self.i = 0
    def next(self):
        v = self.t[self.i]; self.i += 1; return v
    def int(self):
        return int(self.next())
    def optint(self):
        v = self.next(); return None if v == 'N' else int(v)
    def str(self):
        n = self.int(); return ''.join(chr(self.int()) for _ in range(n))
    def optstr(self):
        v = self.next()
        if v == 'N': return None
        return ''.join(chr(self.int()) for _ in range(int(v)))

def rebuild(tk, mod, objs):
    A = mod.AnsiString
    import ansi_string.ansi_string as core
    x = A()
    x._s = tk.str()
    for _ in range(tk.int()):
        k = tk.int()
        add = []
        for _ in range(tk.int()):
            i = tk.int(); t = tk.str()
            add.append(objs.setdefault(i, mod.AnsiSetting(t)))
        rem = []
        for _ in range(tk.int()):
            i = tk.int(); t = tk.str()
            rem.append(objs.setdefault(i, mod.AnsiSetting(t)))
        x._fmts[k] = core._AnsiSettingPoint(add, rem)
    return x

def sarg(tk, mod, parent=None):
    tag = tk.int()
    if tag == 0: return tk.str()
    if tag == 1: return tk.int()
    if tag == 2: return mod.AnsiSetting(tk.str())
    if tag == 3: return mod.AnsiFormat[tk.str()]
    if tag == 4:
        l = []
        for _ in range(tk.int()):
            l.append(sarg(tk, mod, l))
        return l
    if tag == 5: return parent
    return 3.5 if tk.int() else None

def show(x):
    print('   text %r' % x._s)
    print('   settings ' + ' | '.join(x.settings_at(i) for i in range(len(x._s))))
    print('   str() %r' % str(x))

def rerun(rec, repo='/repo'):
    import gen
    mod = gen.load_impl(repo)
    tk = Toks(rec['inp'])
    op = tk.next()
    objs = {}
    try:
        if op in ('apply', 'remove', 'slice', 'index', 'ljust', 'rjust', 'center', 'zfill', 'tostr', 'simplify', 'clear',
                  'find', 'strip', 'assign', 'settingsat', 'removeprefix', 'removesuffix', 'copynew', 'split', 'splitlines',
                  'partition', 'maptext', 'expandtabs', 'replace', 'iter', 'fmatch', 'unfmatch', 'iadd'):
            x = rebuild(tk, mod, objs)
            print(' receiver before:'); show(x)
            if op == 'apply':
                a = sarg(tk, mod); st = tk.optint(); en = tk.optint(); top = bool(tk.int())
                x.apply_formatting(a, 0 if st is None else st, en, top); r = x
            elif op == 'remove':
                a = None if tk.t[tk.i] == 'N' and tk.next() else sarg(tk, mod)
                st = tk.optint(); en = tk.optint()
                x.remove_formatting(a, 0 if st is None else st, en); r = x
            elif op == 'slice':
                a = tk.optint(); b = tk.optint(); r = x[a:b]
            elif op == 'index':
                r = x[tk.int()]
            elif op in ('ljust', 'rjust', 'center'):
                w = tk.int(); f = tk.str(); e = bool(tk.int()); r = getattr(x, op)(w, f, False, e)
            elif op == 'zfill':
                r = x.zfill(tk.int())
            elif op == 'tostr':
                spec = tk.optstr(); o, rs, re_ = bool(tk.int()), bool(tk.int()), bool(tk.int())
                print(' to_str -> %r' % x.to_str(spec, o, rs, re_)); return
            elif op == 'simplify':
                x.simplify(); r = x
            elif op == 'clear':
                x.clear_formatting(); r = x
            elif op == 'iadd':
                y = rebuild(tk, mod, objs); print(' right operand:'); show(y); r = x + y
            elif op == 'assign':
                x.assign_str(tk.str()); r = x
            elif op == 'find':
                a = sarg(tk, mod); st = tk.optint(); en = tk.optint(); rev = bool(tk.int())
                print(' find_settings -> %r' % (x.find_settings(a, 0 if st is None else st, en, rev),)); return
            else:
                print(' (operation %s is not re-executed by the replay tool; see the recorded lines)' % op); return
            print(' result on the current code:'); show(r)
        else:
            print(' (codec step; recorded lines above)')
    except Exception as e:   # noqa
        print(' raised %r' % (e,))
