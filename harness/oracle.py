"""Direct executable statements of the properties over observations of the real objects.

These are not proofs; they find and confirm concrete failing inputs against the implementation.
Each function returns a list of (property_id, clause, detail) for the clauses that FAIL.
Only the literal reading of each property is demanded.
"""
import terminal as T

# ---------------------------------------------------------------------------- observations

def acts(x):
    """per character: list of (object id, text) the object reports, in precedence order"""
    return [[(id(s), str(s)) for s in x.ansi_settings_at(i)] for i in range(len(x._s))]

def texts(a):
    return [t for _, t in a]

def table(x):
    return {k: ([(id(s), str(s)) for s in p.add], [(id(s), str(s)) for s in p.rem]) for k, p in x._fmts.items()}

FLAGS = [(o, rs, re_) for o in (True, False) for rs in (False, True) for re_ in (True, False)]

def renderings(x):
    return [x.to_str(None, o, rs, re_) for (o, rs, re_) in FLAGS]

class Snap:
    """full observation of one value"""
    def __init__(self, x, with_render=True):
        self.text = x._s
        self.acts = acts(x)
        self.table = table(x)
        self.render = renderings(x) if with_render else None

    def same_as(self, other):
        return (self.text == other.text and self.acts == other.acts and self.table == other.table
                and (self.render is None or other.render is None or self.render == other.render))

def same_value(a, b):
    """two observations of *different* objects that should be the same value: text, per-character settings,
    every rendering, and the change-point table up to the identity of the setting objects"""
    strip = lambda t: {k: ([q[1] for q in v[0]], [q[1] for q in v[1]]) for k, v in t.items()}
    acts = lambda l: [[q[1] for q in at] for at in l]
    return a.text == b.text and acts(a.acts) == acts(b.acts) and a.render == b.render and strip(a.table) == strip(b.table)

def eff(ts):
    return T.eff(ts)

def groups_touched(ts):
    """effect groups that the settings in ts set or clear (None if unparsable / reset)"""
    out = set()
    for t in ts:
        cs = T.setting_codes(t)
        if cs is None:
            return None
        before = set()
        # a setting touches group g if feeding it changes g from some state; approximate by table
        i = 0
        while i < len(cs):
            e = T.spec_effect(cs[i]) if cs[i] >= 0 else None
            if e is None:
                i += 1
            elif e[0] == 'reset':
                return None
            elif e[0] in ('set', 'clear'):
                out.add(e[1]); i += 1
            else:
                out.add(e[1])
                if i + 1 < len(cs) and cs[i + 1] == 5: i += 3
                elif i + 1 < len(cs) and cs[i + 1] == 2: i += 5
                else: i += 1
    return out

def eff_on(ts, groups):
    e = eff(ts)
    if e is None:
        return None
    d = dict(e)
    return {g: d.get(g) for g in groups}

def same_prec(a, b):
    """same settings (as multisets of texts) and same precedence among conflicting ones:
    equal after projecting onto every effect group (unparsable settings: plain list equality)."""
    ta, tb = texts(a), texts(b)
    if sorted(ta) != sorted(tb):
        return False
    if ta == tb:
        return True
    groups = set()
    for t in ta:
        g = groups_touched([t])
        if g is None:
            return ta == tb
        groups |= g
    for g in groups:
        pa = [t for t in ta if g in (groups_touched([t]) or ())]
        pb = [t for t in tb if g in (groups_touched([t]) or ())]
        if pa != pb:
            return False
    return True

def norm_idx(n, v, default):
    if v is None:
        return default
    if v < 0:
        return max(0, n + v)
    return min(v, n)

# ---------------------------------------------------------------------------- C01 / C15

def check_render(x, prop='C01', via=None):
    """every rendering, read by the terminal, shows base_str with the reported effective styles
    (`via`: an AnsiStr wrapping the same value -- its renderings are the ones read)"""
    bad = []
    obj = x if via is None else via
    if '\x1b' in x._s:
        return bad
    a = acts(x)
    all_ts = [t for ac in a for t in texts(ac)]
    if not all(T.is_groups(t) for t in all_ts):
        return bad
    want = [(c, eff(texts(ac))) for c, ac in zip(x._s, a)]
    shown0 = None
    for (o, rs, re_) in FLAGS:
        r = obj.to_str(None, o, rs, re_)
        for t0 in ({}, {'BOLDNESS': (1,), 'FG_COLOR': (38, 5, 9), 'FONT_TYPE': (12,)}):
            if t0 and not rs:
                continue
            shown, final, wf = T.run(r, t0)
            if [(c, s) for c, s in shown] != want:
                bad.append((prop, 'render_display', 'flags=%s t0=%s out=%r' % ((o, rs, re_), bool(t0), r)))
                break
            if re_ and ('\x1b[' in r) and any(texts(ac) for ac in a) and final != {}:
                bad.append((prop, 'reset_end_default', 'flags=%s out=%r' % ((o, rs, re_), r)))
        if rs and not (r.startswith('\x1b[m') or r.startswith('\x1b[0;') or r.startswith('\x1b[0m')):
            bad.append((prop, 'reset_start_begins', 'flags=%s out=%r' % ((o, rs, re_), r)))
    if obj.__str__() != obj.to_str() or format(obj) != obj.to_str() or obj.__format__('') != obj.to_str() or ('%s' % obj) != obj.to_str():
        bad.append((prop, 'str_eq', repr(obj.to_str())))
    return bad

def check_valid_render(x):
    """C15: valid formatting + no ESC in text => stripping SGR sequences leaves base_str; verbatim intact"""
    bad = []
    if '\x1b' in x._s or not x.is_formatting_valid():
        return bad
    used = set(t for ac in acts(x) for t in texts(ac))
    for (o, rs, re_) in FLAGS:
        r = x.to_str(None, o, rs, re_)
        if T.strip_sgr(r) != x._s:
            bad.append(('C15', 'render_strip', 'flags=%s out=%r' % ((o, rs, re_), r)))
        if not o or any(t.isascii() and not grammar_parsable(t) for t in used):
            # not optimised — by request, or because a setting is not parsable (then `optimize=True` has no effect)
            seqs = [v for k, v in T.tokens(r) if k == 'sgr']
            for t in used:
                if not any((';' + t + ';') in (';' + q + ';') for q in seqs):
                    bad.append(('C15', 'verbatim_intact', 'setting=%r out=%r' % (t, r)))
    return bad

def check_flags(x):
    bad = []
    v = all(s.valid for p in x._fmts.values() for s in p.add)
    p = all(s.parsable for p in x._fmts.values() for s in p.add)
    if x.is_formatting_valid() != v:
        bad.append(('C15', 'formatting_valid_iff', ''))
    if x.is_formatting_parsable() != p:
        bad.append(('C15', 'formatting_parsable_iff', ''))
    return bad

def grammar_valid(t):
    return not any(0x40 <= ord(c) <= 0x7e for c in t)

WS = ' \t\n\r\x0b\x0c\x1c\x1d\x1e\x1f'

def grammar_parsable(t):
    """one complete known SGR parameter group other than reset; surrounding ASCII whitespace of a
    parameter is tolerated (documented parser behaviour), signs are not"""
    if not grammar_valid(t):
        return False
    items = [it.strip(WS) for it in t.split(';')]
    if not all(it.isascii() and it.isdigit() for it in items):
        return False
    cs = [int(it) for it in items]
    if any(c > 255 for c in cs) or cs[0] == 0:
        return False
    e = T.spec_effect(cs[0])
    if e is None:
        return False
    if e[0] == 'ext':
        if len(cs) >= 2 and cs[1] == 5:
            return len(cs) == 3
        if len(cs) >= 2 and cs[1] == 2:
            return len(cs) == 5
        return False
    return len(cs) == 1

# ---------------------------------------------------------------------------- C02 / C03

def check_parse(raw, x):
    """x = AnsiString(raw)"""
    bad = []
    shown, final, wf = T.run(raw, {})
    if x._s != ''.join(c for c, _ in shown):
        bad.append(('C02', 'parse_text', 'raw=%r base=%r' % (raw, x._s)))
        return bad
    if '\x1b' not in raw and (x._s != raw or x._fmts):
        bad.append(('C02', 'parse_plain', 'raw=%r' % raw))
    if wf:
        for i, ((c, st), ac) in enumerate(zip(shown, acts(x))):
            e = eff(texts(ac))
            if e != st:
                bad.append(('C02', 'parse_style', 'raw=%r i=%d reported=%r terminal=%r' % (raw, i, texts(ac), sorted(st))))
                break
    else:
        # parameters that are not numbers (`4:3`, `?25`, `38:2::1:2:3`, `:`) are not understood and therefore ignored:
        # the text reads like the same text without them (a sequence that holds nothing else disappears).  Claimed only
        # where no colour function is written in the sequence concerned (what a cut colour group means is C18's business).
        import re as _re
        changed = [False]
        def drop(m):
            toks = m.group(1).split(';')
            junk = [t for t in toks if t and not t.isdigit()]
            if not junk:
                return m.group(0)
            if any(set(t) - set('0123456789:<=>?') for t in junk) or any(t in ('38', '48', '58') for t in toks):
                raise ValueError('out of scope')
            keep = [t for t in toks if not (t and not t.isdigit())]
            changed[0] = True
            return ('\x1b[' + ';'.join(keep) + 'm') if keep else ''
        try:
            raw2 = _re.sub('\x1b\\[([0-9:;<=>?]*)m', drop, raw)
        except ValueError:
            raw2 = None
        # blanks around a parameter do not count (`ESC[ 1 ;31m` is `ESC[1;31m`, `ESC[ m` is `ESC[m`)
        raw3 = _re.sub('\x1b\\[([0-9; ]*)m', lambda m: '\x1b[' + ';'.join(t.strip() for t in m.group(1).split(';')) + 'm', raw)
        if raw3 != raw:
            shown3, _, wf3 = T.run(raw3, {})
            if wf3 and ''.join(c for c, _ in shown3) == x._s:
                for i, ((c, st), ac) in enumerate(zip(shown3, acts(x))):
                    e = eff(texts(ac))
                    if e != st:
                        bad.append(('C02', 'parse_blank_params', 'raw=%r i=%d reported=%r; with the blanks around the parameters dropped (%r) a terminal shows %r' % (
                            raw, i, texts(ac), raw3, sorted(st))))
                        break
        if raw2 is not None and changed[0]:
            shown2, _, wf2 = T.run(raw2, {})
            if wf2 and ''.join(c for c, _ in shown2) == x._s:
                for i, ((c, st), ac) in enumerate(zip(shown2, acts(x))):
                    e = eff(texts(ac))
                    if e != st:
                        bad.append(('C02', 'parse_ignores_unknown', 'raw=%r i=%d reported=%r; without the parameters that are not numbers (%r) a terminal shows %r' % (
                            raw, i, texts(ac), raw2, sorted(st))))
                        break
    return bad

def effs(x):
    return [eff(texts(ac)) for ac in acts(x)]

# ---------------------------------------------------------------------------- C17

def check_find(x, want_texts, start, end, reverse, result):
    bad = []
    n = len(x._s)
    st, en = norm_idx(n, start, 0), norm_idx(n, end, n)
    fs, fe = result
    a = [texts(ac) for ac in acts(x)]
    has = lambda i: 0 <= i < n and all(t in a[i] for t in want_texts)
    if not want_texts:
        if en >= st and (fs, fe) != (st, en):
            bad.append(('C17', 'find_empty', 'got %r want %r' % (result, (st, en))))
        if en < st and (fs, fe) != (None, None):
            bad.append(('C17', 'find_none_iff', 'end<start got %r' % (result,)))
        return bad
    pos = [i for i in range(st, en) if has(i)]
    if en < st or not pos:
        if (fs, fe) != (None, None):
            bad.append(('C17', 'find_none_iff', 'got %r, no position in [%d,%d) has %r' % (result, st, en, want_texts)))
        return bad
    if fs is None:
        bad.append(('C17', 'find_none_iff', 'got None, but %d has them' % pos[0]))
        return bad
    if not (st <= fs < en and has(fs)):
        bad.append(('C17', 'find_in_range', 'found_start=%r' % fs))
        return bad
    if not reverse and fs != pos[0]:
        bad.append(('C17', 'find_first', 'found_start=%r first=%r' % (fs, pos[0])))
    stop = fe if fe is not None else en
    if not all(has(i) for i in range(fs, min(stop, en))):
        bad.append(('C17', 'find_run', 'result=%r' % (result,)))
    if fe is not None:
        lacking = [i for i in range(fs + 1, en) if not has(i)]
        first = lacking[0] if lacking else None
        # the suite pins found_end == end when the settings stop exactly at the range end
        ok = (fe == first) or (first is None and fe == en and not has(en))
        if not ok:
            bad.append(('C17', 'find_end', 'result=%r first lacking=%r' % (result, first)))
    else:
        lacking = [i for i in range(fs + 1, en) if not has(i)]
        if lacking:
            bad.append(('C17', 'find_end', 'found_end None but %d lacks' % lacking[0]))
    return bad


# ---------------------------------------------------------------------------- C14: which strings are directives
def _colour_function_ok(item):
    """hand-written reading of the documented function forms:
    [fg_|bg_|ul_|dul_] rgb( [ '[' | '(' ] c , c , c [ ')' | ']' ] )   |  … rgb( … c … )  |  … colo[u]r256( … c … )
    c = blanks, then 0x<hex digits> or <decimal digits>, then blanks"""
    if item.endswith('\n'):
        item = item[:-1]        # the code anchors with `$`, which also matches before one final newline
    rest = None
    for pfx in ('dul_', 'ul_', 'bg_', 'fg_', ''):
        if item.startswith(pfx):
            r = item[len(pfx):]
            for fn, counts in (('rgb(', (1, 3)), ('color256(', (1,)), ('colour256(', (1,))):
                if r.startswith(fn):
                    rest, ncomp = r[len(fn):], counts
                    break
            if rest is not None:
                break
    if rest is None:
        return False
    if not rest.endswith(')'):
        return False
    body = rest[:-1]
    if body[:1] in ('[', '('):
        body = body[1:]
    bodies = [body]
    if body[-1:] in (')', ']'):
        bodies.append(body[:-1])
    def comp(c):
        c = c.strip(' \t\n\r\x0b\x0c\x1c\x1d\x1e\x1f\x85\xa0')
        if c.startswith('0x'):
            h = c[2:]
            return h != '' and all(ch in '0123456789abcdefABCDEF' for ch in h)
        return c != '' and all(ch in '0123456789' for ch in c)
    for b in bodies:
        parts = b.split(',')
        if len(parts) in ncomp and all(comp(q) for q in parts):
            return True
    return False


def format_string_accepts(s, member_names):
    """does the documented grammar accept the format string `s`?  None = not decided here"""
    if s == '[':
        return False            # verbatim and empty: rejected
    if s == '' or s.startswith('['):
        return True
    for item in s.split(';'):
        if item == '':
            continue
        if item.upper().replace(' ', '_').replace('-', '_') in member_names:
            continue
        if '(' in item or ')' in item:
            if not item.isascii():
                return None
            if _colour_function_ok(item):
                continue
            return False
        try:
            v = int(item)
        except ValueError:
            return False
        if v < 0:
            return False
    return True


def same_settings_modulo_order(v1, v2):
    """Do two values report, on every character, the same settings up to their order and up to the
    artefact `10`?  (The renderer ends a font with code 10, which the parser reads back as the setting
    "default font".)  True for the known byte-level instability of simplify(), whose first result is
    already minimal; False when a round of simplify() still removes or changes a setting."""
    if v1._s != v2._s:
        return False
    for a, b in zip(acts(v1), acts(v2)):
        ta = sorted(t for t in texts(a) if t != '10')
        tb = sorted(t for t in texts(b) if t != '10')
        if ta != tb:
            return False
    return True
