"""Python -> Lean, statement by statement, for small methods that read and write `obj._s` / `obj._fmts`
(part of translate.py's output: lean/AnsiModel/Generated/Methods.lean).

The target is plain functional Lean over the model's `AStr` (primitives: lean/AnsiModel/Obj.lean):

    def Gen.<name> (self : AStr) (<param> : <Int|Str|Bool>) … : Except Exc AStr

A method that returns `self`/`obj`, or nothing (it mutates `self`), yields the object afterwards;
`raise E(…)` yields `.error (.py E)`.  Python ints stay `Int`; `d.pop(k)` on an absent key, a negative
dictionary key and `None` stored as a change point are explicit outcomes (`Exc.key`, `Exc.outside`), so
that their absence is a theorem over the generated function and not an assumption made here.

Subset
  statements   `if/elif/else`, `raise E(...)`, `return <obj>`, `x = <expr>`, `x += <int>`, `pass`,
               `O._s = <str>`, `O._s += <str>`, `O = self`, `O = self.copy()`  (value semantics: see below),
               `x = O._fmts.pop(k, None)`, `O._fmts[k] = O._fmts.pop(k2)`, `O._fmts[k] = x`,
               `O.<translated method>(args)`, `O.clip(start=…, end=…, inplace=True)`,
               `for key in sorted(O._fmts.keys(), reverse=True): …`  (no break/return inside)
  expressions  ints: literals, names, `len(<str>)`, `+ - *`, `min`, `max`, `math.floor(a / <positive literal>)`,
               `a // <positive literal>`; strs: names, `O._s`, `+`, `<str> * <int>`; bools: names, comparisons,
               `and/or/not`, `k in O._fmts`, `x is None`, `x is not None`
Statements that follow an `if` are duplicated into both branches (as in pyint.py), so a reassignment is
a shadowing `let` and the result is a decision tree with straight-line code at the leaves.

Value semantics.  `obj = self` makes `obj` an alias: a later mention of `self` would see the mutations
in Python but not in the translation, so after an alias has been made any mention of `self` is
Unsupported.  `self.copy()` is the identity on values (that it shares nothing is C08's business).
`math.floor(a / 2)` is computed by Python in floating point; it is translated as integer division,
which is the same below 2**53 (a text that long does not exist).

Anything outside the subset raises Unsupported: the function is emitted as `<name>Ok := false` with a
dummy body and the theorem tying it to the model no longer checks.
"""
import ast
from pyint import Unsupported, mangle

EXC = {'ValueError': '.py .valueError', 'TypeError': '.py .typeError', 'IndexError': '.py .indexError'}
ANN = {'int': 'int', 'str': 'str', 'bool': 'bool'}
LEAN_T = {'int': 'Int', 'str': 'Str', 'bool': 'Bool', 'optpoint': 'Option Point', 'obj': 'AStr',
          'slist': 'List Setting', 'setting': 'Setting', 'point': 'Point', 'optslist': 'Option (List Setting)',
          'pairs': 'List (Nat × Nat)', 'fmtitems': 'Fmts', 'optint': 'Option Int', 'optstr': 'Option Str', 'char': 'Char',
          'idxmap': 'List (Int × List Setting)', 'ilist': 'List Int',
          'strlist': 'List Str', 'effdict': 'PyDict', 'effkey': 'Nat', 'effkeys': 'List Nat',
          'olist': 'List AStr', 'pairlist': 'List (Int × Int)', 'match': 'Option Re.Caps', 'nat': 'Nat', 'effitems': 'List (Nat × Setting)'}
OPT_OF = {'int': 'optint', 'str': 'optstr', 'slist': 'optslist'}
BASE_OF = {v: k for k, v in OPT_OF.items()}


class Sig:
    def __init__(self, fn, types=None):
        types = types or {}
        a = fn.args
        if a.vararg or a.kwarg or a.kwonlyargs or a.posonlyargs:
            raise Unsupported('signature')
        names = [x.arg for x in a.args]
        if not names or names[0] != 'self':
            raise Unsupported('not a method')
        self.params = []
        defaults = [None] * (len(a.args) - len(a.defaults)) + list(a.defaults)
        for x, d in list(zip(a.args, defaults))[1:]:
            if x.arg in types:
                self.params.append((x.arg, types[x.arg], d))
                continue
            t = ast.unparse(x.annotation) if x.annotation is not None else None
            opt_ann = {'Union[str, None]': 'optstr', 'Optional[str]': 'optstr', 'Union[None, str]': 'optstr',
                       'Union[int, None]': 'optint', 'Optional[int]': 'optint', 'Union[None, int]': 'optint'}
            if t in opt_ann:
                self.params.append((x.arg, opt_ann[t], d))
                continue
            if t not in ANN:
                raise Unsupported('parameter type %s' % t)
            ty = ANN[t]
            if isinstance(d, ast.Constant) and d.value is None:
                if ty not in OPT_OF:
                    raise Unsupported('parameter %s defaults to None' % x.arg)
                ty = OPT_OF[ty]
            self.params.append((x.arg, ty, d))


class M:
    def __init__(self, fn, sigs, types=None, extra=None):
        self.fn = fn
        self.sig = Sig(fn, types)
        self.extra = list(extra or [])
        self.sigs = sigs          # name -> Sig of the methods translated so far (callable)
        self.aliased = False
        self.pending = []         # reads of `O._fmts[k]` hoisted in front of the current statement
        self.nread = 0

    def pre(self, p):
        """the hoisted reads of the statement being translated (KeyError when the key is absent)"""
        out = ''.join('%s(%s).bind fun %s =>\n' % (p, x, v) for v, x in self.pending)
        self.pending = []
        return out

    def hoist(self, expr):
        for v, x in self.pending:
            if x == expr:
                return v
        self.nread += 1
        v = 'p%d_' % self.nread
        self.pending.append((v, expr))
        return v

    def point_read(self, e, env):
        """O._fmts[k] as a value -> a hoisted variable holding the point"""
        if isinstance(e, ast.Subscript):
            d = self.is_fmts(e.value, env)
            if d and not isinstance(e.slice, ast.Slice):
                k = self.typed(e.slice, env, 'int')
                return self.hoist('Obj.get %s.fmts %s' % (d, k))
        return None

    def list_type(self, name):
        """type of a variable that starts as `[]`: decided by what is appended to it"""
        for n in ast.walk(self.fn):
            if isinstance(n, ast.Call) and isinstance(n.func, ast.Attribute) and n.func.attr == 'append' \
                    and isinstance(n.func.value, ast.Name) and n.func.value.id == name and len(n.args) == 1:
                a = n.args[0]
                if isinstance(a, ast.Tuple) and len(a.elts) == 2:
                    return 'pairlist'
                if isinstance(a, ast.Subscript) and isinstance(a.slice, ast.Slice):
                    return 'olist'
                if isinstance(a, ast.Call) and isinstance(a.func, ast.Name) and a.func.id == 'str':
                    return 'strlist'
        return 'slist'

    def obj_expr(self, e, env):
        """an expression whose value is an object: a name, O[a:b], O.copy(), AnsiString()"""
        o = self.obj_of(e, env)
        if o:
            return o
        if isinstance(e, ast.Subscript) and isinstance(e.slice, ast.Slice) and e.slice.step is None and self.obj_of(e.value, env):
            lo = '(none : Option Int)' if e.slice.lower is None else self.as_opt(e.slice.lower, env, 'optint')
            hi = '(none : Option Int)' if e.slice.upper is None else self.as_opt(e.slice.upper, env, 'optint')
            return '(AStr.getSlice %s %s %s)' % (self.obj_of(e.value, env), lo, hi)
        if isinstance(e, ast.Call) and isinstance(e.func, ast.Attribute) and e.func.attr == 'copy' and not e.args and not e.keywords \
                and self.obj_of(e.func.value, env):
            return self.obj_of(e.func.value, env)
        if isinstance(e, ast.Call) and isinstance(e.func, ast.Name) and e.func.id == 'AnsiString' and not e.args and not e.keywords:
            return '({} : AStr)'
        return None

    def regex_site(self, call):
        """1-based position of this `re.*` call among the `re.*` calls of the function, in source order"""
        sites = [n for n in ast.walk(self.fn) if isinstance(n, ast.Call) and isinstance(n.func, ast.Attribute)
                 and isinstance(n.func.value, ast.Name) and n.func.value.id == 're']
        sites.sort(key=lambda n: (n.lineno, n.col_offset))
        for k, n in enumerate(sites):
            if n is call:
                return k + 1
        raise Unsupported('regex call site')

    def assigned_none(self, name):
        return any(isinstance(n, ast.Assign) and len(n.targets) == 1 and isinstance(n.targets[0], ast.Name) and n.targets[0].id == name
                   and isinstance(n.value, ast.Constant) and n.value.value is None for n in ast.walk(self.fn))

    def none_type(self, name, env=None):
        """type of a variable that is assigned `None` somewhere: decided by its other assignments"""
        for n in ast.walk(self.fn):
            if isinstance(n, ast.Assign) and len(n.targets) == 1 and isinstance(n.targets[0], ast.Name) and n.targets[0].id == name:
                v = n.value
                if isinstance(v, (ast.List, ast.ListComp)) or (isinstance(v, ast.Call) and isinstance(v.func, ast.Name) and v.func.id == 'list'):
                    return 'optslist'
                if isinstance(v, ast.Call) and isinstance(v.func, ast.Attribute) and v.func.attr == 'pop':
                    return 'optpoint'
                if isinstance(v, ast.Constant) and isinstance(v.value, int) and not isinstance(v.value, bool):
                    return 'optint'
                if isinstance(v, ast.Subscript) and isinstance(v.value, ast.Name) and (env or {}).get(v.value.id) == 'strlist':
                    return 'optstr'
                if isinstance(v, ast.Name):
                    ty = (env or {}).get(v.id)
                    if ty in OPT_OF:
                        return OPT_OF[ty]
                    if ty is None and any(isinstance(f, ast.For) and isinstance(f.target, ast.Name) and f.target.id == v.id for f in ast.walk(self.fn)):
                        return 'optint'           # a loop variable over indices
        return 'optpoint'

    # -- expressions ------------------------------------------------------------------------------
    def obj_of(self, e, env):
        if isinstance(e, ast.Name) and env.get(e.id) == 'obj':
            if e.id == 'self' and self.aliased:
                raise Unsupported('self mentioned after an alias of it was made')
            return mangle(e.id)
        return None

    def is_fmts(self, e, env):
        """O._fmts -> O"""
        if isinstance(e, ast.Attribute) and e.attr == '_fmts':
            return self.obj_of(e.value, env)
        return None

    def ex(self, e, env):
        """-> (lean, type)"""
        if isinstance(e, ast.Constant):
            if isinstance(e.value, bool):
                return ('true' if e.value else 'false'), 'bool'
            if isinstance(e.value, int):
                return '(%d : Int)' % e.value, 'int'
            if e.value is None:
                return '(none : Option Point)', 'optpoint'
            if isinstance(e.value, str):
                if not e.value:
                    return '([] : Str)', 'str'
                return '([%s] : Str)' % ', '.join('Char.ofNat %d' % ord(c) for c in e.value), 'str'
            raise Unsupported('constant %r' % (e.value,))
        # re.search(<literal>, s) / re.match(<literal>, s): the k-th call site of this function in Generated/Regexes.lean
        if isinstance(e, ast.Call) and isinstance(e.func, ast.Attribute) and isinstance(e.func.value, ast.Name) and e.func.value.id == 're' \
                and e.func.attr in ('search', 'match') and len(e.args) == 2 and not e.keywords and isinstance(e.args[0], ast.Constant) \
                and isinstance(e.args[0].value, str):
            k = self.regex_site(e)
            return '(Re.matchStart regex_%s_%d %s)' % (self.fn.name.strip('_'), k, self.typed(e.args[1], env, 'str')), 'match'
        if isinstance(e, ast.Call) and isinstance(e.func, ast.Attribute) and e.func.attr == 'group' and len(e.args) == 1 and not e.keywords \
                and isinstance(e.func.value, ast.Name) and env.get(e.func.value.id) == 'match' \
                and isinstance(e.args[0], ast.Constant) and isinstance(e.args[0].value, int):
            caps = self.hoist('Py.optGet %s' % mangle(e.func.value.id))          # `None.group` raises: the match is needed
            return '(Re.group %s %d)' % (caps, e.args[0].value), 'optstr'
        if isinstance(e, ast.Call) and isinstance(e.func, ast.Name) and e.func.id == 'int' and len(e.args) == 1 and not e.keywords:
            a = self.typed(e.args[0], env, 'str')
            return self.hoist('Py.pyInt %s' % a), 'int'                          # ValueError unless an integer literal
        if isinstance(e, ast.Call) and isinstance(e.func, ast.Attribute) and e.func.attr == 'is_optimizable' and not e.args and not e.keywords \
                and self.obj_of(e.func.value, env):
            return '(AStr.isFormattingParsable %s)' % self.obj_of(e.func.value, env), 'bool'
        if isinstance(e, ast.Attribute) and e.attr == '_fmts' and self.obj_of(e.value, env) and getattr(self, '_truth', False):
            return '(!(%s.fmts).isEmpty)' % self.obj_of(e.value, env), 'bool'
        if isinstance(e, ast.BoolOp) and isinstance(e.op, ast.Or) and len(e.values) == 2 and not getattr(self, '_truth', False):
            # `a or b` as a value: a where a is truthy, else b  (strings)
            try:
                saved = list(self.pending)
                a, ta = self.ex(e.values[0], env)
                b_, tb = self.ex(e.values[1], env)
                if ta == 'optstr' and tb == 'str':
                    return '(Py.optStrOr %s %s)' % (a, b_), 'str'
                self.pending = saved
            except Unsupported:
                self.pending = saved
        if isinstance(e, ast.Name) and e.id == 'ansi_escape_clear' and e.id not in env:
            return 'escapeClear', 'str'                          # module constants, regenerated in Tables.lean
        if isinstance(e, ast.Name) and e.id == 'ansi_sep' and e.id not in env:
            return 'ansiSep', 'str'
        # str(AnsiParam.RESET.value)
        if isinstance(e, ast.Call) and isinstance(e.func, ast.Name) and e.func.id == 'str' and len(e.args) == 1 and not e.keywords:
            a0 = e.args[0]
            if ast.unparse(a0) == 'AnsiParam.RESET.value':
                return '(Py.natStr paramReset)', 'str'
            # str(EFFECT_CLEAR_DICT[key].value)
            if isinstance(a0, ast.Attribute) and a0.attr == 'value' and isinstance(a0.value, ast.Subscript) \
                    and isinstance(a0.value.value, ast.Name) and a0.value.value.id == 'EFFECT_CLEAR_DICT':
                k = self.typed(a0.value.slice, env, 'effkey')
                return '(Render.clearCode %s)' % k, 'str'
            a, ta = self.ex(a0, env)
            if ta == 'setting':
                return '%s.txt' % a, 'str'
            raise Unsupported(ast.unparse(e))
        # sep.join(<list of str>)
        if isinstance(e, ast.Call) and isinstance(e.func, ast.Attribute) and e.func.attr == 'join' and len(e.args) == 1 and not e.keywords:
            sep, tsep = self.ex(e.func.value, env)
            if tsep == 'str':
                return '(joinSep %s %s)' % (sep, self.typed(e.args[0], env, 'strlist')), 'str'
            raise Unsupported(ast.unparse(e))
        # fmt.format(x) for the SGR template
        if isinstance(e, ast.Call) and isinstance(e.func, ast.Attribute) and e.func.attr == 'format' and len(e.args) == 1 and not e.keywords \
                and isinstance(e.func.value, ast.Name) and e.func.value.id == 'ansi_graphic_rendition_format':
            return '(Render.sgr %s)' % self.typed(e.args[0], env, 'str'), 'str'
        if isinstance(e, ast.Call) and isinstance(e.func, ast.Name) and e.func.id == 'settings_to_dict' and len(e.args) == 1 and not e.keywords:
            return '(settingsToDict %s [])' % self.typed(e.args[0], env, 'slist'), 'effdict'
        if isinstance(e, ast.Call) and isinstance(e.func, ast.Name) and e.func.id == 'bool' and len(e.args) == 1 and not e.keywords:
            return self.b(e.args[0], env), 'bool'
        if isinstance(e, ast.Dict) and not e.keys:
            return '([] : PyDict)', 'effdict'
        if isinstance(e, ast.Call) and isinstance(e.func, ast.Attribute) and e.func.attr == 'items' and not e.args and not e.keywords \
                and isinstance(e.func.value, ast.Name) and env.get(e.func.value.id) == 'effdict':
            return mangle(e.func.value.id), 'effitems'
        if isinstance(e, ast.Subscript) and not isinstance(e.slice, ast.Slice) and isinstance(e.value, ast.Name) \
                and env.get(e.value.id) == 'effdict':
            k = self.typed(e.slice, env, 'effkey')
            return self.hoist('Py.dictGet %s %s' % (mangle(e.value.id), k)), 'setting'        # KeyError when absent
        if isinstance(e, ast.Call) and isinstance(e.func, ast.Attribute) and e.func.attr == 'keys' and not e.args and not e.keywords \
                and isinstance(e.func.value, ast.Name) and env.get(e.func.value.id) == 'effdict':
            return '(%s.map (·.1))' % mangle(e.func.value.id), 'effkeys'
        if isinstance(e, ast.Tuple) and len(e.elts) == 2:
            (a, ta), (b_, tb) = self.ex(e.elts[0], env), self.ex(e.elts[1], env)
            if ta == tb == 'int':
                return '(%s, %s)' % (a, b_), 'intpair'
            raise Unsupported(ast.unparse(e))
        if isinstance(e, ast.List) and e.elts:
            parts = [self.typed(x, env, 'str') for x in e.elts]          # an optional string is needed as a string here
            return '[%s]' % ', '.join(parts), 'strlist'
        if isinstance(e, ast.ListComp) and len(e.generators) == 1 and not e.generators[0].is_async \
                and isinstance(e.elt, ast.Call) and isinstance(e.elt.func, ast.Name) and e.elt.func.id == 'str' and len(e.elt.args) == 1:
            g = e.generators[0]
            # [str(s) for s in <settings>]
            if isinstance(g.target, ast.Name) and not g.ifs and isinstance(e.elt.args[0], ast.Name) and e.elt.args[0].id == g.target.id:
                return '(texts %s)' % self.typed(g.iter, env, 'slist'), 'strlist'
            # [str(value) for key, value in D.items() if key not in O or O[key] != value]
            if isinstance(g.target, ast.Tuple) and len(g.target.elts) == 2 and all(isinstance(x, ast.Name) for x in g.target.elts) \
                    and isinstance(g.iter, ast.Call) and isinstance(g.iter.func, ast.Attribute) and g.iter.func.attr == 'items' \
                    and isinstance(g.iter.func.value, ast.Name) and env.get(g.iter.func.value.id) == 'effdict' and len(g.ifs) == 1 \
                    and isinstance(e.elt.args[0], ast.Name) and e.elt.args[0].id == g.target.elts[1].id:
                K_, V_ = g.target.elts[0].id, g.target.elts[1].id
                c = g.ifs[0]
                if isinstance(c, ast.BoolOp) and isinstance(c.op, ast.Or) and len(c.values) == 2 \
                        and isinstance(c.values[0], ast.Compare) and isinstance(c.values[0].ops[0], ast.NotIn) \
                        and isinstance(c.values[0].left, ast.Name) and c.values[0].left.id == K_ \
                        and isinstance(c.values[0].comparators[0], ast.Name) and env.get(c.values[0].comparators[0].id) == 'effdict' \
                        and isinstance(c.values[1], ast.Compare) and isinstance(c.values[1].ops[0], ast.NotEq) \
                        and ast.unparse(c.values[1].left) == '%s[%s]' % (c.values[0].comparators[0].id, K_) \
                        and isinstance(c.values[1].comparators[0], ast.Name) and c.values[1].comparators[0].id == V_:
                    O_ = mangle(c.values[0].comparators[0].id)
                    D_ = mangle(g.iter.func.value.id)
                    # `key not in O or O[key] != value`: the lookup is only made for a key that is there
                    return '((%s.filter (fun kv_ => Py.dictNe %s kv_.1 kv_.2)).map (·.2.txt))' % (D_, O_), 'strlist'
            raise Unsupported(ast.unparse(e))
        if isinstance(e, ast.Name) and e.id == 'WHITESPACE_CHARS' and e.id not in env:
            return 'whitespaceChars', 'str'                      # the module constant, regenerated in Tables.lean
        if isinstance(e, ast.Name):
            if e.id not in env:
                raise Unsupported('name ' + e.id)
            if env[e.id] == 'obj':
                raise Unsupported('object used as a value: ' + e.id)
            return mangle(e.id), env[e.id]
        if isinstance(e, ast.Attribute) and e.attr == '_s':
            o = self.obj_of(e.value, env)
            if o:
                return '%s.s' % o, 'str'
        if isinstance(e, ast.Attribute) and e.attr in ('add', 'rem'):
            if isinstance(e.value, ast.Name) and env.get(e.value.id) == 'point':
                return '%s.%s' % (mangle(e.value.id), e.attr), 'slist'
            v = self.point_read(e.value, env)
            if v:
                return '%s.%s' % (v, e.attr), 'slist'
        if isinstance(e, ast.Attribute) and isinstance(e.value, ast.Name) and env.get(e.value.id) == 'iter' \
                and env.get(e.attr) == 'slist':
            return mangle(e.attr), 'slist'                # self.current_settings: a field of the iterator, a variable here
        if isinstance(e, ast.Attribute) and e.attr == 'WITH_ASSERTIONS' and isinstance(e.value, ast.Name) \
                and e.value.id in ('AnsiString', '__class__') and env.get('with_assertions') == 'bool':
            return 'with_assertions', 'bool'
        if isinstance(e, ast.List) and not e.elts:
            return '([] : List Setting)', 'slist'
        if isinstance(e, ast.Subscript) and isinstance(e.slice, ast.Slice) and e.slice.step is None:
            a, ta = self.ex(e.value, env)
            if ta in ('optstr', 'optslist'):
                a, ta = self.hoist('Py.optGet %s' % a), BASE_OF[ta]      # slicing `None` raises: the value is needed
            if ta in ('slist', 'str'):
                lo = '(none : Option Int)' if e.slice.lower is None else '(some %s)' % self.typed(e.slice.lower, env, 'int')
                hi = '(none : Option Int)' if e.slice.upper is None else '(some %s)' % self.typed(e.slice.upper, env, 'int')
                return '(Py.listSlice %s %s %s)' % (a, lo, hi), ta
            raise Unsupported(ast.unparse(e))
        if isinstance(e, ast.Subscript) and not isinstance(e.slice, ast.Slice) and self.is_fmts(e.value, env):
            v = self.point_read(e, env)
            if v:
                return v, 'point'
        if isinstance(e, ast.Call) and isinstance(e.func, ast.Name) and e.func.id == 'any' and len(e.args) == 1 and not e.keywords \
                and isinstance(e.args[0], ast.GeneratorExp):
            g = e.args[0]
            env2 = dict(env)
            layers = []
            before = len(self.pending)
            for gen in g.generators:
                if gen.is_async:
                    raise Unsupported(ast.unparse(e))
                src, ts = self.ex(gen.iter, env2)
                if ts == 'slist' and isinstance(gen.target, ast.Name):
                    pat = mangle(gen.target.id); env2[gen.target.id] = 'setting'
                elif ts == 'fmtitems' and isinstance(gen.target, ast.Tuple) and len(gen.target.elts) == 3 \
                        and all(isinstance(x, ast.Name) for x in gen.target.elts):
                    k_, a_, r_ = [x.id for x in gen.target.elts]
                    src = '(%s.map (fun kp_ => ((kp_.1 : Int), kp_.2.add, kp_.2.rem)))' % src
                    pat = '(%s, %s, %s)' % (mangle(k_), mangle(a_), mangle(r_))
                    env2[k_] = 'int'; env2[a_] = 'slist'; env2[r_] = 'slist'
                else:
                    raise Unsupported(ast.unparse(e))
                conds = [self.b(c, env2) for c in gen.ifs]
                layers.append((src, pat, conds))
            body = self.b(g.elt, env2)
            bound = set()
            for gen in g.generators:
                for x in ast.walk(gen.target):
                    if isinstance(x, ast.Name):
                        bound.add(mangle(x.id))
            for v, x in self.pending[before:]:
                if bound & set(x.replace('.', ' ').replace('(', ' ').replace(')', ' ').split()):
                    raise Unsupported('a hoisted read depends on a generator variable')
            for src, pat, conds in reversed(layers):
                inner = ' && '.join(conds + [body])
                body = '(%s.any (fun %s => %s))' % (src, pat, inner)
            return body, 'bool'
        if isinstance(e, ast.Subscript) and not isinstance(e.slice, ast.Slice) and isinstance(e.value, ast.Name) \
                and env.get(e.value.id) == 'idxmap':
            k = self.typed(e.slice, env, 'int')
            return self.hoist('Py.assocGet %s %s' % (mangle(e.value.id), k)), 'slist'      # KeyError when absent
        if isinstance(e, ast.Call) and isinstance(e.func, ast.Attribute) and e.func.attr == 'keys' and not e.args and not e.keywords \
                and isinstance(e.func.value, ast.Name) and env.get(e.func.value.id) == 'idxmap':
            return '(%s.map (·.1))' % mangle(e.func.value.id), 'ilist'
        if isinstance(e, ast.Call) and isinstance(e.func, ast.Name) and e.func.id == 'sorted' and len(e.args) == 1:
            a, ta = self.ex(e.args[0], env)
            kw = {k.arg: k.value for k in e.keywords}
            if ta == 'ilist' and set(kw) <= {'reverse'}:
                rv = self.b(kw['reverse'], env) if 'reverse' in kw else 'false'
                return '(Py.sortedInts %s %s)' % (a, rv), 'ilist'
            raise Unsupported(ast.unparse(e))
        if isinstance(e, ast.ListComp) and len(e.generators) == 1 and isinstance(e.generators[0].target, ast.Name) \
                and not e.generators[0].is_async and len(e.generators[0].ifs) == 1 \
                and isinstance(e.elt, ast.Name) and e.elt.id == e.generators[0].target.id:
            g = e.generators[0]
            src, ts = self.ex(g.iter, env)
            if ts == 'ilist':
                x = g.target.id
                if x in env:
                    raise Unsupported('comprehension variable shadows ' + x)
                before = len(self.pending)
                env2 = dict(env); env2[x] = 'int'
                c = self.b(g.ifs[0], env2)
                for v, ex_ in self.pending[before:]:
                    if mangle(x) in ex_.replace('.', ' ').replace('(', ' ').replace(')', ' ').split():
                        raise Unsupported('a hoisted read depends on the comprehension variable')
                return '((%s).filter (fun %s => %s))' % (src, mangle(x), c), 'ilist'
        if isinstance(e, ast.Compare) and len(e.ops) == 1 and isinstance(e.ops[0], (ast.In, ast.NotIn)) \
                and isinstance(e.left, ast.Constant) and e.left.value is False and isinstance(e.comparators[0], ast.ListComp) \
                and len(e.comparators[0].generators) == 1 and not e.comparators[0].generators[0].ifs \
                and isinstance(e.comparators[0].generators[0].target, ast.Name):
            # False [not] in [<bool> for x in <list>]
            lc = e.comparators[0]
            g = lc.generators[0]
            src = self.typed(g.iter, env, 'slist')
            x = g.target.id
            if x in env:
                raise Unsupported('comprehension variable shadows ' + x)
            before = len(self.pending)
            env2 = dict(env); env2[x] = 'setting'
            c = self.b(lc.elt, env2)
            for v, ex_ in self.pending[before:]:
                if mangle(x) in ex_.replace('.', ' ').replace('(', ' ').replace(')', ' ').split():
                    raise Unsupported('a hoisted read depends on the comprehension variable')
            allp = '(%s.all (fun %s => %s))' % (src, mangle(x), c)
            return (allp if isinstance(e.ops[0], ast.NotIn) else '(!%s)' % allp), 'bool'
        if isinstance(e, ast.Subscript) and not isinstance(e.slice, ast.Slice) and not self.is_fmts(e.value, env):
            a, ta = self.ex(e.value, env)
            if ta == 'slist':
                i = self.typed(e.slice, env, 'int')
                return self.hoist('Py.getIdx %s %s' % (a, i)), 'setting'      # IndexError outside the list
            if ta == 'strlist':
                i = self.typed(e.slice, env, 'int')
                return self.hoist('Py.getIdx %s %s' % (a, i)), 'str'
        if isinstance(e, ast.Call) and isinstance(e.func, ast.Name) and e.func.id == 'list' and len(e.args) == 1 and not e.keywords:
            return self.typed(e.args[0], env, 'slist'), 'slist'          # a copy: the same value
        if isinstance(e, ast.Call) and isinstance(e.func, ast.Name) and e.func.id == '_AnsiSettingPoint':
            flds = {}
            for nm, a in zip(('add', 'rem'), e.args):
                flds[nm] = a
            for k in e.keywords:
                if k.arg not in ('add', 'rem') or k.arg in flds:
                    raise Unsupported(ast.unparse(e))
                flds[k.arg] = k.value
            if len(e.args) > 2:
                raise Unsupported(ast.unparse(e))
            parts = ['%s := %s' % (nm, self.typed(flds[nm], env, 'slist')) for nm in ('add', 'rem') if nm in flds]
            return '({ %s } : Point)' % ', '.join(parts), 'point'
        if isinstance(e, ast.ListComp) and len(e.generators) == 1 and isinstance(e.generators[0].target, ast.Name) \
                and not e.generators[0].is_async and len(e.generators[0].ifs) == 1 \
                and isinstance(e.elt, ast.Name) and e.elt.id == e.generators[0].target.id:
            g = e.generators[0]
            src = self.typed(g.iter, env, 'slist')
            x = g.target.id
            if x in env:
                raise Unsupported('comprehension variable shadows ' + x)
            before = len(self.pending)
            env2 = dict(env); env2[x] = 'setting'
            c = self.b(g.ifs[0], env2)
            for v, ex_ in self.pending[before:]:
                if mangle(x) in ex_.replace('.', ' ').replace('(', ' ').replace(')', ' ').split():
                    raise Unsupported('a hoisted read depends on the comprehension variable')
            return '((%s).filter (fun %s => %s))' % (src, mangle(x), c), 'slist'
        if isinstance(e, ast.UnaryOp) and isinstance(e.op, ast.USub):
            a, t = self.ex(e.operand, env)
            if t == 'int':
                return '(-%s)' % a, 'int'
        if isinstance(e, ast.UnaryOp) and isinstance(e.op, ast.Not):
            return '(!%s)' % self.b(e.operand, env), 'bool'
        if isinstance(e, ast.BoolOp):
            op = ' && ' if isinstance(e.op, ast.And) else ' || '
            return '(' + op.join(self.b(v, env) for v in e.values) + ')', 'bool'
        if isinstance(e, ast.BinOp):
            if isinstance(e.op, ast.FloorDiv) and isinstance(e.right, ast.Constant) and isinstance(e.right.value, int) \
                    and not isinstance(e.right.value, bool) and e.right.value > 0:
                a, t = self.ex(e.left, env)
                if t == 'int':
                    return '(%s / (%d : Int))' % (a, e.right.value), 'int'
                raise Unsupported(ast.unparse(e))
            (a, ta), (b_, tb) = self.ex(e.left, env), self.ex(e.right, env)
            if isinstance(e.op, (ast.Add, ast.Sub, ast.Mult)) and ta == tb == 'int':
                return '(%s %s %s)' % (a, {ast.Add: '+', ast.Sub: '-', ast.Mult: '*'}[type(e.op)], b_), 'int'
            if isinstance(e.op, ast.Add) and ta == tb and ta in ('str', 'strlist', 'slist'):
                return '(%s ++ %s)' % (a, b_), ta
            if isinstance(e.op, ast.Mult) and (ta, tb) == ('str', 'int'):
                return '(Py.strMul %s %s)' % (a, b_), 'str'
            if isinstance(e.op, ast.Mult) and (ta, tb) == ('int', 'str'):
                return '(Py.strMul %s %s)' % (b_, a), 'str'
        if isinstance(e, ast.Call) and not e.keywords:
            f = e.func
            if isinstance(f, ast.Name) and f.id == 'len' and len(e.args) == 1:
                if self.obj_of(e.args[0], env):
                    return '((%s.s).length : Int)' % self.obj_of(e.args[0], env), 'int'      # AnsiString.__len__
                a, t = self.ex(e.args[0], env)
                if t in ('optstr', 'optslist'):
                    a, t = self.hoist('Py.optGet %s' % a), BASE_OF[t]      # len(None) raises: the value is needed
                if t in ('str', 'slist', 'strlist'):
                    return '((%s).length : Int)' % a, 'int'
            if isinstance(f, ast.Attribute) and f.attr == '_find_setting_reference' and len(e.args) == 2 \
                    and isinstance(f.value, ast.Name) and f.value.id in ('__class__', 'AnsiString', 'self'):
                a = self.typed(e.args[0], env, 'setting')
                b_ = self.typed(e.args[1], env, 'slist')
                return '(findSettingReference %s %s)' % (a, b_), 'int'
            if isinstance(f, ast.Attribute) and f.attr in ('_same_setting_references', '_find_settings_references') and len(e.args) == 2 \
                    and isinstance(f.value, ast.Name) and f.value.id in ('__class__', 'AnsiString', 'self'):
                a = self.typed(e.args[0], env, 'slist')
                b_ = self.typed(e.args[1], env, 'slist')
                if f.attr == '_same_setting_references':
                    return '(sameSettingReferences %s %s)' % (a, b_), 'bool'
                return '(findSettingsReferences %s %s)' % (a, b_), 'pairs'
            if isinstance(f, ast.Attribute) and f.attr in ('split', 'rsplit') and len(e.args) == 2:
                a, ta = self.ex(f.value, env)
                if ta == 'str':
                    sep = self.as_opt(e.args[0], env, 'optstr')
                    mx = self.typed(e.args[1], env, 'int')
                    return self.hoist('Py.pySplit %s %s %s %s' % (a, sep, mx, 'true' if f.attr == 'rsplit' else 'false')), 'strlist'
            if isinstance(f, ast.Attribute) and f.attr == 'splitlines' and len(e.args) == 1:
                a, ta = self.ex(f.value, env)
                if ta == 'str':
                    return '(Py.splitlines %s %s)' % (a, self.b(e.args[0], env)), 'strlist'
            if isinstance(f, ast.Attribute) and f.attr in ('find', 'rfind') and len(e.args) in (1, 2):
                a, ta = self.ex(f.value, env)
                if ta == 'str' and (f.attr == 'find' or len(e.args) == 1):
                    sub = self.typed(e.args[0], env, 'str')
                    st_ = self.typed(e.args[1], env, 'int') if len(e.args) == 2 else '(0 : Int)'
                    if f.attr == 'find':
                        return '(Py.findInt %s %s %s)' % (a, sub, st_), 'int'
                    return '(Py.rfindInt %s %s)' % (a, sub), 'int'
            if isinstance(f, ast.Attribute) and f.attr in ('startswith', 'endswith') and len(e.args) == 1:
                a, ta = self.ex(f.value, env)
                if ta == 'str':
                    b_ = self.typed(e.args[0], env, 'str')
                    return '(Py.%s %s %s)' % ('startsWith' if f.attr == 'startswith' else 'endsWith', a, b_), 'bool'
            if isinstance(f, ast.Attribute) and f.attr == 'ansi_settings_at' and len(e.args) == 1:
                o = self.obj_of(f.value, env)
                if o:
                    return '(AStr.ansiSettingsAt %s %s)' % (o, self.typed(e.args[0], env, 'int')), 'slist'
            if isinstance(f, ast.Name) and f.id in ('min', 'max') and len(e.args) == 2:
                (a, ta), (b_, tb) = self.ex(e.args[0], env), self.ex(e.args[1], env)
                if ta == tb == 'int':
                    return '(%s %s %s)' % (f.id, a, b_), 'int'
            if isinstance(f, ast.Attribute) and isinstance(f.value, ast.Name) and f.value.id == 'math' and f.attr == 'floor' \
                    and len(e.args) == 1 and isinstance(e.args[0], ast.BinOp) and isinstance(e.args[0].op, ast.Div):
                d = e.args[0]
                if isinstance(d.right, ast.Constant) and isinstance(d.right.value, int) and not isinstance(d.right.value, bool) \
                        and d.right.value > 0:
                    a, t = self.ex(d.left, env)
                    if t == 'int':
                        return '(%s / (%d : Int))' % (a, d.right.value), 'int'
        if isinstance(e, ast.Compare) and len(e.ops) == 1:
            o, l, r = e.ops[0], e.left, e.comparators[0]
            if isinstance(o, (ast.In, ast.NotIn)) and self.is_fmts(r, env):
                d = self.is_fmts(r, env)
                k, t = self.ex(l, env)
                if t == 'int':
                    s = '(Obj.has %s.fmts %s)' % (d, k)
                    return (s if isinstance(o, ast.In) else '(!%s)' % s), 'bool'
                raise Unsupported(ast.unparse(e))
            if isinstance(o, (ast.In, ast.NotIn)) and isinstance(r, ast.Name) and env.get(r.id) == 'effdict':
                k = self.typed(l, env, 'effkey')
                s_ = '(%s.contains %s)' % (mangle(r.id), k)
                return (s_ if isinstance(o, ast.In) else '(!%s)' % s_), 'bool'
            if isinstance(o, (ast.In, ast.NotIn)) and isinstance(r, ast.Name) and env.get(r.id) == 'idxmap':
                k = self.typed(l, env, 'int')
                s_ = '(%s.any (fun kv_ => kv_.1 == %s))' % (mangle(r.id), k)
                return (s_ if isinstance(o, ast.In) else '(!%s)' % s_), 'bool'
            if isinstance(o, (ast.In, ast.NotIn)) and not self.is_fmts(r, env):
                a, ta = self.ex(l, env)
                if ta == 'char':
                    L = self.typed(r, env, 'str')
                    s_ = '(%s.contains %s)' % (L, a)
                    return (s_ if isinstance(o, ast.In) else '(!%s)' % s_), 'bool'
                if ta == 'setting':
                    L = self.typed(r, env, 'slist')
                    s_ = '(hasTxt %s %s.txt)' % (L, a)          # AnsiSetting.__eq__ compares the text
                    return (s_ if isinstance(o, ast.In) else '(!%s)' % s_), 'bool'
                raise Unsupported(ast.unparse(e))
            if isinstance(o, (ast.Is, ast.IsNot)):
                if isinstance(l, ast.Constant) and l.value is None:
                    l, r = r, l
                if isinstance(r, ast.Constant) and r.value is None:
                    a, t = self.ex(l, env)
                    if t in ('optpoint', 'optslist', 'optint', 'optstr'):
                        return ('(%s).isNone' if isinstance(o, ast.Is) else '(%s).isSome') % a, 'bool'
                raise Unsupported(ast.unparse(e))
            (a, ta), (b_, tb) = self.ex(l, env), self.ex(r, env)
            ops = {ast.Lt: '<', ast.LtE: '≤', ast.Gt: '>', ast.GtE: '≥', ast.Eq: '=', ast.NotEq: '≠'}
            if type(o) in (ast.Lt, ast.LtE, ast.Gt, ast.GtE) and {ta, tb} == {'int', 'optint'}:
                # ordering against a variable that may hold None: the value is needed (`None` here raises in Python too)
                if ta == 'optint':
                    a, ta = self.hoist('Py.optGet %s' % a), 'int'
                else:
                    b_, tb = self.hoist('Py.optGet %s' % b_), 'int'
            if type(o) in ops and ta == tb == 'int':
                return '(decide (%s %s %s))' % (a, ops[type(o)], b_), 'bool'
            if isinstance(o, (ast.Eq, ast.NotEq)) and ta == tb and ta in ('str', 'bool'):
                return '(%s %s %s)' % (a, '==' if isinstance(o, ast.Eq) else '!=', b_), 'bool'
            if isinstance(o, (ast.Eq, ast.NotEq)) and ta == tb == 'setting':
                return '(%s.txt %s %s.txt)' % (a, '==' if isinstance(o, ast.Eq) else '!=', b_), 'bool'     # AnsiSetting.__eq__
            if isinstance(o, (ast.Eq, ast.NotEq)) and (ta, tb) == ('optstr', 'str'):
                return '(%s %s some %s)' % (a, '==' if isinstance(o, ast.Eq) else '!=', b_), 'bool'
            if isinstance(o, (ast.Eq, ast.NotEq)) and (ta, tb) == ('optint', 'int'):
                return '(%s %s some %s)' % (a, '==' if isinstance(o, ast.Eq) else '!=', b_), 'bool'
            if isinstance(o, (ast.Eq, ast.NotEq)) and ta == tb == 'slist':
                # list equality is element-wise `==`, and AnsiSetting.__eq__ compares the text
                return '(texts %s %s texts %s)' % (a, '==' if isinstance(o, ast.Eq) else '!=', b_), 'bool'
        raise Unsupported(ast.unparse(e))

    def b(self, e, env):
        old_truth = getattr(self, '_truth', False)
        self._truth = True
        try:
            a, t = self.ex(e, env)
        finally:
            self._truth = old_truth
        if t == 'optstr':
            return '(Py.truthyOptStr %s)' % a
        if t == 'match':
            return '(%s).isSome' % a
        if t in ('slist', 'str', 'strlist'):
            return '(!(%s).isEmpty)' % a
        if t == 'optslist':
            return '(Py.truthyOptList %s)' % a
        if t == 'char':
            raise Unsupported('truth value of a character')
        if t == 'pairs':
            return '(!(%s).isEmpty)' % a
        if t == 'point':
            return '(pointBool %s)' % a                   # _AnsiSettingPoint.__bool__, translated in Wrappers.lean
        if t != 'bool':
            raise Unsupported('truth value of a %s: %s' % (t, ast.unparse(e)))
        return a

    def typed(self, e, env, want):
        a, t = self.ex(e, env)
        if OPT_OF.get(want) == t:
            return self.hoist('Py.optGet %s' % a)          # a value is needed: `None` here is outside the model
        if t != want:
            raise Unsupported('%s expected: %s' % (want, ast.unparse(e)))
        return a

    # -- statements -------------------------------------------------------------------------------
    def block(self, stmts, env, k, ind):
        """Lean expression (string) for `stmts` followed by the continuation k(env)"""
        stmts = [s for s in stmts if not isinstance(s, ast.Pass)
                 and not (isinstance(s, ast.Expr) and isinstance(s.value, ast.Constant))]
        if not stmts:
            return k(env, ind)
        st, rest = stmts[0], stmts[1:]
        K = lambda env2, ind2: self.block(rest, env2, k, ind2)
        p = '  ' * ind
        self.pending = []
        r_ = self.point_stmt(st, env, K, ind)
        if r_ is not None:
            return r_
        if isinstance(st, ast.Continue) and getattr(self, 'loop_exits', None):
            return self.loop_exits[-1][0](env, ind)
        if isinstance(st, ast.Break) and getattr(self, 'loop_exits', None):
            return self.loop_exits[-1][1](env, ind)
        if isinstance(st, ast.Raise):
            exc = st.exc
            nm = exc.func.id if isinstance(exc, ast.Call) and isinstance(exc.func, ast.Name) else (exc.id if isinstance(exc, ast.Name) else None)
            if nm not in EXC:
                raise Unsupported('raise ' + ast.unparse(st))
            return p + '.error (%s)' % EXC[nm]
        if isinstance(st, ast.Return):
            if st.value is None:
                return p + '.ok %s' % self.ret_self(env)
            o = self.obj_of(st.value, env)
            if o:
                return p + '.ok %s' % o
            if isinstance(st.value, ast.Call) and isinstance(st.value.func, ast.Attribute) and st.value.func.attr == 'copy' \
                    and not st.value.args and not st.value.keywords and self.obj_of(st.value.func.value, env):
                return p + '.ok %s' % self.obj_of(st.value.func.value, env)        # a copy: the same value
            if isinstance(st.value, ast.Call) and isinstance(st.value.func, ast.Attribute) and st.value.func.attr in self.sigs \
                    and not getattr(self.sigs[st.value.func.attr], 'point', False) and self.obj_of(st.value.func.value, env):
                o = self.obj_of(st.value.func.value, env)
                args = self.bind(st.value, self.sigs[st.value.func.attr], env)
                pre = self.pre(p)
                return '%s%s(%s %s %s)' % (pre, p, getattr(self.sigs[st.value.func.attr], 'lean', None) or lean_name(st.value.func.attr), o, ' '.join(args))
            if getattr(self, 'ret', None) == 'olist':
                a = self.typed(st.value, env, 'olist')
                pre = self.pre(p)
                return pre + p + '.ok %s' % a
            if getattr(self, 'ret', None) == 'otriple' and isinstance(st.value, ast.Tuple) and len(st.value.elts) == 3:
                xs = [self.obj_expr(x, env) for x in st.value.elts]
                if all(xs):
                    pre = self.pre(p)
                    return pre + p + '.ok (%s, %s, %s)' % tuple(xs)
                raise Unsupported('return ' + ast.unparse(st.value))
            if getattr(self, 'ret', None) == 'str':
                a = self.typed(st.value, env, 'str')
                pre = self.pre(p)
                return pre + p + '.ok %s' % a
            if getattr(self, 'ret', None) == 'optpair' and isinstance(st.value, ast.Tuple) and len(st.value.elts) == 2:
                a = self.as_opt(st.value.elts[0], env, 'optint')
                b_ = self.as_opt(st.value.elts[1], env, 'optint')
                pre = self.pre(p)
                return pre + p + '.ok (%s, %s)' % (a, b_)
            if getattr(self, 'ret', None) == 'slist' and not isinstance(st.value, ast.Tuple):
                a = self.typed(st.value, env, 'slist')
                pre = self.pre(p)
                return pre + p + '.ok %s' % a
            if getattr(self, 'ret', None) == 'slist' and isinstance(st.value, ast.Tuple) and st.value.elts:
                a, ty = self.ex(st.value.elts[-1], env)       # (idx, settings, self.current_settings): the state handed on
                if ty == 'slist':
                    return p + '.ok %s' % a
            raise Unsupported('return ' + ast.unparse(st.value))
        if isinstance(st, ast.If) and isinstance(st.test, ast.BoolOp) and len(st.test.values) >= 2:
            # short circuit: an operand that may raise (an index, a `None` used as a list) is only evaluated
            # when the operands before it do not decide
            first, others = st.test.values[0], st.test.values[1:]
            self.pending = []
            tail = others[0] if len(others) == 1 else ast.BoolOp(op=st.test.op, values=others)
            probe = self.b(tail, env)
            effectful = bool(self.pending)
            self.pending = []
            if effectful:
                inner = ast.If(test=tail, body=st.body, orelse=st.orelse)
                if isinstance(st.test.op, ast.Or):
                    outer = ast.If(test=first, body=st.body, orelse=[inner])
                else:
                    outer = ast.If(test=first, body=[inner], orelse=st.orelse)
                return self.block([outer] + rest, env, k, ind)
        if isinstance(st, ast.While):
            # while P(X[0]): del X[0]
            b_ = [x for x in st.body if not isinstance(x, ast.Pass)]
            if not st.orelse and len(b_) == 1 and isinstance(b_[0], ast.Delete) and len(b_[0].targets) == 1 \
                    and isinstance(b_[0].targets[0], ast.Subscript) and isinstance(b_[0].targets[0].value, ast.Name) \
                    and env.get(b_[0].targets[0].value.id) == 'slist' and isinstance(b_[0].targets[0].slice, ast.Constant) \
                    and b_[0].targets[0].slice.value == 0:
                X = b_[0].targets[0].value.id
                head = ast.Subscript(value=ast.Name(id=X, ctx=ast.Load()), slice=ast.Constant(value=0), ctx=ast.Load())
                class Sub(ast.NodeTransformer):
                    def __init__(s2): s2.other = False
                    def visit_Subscript(s2, n):
                        if ast.unparse(n) == ast.unparse(head):
                            return ast.Name(id='h_', ctx=ast.Load())
                        return s2.generic_visit(n)
                    def visit_Name(s2, n):
                        if n.id == X:
                            s2.other = True
                        return n
                tr = Sub()
                test = tr.visit(ast.parse(ast.unparse(st.test), mode='eval').body)
                if not tr.other and 'h_' not in env:
                    env2 = dict(env); env2['h_'] = 'setting'
                    c = self.b(test, env2)
                    for v, x in self.pending:
                        if 'h_' in x.replace('.', ' ').replace('(', ' ').replace(')', ' ').split():
                            raise Unsupported('a hoisted read depends on the head of the list')
                    pre = self.pre(p)
                    return '%s%s(Py.dropWhileHead (fun h_ => %s) %s).bind fun %s =>\n%s' % (pre, p, c, mangle(X), mangle(X), K(env, ind))
            raise Unsupported('while ' + ast.unparse(st.test))
        if isinstance(st, ast.For) and not st.orelse and isinstance(st.target, ast.Name) and len(st.body) == 1 \
                and isinstance(st.body[0], ast.If) and not st.body[0].orelse and len(st.body[0].body) == 1:
            # for k in list(O._fmts.keys()): if not O._fmts[k]: del O._fmts[k]     (order of the keys does not matter)
            it, i0, d0 = st.iter, st.body[0], st.body[0].body[0]
            if isinstance(it, ast.Call) and isinstance(it.func, ast.Name) and it.func.id == 'list' and len(it.args) == 1 \
                    and isinstance(it.args[0], ast.Call) and isinstance(it.args[0].func, ast.Attribute) and it.args[0].func.attr == 'keys':
                d = self.is_fmts(it.args[0].func.value, env)
                k_ = st.target.id
                if d and isinstance(i0.test, ast.UnaryOp) and isinstance(i0.test.op, ast.Not) \
                        and ast.unparse(i0.test.operand) == ast.unparse(it.args[0].func.value) + '[%s]' % k_ \
                        and isinstance(d0, ast.Delete) and len(d0.targets) == 1 and ast.unparse(d0.targets[0]) == ast.unparse(i0.test.operand) \
                        and 'pointBool' in self.sigs:
                    return '%slet %s : AStr := { %s with fmts := %s.fmts.filter (fun kp_ => pointBool kp_.2) }\n%s' % (p, d, d, d, K(env, ind))
        if isinstance(st, ast.If) and getattr(self, 'join', False) and rest:
            j = self.join_if(st, rest, env, K, ind)
            if j is not None:
                return j
        if isinstance(st, ast.If):
            c = self.b(st.test, env)
            pre = self.pre(p)
            saved = self.aliased
            a = self.block(st.body, dict(env), K, ind + 1)
            al_a = self.aliased
            self.aliased = saved
            b_ = self.block(st.orelse, dict(env), K, ind + 1)
            self.aliased = self.aliased or al_a
            return '%s%sif %s then\n%s\n%selse\n%s' % (pre, p, c, a, p, b_)
        if isinstance(st, ast.AnnAssign) and st.value is not None and isinstance(st.target, ast.Name):
            st = ast.Assign(targets=[st.target], value=st.value)
        if isinstance(st, ast.Assign) and len(st.targets) == 1:
            t, v = st.targets[0], st.value
            # O = self / O = self.copy()
            if isinstance(t, ast.Name):
                src = None
                if isinstance(v, ast.Name) and env.get(v.id) == 'obj':
                    src = self.obj_of(v, env)
                    if v.id == 'self':
                        self.aliased = True
                elif isinstance(v, ast.Call) and isinstance(v.func, ast.Attribute) and v.func.attr == 'copy' and not v.args and not v.keywords:
                    src = self.obj_of(v.func.value, env)
                if src:
                    if t.id == 'self':
                        raise Unsupported('assignment to self')
                    env = dict(env); env[t.id] = 'obj'
                    return '%slet %s : AStr := %s\n%s' % (p, mangle(t.id), src, K(env, ind))
                # D = {idx: list(cur) for idx, _, cur in _AnsiSettingsIterator(O._fmts) if C}
                if isinstance(v, ast.DictComp) and len(v.generators) == 1 and isinstance(v.generators[0].target, ast.Tuple) \
                        and len(v.generators[0].target.elts) == 3 and all(isinstance(x, ast.Name) for x in v.generators[0].target.elts) \
                        and isinstance(v.generators[0].iter, ast.Call) and isinstance(v.generators[0].iter.func, ast.Name) \
                        and v.generators[0].iter.func.id == '_AnsiSettingsIterator' and len(v.generators[0].iter.args) == 1 \
                        and 'iterStep' in self.sigs and t.id not in env:
                    g = v.generators[0]
                    d = self.is_fmts(g.iter.args[0], env)
                    IDX, PT, CUR = [x.id for x in g.target.elts]
                    if d and not any(x in env for x in (IDX, PT, CUR)) and isinstance(v.key, ast.Name) and v.key.id == IDX:
                        benv = dict(env); benv[IDX] = 'int'; benv[PT] = 'point'; benv[CUR] = 'slist'
                        self.pending = []
                        val = self.typed(v.value, benv, 'slist')
                        conds = [self.b(c, benv) for c in g.ifs]
                        if self.pending:
                            raise Unsupported('hoisted read inside a dictionary comprehension')
                        cond = ' && '.join(conds) if conds else 'true'
                        q = '  ' * (ind + 2)
                        env = dict(env); env[t.id] = 'idxmap'
                        return ('%s(List.foldlM (m := Except Exc) (fun (st_ : List (Int × List Setting) × List Setting) (%s : Int) =>\n%smatch st_ with\n%s| (acc_, cur_) =>\n'
                                '%s(Obj.get %s.fmts %s).bind fun %s =>\n%s(iterStep cur_ %s %s).bind fun %s =>\n'
                                '%sif %s then .ok (acc_ ++ [(%s, %s)], %s) else .ok (acc_, %s))\n%s  (([] : List (Int × List Setting)), ([] : List Setting)) (Obj.keysAsc %s.fmts)).bind fun st_ =>\n%smatch st_ with\n%s| (%s, _) =>\n%s'
                                % (p, mangle(IDX), q, q, q, d, mangle(IDX), mangle(PT), q, mangle(PT),
                                   'true' if getattr(self, 'with_assertions', False) else 'false', mangle(CUR),
                                   q, cond, mangle(IDX), val, mangle(CUR), mangle(CUR), p, d, p, p, mangle(t.id), K(env, ind)))
                # obj = self[a:b]
                if isinstance(v, ast.Subscript) and isinstance(v.slice, ast.Slice) and v.slice.step is None and self.obj_of(v.value, env):
                    o = self.obj_of(v.value, env)
                    lo = '(none : Option Int)' if v.slice.lower is None else self.as_opt(v.slice.lower, env, 'optint')
                    hi = '(none : Option Int)' if v.slice.upper is None else self.as_opt(v.slice.upper, env, 'optint')
                    pre = self.pre(p)
                    if t.id == 'self' or (t.id in env and env[t.id] != 'obj'):
                        raise Unsupported(ast.unparse(st))
                    env = dict(env); env[t.id] = 'obj'
                    return '%s%slet %s : AStr := AStr.getSlice %s %s %s\n%s' % (pre, p, mangle(t.id), o, lo, hi, K(env, ind))
                # x = O._fmts.pop(k, None)
                if isinstance(v, ast.Call) and isinstance(v.func, ast.Attribute) and v.func.attr == 'pop' and len(v.args) == 2 \
                        and not v.keywords and isinstance(v.args[1], ast.Constant) and v.args[1].value is None:
                    d = self.is_fmts(v.func.value, env)
                    if d:
                        key = self.typed(v.args[0], env, 'int')
                        pre = self.pre(p)
                        env = dict(env); env[t.id] = 'optpoint'
                        x = mangle(t.id)
                        return ('%s%slet r_ := Obj.popD %s.fmts %s\n%slet %s : Option Point := r_.1\n%slet %s : AStr := { %s with fmts := r_.2 }\n%s'
                                % (pre, p, d, key, p, x, p, d, d, K(env, ind)))
                if t.id in env and env[t.id] == 'obj':
                    raise Unsupported('object variable reassigned: ' + t.id)
                if isinstance(v, ast.Call) and isinstance(v.func, ast.Name) and v.func.id == 'AnsiString' and not v.args and not v.keywords:
                    env = dict(env); env[t.id] = 'obj'
                    return '%slet %s : AStr := {}\n%s' % (p, mangle(t.id), K(env, ind))
                if isinstance(v, ast.Constant) and v.value is None:
                    ty = env.get(t.id) or self.none_type(t.id, env)
                    a = '(none : %s)' % LEAN_T[ty]
                else:
                    a, ty = self.ex(v, env)
                    if isinstance(v, ast.List) and not v.elts and env.get(t.id) in ('strlist', 'slist', 'ilist'):
                        ty = env[t.id]
                        a = '([] : %s)' % LEAN_T[ty]
                    elif isinstance(v, ast.List) and not v.elts and t.id not in env:
                        ty = self.list_type(t.id)
                        a = '([] : %s)' % LEAN_T[ty]
                    want = env.get(t.id) or (self.none_type(t.id, env) if self.assigned_none(t.id) else None)
                    if want in BASE_OF and BASE_OF[want] == ty:
                        a, ty = '(some %s)' % a, want
                pre = self.pre(p)
                if t.id in env and env[t.id] != ty:
                    raise Unsupported('type of %s changes' % t.id)
                env = dict(env); env[t.id] = ty
                return '%s%slet %s : %s := %s\n%s' % (pre, p, mangle(t.id), LEAN_T[ty], a, K(env, ind))
            # O._fmts = P._fmts
            if isinstance(t, ast.Attribute) and t.attr == '_fmts' and isinstance(v, ast.Attribute) and v.attr == '_fmts':
                o, q_ = self.obj_of(t.value, env), self.obj_of(v.value, env)
                if o and q_:
                    return '%slet %s : AStr := { %s with fmts := %s.fmts }\n%s' % (p, o, o, q_, K(env, ind))
            # O._s = <str>
            if isinstance(t, ast.Attribute) and t.attr == '_s':
                o = self.obj_of(t.value, env)
                if o:
                    a = self.typed(v, env, 'str')
                    pre = self.pre(p)
                    return '%s%slet %s : AStr := { %s with s := %s }\n%s' % (pre, p, o, o, a, K(env, ind))
            # O._fmts[k] = …
            if isinstance(t, ast.Subscript) and not isinstance(t.slice, ast.Slice):
                d = self.is_fmts(t.value, env)
                if d:
                    if '_fmts' in ast.unparse(t.slice):
                        raise Unsupported('key reads the dictionary')
                    key = self.typed(t.slice, env, 'int')
                    upd = '%slet %s : AStr := { %s with fmts := f_ }\n' % (p, d, d)
                    if isinstance(v, ast.Call) and isinstance(v.func, ast.Attribute) and v.func.attr == 'pop' and len(v.args) == 1 \
                            and not v.keywords and self.is_fmts(v.func.value, env) == d:
                        k2 = self.typed(v.args[0], env, 'int')
                        pre = self.pre(p)
                        return ('%s%s(Obj.pop %s.fmts %s).bind fun r_ =>\n%s(Obj.set r_.2 %s r_.1).bind fun f_ =>\n%s%s'
                                % (pre, p, d, k2, p, key, upd, K(env, ind)))
                    if isinstance(v, ast.Name) and env.get(v.id) == 'optpoint':
                        pre = self.pre(p)
                        return ('%s%s(Obj.setOpt %s.fmts %s %s).bind fun f_ =>\n%s%s' % (pre, p, d, key, mangle(v.id), upd, K(env, ind)))
                    if isinstance(v, ast.Call) and isinstance(v.func, ast.Name) and v.func.id == '_AnsiSettingPoint' and not v.args and not v.keywords:
                        pre = self.pre(p)
                        return ('%s%s(Obj.set %s.fmts %s ({} : Point)).bind fun f_ =>\n%s%s' % (pre, p, d, key, upd, K(env, ind)))
                    if isinstance(v, ast.Call) and isinstance(v.func, ast.Name) and v.func.id == '_AnsiSettingPoint':
                        pt = self.typed(v, env, 'point')
                        pre = self.pre(p)
                        return ('%s%s(Obj.set %s.fmts %s %s).bind fun f_ =>\n%s%s' % (pre, p, d, key, pt, upd, K(env, ind)))
            # O._fmts[k].rem = <list>
            if isinstance(t, ast.Attribute) and t.attr in ('add', 'rem') and isinstance(t.value, ast.Subscript) \
                    and not isinstance(t.value.slice, ast.Slice):
                d = self.is_fmts(t.value.value, env)
                if d:
                    key = self.typed(t.value.slice, env, 'int')
                    new = self.typed(v, env, 'slist')
                    pre = self.pre(p)
                    return ('%s%s(Obj.modifyAt %s.fmts %s (fun q_ => { q_ with %s := %s })).bind fun f_ =>\n%slet %s : AStr := { %s with fmts := f_ }\n%s'
                            % (pre, p, d, key, t.attr, new, p, d, d, K(env, ind)))
            # O._fmts[k].rem[i] = <setting>
            if isinstance(t, ast.Subscript) and not isinstance(t.slice, ast.Slice) and isinstance(t.value, ast.Attribute) \
                    and t.value.attr in ('add', 'rem') and isinstance(t.value.value, ast.Subscript) and not isinstance(t.value.value.slice, ast.Slice):
                d = self.is_fmts(t.value.value.value, env)
                if d:
                    key = self.typed(t.value.value.slice, env, 'int')
                    i = self.typed(t.slice, env, 'int')
                    x = self.typed(v, env, 'setting')
                    pre = self.pre(p)
                    fld = t.value.attr
                    return ('%s%s(Obj.get %s.fmts %s).bind fun q_ =>\n%s(Py.setIdx q_.%s %s %s).bind fun l_ =>\n%s(Obj.set %s.fmts %s { q_ with %s := l_ }).bind fun f_ =>\n%slet %s : AStr := { %s with fmts := f_ }\n%s'
                            % (pre, p, d, key, p, fld, i, x, p, d, key, fld, p, d, d, K(env, ind)))
            # O._fmts[k].add[lo:hi] = <list>
            if isinstance(t, ast.Subscript) and isinstance(t.slice, ast.Slice) and t.slice.step is None \
                    and isinstance(t.value, ast.Attribute) and t.value.attr in ('add', 'rem') and isinstance(t.value.value, ast.Subscript) \
                    and not isinstance(t.value.value.slice, ast.Slice):
                d = self.is_fmts(t.value.value.value, env)
                if d and t.slice.lower is not None and t.slice.upper is not None:
                    key = self.typed(t.value.value.slice, env, 'int')
                    lo = self.typed(t.slice.lower, env, 'int')
                    hi = self.typed(t.slice.upper, env, 'int')
                    new = self.typed(v, env, 'slist')
                    pre = self.pre(p)
                    fld = t.value.attr
                    return ('%s%s(Obj.modifyAt %s.fmts %s (fun q_ => { q_ with %s := Py.sliceAssign q_.%s %s %s %s })).bind fun f_ =>\n%slet %s : AStr := { %s with fmts := f_ }\n%s'
                            % (pre, p, d, key, fld, fld, lo, hi, new, p, d, d, K(env, ind)))
            raise Unsupported(ast.unparse(st))
        if isinstance(st, ast.Delete) and all(isinstance(t_, ast.Name) for t_ in st.targets):
            env = dict(env)
            for t_ in st.targets:
                env.pop(t_.id, None)           # `del name`: the name is gone, the value is unaffected
            return K(env, ind)
        if isinstance(st, ast.Delete) and len(st.targets) == 1 and isinstance(st.targets[0], ast.Subscript) \
                and not isinstance(st.targets[0].slice, ast.Slice) and self.is_fmts(st.targets[0].value, env):
            d = self.is_fmts(st.targets[0].value, env)
            key = self.typed(st.targets[0].slice, env, 'int')
            pre = self.pre(p)
            return ('%s%s(Obj.del %s.fmts %s).bind fun f_ =>\n%slet %s : AStr := { %s with fmts := f_ }\n%s'
                    % (pre, p, d, key, p, d, d, K(env, ind)))
        if isinstance(st, ast.Delete) and len(st.targets) == 1 and isinstance(st.targets[0], ast.Subscript) \
                and not isinstance(st.targets[0].slice, ast.Slice):
            a, ty = self.ex(st.targets[0].value, env)
            if ty == 'slist' and a.isidentifier():
                i = self.typed(st.targets[0].slice, env, 'int')
                pre = self.pre(p)
                return '%s%s(Py.delIdx %s %s).bind fun %s =>\n%s' % (pre, p, a, i, a, K(env, ind))
            raise Unsupported(ast.unparse(st))
        if isinstance(st, ast.AugAssign) and isinstance(st.op, ast.Add):
            t = st.target
            ta = self.ex(t, env) if not (isinstance(t, ast.Attribute) and t.attr == '_s') and not isinstance(t, ast.Name) else None
            if isinstance(t, ast.Name) and env.get(t.id) in ('slist', 'str', 'strlist'):
                ta = (mangle(t.id), env[t.id])
            if ta and ta[1] in ('slist', 'str', 'strlist') and ta[0].isidentifier():
                a = self.typed(st.value, env, ta[1])
                pre = self.pre(p)
                return '%s%slet %s : %s := %s ++ %s\n%s' % (pre, p, ta[0], LEAN_T[ta[1]], ta[0], a, K(env, ind))
            if isinstance(t, ast.Attribute) and t.attr == '_s':
                o = self.obj_of(t.value, env)
                if o:
                    a = self.typed(st.value, env, 'str')
                    pre = self.pre(p)
                    return '%s%slet %s : AStr := { %s with s := %s.s ++ %s }\n%s' % (pre, p, o, o, o, a, K(env, ind))
            if isinstance(t, ast.Name) and env.get(t.id) == 'int':
                a = self.typed(st.value, env, 'int')
                pre = self.pre(p)
                return '%s%slet %s : Int := %s + %s\n%s' % (pre, p, mangle(t.id), mangle(t.id), a, K(env, ind))
            raise Unsupported(ast.unparse(st))
        if isinstance(st, ast.AugAssign) and isinstance(st.op, (ast.Sub, ast.Add)) and isinstance(st.target, ast.Name) \
                and env.get(st.target.id) == 'optint':
            a = self.typed(st.value, env, 'int')
            x_ = mangle(st.target.id)
            v_ = self.hoist('Py.optGet %s' % x_)
            pre = self.pre(p)
            return '%s%slet %s : Option Int := some (%s %s %s)\n%s' % (pre, p, x_, v_, '-' if isinstance(st.op, ast.Sub) else '+', a, K(env, ind))
        if isinstance(st, ast.AugAssign) and isinstance(st.op, ast.Sub) and isinstance(st.target, ast.Name) and env.get(st.target.id) == 'int':
            a = self.typed(st.value, env, 'int')
            pre = self.pre(p)
            return '%s%slet %s : Int := %s - %s\n%s' % (pre, p, mangle(st.target.id), mangle(st.target.id), a, K(env, ind))
        if isinstance(st, ast.Expr) and isinstance(st.value, ast.Call) and isinstance(st.value.func, ast.Attribute):
            c = st.value
            m = c.func.attr
            if m == 'append' and isinstance(c.func.value, ast.Name) and env.get(c.func.value.id) == 'pairlist' and len(c.args) == 1 and not c.keywords:
                x = self.typed(c.args[0], env, 'intpair')
                pre = self.pre(p)
                L = mangle(c.func.value.id)
                return '%s%slet %s : List (Int × Int) := %s ++ [%s]\n%s' % (pre, p, L, L, x, K(env, ind))
            if m == 'append' and isinstance(c.func.value, ast.Name) and env.get(c.func.value.id) == 'olist' and len(c.args) == 1 and not c.keywords:
                x = self.obj_expr(c.args[0], env)
                if x:
                    pre = self.pre(p)
                    L = mangle(c.func.value.id)
                    return '%s%slet %s : List AStr := %s ++ [%s]\n%s' % (pre, p, L, L, x, K(env, ind))
            if m == 'append' and isinstance(c.func.value, ast.Name) and env.get(c.func.value.id) == 'strlist' and len(c.args) == 1 and not c.keywords:
                x = self.typed(c.args[0], env, 'str')
                pre = self.pre(p)
                L = mangle(c.func.value.id)
                return '%s%slet %s : List Str := %s ++ [%s]\n%s' % (pre, p, L, L, x, K(env, ind))
            # L.append(x)
            if m == 'append' and isinstance(c.func.value, ast.Name) and env.get(c.func.value.id) == 'slist' and len(c.args) == 1 and not c.keywords:
                x = self.typed(c.args[0], env, 'setting')
                pre = self.pre(p)
                L = mangle(c.func.value.id)
                return '%s%slet %s : List Setting := %s ++ [%s]\n%s' % (pre, p, L, L, x, K(env, ind))
            # O._fmts[k].rem.extend(L)
            if m == 'extend' and isinstance(c.func.value, ast.Attribute) and c.func.value.attr in ('add', 'rem') \
                    and isinstance(c.func.value.value, ast.Subscript) and not isinstance(c.func.value.value.slice, ast.Slice) \
                    and len(c.args) == 1 and not c.keywords:
                d = self.is_fmts(c.func.value.value.value, env)
                if d:
                    key = self.typed(c.func.value.value.slice, env, 'int')
                    L = self.typed(c.args[0], env, 'slist')
                    fld = c.func.value.attr
                    pre = self.pre(p)
                    return ('%s%s(Obj.modifyAt %s.fmts %s (fun q_ => { q_ with %s := q_.%s ++ %s })).bind fun f_ =>\n%slet %s : AStr := { %s with fmts := f_ }\n%s'
                            % (pre, p, d, key, fld, fld, L, p, d, d, K(env, ind)))
            # O._fmts[k].insert_settings(apply, settings, topmost=True)
            if m in self.sigs and isinstance(c.func.value, ast.Subscript) and not isinstance(c.func.value.slice, ast.Slice) \
                    and getattr(self.sigs[m], 'point', False):
                d = self.is_fmts(c.func.value.value, env)
                if d:
                    key = self.typed(c.func.value.slice, env, 'int')
                    args = self.bind(c, self.sigs[m], env)
                    pre = self.pre(p)
                    return ('%s%s(Obj.modifyAt %s.fmts %s (fun q_ => %s q_ %s)).bind fun f_ =>\n%slet %s : AStr := { %s with fmts := f_ }\n%s'
                            % (pre, p, d, key, lean_name(m), ' '.join(args), p, d, d, K(env, ind)))
            o = self.obj_of(c.func.value, env)
            if o and m in self.sigs and not getattr(self.sigs[m], 'point', False):
                args = self.bind(c, self.sigs[m], env)
                pre = self.pre(p)
                return '%s%s(%s %s %s).bind fun %s =>\n%s' % (pre, p, getattr(self.sigs[m], 'lean', None) or lean_name(m), o, ' '.join(args), o, K(env, ind))
            if o and m == 'apply_formatting' and len(c.args) == 1 and not c.keywords and 'nid' in env:
                a, ta = self.ex(c.args[0], env)
                if ta == 'optstr':
                    a = self.hoist('Py.optGet %s' % a)
                elif ta != 'str':
                    raise Unsupported(ast.unparse(st))
                pre = self.pre(p)
                # the whole method (guard, scrubber, core): the model's applyRaw with the caller's fresh-identity counter
                return ('%s%s(Obj.liftPy (AStr.applyRaw %s nid (SArg.str %s) none none)).bind fun %s =>\n%s'
                        % (pre, p, o, a, o, K(env, ind)))
            if o and m == 'clip':
                kw = {k.arg: k.value for k in c.keywords}
                if c.args or set(kw) - {'start', 'end', 'inplace'} or not (isinstance(kw.get('inplace'), ast.Constant) and kw['inplace'].value is True):
                    raise Unsupported(ast.unparse(st))
                def bound(e):
                    if e is None or (isinstance(e, ast.Constant) and e.value is None):
                        return '(none : Option Int)'
                    return '(some %s)' % self.typed(e, env, 'int')
                b1, b2 = bound(kw.get('start')), bound(kw.get('end'))
                pre = self.pre(p)
                return '%s%slet %s : AStr := AStr.clip %s %s %s\n%s' % (pre, p, o, o, b1, b2, K(env, ind))
            raise Unsupported(ast.unparse(st))
        if isinstance(st, ast.For) and not st.orelse and isinstance(st.target, ast.Tuple) and len(st.target.elts) == 3 \
                and all(isinstance(x, ast.Name) for x in st.target.elts) and isinstance(st.iter, ast.Call) \
                and isinstance(st.iter.func, ast.Name) and st.iter.func.id == '_AnsiSettingsIterator' and len(st.iter.args) == 1 \
                and not st.iter.keywords and 'iterStep' in self.sigs:
            return self.iter_loop(st, env, K, ind)
        if isinstance(st, ast.For) and not st.orelse and isinstance(st.target, ast.Tuple):
            return self.general_loop(st, env, K, ind)
        if isinstance(st, ast.For) and not st.orelse and isinstance(st.target, ast.Name) \
                and any(isinstance(n, (ast.Continue, ast.Break)) for n in ast.walk(ast.Module(body=st.body, type_ignores=[]))):
            return self.general_loop(st, env, K, ind)
        if isinstance(st, ast.For) and not st.orelse and isinstance(st.target, ast.Name):
            it = st.iter
            for n in ast.walk(ast.Module(body=st.body, type_ignores=[])):
                if isinstance(n, (ast.Break, ast.Continue, ast.Return)):
                    raise Unsupported('break/continue/return in a loop')
            assigned, appended, obj_written = set(), set(), False
            def state_name(t):
                if isinstance(t, ast.Name):
                    return t.id
                if isinstance(t, ast.Attribute) and isinstance(t.value, ast.Name) and env.get(t.value.id) == 'iter' and env.get(t.attr) == 'slist':
                    return t.attr
                return None
            for n in ast.walk(ast.Module(body=st.body, type_ignores=[])):
                if isinstance(n, ast.Delete):
                    for t in n.targets:
                        nm = state_name(t.value) if isinstance(t, ast.Subscript) else None
                        if nm and env.get(nm) == 'slist':
                            appended.add(nm)
                        else:
                            obj_written = True
                if isinstance(n, (ast.Assign, ast.AugAssign)):
                    for t in (n.targets if isinstance(n, ast.Assign) else [n.target]):
                        nm = state_name(t)
                        if nm and isinstance(n, ast.AugAssign) and env.get(nm) == 'slist':
                            appended.add(nm)
                        elif isinstance(t, ast.Name):
                            assigned.add(t.id)
                        else:
                            obj_written = True
                if isinstance(n, ast.Call) and isinstance(n.func, ast.Attribute):
                    if n.func.attr == 'append' and isinstance(n.func.value, ast.Name):
                        appended.add(n.func.value.id)
                    elif n.func.attr not in ('_find_setting_reference', 'ansi_settings_at'):
                        obj_written = True
            if any(x in env for x in assigned):
                return self.general_loop(st, env, K, ind)
            outer_lists = sorted(x for x in appended if x in env)
            # sorted(O._fmts.keys(), reverse=True)
            if isinstance(it, ast.Call) and isinstance(it.func, ast.Name) and it.func.id == 'sorted' and len(it.args) == 1 \
                    and isinstance(it.args[0], ast.Call) and isinstance(it.args[0].func, ast.Attribute) and it.args[0].func.attr == 'keys' \
                    and not it.args[0].args and not outer_lists:
                d = self.is_fmts(it.args[0].func.value, env)
                kw = {k.arg: k.value for k in it.keywords}
                if d and set(kw) <= {'reverse'} and all(isinstance(x, ast.Constant) and isinstance(x.value, bool) for x in kw.values()):
                    desc = bool(kw.get('reverse') and kw['reverse'].value)
                    benv = dict(env); benv[st.target.id] = 'int'
                    body = self.block(st.body, benv, lambda e2, i2: '  ' * i2 + '.ok %s' % d, ind + 2)
                    return ('%s(List.foldlM (fun (%s : AStr) (%s : Int) =>\n%s)\n%s  %s (Obj.%s %s.fmts)).bind fun %s =>\n%s'
                            % (p, d, mangle(st.target.id), body, p, d, 'keysDesc' if desc else 'keysAsc', d, d, K(env, ind)))
            # for x in <list of settings>: … L.append(…) …      (one outer list is the loop state; the object is only read)
            def _is_settings(x_):
                try:
                    saved = list(self.pending)
                    r_ = self.ex(x_, env)[1] in ('slist', 'optslist')
                    self.pending = saved
                    return r_
                except Unsupported:
                    return False
            if len(outer_lists) == 1 and not obj_written and env.get(outer_lists[0]) == 'slist' and _is_settings(it):
                src = self.typed(it, env, 'slist')
                pre = self.pre(p)
                L = mangle(outer_lists[0])
                benv = dict(env); benv[st.target.id] = 'setting'
                body = self.block(st.body, benv, lambda e2, i2: '  ' * i2 + '.ok %s' % L, ind + 2)
                return ('%s%s(List.foldlM (fun (%s : List Setting) (%s : Setting) =>\n%s)\n%s  %s %s).bind fun %s =>\n%s'
                        % (pre, p, L, mangle(st.target.id), body, p, L, src, L, K(env, ind)))
            return self.general_loop(st, env, K, ind)
        raise Unsupported(ast.unparse(st).split('\n')[0])

    def field_of(self, t, env):
        """PV.add / PV.rem for a variable PV that holds a point -> (PV, field)"""
        if isinstance(t, ast.Attribute) and t.attr in ('add', 'rem') and isinstance(t.value, ast.Name) and env.get(t.value.id) == 'point':
            return mangle(t.value.id), t.attr
        return None

    def point_stmt(self, st, env, K, ind):
        """statements that edit a list of a point held in a variable (the point the iterator hands out is the
        object stored in the dictionary: iter_loop writes it back)"""
        p = '  ' * ind
        self.pending = []
        if isinstance(st, ast.Expr) and isinstance(st.value, ast.Call) and isinstance(st.value.func, ast.Attribute) \
                and st.value.func.attr in ('append', 'extend') and len(st.value.args) == 1 and not st.value.keywords:
            f = self.field_of(st.value.func.value, env)
            if f:
                if st.value.func.attr == 'append':
                    x = '[%s]' % self.typed(st.value.args[0], env, 'setting')
                else:
                    x = self.typed(st.value.args[0], env, 'slist')
                pre = self.pre(p)
                return '%s%slet %s : Point := { %s with %s := %s.%s ++ %s }\n%s' % (pre, p, f[0], f[0], f[1], f[0], f[1], x, K(env, ind))
        if isinstance(st, ast.Delete) and len(st.targets) == 1 and isinstance(st.targets[0], ast.Subscript) \
                and not isinstance(st.targets[0].slice, ast.Slice):
            f = self.field_of(st.targets[0].value, env)
            if f:
                i = self.typed(st.targets[0].slice, env, 'int')
                pre = self.pre(p)
                return ('%s%s(Py.delIdx %s.%s %s).bind fun l_ =>\n%slet %s : Point := { %s with %s := l_ }\n%s'
                        % (pre, p, f[0], f[1], i, p, f[0], f[0], f[1], K(env, ind)))
        if isinstance(st, ast.AugAssign) and isinstance(st.op, ast.Add):
            f = self.field_of(st.target, env)
            if f:
                x = self.typed(st.value, env, 'slist')
                pre = self.pre(p)
                return '%s%slet %s : Point := { %s with %s := %s.%s ++ %s }\n%s' % (pre, p, f[0], f[0], f[1], f[0], f[1], x, K(env, ind))
        if isinstance(st, ast.Assign) and len(st.targets) == 1 and isinstance(st.targets[0], ast.Subscript) \
                and isinstance(st.targets[0].slice, ast.Slice) and st.targets[0].slice.step is None:
            f = self.field_of(st.targets[0].value, env)
            if f:
                sl = st.targets[0].slice
                lo = '(0 : Int)' if sl.lower is None else self.typed(sl.lower, env, 'int')
                if sl.upper is None:
                    raise Unsupported(ast.unparse(st))
                hi = self.typed(sl.upper, env, 'int')
                x = self.typed(st.value, env, 'slist')
                pre = self.pre(p)
                return ('%s%slet %s : Point := { %s with %s := Py.sliceAssign %s.%s %s %s %s }\n%s'
                        % (pre, p, f[0], f[0], f[1], f[0], f[1], lo, hi, x, K(env, ind)))
        return None

    def general_loop(self, st, env, K, ind):
        """for x in <list of settings> / for i in [reversed(]range(len(<list>))[)]: the loop state is the tuple of the
        variables the body may change"""
        p = '  ' * ind
        it = st.iter
        self.pending = []
        elem = None
        rev = False
        rng = it
        benv = dict(env)
        if isinstance(it, ast.Call) and isinstance(it.func, ast.Name) and it.func.id == 'reversed' and len(it.args) == 1 and not it.keywords:
            rev, rng = True, it.args[0]
        tgt = st.target
        poisoned = []
        if isinstance(tgt, ast.Tuple):
            if not all(isinstance(x_, ast.Name) for x_ in tgt.elts):
                raise Unsupported('loop target')
            for x_ in tgt.elts:
                if x_.id in env:
                    # the loop variable reuses an outer name: inside the loop it is the loop's, afterwards the name is not
                    # available any more (Python would leave the last value in it; a later use is refused)
                    if env[x_.id] != 'int':
                        raise Unsupported('loop target')
                    poisoned.append(x_.id)
                    env = {k_: v_ for k_, v_ in env.items() if k_ != x_.id}
                    benv = dict(env)
            a, ta = self.ex(rng, env)
            nm = [x_.id for x_ in tgt.elts]
            if ta == 'fmtitems' and len(nm) == 3 and not rev:
                src = '(%s.map (fun kp_ => ((kp_.1 : Int), kp_.2.add, kp_.2.rem)))' % a
                xpat, xty = '(%s, %s, %s)' % tuple(mangle(q_) for q_ in nm), 'Int × List Setting × List Setting'
                benv[nm[0]] = 'int'; benv[nm[1]] = 'slist'; benv[nm[2]] = 'slist'
            elif ta == 'effitems' and len(nm) == 2 and not rev:
                src = a
                xpat, xty = '(%s, %s)' % tuple(mangle(q_) for q_ in nm), 'Nat × Setting'
                benv[nm[0]] = 'effkey'; benv[nm[1]] = 'setting'
            elif ta == 'pairlist' and len(nm) == 2 and not rev:
                src = a
                xpat, xty = '(%s, %s)' % tuple(mangle(q_) for q_ in nm), 'Int × Int'
                benv[nm[0]] = 'int'; benv[nm[1]] = 'int'
            elif ta == 'pairs' and len(nm) == 2:
                src = '((%s)%s.map (fun ab_ => ((ab_.1 : Int), (ab_.2 : Int))))' % (a, '.reverse' if rev else '')
                xpat, xty = '(%s, %s)' % tuple(mangle(q_) for q_ in nm), 'Int × Int'
                benv[nm[0]] = 'int'; benv[nm[1]] = 'int'
            else:
                raise Unsupported('loop ' + ast.unparse(it))
            x = None
        elif isinstance(rng, ast.Call) and isinstance(rng.func, ast.Name) and rng.func.id == 'range' and len(rng.args) == 1 and not rng.keywords:
            n = self.typed(rng.args[0], env, 'int')
            src, elem = '(Py.%s %s)' % ('rangeDesc' if rev else 'rangeAsc', n), 'int'
            x = tgt.id
        else:
            a_, ta_ = self.ex(rng, env)
            if ta_ == 'strlist' and not rev:
                src, elem = a_, 'str'
            elif ta_ == 'effkeys' and not rev:
                src, elem = a_, 'effkey'
            elif ta_ == 'ilist':
                src, elem = ('(%s).reverse' % a_ if rev else a_), 'int'
            elif ta_ == 'str':
                src, elem = ('(%s).reverse' % a_ if rev else a_), 'char'
            elif ta_ == 'slist' and not rev:
                src, elem = a_, 'setting'
            elif ta_ == 'optslist' and not rev:
                src, elem = self.typed(it, env, 'slist'), 'setting'
            else:
                raise Unsupported('loop ' + ast.unparse(it))
            x = tgt.id
        has_break = False
        for n_ in ast.walk(ast.Module(body=st.body, type_ignores=[])):
            if isinstance(n_, ast.Return):
                raise Unsupported('return in a loop')
            if isinstance(n_, ast.Break):
                has_break = True
        if x is not None:
            if x in env:
                raise Unsupported('loop variable shadows an outer variable')
            benv[x] = elem
            xpat, xty = mangle(x), LEAN_T[elem]
        state = self.written(st.body, env)
        if not state:
            raise Unsupported('loop without effect')
        pre = self.pre(p)
        names = [mangle(v) for v in state]
        tys = [LEAN_T[env[v]] for v in state]
        if has_break:
            # `break`: a flag in the state; once set the remaining rounds do nothing
            tup = lambda last: '(' + ', '.join(names + [last]) + ')'
            q = '  ' * (ind + 2)
            saved = getattr(self, 'loop_exits', None)
            self.loop_exits = [(lambda e2, i2: '  ' * i2 + '.ok %s' % tup('false'), lambda e2, i2: '  ' * i2 + '.ok %s' % tup('true'))]
            try:
                body = self.block(st.body, benv, self.loop_exits[-1][0], ind + 2)
            finally:
                self.loop_exits = saved if saved is not None else []
            return ('%s%s(List.foldlM (m := Except Exc) (fun (st_ : %s) (it_ : %s) =>\n%smatch st_, it_ with\n%s| %s, %s =>\n%sif done_ then .ok st_ else\n%s)\n%s  %s %s).bind fun st_ =>\n%smatch st_ with\n%s| %s =>\n%s'
                    % (pre, p, ' × '.join(tys + ['Bool']), xty, q, q, tup('done_'), xpat, q, body, p, tup('false'), src, p, p, tup('_'), K(env, ind)))
        if isinstance(tgt, ast.Tuple) or any(isinstance(n_, ast.Continue) for n_ in ast.walk(ast.Module(body=st.body, type_ignores=[]))):
            # the general shape: state tuple (or single variable), destructured element, `continue` = the normal exit
            tup = names[0] if len(names) == 1 else '(' + ', '.join(names) + ')'
            q = '  ' * (ind + 2)
            saved = getattr(self, 'loop_exits', None)
            ex_ = lambda e2, i2: '  ' * i2 + '.ok %s' % tup
            self.loop_exits = [(ex_, lambda e2, i2: (_ for _ in ()).throw(Unsupported('break')))]
            try:
                body = self.block(st.body, benv, ex_, ind + 2)
            finally:
                self.loop_exits = saved if saved is not None else []
            return ('%s%s(List.foldlM (m := Except Exc) (fun (st_ : %s) (it_ : %s) =>\n%smatch st_, it_ with\n%s| %s, %s =>\n%s)\n%s  %s %s).bind fun st_ =>\n%smatch st_ with\n%s| %s =>\n%s'
                    % (pre, p, ' × '.join(tys), xty, q, q, tup, xpat, body, p, tup, src, p, p, tup, K(env, ind)))
        if len(state) == 1:
            body = self.block(st.body, benv, lambda e2, i2: '  ' * i2 + '.ok %s' % names[0], ind + 2)
            return ('%s%s(List.foldlM (m := Except Exc) (fun (%s : %s) (%s : %s) =>\n%s)\n%s  %s %s).bind fun %s =>\n%s'
                    % (pre, p, names[0], tys[0], mangle(x), LEAN_T[elem], body, p, names[0], src, names[0], K(env, ind)))
        tup = '(' + ', '.join(names) + ')'
        q = '  ' * (ind + 2)
        saved = getattr(self, 'loop_exits', None)
        self.loop_exits = []            # a break/continue of an outer loop cannot be reached from here
        x = tgt.id
        try:
            body = self.block(st.body, benv, lambda e2, i2: '  ' * i2 + '.ok %s' % tup, ind + 2)
        finally:
            self.loop_exits = saved if saved is not None else []
        return ('%s%s(List.foldlM (m := Except Exc) (fun (st_ : %s) (%s : %s) =>\n%smatch st_ with\n%s| %s =>\n%s)\n%s  %s %s).bind fun st_ =>\n%smatch st_ with\n%s| %s =>\n%s'
                % (pre, p, ' × '.join(tys), mangle(x), LEAN_T[elem], q, q, tup, body, p, tup, src, p, p, tup, K(env, ind)))

    def written(self, body, env):
        """variables of `env` that the statements may change, in order of first appearance"""
        out = []
        def base(t):
            while isinstance(t, (ast.Attribute, ast.Subscript)):
                t = t.value
            return t.id if isinstance(t, ast.Name) else None
        for n in ast.walk(ast.Module(body=body, type_ignores=[])):
            names = []
            if isinstance(n, (ast.Assign, ast.AugAssign)):
                names += [base(t) for t in (n.targets if isinstance(n, ast.Assign) else [n.target])]
            if isinstance(n, ast.Delete):
                names += [base(t) for t in n.targets]
            if isinstance(n, ast.Call) and isinstance(n.func, ast.Attribute) and n.func.attr in ('append', 'extend', 'insert_settings', 'pop', 'clip') \
                    or isinstance(n, ast.Call) and isinstance(n.func, ast.Attribute) and n.func.attr in self.sigs:
                names.append(base(n.func.value))
            for x in names:
                if x and x in env and x not in out:
                    out.append(x)
        return out

    def iter_loop(self, st, env, K, ind):
        """for IDX, PT, CUR in _AnsiSettingsIterator(O._fmts): BODY      (break / continue allowed)

        The iterator takes the sorted keys once, and at every step fetches the point *then* stored under the key,
        removes its stop markers from `current_settings` by identity and appends its start markers (`iterStep`,
        translated from `__next__`).  The loop state is the variables BODY may change, the iterator's
        `current_settings` and a flag that a `break` sets."""
        p = '  ' * ind
        d = self.is_fmts(st.iter.args[0], env)
        if not d:
            raise Unsupported('iterator over ' + ast.unparse(st.iter.args[0]))
        IDX, PT, CUR = [x.id for x in st.target.elts]
        if any(x in env and env[x] == 'obj' for x in (IDX, PT, CUR)):
            raise Unsupported('loop variable shadows an object')
        # a loop variable that reuses an outer name: the loop's inside, not available afterwards (a later use is refused)
        env = {k_: v_ for k_, v_ in env.items() if k_ not in (IDX, PT, CUR)}
        state = self.written(st.body, env)
        edits = PT in self.written(st.body, {PT: 'point'})
        if edits and st.iter.args[0].value.id not in state:
            state = [st.iter.args[0].value.id] + state
        if not state:
            raise Unsupported('loop without effect')
        tys = [LEAN_T[env[x]] for x in state] + ['List Setting', 'Bool']
        names = [mangle(x) for x in state]
        def tup(last, ind2=None):
            t = '(' + ', '.join(names + ['cur_', last]) + ')'
            if ind2 is None or not edits:
                return t
            q2 = '  ' * ind2
            # the point is the object stored under the key: what the body did to it is in the dictionary
            return ('(Obj.modifyAt %s.fmts %s (fun _ => %s)).bind fun f_ =>\n%slet %s : AStr := { %s with fmts := f_ }\n%s.ok %s'
                    % (d, mangle(IDX), mangle(PT), q2, d, d, q2, t))
        benv = dict(env); benv[IDX] = 'int'; benv[PT] = 'point'; benv[CUR] = 'slist'
        if not hasattr(self, 'loop_exits'):
            self.loop_exits = []
        def exit_(last):
            def f(e2, i2):
                t = tup(last, i2)
                return '  ' * i2 + (t if t.startswith('(Obj.modifyAt') else '.ok ' + t)
            return f
        self.loop_exits.append((exit_('false'), exit_('true')))
        try:
            body = self.block(st.body, benv, self.loop_exits[-1][0], ind + 2)
        finally:
            self.loop_exits.pop()
        q = '  ' * (ind + 2)
        head = ('%s(List.foldlM (m := Except Exc) (fun (st_ : %s) (%s : Int) =>\n%smatch st_ with\n%s| %s =>\n%sif done_ then .ok st_ else\n'
                '%s(Obj.get %s.fmts %s).bind fun %s =>\n%s(iterStep cur_ %s %s).bind fun %s =>\n%slet cur_ : List Setting := %s\n'
                % (p, ' × '.join(tys), mangle(IDX), q, q, tup('done_'), q, q, d, mangle(IDX), mangle(PT), q, mangle(PT),
                   'true' if getattr(self, 'with_assertions', False) else 'false', mangle(CUR), q, mangle(CUR)))
        init = '(' + ', '.join(names + ['([] : List Setting)', 'false']) + ')'
        out_tup = '(' + ', '.join(names + ['_', '_']) + ')'
        return ('%s%s)\n%s  %s (Obj.keysAsc %s.fmts)).bind fun st_ =>\n%smatch st_ with\n%s| %s =>\n%s'
                % (head, body, p, init, d, p, p, out_tup, K(env, ind)))

    def join_if(self, st, rest, env, K, ind):
        """`if c: A [else: B]` whose branches fall through (no return/raise) and define nothing that is used
        later: both branches hand the variables they may have changed to one copy of what follows"""
        p = '  ' * ind
        branches = ast.Module(body=st.body + st.orelse, type_ignores=[])
        state = []
        for n in ast.walk(branches):
            if isinstance(n, (ast.Return, ast.Raise, ast.Break, ast.Continue)):
                return None
            names = []
            if isinstance(n, (ast.Assign, ast.AugAssign)):
                for t in (n.targets if isinstance(n, ast.Assign) else [n.target]):
                    while isinstance(t, (ast.Attribute, ast.Subscript)):
                        t = t.value
                    if isinstance(t, ast.Name):
                        names.append(t.id)
            if isinstance(n, ast.Call) and isinstance(n.func, ast.Attribute):
                t = n.func.value
                while isinstance(t, (ast.Attribute, ast.Subscript)):
                    t = t.value
                if isinstance(t, ast.Name) and n.func.attr not in ('_find_setting_reference', 'ansi_settings_at', 'keys'):
                    names.append(t.id)
            for x in names:
                if x in env and x not in state and x not in ('__class__', 'math'):
                    state.append(x)
                elif x not in env:
                    used_later = any(isinstance(m, ast.Name) and m.id == x for r in rest for m in ast.walk(r))
                    if used_later:
                        return None
        if not state:
            return None
        if any(env[x] == 'obj' and x == 'self' for x in state) and self.aliased:
            return None
        tup = state[0] if len(state) == 1 else '(' + ', '.join(mangle(x) for x in state) + ')'
        tup = mangle(tup) if len(state) == 1 else tup
        c = self.b(st.test, env)
        pre = self.pre(p)
        kk = lambda e2, i2: '  ' * i2 + '.ok %s' % tup
        a = self.block(st.body, dict(env), kk, ind + 1)
        b_ = self.block(st.orelse, dict(env), kk, ind + 1)
        tty = ' × '.join(LEAN_T[env[x]] for x in state)
        return '%s%s((if %s then\n%s\n%selse\n%s) : Except Exc (%s)).bind fun %s =>\n%s' % (pre, p, c, a, p, b_, tty, tup, K(env, ind))

    def ret_self(self, env):
        if self.aliased:
            raise Unsupported('procedure end after an alias')
        return 'self'

    def bind(self, call, sig, env):
        """arguments of a call to a translated method, in the callee's parameter order"""
        given = {}
        names = [n for n, _, _ in sig.params]
        if len(call.args) > len(names) or any(isinstance(a, ast.Starred) for a in call.args):
            raise Unsupported('call ' + ast.unparse(call))
        for n, a in zip(names, call.args):
            given[n] = a
        for k in call.keywords:
            if k.arg is None or k.arg not in names or k.arg in given:
                raise Unsupported('call ' + ast.unparse(call))
            given[k.arg] = k.value
        out = []
        for n, t, d in sig.params:
            e = given.get(n, d)
            if e is None:
                raise Unsupported('missing argument %s' % n)
            if t in BASE_OF:
                out.append(self.as_opt(e, env if n in given else {}, t))
            else:
                out.append(self.typed(e, env if n in given else {}, t))
        for n, t in getattr(sig, 'extra', []):
            # bookkeeping parameters of the translation (the fresh-identity counter): handed on under the same name
            if env.get(n) != t:
                raise Unsupported('the callee needs %s' % n)
            out.append(mangle(n))
        return out

    def as_opt(self, e, env, t):
        """an argument for an optional parameter: `None`, a value of the base type, or an optional variable"""
        if isinstance(e, ast.Constant) and e.value is None:
            return '(none : %s)' % LEAN_T[t]
        a, ta = self.ex(e, env)
        if ta == t:
            return a
        if ta == BASE_OF[t]:
            return '(some %s)' % a
        raise Unsupported('%s expected: %s' % (t, ast.unparse(e)))

    def lean(self, name, doc, after=None, entry=None, after_store=None):
        """whole method, or — `after`/`entry` given — the statements that follow the first top-level
        `<x> = ….<after>(…)`, as a function of `self` and the variables `entry` = [(name, type)] live there"""
        body = self.fn.body
        outline = getattr(self, 'outline', None)
        if after is None and after_store is None:
            env = {'self': 'obj'}
            for n, t, _ in self.sig.params:
                env[n] = t
            params = [(n, t) for n, t, _ in self.sig.params]
            for n, t in getattr(self, 'extra', []):
                env[n] = t
                params.append((n, t))
            if outline:
                # the statements up to (and including) the marked one; what follows is the separately translated
                # function `outline['call']` of the variables `outline['entry']`
                mark = outline['after_store']
                idx = None
                for i, st in enumerate(body):
                    if mark.startswith('ifany:') and isinstance(st, ast.If) \
                            and any(isinstance(x, ast.Assign) and len(x.targets) == 1 and ast.unparse(x.targets[0]) == mark[6:] for x in ast.walk(st)):
                        idx = i
                        break
                if idx is None:
                    raise Unsupported('no statement %s' % mark)
                body = body[:idx + 1]
                def tail(e, i):
                    for n_, t_ in outline['entry']:
                        if e.get(n_) != t_:
                            raise Unsupported('%s is not available where %s takes over' % (n_, outline['call']))
                    if self.aliased and False:
                        pass
                    return '  ' * i + '(%s %s %s)' % (outline['call'], 'self', ' '.join(mangle(n_) for n_, _ in outline['entry']))
                text = self.block(body, env, tail, 1)
                rty = {'str': 'Except Exc Str'}.get(getattr(self, 'ret', None), 'Except Exc AStr')
                ps = ' '.join('(%s : %s)' % (mangle(n), LEAN_T[t]) for n, t in params)
                return '/-- %s -/\ndef %s (self : AStr) %s : %s :=\n%s\ndef %sOk : Bool := true\n' % (doc, name, ps, rty, text, name)
        else:
            idx = None
            for i, st in enumerate(body):
                if after_store and isinstance(st, ast.Assign) and len(st.targets) == 1 and ast.unparse(st.targets[0]) == after_store:
                    idx = i
                    break
                if after_store and after_store.startswith('ifany:') and isinstance(st, ast.If) \
                        and any(isinstance(x, ast.Assign) and len(x.targets) == 1 and ast.unparse(x.targets[0]) == after_store[6:]
                                for x in ast.walk(st)):
                    idx = i
                    break
                if after_store and after_store.startswith('if:') and isinstance(st, ast.If) and st.orelse \
                        and all(any(isinstance(x, ast.Assign) and len(x.targets) == 1 and ast.unparse(x.targets[0]) == after_store[3:]
                                    for x in br) for br in (st.body, st.orelse)):
                    idx = i
                    break
                if after_store:
                    continue
                if isinstance(st, ast.Assign) and len(st.targets) == 1 and isinstance(st.targets[0], ast.Name) \
                        and isinstance(st.value, ast.Call) and isinstance(st.value.func, ast.Attribute) and st.value.func.attr == after:
                    if dict(entry).get(st.targets[0].id) != 'slist':
                        raise Unsupported('result of %s is not bound to an entry variable' % after)
                    idx = i
                    break
            if idx is None:
                raise Unsupported('no call of %s' % (after or after_store))
            body = body[idx + 1:]
            env = {'self': 'obj'}
            env.update(dict(entry))
            params = list(entry)
        if getattr(self, 'ret', None) in ('olist', 'otriple'):
            text = self.block(body, env, lambda e, i: (_ for _ in ()).throw(Unsupported('falls off the end')), 1)
            rty = 'Except Exc (List AStr)' if self.ret == 'olist' else 'Except Exc (AStr × AStr × AStr)'
        elif getattr(self, 'ret', None) == 'str':
            text = self.block(body, env, lambda e, i: (_ for _ in ()).throw(Unsupported('falls off the end')), 1)
            rty = 'Except Exc Str'
        elif getattr(self, 'ret', None) == 'optpair':
            text = self.block(body, env, lambda e, i: (_ for _ in ()).throw(Unsupported('falls off the end')), 1)
            rty = 'Except Exc (Option Int × Option Int)'
        elif getattr(self, 'ret', None) == 'slist':
            text = self.block(body, env, lambda e, i: (_ for _ in ()).throw(Unsupported('falls off the end')), 1)
            rty = 'Except Exc (List Setting)'
        else:
            text = self.block(body, env, lambda e, i: '  ' * i + '.ok %s' % self.ret_self(e), 1)
            rty = 'Except Exc AStr'
        ps = ' '.join('(%s : %s)' % (mangle(n), LEAN_T[t]) for n, t in params)
        return '/-- %s -/\ndef %s (self : AStr) %s : %s :=\n%s\ndef %sOk : Bool := true\n' % (doc, name, ps, rty, text, name)

    def lean_block(self, name, doc, first_target, until_if, entry, result):
        """the statements from `<first_target> = …` up to (excluding) `if <until_if>:` — wherever in the method they are —
        as a function of the variables `entry`, yielding the pair of lists `result`"""
        found = None
        for n in ast.walk(self.fn):
            for fld in ('body', 'orelse'):
                lst = getattr(n, fld, None)
                if not isinstance(lst, list):
                    continue
                for i, st in enumerate(lst):
                    if isinstance(st, ast.Assign) and len(st.targets) == 1 and isinstance(st.targets[0], ast.Name) and st.targets[0].id == first_target:
                        for j in range(i + 1, len(lst)):
                            if isinstance(lst[j], ast.If) and isinstance(lst[j].test, ast.Name) and lst[j].test.id == until_if:
                                found = lst[i:j]
                                break
                    if found:
                        break
                if found:
                    break
            if found:
                break
        if not found:
            raise Unsupported('no block from %s to `if %s`' % (first_target, until_if))
        env = dict(entry)
        def fin(e, i):
            for r_ in result:
                if e.get(r_) != 'slist':
                    raise Unsupported('%s is not a list of settings at the end of the block' % r_)
            return '  ' * i + '.ok (%s)' % ', '.join(mangle(r_) for r_ in result)
        text = self.block(found, env, fin, 1)
        ps = ' '.join('(%s : %s)' % (mangle(n), LEAN_T[t]) for n, t in entry)
        return '/-- %s -/\ndef %s %s : Except Exc (%s) :=\n%s\ndef %sOk : Bool := true\n' % (
            doc, name, ps, ' × '.join('List Setting' for _ in result), text, name)

    def lean_iter(self, name, doc, after_target, entry):
        """`_AnsiSettingsIterator.__next__` from the statement after `<after_target> = …` on: a function of the
        variables `entry` (the iterator's `current_settings` among them) that yields the new `current_settings`"""
        body, idx = self.fn.body, None
        for i, st in enumerate(body):
            if isinstance(st, ast.Assign) and len(st.targets) == 1 and isinstance(st.targets[0], ast.Name) and st.targets[0].id == after_target:
                idx = i
                break
        if idx is None:
            raise Unsupported('no assignment to ' + after_target)
        env = {'self': 'iter'}
        env.update(dict(entry))
        self.ret = 'slist'
        text = self.block(body[idx + 1:], env, lambda e, i: (_ for _ in ()).throw(Unsupported('falls off the end')), 1)
        ps = ' '.join('(%s : %s)' % (mangle(n), LEAN_T[t]) for n, t in entry)
        return '/-- %s -/\ndef %s %s : Except Exc (List Setting) :=\n%s\ndef %sOk : Bool := true\n' % (doc, name, ps, text, name)


class PointSig:
    point = True

    def __init__(self, params):
        self.params = params


def point_method(fn, types):
    """a method of `_AnsiSettingPoint` that edits one of its two lists through an alias:

        [if not isinstance(P, list) and not isinstance(P, tuple): P = [P]]     (dropped: P is typed as a list here)
        lst = self.F1 if <bool> else self.F2
        … lst.extend(X) / lst[:0] = X / if/else …

    -> (lean body, PointSig)"""
    a = fn.args
    if a.vararg or a.kwarg or a.kwonlyargs or a.posonlyargs:
        raise Unsupported('signature')
    names = [x.arg for x in a.args][1:]
    defaults = [None] * (len(a.args) - len(a.defaults)) + list(a.defaults)
    params = []
    for x, d in list(zip(a.args, defaults))[1:]:
        if x.arg not in types:
            raise Unsupported('parameter ' + x.arg)
        params.append((x.arg, types[x.arg], d))
    body = [s for s in fn.body if not (isinstance(s, ast.Expr) and isinstance(s.value, ast.Constant))]
    if body and isinstance(body[0], ast.If) and not body[0].orelse and 'isinstance' in ast.unparse(body[0].test) and len(body[0].body) == 1 \
            and isinstance(body[0].body[0], ast.Assign) and isinstance(body[0].body[0].value, ast.List) and len(body[0].body[0].value.elts) == 1 \
            and isinstance(body[0].body[0].targets[0], ast.Name) and types.get(body[0].body[0].targets[0].id) == 'slist' \
            and ast.unparse(body[0].body[0].value.elts[0]) == body[0].body[0].targets[0].id:
        body = body[1:]
    env = {n: t for n, t, _ in params}

    def bexp(e):
        if isinstance(e, ast.Name) and env.get(e.id) == 'bool':
            return mangle(e.id)
        if isinstance(e, ast.UnaryOp) and isinstance(e.op, ast.Not):
            return '(!%s)' % bexp(e.operand)
        raise Unsupported(ast.unparse(e))

    def lexp(e):
        if isinstance(e, ast.Name) and env.get(e.id) == 'slist':
            return mangle(e.id)
        raise Unsupported(ast.unparse(e))

    def blk(stmts, alias, ind):
        p = '  ' * ind
        if not stmts:
            return p + 'p'
        st, rest = stmts[0], stmts[1:]
        if isinstance(st, ast.Assign) and len(st.targets) == 1 and isinstance(st.targets[0], ast.Name) and isinstance(st.value, ast.IfExp) \
                and alias is None:
            v = st.value
            fs = []
            for x in (v.body, v.orelse):
                if isinstance(x, ast.Attribute) and isinstance(x.value, ast.Name) and x.value.id == 'self' and x.attr in ('add', 'rem'):
                    fs.append(x.attr)
            if len(fs) == 2:
                nm = st.targets[0].id
                return '%sif %s then\n%s\n%selse\n%s' % (p, bexp(v.test), blk(rest, (nm, fs[0]), ind + 1), p, blk(rest, (nm, fs[1]), ind + 1))
        if isinstance(st, ast.If):
            return '%sif %s then\n%s\n%selse\n%s' % (p, bexp(st.test), blk(st.body + rest, alias, ind + 1), p, blk(st.orelse + rest, alias, ind + 1))
        if alias is not None:
            nm, f = alias
            if isinstance(st, ast.Expr) and isinstance(st.value, ast.Call) and isinstance(st.value.func, ast.Attribute) \
                    and st.value.func.attr == 'extend' and isinstance(st.value.func.value, ast.Name) and st.value.func.value.id == nm \
                    and len(st.value.args) == 1 and not st.value.keywords:
                return '%slet p : Point := { p with %s := p.%s ++ %s }\n%s' % (p, f, f, lexp(st.value.args[0]), blk(rest, alias, ind))
            if isinstance(st, ast.Assign) and len(st.targets) == 1 and isinstance(st.targets[0], ast.Subscript) \
                    and isinstance(st.targets[0].value, ast.Name) and st.targets[0].value.id == nm and isinstance(st.targets[0].slice, ast.Slice):
                sl = st.targets[0].slice
                zero = lambda x: x is None or (isinstance(x, ast.Constant) and x.value == 0 and not isinstance(x.value, bool))
                if sl.step is None and zero(sl.lower) and isinstance(sl.upper, ast.Constant) and sl.upper.value == 0 and not isinstance(sl.upper.value, bool):
                    return '%slet p : Point := { p with %s := %s ++ p.%s }\n%s' % (p, f, lexp(st.value), f, blk(rest, alias, ind))
        raise Unsupported(ast.unparse(st).split('\n')[0])

    return blk(body, None, 1), PointSig(params)


def lean_name(py):
    parts = [x for x in py.strip('_').split('_') if x]
    return parts[0] + ''.join(x.capitalize() for x in parts[1:])


def translate(fns, order, point_fns=None, iter_fns=None, with_assertions=False, have=()):
    """fns: name -> ast.FunctionDef of class AnsiString; point_fns: the same for `_AnsiSettingPoint`;
    order: entries, callees first — a method name, or a dict(py=…, lean=…, after=…, entry=[(name, type)…])
    for a suffix, or dict(py=…, point=True, types={param: type}) for a point method -> Lean source"""
    out, sigs, names = [], {x: True for x in have}, []
    for spec in order:
        if isinstance(spec, str):
            spec = dict(py=spec)
        nm = spec['py']
        ln = spec.get('lean') or lean_name(nm)
        names.append(ln)
        if spec.get('point'):
            fn = (point_fns or {}).get(nm)
            doc = '`_AnsiSettingPoint.%s`, statement by statement (the parameter `settings` is a list here)' % nm
            ps = ' '.join('(%s : %s)' % (mangle(n), LEAN_T[t]) for n, t in spec['types'].items())
            try:
                if fn is None:
                    raise Unsupported('no such method')
                body, sig = point_method(fn, spec['types'])
                ps = ' '.join('(%s : %s)' % (mangle(n), LEAN_T[t]) for n, t, _ in sig.params)
                out.append('/-- %s -/\ndef %s (p : Point) %s : Point :=\n%s\ndef %sOk : Bool := true\n' % (doc, ln, ps, body, ln))
                sigs[nm] = sig
            except Exception as e:   # noqa: anything the translator cannot do, whatever the reason
                out.append('/-- %s — NOT TRANSLATED (%s) -/\ndef %s (p : Point) %s : Point := p\ndef %sOk : Bool := false\n'
                           % (doc, (type(e).__name__ + ': ' + str(e)).replace('-/', '').replace('\n', ' ')[:300], ln, ' '.join('(_%s : %s)' % (n, LEAN_T[t]) for n, t in spec['types'].items()), ln))
            continue
        if spec.get('iter'):
            fn = (iter_fns or {}).get(nm)
            doc = '`_AnsiSettingsIterator.%s` after `%s = …`: the new `current_settings`, statement by statement' % (nm, spec['after_target'])
            try:
                if fn is None:
                    raise Unsupported('no such method')
                m = M.__new__(M)
                m.fn, m.sigs, m.aliased, m.pending, m.nread, m.sig, m.join = fn, dict(sigs), False, [], 0, None, False
                out.append(m.lean_iter(ln, doc, spec['after_target'], spec['entry']))
                sigs[ln] = True
            except Exception as e:   # noqa
                out.append('/-- %s — NOT TRANSLATED (%s) -/\ndef %s %s : Except Exc (List Setting) := .error .outside\ndef %sOk : Bool := false\n'
                           % (doc, (type(e).__name__ + ': ' + str(e)).replace('-/', '').replace('\n', ' ')[:300], ln, ' '.join('(_%s : %s)' % (n, LEAN_T[t]) for n, t in spec['entry']), ln))
            continue
        if spec.get('block'):
            fn = fns.get(nm)
            b0, b1 = spec['block']
            doc = '`AnsiString.%s`: the statements from `%s = …` up to `if %s:`, statement by statement' % (nm, b0, b1)
            try:
                if fn is None:
                    raise Unsupported('no such method')
                m = M.__new__(M)
                m.fn, m.sigs, m.aliased, m.pending, m.nread, m.sig, m.join = fn, dict(sigs), False, [], 0, None, False
                out.append(m.lean_block(ln, doc, b0, b1, spec['entry'], spec['result']))
            except Exception as e:   # noqa
                out.append('/-- %s — NOT TRANSLATED (%s) -/\ndef %s %s : Except Exc (%s) := .error .outside\ndef %sOk : Bool := false\n'
                           % (doc, (type(e).__name__ + ': ' + str(e)).replace('-/', '').replace('\n', ' ')[:300], ln,
                              ' '.join('(_%s : %s)' % (n, LEAN_T[t]) for n, t in spec['entry']), ' × '.join('List Setting' for _ in spec['result']), ln))
            continue
        fn = fns.get(nm)
        doc = '`AnsiString.%s`, statement by statement' % nm
        if spec.get('after'):
            doc = '`AnsiString.%s`: the statements after the call of `%s`, statement by statement' % (nm, spec['after'])
        if spec.get('after_store'):
            doc = '`AnsiString.%s`: the statements after `%s = …`, statement by statement' % (nm, spec['after_store'])
        try:
            if fn is None:
                raise Unsupported('no such method')
            if spec.get('after') or spec.get('after_store'):
                m = M.__new__(M)
                m.fn, m.sigs, m.aliased, m.pending, m.nread = fn, dict(sigs), False, [], 0
                m.sig = None
                m.join = bool(spec.get('join'))
                m.with_assertions = with_assertions
                if spec.get('ret'):
                    m.ret = spec['ret']
                out.append(m.lean(ln, doc, spec.get('after'), spec['entry'], spec.get('after_store')))
            else:
                m = M(fn, dict(sigs), spec.get('types'), spec.get('extra'))
                m.join = bool(spec.get('join'))
                m.outline = spec.get('outline')
                m.with_assertions = with_assertions
                if spec.get('ret'):
                    m.ret = spec['ret']
                out.append(m.lean(ln, doc))
                if not spec.get('ret'):
                    m.sig.extra = list(spec.get('extra') or [])
                    m.sig.lean = ln
                    sigs[nm] = m.sig
        except Exception as e:   # noqa
            ps = ''
            try:
                if spec.get('after') or spec.get('after_store'):
                    ps = ' '.join('(_%s : %s)' % (n, LEAN_T[t]) for n, t in spec['entry'])
                else:
                    ps = ' '.join('(_%s : %s)' % (n, LEAN_T[t]) for n, t, _ in Sig(fn).params) if fn is not None else ''
            except Exception:   # noqa
                ps = ''
            out.append(('/-- %s — NOT TRANSLATED (%s) -/\ndef %s (_self : AStr) %s : Except Exc ' + {'slist': '(List Setting)', 'optpair': '(Option Int × Option Int)', 'str': 'Str', 'olist': '(List AStr)', 'otriple': '(AStr × AStr × AStr)'}.get(spec.get('ret'), 'AStr') + ' := .error .outside\ndef %sOk : Bool := false\n')
                       % (doc, (type(e).__name__ + ': ' + str(e)).replace('-/', '').replace('\n', ' ')[:300], ln, ps, ln))
    return list(zip(names, out))
