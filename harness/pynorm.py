"""Source-level normalisation applied to the parsed tree before the statement translators (pyobj.py, pyparse.py) see it.

Each rule replaces a statement form by one with exactly the same behaviour for every state (same evaluations in the
same order), so the translated function still says what the source says; the rules only reduce the number of shapes
the translators and the `*_is_code` proof scripts have to know:

  R1  x = A if c else B            ->  if c: x = A
                                       else: x = B                  (single plain-name target; not when both A and B are attributes:
                                                                    an alias of one of two mutable fields has its own
                                                                    treatment in pyobj.point_method)
  R1b if c: x = o.A                ->  x = o.A if c else o.B        (the converse, for exactly the attribute case R1 leaves alone)
      else: x = o.B
  R2  in a loop body:  if c: continue      ->  if not c:
                       rest…                       rest…            (the `if` has no else, `rest` is not empty)
  R2b in a loop body:  if not c: break     ->  if c:
                       rest…                       rest…
                                               else:
                                                   break            (only for a test that is a negation)
  R3  x = x + k,  x = x - k        ->  x += k,  x -= k              (plain name, k an integer literal: for every type of
                                                                    x both forms give the same value or the same
                                                                    exception class, and no list is extended in place)
"""
import ast


class _Norm(ast.NodeTransformer):
    def visit_Assign(self, node):
        self.generic_visit(node)
        if len(node.targets) == 1 and isinstance(node.targets[0], ast.Name) and isinstance(node.value, ast.BinOp) \
                and isinstance(node.value.op, (ast.Add, ast.Sub)) and isinstance(node.value.left, ast.Name) \
                and node.value.left.id == node.targets[0].id and isinstance(node.value.right, ast.Constant) \
                and type(node.value.right.value) is int:
            return ast.copy_location(ast.AugAssign(target=ast.Name(id=node.targets[0].id, ctx=ast.Store()),
                                                   op=node.value.op, value=node.value.right), node)
        if len(node.targets) == 1 and isinstance(node.targets[0], ast.Name) and isinstance(node.value, ast.IfExp) \
                and not (isinstance(node.value.body, ast.Attribute) and isinstance(node.value.orelse, ast.Attribute)):
            v = node.value
            mk = lambda val: ast.Assign(targets=[ast.Name(id=node.targets[0].id, ctx=ast.Store())], value=val, lineno=node.lineno)
            return ast.copy_location(ast.If(test=v.test, body=[mk(v.body)], orelse=[mk(v.orelse)]), node)
        return node

    def visit_If(self, node):
        self.generic_visit(node)
        if len(node.body) == 1 and len(node.orelse) == 1:
            a, b = node.body[0], node.orelse[0]
            if all(isinstance(x, ast.Assign) and len(x.targets) == 1 and isinstance(x.targets[0], ast.Name)
                   and isinstance(x.value, ast.Attribute) for x in (a, b)) and a.targets[0].id == b.targets[0].id:
                return ast.copy_location(ast.Assign(targets=[ast.Name(id=a.targets[0].id, ctx=ast.Store())],
                                                    value=ast.IfExp(test=node.test, body=a.value, orelse=b.value), lineno=node.lineno), node)
        return node

    def _loop_body(self, body):
        for k, st in enumerate(body):
            if isinstance(st, ast.If) and not st.orelse and len(st.body) == 1 and isinstance(st.body[0], ast.Continue) \
                    and k + 1 < len(body):
                rest = self._loop_body(body[k + 1:])
                neg = ast.UnaryOp(op=ast.Not(), operand=st.test)
                return body[:k] + [ast.copy_location(ast.If(test=neg, body=rest, orelse=[]), st)]
            if isinstance(st, ast.If) and not st.orelse and len(st.body) == 1 and isinstance(st.body[0], ast.Break) \
                    and k + 1 < len(body) and isinstance(st.test, ast.UnaryOp) and isinstance(st.test.op, ast.Not):
                rest = self._loop_body(body[k + 1:])
                return body[:k] + [ast.copy_location(ast.If(test=st.test.operand, body=rest, orelse=[ast.Break()]), st)]
        return body

    def visit_For(self, node):
        self.generic_visit(node)
        node.body = self._loop_body(node.body)
        return node

    def visit_While(self, node):
        self.generic_visit(node)
        node.body = self._loop_body(node.body)
        return node


def normalize(tree):
    tree = _Norm().visit(tree)
    ast.fix_missing_locations(tree)
    return ast.parse(ast.unparse(tree))
