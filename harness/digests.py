"""Digests of the normalised AST of every function of the library (docstrings and annotations
dropped).  `changed(repo)` lists the functions whose digest differs from harness/baseline_digests.json
(written by tools/baseline.py for the tree the model was last validated against).

No verdict depends on this: a changed function only makes the check search harder (more histories,
the small-scope exhaustive enumeration also in the quick tier)."""
import ast, hashlib, json, os

MODULES = ['ansi_string.py', 'ansi_format.py', 'ansi_param.py', 'ansi_parsing.py', 'utils.py', '__init__.py']
BASELINE = os.path.join(os.path.dirname(os.path.abspath(__file__)), 'baseline_digests.json')


def _strip(node):
    for n in ast.walk(node):
        if isinstance(n, (ast.FunctionDef, ast.AsyncFunctionDef, ast.ClassDef, ast.Module)):
            body = [s for s in n.body if not (isinstance(s, ast.Expr) and isinstance(s.value, ast.Constant) and isinstance(s.value.value, str))]
            n.body = body or [ast.Pass()]
        if isinstance(n, (ast.FunctionDef, ast.AsyncFunctionDef)):
            n.returns = None
            for a in n.args.posonlyargs + n.args.args + n.args.kwonlyargs + [x for x in (n.args.vararg, n.args.kwarg) if x]:
                a.annotation = None
    return node


def _h(node):
    return hashlib.sha256(ast.dump(node, annotate_fields=False, include_attributes=False).encode()).hexdigest()[:16]


def digests(repo):
    out = {}
    for m in MODULES:
        path = os.path.join(repo, 'src', 'ansi_string', m)
        if not os.path.exists(path):
            out[m] = 'missing'
            continue
        try:
            tree = _strip(ast.parse(open(path).read()))
        except SyntaxError:
            out[m] = 'syntax-error'
            continue
        rest = []
        for c in tree.body:
            if isinstance(c, ast.ClassDef):
                crest = []
                for f in c.body:
                    if isinstance(f, (ast.FunctionDef, ast.AsyncFunctionDef)):
                        out['%s:%s.%s' % (m, c.name, f.name)] = _h(f)
                    else:
                        crest.append(f)
                out['%s:%s.<class body>' % (m, c.name)] = hashlib.sha256(
                    ('|'.join(ast.dump(x, annotate_fields=False) for x in crest) + ast.dump(ast.Module(body=[ast.Expr(b) for b in c.bases], type_ignores=[]))).encode()).hexdigest()[:16]
            elif isinstance(c, (ast.FunctionDef, ast.AsyncFunctionDef)):
                out['%s:%s' % (m, c.name)] = _h(c)
            else:
                rest.append(c)
        out['%s:<module body>' % m] = hashlib.sha256('|'.join(ast.dump(x, annotate_fields=False) for x in rest).encode()).hexdigest()[:16]
    return out


def changed(repo):
    """names whose digest differs from the baseline (added and removed ones included); None = no baseline"""
    if not os.path.exists(BASELINE):
        return None
    base = json.load(open(BASELINE))
    now = digests(repo)
    return sorted(k for k in set(base) | set(now) if base.get(k) != now.get(k))


if __name__ == '__main__':
    import sys
    print(json.dumps(changed(sys.argv[1] if len(sys.argv) > 1 else '/repo'), indent=1))
