"""Python -> Lean translation of small integer-valued functions (part of translate.py's output).

Subset: parameters that are ints or `None`-able ints (a parameter tested with `is None` becomes an
`Option Int` and is matched on), local assignments, `if/elif/else`, `return`; expressions over
`+ - *`, comparisons, `and/or/not`, `min`, `max`, unary minus, integer literals, `len(self._s)`
(a parameter `len_s` of the generated function).  Statements after an `if` whose branches do not all
return are duplicated into the branches, so reassignment of a local is a shadowing `let`.

Anything outside the subset raises Unsupported; the caller then emits `<name>Ok := false` and a
dummy body, and the theorem that ties the function to the model no longer checks.
"""
import ast


class Unsupported(Exception):
    pass


class Fn:
    def __init__(self, fn, extra_len_param=True):
        self.fn = fn
        args = fn.args
        if args.vararg or args.kwarg or args.kwonlyargs or args.defaults:
            raise Unsupported('signature')
        self.params = [a.arg for a in args.args]
        if self.params and self.params[0] == 'self':
            self.params = self.params[1:]
        self.optional = set()
        for n in ast.walk(fn):
            nt = Fn.none_test(self, n) if isinstance(n, ast.Compare) else None
            if nt is not None and nt[0] in self.params:
                self.optional.add(nt[0])

    # -- expressions (Int) ------------------------------------------------------------------------
    def ex(self, e, env):
        if isinstance(e, ast.Constant) and isinstance(e.value, int) and not isinstance(e.value, bool):
            return '(%d : Int)' % e.value
        if isinstance(e, ast.Name):
            if e.id not in env:
                raise Unsupported('name ' + e.id)
            if env[e.id] == 'opt':
                raise Unsupported('optional used as int: ' + e.id)
            return mangle(e.id)
        if isinstance(e, ast.UnaryOp) and isinstance(e.op, ast.USub):
            return '(-%s)' % self.ex(e.operand, env)
        if isinstance(e, ast.BinOp) and isinstance(e.op, (ast.Add, ast.Sub, ast.Mult)):
            op = {ast.Add: '+', ast.Sub: '-', ast.Mult: '*'}[type(e.op)]
            return '(%s %s %s)' % (self.ex(e.left, env), op, self.ex(e.right, env))
        if isinstance(e, ast.Call) and isinstance(e.func, ast.Name) and e.func.id in ('min', 'max') and len(e.args) == 2 and not e.keywords:
            return '(%s %s %s)' % (e.func.id, self.ex(e.args[0], env), self.ex(e.args[1], env))
        if isinstance(e, ast.Call) and isinstance(e.func, ast.Name) and e.func.id == 'len' and len(e.args) == 1 and not e.keywords \
                and ast.unparse(e.args[0]) == 'self._s':
            return 'len_s'
        if isinstance(e, ast.IfExp):
            return '(if %s then %s else %s)' % (self.cond(e.test, env), self.ex(e.body, env), self.ex(e.orelse, env))
        raise Unsupported(ast.unparse(e))

    # -- conditions (Prop, decidable) -------------------------------------------------------------
    def cond(self, e, env):
        if isinstance(e, ast.BoolOp):
            op = ' ∧ ' if isinstance(e.op, ast.And) else ' ∨ '
            return '(' + op.join(self.cond(v, env) for v in e.values) + ')'
        if isinstance(e, ast.UnaryOp) and isinstance(e.op, ast.Not):
            return '(¬ %s)' % self.cond(e.operand, env)
        if isinstance(e, ast.Compare) and len(e.ops) == 1:
            o = e.ops[0]
            ops = {ast.Lt: '<', ast.LtE: '≤', ast.Gt: '>', ast.GtE: '≥', ast.Eq: '=', ast.NotEq: '≠'}
            if type(o) in ops:
                return '(%s %s %s)' % (self.ex(e.left, env), ops[type(o)], self.ex(e.comparators[0], env))
        raise Unsupported('condition ' + ast.unparse(e))

    def none_test(self, e):
        """`x is None` / `None is x` / `x == None` -> (x, True); `x is not None` / … -> (x, False); else None"""
        if isinstance(e, ast.Compare) and len(e.ops) == 1 and isinstance(e.ops[0], (ast.Is, ast.IsNot, ast.Eq, ast.NotEq)):
            l, r = e.left, e.comparators[0]
            if isinstance(l, ast.Constant) and l.value is None:
                l, r = r, l
            if isinstance(l, ast.Name) and isinstance(r, ast.Constant) and r.value is None:
                return l.id, isinstance(e.ops[0], (ast.Is, ast.Eq))
        if isinstance(e, ast.UnaryOp) and isinstance(e.op, ast.Not):
            inner = self.none_test(e.operand)
            if inner is not None:
                return inner[0], not inner[1]
        return None

    # -- statements ------------------------------------------------------------------------------
    def returns(self, stmts):
        """every path through stmts ends in a return"""
        if not stmts:
            return False
        last = stmts[-1]
        if isinstance(last, ast.Return):
            return True
        if isinstance(last, ast.If):
            return self.returns(last.body) and self.returns(last.orelse)
        return False

    def st(self, stmts, env, ind):
        pad = '  ' * ind
        if not stmts:
            raise Unsupported('falls off the end')
        s, rest = stmts[0], stmts[1:]
        if isinstance(s, ast.Expr) and isinstance(s.value, ast.Constant) and isinstance(s.value.value, str):
            return self.st(rest, env, ind)
        if isinstance(s, ast.Return):
            if s.value is None:
                raise Unsupported('bare return')
            return pad + self.ex(s.value, env)
        if isinstance(s, ast.Assign) and len(s.targets) == 1 and isinstance(s.targets[0], ast.Name):
            v = s.targets[0].id
            env2 = dict(env)
            env2[v] = 'int'
            return pad + 'let %s : Int := %s\n' % (mangle(v), self.ex(s.value, env)) + self.st(rest, env2, ind)
        if isinstance(s, ast.If):
            a = list(s.body) + ([] if self.returns(s.body) else rest)
            b = list(s.orelse) + ([] if (s.orelse and self.returns(s.orelse)) else rest)
            nt = self.none_test(s.test)
            if nt is not None:
                x, is_none = nt
                if env.get(x) != 'opt':
                    raise Unsupported('None test on ' + x)
                env_some = dict(env)
                env_some[x] = 'int'
                nb, sb = (a, b) if is_none else (b, a)
                return (pad + 'match %s with\n' % mangle(x) + pad + '| none =>\n' + self.st(nb, env, ind + 1) + '\n'
                        + pad + '| some %s =>\n' % mangle(x) + self.st(sb, env_some, ind + 1))
            return (pad + 'if %s then\n' % self.cond(s.test, env) + self.st(a, env, ind + 1) + '\n' + pad + 'else\n'
                    + self.st(b, env, ind + 1))
        raise Unsupported(ast.unparse(s).split('\n')[0])

    def lean(self, name, doc):
        env = {p: ('opt' if p in self.optional else 'int') for p in self.params}
        sig = ' '.join('(%s : %s)' % (mangle(p), 'Option Int' if p in self.optional else 'Int') for p in self.params)
        body = self.st(list(self.fn.body), env, 1)
        return '/-- %s -/\ndef %s (len_s : Int) %s : Int :=\n%s\n' % (doc, name, sig, body)


RESERVED = {'default', 'end', 'from', 'at', 'in', 'then', 'else', 'if', 'let', 'do', 'fun', 'match', 'with', 'have', 'show', 'open',
            'prefix', 'infix', 'infixl', 'infixr', 'postfix', 'notation', 'macro', 'syntax', 'instance', 'class', 'structure',
            'theorem', 'def', 'where', 'deriving', 'namespace', 'section', 'variable', 'universe', 'import', 'export', 'private',
            'protected', 'partial', 'unsafe', 'mutual', 'inductive', 'abbrev', 'example', 'axiom', 'by', 'calc', 'using', 'return',
            'for', 'unless', 'try', 'catch', 'finally', 'mut', 'Type', 'Prop', 'Sort', 'set_option', 'attribute', 'local', 'scoped', 'omit', 'include'}


def mangle(n):
    if n == '_':
        return 'u_'          # Python's throw-away name is a hole in Lean
    return n + '_' if n in RESERVED else n


def translate(fn, lean_name, doc):
    """-> (lean source, ok)"""
    try:
        f = Fn(fn)
        return f.lean(lean_name, doc) + 'def %sOk : Bool := true\n' % lean_name, True
    except Unsupported as e:
        f = None
        params = [a.arg for a in fn.args.args if a.arg != 'self']
        sig = ' '.join('(_%s : Option Int)' % p for p in params)
        return ('/-- %s — NOT TRANSLATED (%s) -/\ndef %s (_len_s : Int) %s : Int := 0\ndef %sOk : Bool := false\n'
                % (doc, str(e).replace('-/', ''), lean_name, sig, lean_name)), False


# =================================================================================================
# Prefix mode: the guard a method starts with.
#
# The leading statements of a method are translated as long as they stay in the subset (plus calls
# of `self._slice_val_to_idx`, truth tests of object parameters, `return` and `raise`); the result is
# what happens *before* the first statement outside the subset:  0 = that statement is reached,
# 1 = the method has returned, 2 = it has raised.  An object parameter `p` (only ever tested with
# `not p`, `p is None`, `p is not None`, bare `p`) becomes two Booleans `p_none`, `p_truthy`.

class Prefix(Fn):
    def __init__(self, fn, helper='sliceValToIdx'):
        self.fn = fn
        self.helper = helper
        args = fn.args
        if args.vararg or args.kwarg or args.kwonlyargs:
            raise Unsupported('signature')
        self.params = [a.arg for a in args.args if a.arg != 'self']
        # classify parameters
        self.optional = set()
        self.objs = set()
        arith = set()
        for n in ast.walk(fn):
            if isinstance(n, (ast.BinOp, ast.Compare)):
                if isinstance(n, ast.Compare) and len(n.ops) == 1 and isinstance(n.ops[0], (ast.Is, ast.IsNot)):
                    continue
                for m in ast.walk(n):
                    if isinstance(m, ast.Name) and m.id in self.params:
                        arith.add(m.id)
            if isinstance(n, ast.Call) and isinstance(n.func, ast.Attribute) and n.func.attr == '_slice_val_to_idx':
                for a in n.args[:1]:
                    if isinstance(a, ast.Name) and a.id in self.params:
                        self.optional.add(a.id)
                for a in n.args[1:]:
                    for m in ast.walk(a):
                        if isinstance(m, ast.Name) and m.id in self.params:
                            arith.add(m.id)
        for p in self.params:
            if p not in arith and p not in self.optional:
                self.objs.add(p)
        self.optional -= self.objs

    def ex(self, e, env):
        if isinstance(e, ast.Call) and isinstance(e.func, ast.Attribute) and e.func.attr == '_slice_val_to_idx' \
                and isinstance(e.func.value, ast.Name) and e.func.value.id == 'self' and len(e.args) == 2 and not e.keywords:
            a0 = e.args[0]
            if isinstance(a0, ast.Name) and env.get(a0.id) == 'opt':
                first = mangle(a0.id)
            elif isinstance(a0, ast.Constant) and a0.value is None:
                first = 'none'
            else:
                first = '(some %s)' % self.ex(a0, env)
            return '(%s len_s %s %s)' % (self.helper, first, self.ex(e.args[1], env))
        return Fn.ex(self, e, env)

    def cond(self, e, env):
        if isinstance(e, ast.Name) and env.get(e.id) == 'obj':
            return '(%s_truthy = true)' % e.id
        if isinstance(e, ast.UnaryOp) and isinstance(e.op, ast.Not) and isinstance(e.operand, ast.Name) and env.get(e.operand.id) == 'obj':
            return '(%s_truthy = false)' % e.operand.id
        nt = self.none_test(e)
        if nt is not None and env.get(nt[0]) == 'obj':
            return '(%s_none = %s)' % (nt[0], 'true' if nt[1] else 'false')
        return Fn.cond(self, e, env)

    def st(self, stmts, env, ind):
        pad = '  ' * ind
        if not stmts:
            return pad + '(0 : Int)'
        s, rest = stmts[0], stmts[1:]
        try:
            if isinstance(s, ast.Expr) and isinstance(s.value, ast.Constant) and isinstance(s.value.value, str):
                return self.st(rest, env, ind)
            if isinstance(s, ast.Return):
                return pad + '(1 : Int)'
            if isinstance(s, ast.Raise):
                return pad + '(2 : Int)'
            if isinstance(s, ast.Assign) and len(s.targets) == 1 and isinstance(s.targets[0], ast.Name):
                v = s.targets[0].id
                val = self.ex(s.value, env)
                env2 = dict(env)
                env2[v] = 'int'
                return pad + 'let %s : Int := %s\n' % (mangle(v), val) + self.st(rest, env2, ind)
            if isinstance(s, ast.If):
                nt = self.none_test(s.test)
                if nt is not None and env.get(nt[0]) == 'opt':
                    raise Unsupported('None test on an optional int in a guard')
                c = self.cond(s.test, env)
                a = list(s.body) + rest
                b = list(s.orelse) + rest
                return (pad + 'if %s then\n' % c + self.st(a, env, ind + 1) + '\n' + pad + 'else\n' + self.st(b, env, ind + 1))
        except Unsupported:
            pass
        return pad + '(0 : Int)'

    def lean(self, name, doc):
        env = {}
        sig = []
        for p in self.params:
            if p in self.objs:
                env[p] = 'obj'
                sig.append('(%s_none %s_truthy : Bool)' % (p, p))
            elif p in self.optional:
                env[p] = 'opt'
                sig.append('(%s : Option Int)' % mangle(p))
            else:
                env[p] = 'int'
                sig.append('(%s : Int)' % mangle(p))
        body = self.st(list(self.fn.body), env, 1)
        import re as _re
        def mark(m):
            # a parameter the translated part never mentions gets a leading underscore
            nm = m.group(0)
            return nm if _re.search(r'(?<![A-Za-z0-9_])%s(?![A-Za-z0-9_])' % _re.escape(nm), body) else '_' + nm
        sig = [_re.sub(r'[A-Za-z][A-Za-z0-9_]*(?= |\))(?<!Bool)(?<!Int)(?<!Option)', mark, x) for x in sig]
        return '/-- %s -/\ndef %s (len_s : Int) %s : Int :=\n%s\n' % (doc, name, ' '.join(sig), body)


def translate_prefix(fn, lean_name, doc):
    try:
        return Prefix(fn).lean(lean_name, doc)
    except Unsupported as e:
        return '/-- %s — NOT TRANSLATED (%s) -/\ndef %s : Int := 0\n' % (doc, str(e).replace('-/', ''), lean_name)


# =================================================================================================
# Channel arithmetic of `_AnsiControlFn.rgb`: the branch that splits one 24-bit value (natural numbers,
# `&` and `>>`) and the branch that clamps three components (integers, `min`/`max`).

def _nat_ex(e, env):
    if isinstance(e, ast.Constant) and isinstance(e.value, int) and not isinstance(e.value, bool) and e.value >= 0:
        return '(%d : Nat)' % e.value
    if isinstance(e, ast.Name) and e.id in env:
        return mangle(e.id)
    if isinstance(e, ast.BinOp) and isinstance(e.op, (ast.BitAnd, ast.RShift, ast.LShift, ast.BitOr, ast.Add, ast.Mult, ast.FloorDiv, ast.Mod)):
        op = {ast.BitAnd: '&&&', ast.RShift: '>>>', ast.LShift: '<<<', ast.BitOr: '|||', ast.Add: '+', ast.Mult: '*', ast.FloorDiv: '/', ast.Mod: '%'}[type(e.op)]
        return '(%s %s %s)' % (_nat_ex(e.left, env), op, _nat_ex(e.right, env))
    raise Unsupported(ast.unparse(e))


def translate_rgb(fn):
    """-> Lean source for Gen.rgbSplit (Nat -> Nat × Nat × Nat) and Gen.rgbClamp (Int -> Int -> Int -> Int × Int × Int)"""
    def find(fn):
        for n in ast.walk(fn):
            if isinstance(n, ast.If):
                for cand in (n.body, n.orelse):
                    tg = [s.targets[0].id for s in cand if isinstance(s, ast.Assign) and len(s.targets) == 1 and isinstance(s.targets[0], ast.Name)]
                    if tg[-3:] == ['r', 'g', 'b']:
                        yield [s for s in cand if isinstance(s, ast.Assign)][-3:]
    out = []
    ok = True
    try:
        branches = list(find(fn))
        params = [a.arg for a in fn.args.args]
        first = params[0]
        split = [b for b in branches if any(isinstance(m, (ast.BitAnd, ast.RShift)) for s in b for m in ast.walk(s))]
        clamp = [b for b in branches if b not in split]
        if len(split) != 1 or len(clamp) != 1:
            raise Unsupported('branches')
        env = {first: 'nat'}
        exprs = []
        for s_ in split[0]:
            exprs.append(_nat_ex(s_.value, env))
        out.append('/-- `_AnsiControlFn.rgb` with one value: `r, g, b` from the 24-bit value (statements translated as they are) -/\n'
                   'def rgbSplit (%s : Nat) : Nat × Nat × Nat :=\n  (%s, %s, %s)\n' % (mangle(first), exprs[0], exprs[1], exprs[2]))
        f = Fn.__new__(Fn)
        f.params = ['r_or_rgb', 'g', 'b']; f.optional = set()
        envi = {first: 'int', 'g': 'int', 'b': 'int'}
        lets = []
        for s_ in clamp[0]:
            v = s_.targets[0].id
            lets.append('  let %s : Int := %s' % (mangle(v) + "'", f.ex(s_.value, envi)))
        out.append("/-- `_AnsiControlFn.rgb` with three values: each component clamped (statements translated as they are) -/\n"
                   "def rgbClamp (%s : Int) (g : Int) (b : Int) : Int × Int × Int :=\n%s\n  (r', g', b')\n" % (mangle(first), '\n'.join(lets)))
    except (Unsupported, IndexError) as e:
        ok = False
        out = ['def rgbSplit (_v : Nat) : Nat × Nat × Nat := (0, 0, 0)\ndef rgbClamp (_r _g _b : Int) : Int × Int × Int := (0, 0, 0)\n']
    out.append('def rgbChannelsOk : Bool := %s\n' % ('true' if ok else 'false'))
    return '\n'.join(out)
