"""Line protocol shared with lean/Main.lean: encoders for arguments and results.

Everything is integer tokens (strings as `<len> <code points…>`, `N` = None); setting object
identities are renamed to small integers in order of first appearance, separately for the input
line (consistent across all operands of one step) and for the output line.
"""

class IdMap:
    def __init__(self):
        self.m = {}
        self.keep = []          # keep objects alive so that id() stays unique

    def get(self, obj):
        k = self.m.get(id(obj))
        if k is None:
            k = len(self.m) + 1 if self.base1 else len(self.m)
            self.m[id(obj)] = k
            self.keep.append(obj)
        return k
    base1 = False


class InIds(IdMap):
    base1 = True                # input ids start at 1 (0 is never a real id)


def e_str(s):
    return [len(s)] + [ord(c) for c in s]

def e_optstr(s):
    return ['N'] if s is None else e_str(s)

def e_int(i):
    return [int(i)]

def e_optint(i):
    return ['N'] if i is None else [int(i)]

def e_bool(b):
    return [1 if b else 0]

def e_settings(lst, ids):
    out = [len(lst)]
    for s in lst:
        out.append(ids.get(s))
        out += e_str(str(s))
    return out

def e_astr(x, ids):
    """x: AnsiString (the real object); reads the private table."""
    out = e_str(x._s)
    items = sorted(x._fmts.items())
    out.append(len(items))
    for k, p in items:
        out.append(k)
        out += e_settings(p.add, ids)
        out += e_settings(p.rem, ids)
    return out

def e_astrs(lst, ids):
    out = [len(lst)]
    for x in lst:
        out += e_astr(x, ids)
    return out

# ---- settings arguments -------------------------------------------------------------------------
# SArg AST (python side): ('str', s) ('int', i) ('obj', text) ('member', NAME) ('list', [..]) /
# ('tuple', [..]) ('selfref',) ('bad', value)

def e_sarg(a):
    t = a[0]
    if t == 'str':
        return [0] + e_str(a[1])
    if t == 'int':
        return [1, a[1]]
    if t == 'intlike':
        return [1, int(a[1])]             # a bool, an int subclass, an IntEnum member: the code it stands for
    if t == 'obj':
        return [2] + e_str(obj_text(a[1]))
    if t == 'member':
        return [3] + e_str(a[1])
    if t in ('list', 'tuple'):
        out = [4, len(a[1])]
        for x in a[1]:
            out += e_sarg(x)
        return out
    if t == 'selfref':
        return [5]
    if t == 'bad':
        return [6, 1 if a[1] else 0]
    raise ValueError(a)

def obj_text(v):
    """text of AnsiSetting(v) for v a str, an int, or a list/tuple of ints and strs"""
    if isinstance(v, (list, tuple)):
        return ';'.join(str(q) for q in v)
    return str(v)

def e_optsarg(a):
    return ['N'] if a is None else e_sarg(a)

class IntSub(int):
    """an int subclass whose text is not the number: whoever formats the object instead of its value shows it"""
    def __str__(self):
        return 'code<%d>' % int(self)
    __repr__ = __str__
    def __format__(self, spec):
        return 'code<%d>' % int(self)


def build_sarg(a, mod, parent=None):
    """The actual Python object for an SArg AST."""
    t = a[0]
    if t == 'str':
        return a[1]
    if t == 'int':
        return a[1]
    if t == 'intlike':
        if a[2] == 'bool':
            return bool(a[1])
        if a[2] == 'enum':
            import importlib
            return importlib.import_module(mod.AnsiString.__module__.rsplit('.', 1)[0] + '.ansi_param').AnsiParam(a[1])
        return IntSub(a[1])
    if t == 'obj':
        return mod.AnsiSetting(a[1])
    if t == 'member':
        return mod.AnsiFormat[a[1]]
    if t == 'list':
        l = []
        for x in a[1]:
            l.append(build_sarg(x, mod, l))
        return l
    if t == 'tuple':
        # a tuple cannot contain itself; selfref inside a tuple refers to the enclosing list
        return tuple(build_sarg(x, mod, parent) for x in a[1])
    if t == 'selfref':
        return parent
    if t == 'bad':
        return a[1]
    raise ValueError(a)

def line(op, *parts):
    toks = [op]
    for p in parts:
        toks += [str(t) for t in p]
    return ' '.join(toks)

def err_line(e):
    if isinstance(e, IndexError):
        return 'err IndexError'
    if isinstance(e, TypeError):
        return 'err TypeError'
    if isinstance(e, ValueError):
        return 'err ValueError'
    return 'err other:' + type(e).__name__

def ok_astr(x):
    return line('ok', e_astr(x, IdMap()))

def ok_astrs(lst):
    return line('ok', e_astrs(lst, IdMap()))

def ok_str(s):
    return line('ok', e_str(s))

def ok_strs(lst):
    out = [len(lst)]
    for s in lst:
        out += e_str(s)
    return line('ok', out)
