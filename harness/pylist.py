"""Python -> Lean translation of the small list-logic helpers (part of translate.py's output).

The helpers decide *which object* a marker refers to (`is`) or whether every setting has a flag; the
model has hand-written counterparts (`hasId`, `sameRefs`, `findRefs`, `isFormattingValid`, …).  They are
translated here by loop idiom, not by name:

  search loop    for P in IT: if C: return E            then  return D      ->  match IT.find? (fun P => C) with …
  universal loop for P in IT: [for Q in IT2:] if C: return False  then  return True   ->  IT.all (fun P => IT2.all (fun Q => !C))
  collect loop   ACC = []; for P in IT: for Q in IT2: if C: ACC.append(E); return ACC   ->  IT.flatMap (fun P => IT2.filterMap …)
  expressions    all(C for P in zip(A, B)), len(A) == len(B), and/or/not, bool(L), `a is b`, `.add`, `.rem`,
                 `.valid`, `.parsable`, enumerate(L), self._fmts.values(), tuples, integer literals

`x is y` on settings is identity: `x.id == y.id` in the model.  Types come from the small signature table
below (Python has none); bodies come from the source.  Anything outside the idioms raises Unsupported and
the function is emitted as `<name>Ok := false` with a dummy body.
"""
import ast
from pyint import Unsupported, mangle

ATTR = {'valid': 'SettingTxt.valid (%s).txt', 'parsable': 'SettingTxt.parsable (%s).txt', 'add': '(%s).add', 'rem': '(%s).rem'}


class L:
    def __init__(self, fn, params, ret):
        self.fn, self.params, self.ret = fn, params, ret

    def pat(self, t, enum=False):
        """loop target -> Lean pattern; `for i, s in enumerate(L)` iterates `L.zipIdx`, whose pairs are (s, i)"""
        if isinstance(t, ast.Name):
            return mangle(t.id)
        if isinstance(t, ast.Tuple) and len(t.elts) == 2 and all(isinstance(e, ast.Name) for e in t.elts):
            a, b = mangle(t.elts[0].id), mangle(t.elts[1].id)
            return '(%s, %s)' % ((b, a) if enum else (a, b))
        raise Unsupported('loop target')

    def it(self, e):
        """iterable -> (lean expr, is_enumerate)"""
        if isinstance(e, ast.Call) and isinstance(e.func, ast.Name) and e.func.id == 'enumerate' and len(e.args) == 1:
            return '(%s).zipIdx' % self.ex(e.args[0]), True
        if isinstance(e, ast.Call) and isinstance(e.func, ast.Name) and e.func.id == 'zip' and len(e.args) == 2:
            return '((%s).zip (%s))' % (self.ex(e.args[0]), self.ex(e.args[1])), False
        return self.ex(e), False

    def ex(self, e):
        if isinstance(e, ast.Name):
            return mangle(e.id)
        if isinstance(e, ast.Constant) and isinstance(e.value, bool):
            return 'true' if e.value else 'false'
        if isinstance(e, ast.Constant) and isinstance(e.value, int):
            return '(%d : Int)' % e.value if self.ret == 'Int' else str(e.value)
        if isinstance(e, ast.UnaryOp) and isinstance(e.op, ast.USub) and isinstance(e.operand, ast.Constant):
            return '(-%d : Int)' % e.operand.value
        if isinstance(e, ast.UnaryOp) and isinstance(e.op, ast.Not):
            return '(!%s)' % self.ex(e.operand)
        if isinstance(e, ast.BoolOp):
            op = ' && ' if isinstance(e.op, ast.And) else ' || '
            return '(' + op.join(self.ex(v) for v in e.values) + ')'
        if isinstance(e, ast.Compare) and len(e.ops) == 1:
            a, b = e.left, e.comparators[0]
            if isinstance(e.ops[0], ast.Is):
                return '((%s).id == (%s).id)' % (self.ex(a), self.ex(b))
            if isinstance(e.ops[0], ast.IsNot):
                return '((%s).id != (%s).id)' % (self.ex(a), self.ex(b))
            if isinstance(e.ops[0], ast.Eq):
                return '(%s == %s)' % (self.ex(a), self.ex(b))
            if isinstance(e.ops[0], ast.NotEq):
                return '(%s != %s)' % (self.ex(a), self.ex(b))
        if isinstance(e, ast.Attribute):
            if isinstance(e.value, ast.Name) and e.value.id == 'self' and e.attr == '_fmts':
                return 'fmts'
            if isinstance(e.value, ast.Name) and e.value.id == 'self' and e.attr in ('add', 'rem'):
                return 'p.' + e.attr
            if e.attr in ATTR:
                return '(' + ATTR[e.attr] % self.ex(e.value) + ')'
        if isinstance(e, ast.Call) and isinstance(e.func, ast.Attribute) and e.func.attr == 'values' and not e.args:
            return '((%s).map (·.2))' % self.ex(e.func.value)
        if isinstance(e, ast.Call) and isinstance(e.func, ast.Name) and e.func.id == 'len' and len(e.args) == 1:
            return '(%s).length' % self.ex(e.args[0])
        if isinstance(e, ast.Call) and isinstance(e.func, ast.Name) and e.func.id == 'bool' and len(e.args) == 1:
            return '(!(%s).isEmpty)' % self.ex(e.args[0])
        if isinstance(e, ast.Call) and isinstance(e.func, ast.Name) and e.func.id in ('all', 'any') and len(e.args) == 1 \
                and isinstance(e.args[0], (ast.GeneratorExp, ast.ListComp)) and all(not g.ifs and not g.is_async for g in e.args[0].generators):
            inner = self.ex(e.args[0].elt)
            for g in reversed(e.args[0].generators):       # `for P in IT for Q in IT2`: nested, outermost first
                itx, en = self.it(g.iter)
                inner = '(%s.%s (fun %s => %s))' % (itx, e.func.id, self.pat(g.target, en), inner)
            return inner
        if isinstance(e, ast.ListComp) and e.generators and all(not g.is_async for g in e.generators) \
                and all(not g.ifs for g in e.generators[:-1]) and len(e.generators[-1].ifs) <= 1:
            # [E for P in IT for Q in IT2 if C]: nested flatMap, innermost filterMap / map
            g = e.generators[-1]
            itx, en = self.it(g.iter)
            if g.ifs:
                inner = '(%s).filterMap (fun %s => if %s then some %s else none)' % (itx, self.pat(g.target, en), self.ex(g.ifs[0]), self.ex(e.elt))
            else:
                inner = '(%s).map (fun %s => %s)' % (itx, self.pat(g.target, en), self.ex(e.elt))
            for g in reversed(e.generators[:-1]):
                itx, en = self.it(g.iter)
                inner = '(%s).flatMap (fun %s => %s)' % (itx, self.pat(g.target, en), inner)
            return '(' + inner + ')'
        if isinstance(e, ast.Tuple) and len(e.elts) == 2:
            return '(%s, %s)' % (self.ex(e.elts[0]), self.ex(e.elts[1]))
        raise Unsupported(ast.unparse(e))

    # -- loop idioms ------------------------------------------------------------------------------
    def body(self, b):
        b = [s for s in b if not (isinstance(s, ast.Expr) and isinstance(s.value, ast.Constant))]
        # leading guards `if C: return E` (no else) in front of anything recognised below
        if len(b) > 1 and isinstance(b[0], ast.If) and not b[0].orelse and len(b[0].body) == 1 and isinstance(b[0].body[0], ast.Return) \
                and b[0].body[0].value is not None:
            return '(if %s then %s else %s)' % (self.ex(b[0].test), self.ex(b[0].body[0].value), self.body(b[1:]))
        # expression function
        if len(b) == 1 and isinstance(b[0], ast.Return):
            return self.ex(b[0].value)
        # search / universal loop followed by a default return
        if len(b) == 2 and isinstance(b[0], ast.For) and isinstance(b[1], ast.Return) and not b[0].orelse:
            dflt = b[1].value
            # universal: innermost `if C: return False`, default True
            if isinstance(dflt, ast.Constant) and dflt.value is True:
                return self.universal(b[0])
            return self.search(b[0], self.ex(dflt))
        # collect loop
        if len(b) == 3 and isinstance(b[0], ast.Assign) and isinstance(b[0].value, ast.List) and not b[0].value.elts \
                and isinstance(b[1], ast.For) and isinstance(b[2], ast.Return) and isinstance(b[2].value, ast.Name) \
                and isinstance(b[0].targets[0], ast.Name) and b[2].value.id == b[0].targets[0].id:
            return self.collect(b[1], b[0].targets[0].id)
        raise Unsupported('body shape')

    def search(self, loop, dflt):
        itx, en = self.it(loop.iter)
        if len(loop.body) == 1 and isinstance(loop.body[0], ast.If) and not loop.body[0].orelse \
                and len(loop.body[0].body) == 1 and isinstance(loop.body[0].body[0], ast.Return):
            c = self.ex(loop.body[0].test)
            p = self.pat(loop.target, en)
            r = loop.body[0].body[0].value
            rv = self.ex(r)
            if self.ret == 'Int' and isinstance(r, ast.Name):
                rv = '(%s : Int)' % rv
            return 'match (%s).find? (fun %s => %s) with\n  | some %s => %s\n  | none => %s' % (itx, p, c, p, rv, dflt)
        raise Unsupported('search loop')

    def universal(self, loop):
        itx, en = self.it(loop.iter)
        p = self.pat(loop.target, en)
        if len(loop.body) == 1 and isinstance(loop.body[0], ast.For) and not loop.body[0].orelse:
            return '(%s).all (fun %s => %s)' % (itx, p, self.universal(loop.body[0]))
        if len(loop.body) == 1 and isinstance(loop.body[0], ast.If) and not loop.body[0].orelse and len(loop.body[0].body) == 1 \
                and isinstance(loop.body[0].body[0], ast.Return) and isinstance(loop.body[0].body[0].value, ast.Constant) \
                and loop.body[0].body[0].value.value is False:
            return '(%s).all (fun %s => !%s)' % (itx, p, self.ex(loop.body[0].test))
        raise Unsupported('universal loop')

    def collect(self, loop, acc):
        itx, en = self.it(loop.iter)
        p = self.pat(loop.target, en)
        if len(loop.body) == 1 and isinstance(loop.body[0], ast.For) and not loop.body[0].orelse:
            return '(%s).flatMap (fun %s => %s)' % (itx, p, self.collect(loop.body[0], acc))
        if len(loop.body) == 1 and isinstance(loop.body[0], ast.If) and not loop.body[0].orelse and len(loop.body[0].body) == 1:
            st = loop.body[0].body[0]
            if isinstance(st, ast.Expr) and isinstance(st.value, ast.Call) and isinstance(st.value.func, ast.Attribute) \
                    and st.value.func.attr == 'append' and isinstance(st.value.func.value, ast.Name) and st.value.func.value.id == acc \
                    and len(st.value.args) == 1:
                return '(%s).filterMap (fun %s => if %s then some %s else none)' % (itx, p, self.ex(loop.body[0].test), self.ex(st.value.args[0]))
        raise Unsupported('collect loop')

    def lean(self, name, doc):
        sig = ' '.join('(%s : %s)' % (mangle(p), t) for p, t in self.params)
        return '/-- %s -/\ndef %s %s : %s :=\n  %s\ndef %sOk : Bool := true\n' % (doc, name, sig, self.ret, self.body(self.fn.body), name)


def translate(fn, name, params, ret, doc):
    try:
        return L(fn, params, ret).lean(name, doc)
    except Unsupported as e:
        sig = ' '.join('(_%s : %s)' % (p, t) for p, t in params)
        dummy = {'Int': '0', 'Bool': 'false'}.get(ret, '[]')
        return '/-- %s — NOT TRANSLATED (%s) -/\ndef %s %s : %s := %s\ndef %sOk : Bool := false\n' % (doc, str(e).replace('-/', ''), name, sig, ret, dummy, name)
