/-
  AnsiSpec.Terminal — a conforming SGR terminal over the effect groups the properties name.
  Hand-written from the SGR standard's reading, independent of the library and of the model
  (own code table, own tokenizer).  `harness/terminal.py` is its Python twin; the two are
  compared on every rendering a check run produces.

  One value per group: bold and faint exclude each other, so do single and double underline.
  Code 10 (default font) *clears* the font group.
-/

namespace Term

inductive Group where
  | boldness | italics | underline | overline | blinking | swap | visibility | crossedOut
  | font | spacing | boxing | fg | bg | ulColor
  deriving DecidableEq, Repr, Inhabited

def allGroups : List Group :=
  [.boldness, .italics, .underline, .overline, .blinking, .swap, .visibility, .crossedOut,
   .font, .spacing, .boxing, .fg, .bg, .ulColor]

inductive Action where
  | reset
  | set (g : Group)
  | clear (g : Group)
  | ext (g : Group)
  deriving DecidableEq, Repr

/-- what SGR parameter `c` does -/
def specEffect (c : Nat) : Option Action :=
  if c = 0 then some .reset
  else if c = 1 ∨ c = 2 then some (.set .boldness)
  else if c = 3 then some (.set .italics)
  else if c = 4 ∨ c = 21 then some (.set .underline)
  else if c = 5 ∨ c = 6 then some (.set .blinking)
  else if c = 7 then some (.set .swap)
  else if c = 8 then some (.set .visibility)
  else if c = 9 then some (.set .crossedOut)
  else if c = 10 then some (.clear .font)
  else if 11 ≤ c ∧ c ≤ 20 then some (.set .font)
  else if c = 22 then some (.clear .boldness)
  else if c = 23 then some (.clear .italics)
  else if c = 24 then some (.clear .underline)
  else if c = 25 then some (.clear .blinking)
  else if c = 26 then some (.set .spacing)
  else if c = 27 then some (.clear .swap)
  else if c = 28 then some (.clear .visibility)
  else if c = 29 then some (.clear .crossedOut)
  else if (30 ≤ c ∧ c ≤ 37) ∨ (90 ≤ c ∧ c ≤ 97) then some (.set .fg)
  else if c = 38 then some (.ext .fg)
  else if c = 39 then some (.clear .fg)
  else if (40 ≤ c ∧ c ≤ 47) ∨ (100 ≤ c ∧ c ≤ 107) then some (.set .bg)
  else if c = 48 then some (.ext .bg)
  else if c = 49 then some (.clear .bg)
  else if c = 50 then some (.clear .spacing)
  else if c = 51 ∨ c = 52 then some (.set .boxing)
  else if c = 53 then some (.set .overline)
  else if c = 54 then some (.clear .boxing)
  else if c = 55 then some (.clear .overline)
  else if c = 58 then some (.ext .ulColor)
  else if c = 59 then some (.clear .ulColor)
  else none

abbrev Val := List Nat

/-- terminal state: the value shown for each group (`none` = default) -/
abbrev TState := Group → Option Val

def default : TState := fun _ => none

def TState.put (t : TState) (g : Group) (v : Val) : TState := fun g' => if g' = g then some v else t g'
def TState.drop (t : TState) (g : Group) : TState := fun g' => if g' = g then none else t g'
def TState.toList (t : TState) : List (Group × Val) := allGroups.filterMap (fun g => (t g).map (fun v => (g, v)))

/-- feed a parameter list, left to right (`none` = a parameter that is not a number: ignored).
    38/48/58 followed by `5;n` = indexed colour, by `2;r;g;b` = direct colour (values above 255:
    the group is consumed and sets nothing); followed by 5 or 2 with too few values = the rest of
    the list is the incomplete group; followed by anything else = the lone code is ignored. -/
def feed : TState → List (Option Nat) → TState
  | t, [] => t
  | t, none :: rest => feed t rest
  | t, some c :: rest =>
    match specEffect c, rest with
    | none, rest => feed t rest
    | some .reset, rest => feed default rest
    | some (.set g), rest => feed (t.put g [c]) rest
    | some (.clear g), rest => feed (t.drop g) rest
    | some (.ext g), some 5 :: v :: rest' =>
      feed (match v with
            | some n => if n ≤ 255 then t.put g [c, 5, n] else t
            | none => t) rest'
    | some (.ext _), [some 5] => t
    | some (.ext g), some 2 :: r :: gr :: b :: rest' =>
      feed (match r, gr, b with
            | some r, some gr, some b =>
              if r ≤ 255 ∧ gr ≤ 255 ∧ b ≤ 255 then t.put g [c, 2, r, gr, b] else t
            | _, _, _ => t) rest'
    | some (.ext _), some 2 :: _ => t
    | some (.ext _), rest => feed t rest
  termination_by _ l => l.length
  decreasing_by all_goals simp_wf <;> omega

def isWs (c : Char) : Bool :=
  c == ' ' || (9 ≤ c.toNat && c.toNat ≤ 13) || (0x1c ≤ c.toNat && c.toNat ≤ 0x1f)

def isDigit (c : Char) : Bool := '0' ≤ c && c ≤ '9'

def trim (s : List Char) : List Char := ((s.dropWhile isWs).reverse.dropWhile isWs).reverse

def splitSemi : List Char → List (List Char)
  | [] => [[]]
  | c :: rest =>
    if c == ';' then [] :: splitSemi rest
    else match splitSemi rest with
      | [] => [[c]]
      | h :: t => (c :: h) :: t

def decimal (s : List Char) : Nat := s.foldl (fun n c => 10 * n + (c.toNat - '0'.toNat)) 0

/-- one parameter: empty = 0, decimal digits = the number, anything else = not a number -/
def param (s : List Char) : Option Nat :=
  let s := trim s
  if s.isEmpty then some 0 else if s.all isDigit then some (decimal s) else none

/-- parameter string of an SGR sequence -/
def params (p : List Char) : List (Option Nat) := (splitSemi p).map param

def isFinal (c : Char) : Bool := 0x40 ≤ c.toNat && c.toNat ≤ 0x7e

inductive Mode where
  | text
  | seq (ps : List Char)     -- after ESC [, parameter bytes so far

/-- what is displayed (character, state under which it is displayed) and the final state -/
def runAux : Mode → TState → List Char → List (Char × TState) → List (Char × TState) × TState
  | .text, t, [], out => (out, t)
  | .text, t, '\x1b' :: '[' :: rest, out => runAux (.seq []) t rest out
  | .text, t, c :: rest, out => runAux .text t rest (out ++ [(c, t)])
  | .seq ps, t, [], out => (out ++ (('\x1b' :: '[' :: ps).map (fun c => (c, t))), t)
  | .seq ps, t, c :: rest, out =>
    if isFinal c then
      if c == 'm' then runAux .text (feed t (params ps)) rest out
      else runAux .text t rest (out ++ (('\x1b' :: '[' :: ps ++ [c]).map (fun c => (c, t))))
    else runAux (.seq (ps ++ [c])) t rest out

def run (t0 : TState) (s : List Char) : List (Char × TState) × TState := runAux .text t0 s []

/-- the displayed characters: `s` with every `ESC [ p* m` removed -/
def stripSgr (s : List Char) : List Char := (run default s).1.map (·.1)

/-- every parameter of every SGR sequence in `s` is empty or decimal -/
def wellFormedAux : Mode → List Char → Bool
  | .text, [] => true
  | .text, '\x1b' :: '[' :: rest => wellFormedAux (.seq []) rest
  | .text, _ :: rest => wellFormedAux .text rest
  | .seq _, [] => true
  | .seq ps, c :: rest =>
    if isFinal c then
      (if c == 'm' then (params ps).all Option.isSome else true) && wellFormedAux .text rest
    else wellFormedAux (.seq (ps ++ [c])) rest

def wellFormed (s : List Char) : Bool := wellFormedAux .text s

end Term
