import AnsiModel
import AnsiSpec.Terminal
/-
  AnsiSpec.Styled — what a value *means*: the settings each character reports, the effective
  style of a list of settings, and the history invariant `WF`.
-/

/-- the settings character `i` reports, in precedence order (last wins) -/
def act (x : AStr) (i : Nat) : List Setting := active x.fmts i

/-- SGR parameters of a list of settings, in order -/
def codesOf (l : List Setting) : List (Option Nat) := l.flatMap (fun s => Term.params s.txt)

/-- effective style of an ordered list of settings: what a terminal shows after them -/
def eff (l : List Setting) : Term.TState := Term.feed Term.default (codesOf l)

/-- `x.s` with the style each character reports: the denotation of a value -/
def den (x : AStr) : List (Char × Term.TState) := x.s.zipIdx.map (fun ci => (ci.1, eff (act x ci.2)))

def SortedKeys (f : Fmts) : Prop := f.Pairwise (fun a b => a.1 < b.1)

/-- all settings mentioned in a table -/
def Fmts.settings (f : Fmts) : List Setting := f.flatMap (fun kp => kp.2.add ++ kp.2.rem)

/-- The history invariant: what every value reachable through the public API satisfies. -/
structure WF (x : AStr) : Prop where
  /-- keys strictly ascending (the model's representation of a dict) -/
  sorted   : SortedKeys x.fmts
  /-- no marker beyond the end of the text -/
  bound    : ∀ kp ∈ x.fmts, kp.1 ≤ x.len
  /-- nothing starts at the very end -/
  noAddEnd : ∀ kp ∈ x.fmts, kp.1 = x.len → kp.2.add = []
  /-- the library's own self-check: every stop marker meets the object it stops -/
  ok       : replayOk x.fmts = true
  /-- an object is never active twice at the same time -/
  nodup    : ∀ i, ((active x.fmts i).map (·.id)).Nodup
  /-- everything is closed at the end: text appended later is unstyled -/
  closed   : active x.fmts x.len = []
  /-- equal identities carry equal text -/
  coherent : ∀ s ∈ x.fmts.settings, ∀ t ∈ x.fmts.settings, s.id = t.id → s.txt = t.txt

/-- all identities of a value are below `n` (so `n, n+1, …` are fresh) -/
def FreshFrom (x : AStr) (n : Nat) : Prop := ∀ s ∈ x.fmts.settings, s.id < n

/-- every setting text of the value is one well-formed SGR parameter group (digits only) -/
def isGroupTxt (t : Str) : Bool :=
  let items := Py.splitOnChar ';' t
  items.all Py.isdigit &&
  (match items.map Py.digitsVal with
   | [c] => c != 38 && c != 48 && c != 58
   | [c, 5, n] => (c == 38 || c == 48 || c == 58) && n ≤ 255
   | [c, 2, r, g, b] => (c == 38 || c == 48 || c == 58) && r ≤ 255 && g ≤ 255 && b ≤ 255
   | _ => false)

def GroupSettings (x : AStr) : Prop := ∀ s ∈ x.fmts.settings, isGroupTxt s.txt = true

/-- the base text contains no ESC -/
def NoEsc (s : Str) : Prop := '\x1b' ∉ s
