/-
  The wrapper language: what `harness/wrappers.py` translates the *thin* methods of
  `class AnsiStr` and `class AnsiString` into (table: `AnsiModel/Generated/Wrappers.lean`,
  regenerated from the source on every run), and what a term of that language *means*.

  A thin method is one whose whole body is a delegation: "copy the wrapped object, call the method
  of the same name on the copy, wrap the copy again", "return what the wrapped object answers",
  "wrap every element of the list the wrapped object returns", … .  Calls are bound against the
  signature of the called method by the translator, so a body carries, for every parameter of the
  called method, the expression it receives.

  The semantics below is parametric in everything the wrapper layer does not look at: the values
  `S` of the wrapped class, the universe `V` of Python argument values, what the wrapped class's
  methods do (`Sem.call`), and how a literal or any other expression evaluates (`Sem.ev`).
-/

namespace Wrap

/-- an argument expression of a delegating call -/
inductive WExpr where
  | param (n : String)      -- a parameter of the method, passed on as it is
  | star (n : String)       -- `*n`: the method's variadic parameter, passed on as variadic
  | const (src : String)    -- a literal (source text)
  | dflt (src : String)     -- not passed: the called method's own default (source text, `()` for `*args`)
  | other (src : String)    -- any other expression (source text)
  deriving DecidableEq, Repr

/-- a parameter: name, kind (0 positional-or-keyword, 1 `*args`, 2 keyword-only), default (source text) -/
structure Param where
  name : String
  kind : Nat
  dflt : Option String
  deriving DecidableEq, Repr

/-- the body of a method (see the header of harness/wrappers.py for the Python each stands for) -/
inductive WBody where
  | lift (target : String) (fwd : List (String × WExpr))
  | liftIAdd (e : WExpr)
  | fwd (target : String) (fwd : List (String × WExpr))
  | attr (name : String)
  | wrap (target : String) (fwd : List (String × WExpr))
  | wrapEach (target : String) (fwd : List (String × WExpr))
  | viaSelf (target : String) (fwd : List (String × WExpr))
  | selfAdd (e : WExpr)
  | strFwd (target : String) (args : List WExpr)
  | strLen
  | caseMap (target : String)
  | newargsInner            -- `return (self._s,)`: what `__getnewargs__` hands to `__new__` on copy / unpickle
  | other (digest : String)
  deriving DecidableEq, Repr

structure WMethod where
  name : String
  deco : String
  params : List Param
  body : WBody
  deriving DecidableEq, Repr

/-- `format_matching` / `unformat_matching`: the loop over `re.finditer`, as read from the source -/
structure MatchLoop where
  escapeUnlessRegex : Bool        -- `if not regex: matchspec = re.escape(matchspec)` comes first
  noneMeansAll : Bool             -- `if not format or None in format: format = None` comes next
  matchVar : String               -- the loop variable
  finditerArgs : List String      -- source text of the arguments of `re.finditer`
  perMatchTest : String                  -- source text of the test made for every match
  stepTarget : String             -- the method called for a match that passes the test …
  stepArgs : List (String × WExpr)  -- … and what each of its parameters receives
  decrement : Bool                -- `if count > 0: count -= 1` follows the call
  elseBreak : Bool                -- `else: break`
  deriving DecidableEq, Repr

/-- The loop, literally, for the test `count < 0 or count > 0`: `count` is a mutable local, decremented
    after a call when positive (`decrement`); a match that fails the test ends the loop (`elseBreak`)
    or is skipped. -/
def runMatchLoop {X E : Type} (decrement elseBreak : Bool) (step : X → Int × Int → Except E X) :
    Int → List (Int × Int) → X → Except E X
  | _, [], x => .ok x
  | c, s :: rest, x =>
    if c < 0 ∨ c > 0 then
      match step x s with
      | .ok x' => runMatchLoop decrement elseBreak step (if decrement && decide (c > 0) then c - 1 else c) rest x'
      | .error e => .error e
    else if elseBreak then .ok x
    else runMatchLoop decrement elseBreak step c rest x

def lookup (tbl : List WMethod) (n : String) : Option WMethod := tbl.find? (·.name == n)

/-! ## Meaning -/

/-- what a method of the wrapped class hands back -/
inductive Ret (S R : Type) where
  | none                    -- `None` (the in-place methods)
  | val (v : S)             -- a value of the wrapped class
  | vals (l : List S)       -- a list/tuple of them
  | plain (r : R)           -- anything else (int, bool, str, list of settings, …)

/-- the wrapped class, as far as the wrapper layer can see it -/
structure Sem (S V R E : Type) where
  /-- `recv.T(bound arguments)`: an error, or the receiver's value afterwards and what is returned -/
  call : String → S → List (String × V) → Except E (S × Ret S R)
  /-- `recv.name` for a property -/
  attr : String → S → R
  /-- `recv += v` -/
  iadd : S → V → Except E S
  /-- value of an expression given by its source text, in the environment of the method's parameters -/
  ev : String → (String → V) → V

/-- what a wrapper method hands back: wrapped values, or whatever the wrapped class returned -/
inductive WRes (A S R : Type) where
  | str (a : A)
  | strs (l : List A)
  | raw (r : Ret S R)
  | attr (r : R)

variable {S V R E A : Type}

def evalE (sem : Sem S V R E) (ρ : String → V) : WExpr → V
  | .param n => ρ n
  | .star n => ρ n
  | .const s => sem.ev s ρ
  | .dflt s => sem.ev s ρ
  | .other s => sem.ev s ρ

def bindArgs (sem : Sem S V R E) (ρ : String → V) (f : List (String × WExpr)) : List (String × V) :=
  f.map fun pe => (pe.1, evalE sem ρ pe.2)

/-- `AnsiStr(x)` for what a method of the wrapped class returned -/
def wrapRet (mk : S → A) : Ret S R → WRes A S R
  | .val v => .str (mk v)
  | o => .raw o

/-- `[AnsiStr(x) for x in …]` -/
def wrapEachRet (mk : S → A) : Ret S R → WRes A S R
  | .vals l => .strs (l.map mk)
  | o => .raw o

/-- Meaning of a *direct* body, for a receiver `a` whose wrapped value is `un a`; `mk` is
    `AnsiStr(<AnsiString>)`.  The receiver itself is a value: nothing here can change it.
    `none`: the body is not one of the direct delegations. -/
def interpDirect (sem : Sem S V R E) (mk : S → A) (un : A → S) (ρ : String → V) (a : A) :
    WBody → Option (Except E (WRes A S R))
  | .lift t f => some ((sem.call t (un a) (bindArgs sem ρ f)).map fun r => .str (mk r.1))
  | .liftIAdd e => some ((sem.iadd (un a) (evalE sem ρ e)).map fun v => .str (mk v))
  | .fwd t f => some ((sem.call t (un a) (bindArgs sem ρ f)).map fun r => .raw r.2)
  | .attr n => some (.ok (.attr (sem.attr n (un a))))
  | .wrap t f => some ((sem.call t (un a) (bindArgs sem ρ f)).map fun r => wrapRet mk r.2)
  | .wrapEach t f => some ((sem.call t (un a) (bindArgs sem ρ f)).map fun r => wrapEachRet mk r.2)
  | _ => none

/-- `return self.T(…)` / `return self + e`: one level of indirection through the class's own table.
    The parameters of `T` are bound to the values of the forwarded expressions. -/
def interp (tbl : List WMethod) (sem : Sem S V R E) (mk : S → A) (un : A → S) (ρ : String → V) (a : A) :
    WBody → Option (Except E (WRes A S R))
  | .viaSelf t f =>
    match lookup tbl t with
    | some m =>
      let args := bindArgs sem ρ f
      interpDirect sem mk un (fun p => (args.lookup p).getD (ρ p)) a m.body
    | none => none
  | .selfAdd e =>
    match lookup tbl "__add__" with
    | some m =>
      match m.params with
      | [p] => interpDirect sem mk un (fun q => if q = p.name then evalE sem ρ e else ρ q) a m.body
      | _ => none
    | none => none
  | b => interpDirect sem mk un ρ a b

/-- `return self._s.T(a, b, …)` in `AnsiString`, where `_s` is the `str`: the answer of the `str`
    method `T` on the base text for the values of the argument expressions; `return len(self._s)` -/
def interpStrFwd {T V R : Type} (strCall : String → T → List V → R) (ev : String → (String → V) → V)
    (ρ : String → V) (text : T) : WBody → Option R
  | .strFwd t args => some (strCall t text (args.map fun
      | .param n => ρ n
      | .star n => ρ n
      | .const s => ev s ρ
      | .dflt s => ev s ρ
      | .other s => ev s ρ))
  | .strLen => some (strCall "__len__" text [])
  | _ => none

/-! ## Conformity: the body passes the method's own arguments on, unchanged, to the method of the
    wrapped class, asking for the in-place variant where there is one -/

/-- the expression parameter `tp` of the called method must receive -/
def okOne (ps : List Param) (tp : Param) (e : WExpr) : Bool :=
  if tp.name == "inplace" then e == .const "True"
  else match ps.find? (·.name == tp.name) with
    | some p => p.kind == tp.kind && p.dflt == tp.dflt &&
        (if tp.kind == 1 then e == .star tp.name else e == .param tp.name)
    | none =>
      if tp.kind == 1 then e == .dflt "()"
      else match tp.dflt with
        | some d => e == .dflt d
        | none => false

def okFwd (ps : List Param) : List Param → List (String × WExpr) → Bool
  | [], [] => true
  | tp :: tps, pe :: f => pe.1 == tp.name && okOne ps tp pe.2 && okFwd ps tps f
  | _, _ => false

/-- the value parameter `tp` of the called method is expected to receive -/
def expectedOne (sem : Sem S V R E) (ρ : String → V) (ps : List Param) (tp : Param) : V :=
  if tp.name == "inplace" then sem.ev "True" ρ
  else if (ps.find? (·.name == tp.name)).isSome then ρ tp.name
  else sem.ev (if tp.kind == 1 then "()" else tp.dflt.getD "") ρ

def expectedArgs (sem : Sem S V R E) (ρ : String → V) (ps tps : List Param) : List (String × V) :=
  tps.map fun tp => (tp.name, expectedOne sem ρ ps tp)

/-- the kind of delegation a body is, or `none` -/
def WBody.target? : WBody → Option (String × List (String × WExpr))
  | .lift t f | .fwd t f | .wrap t f | .wrapEach t f => some (t, f)
  | _ => none

/-- a method of the wrapper class conforms to the wrapped class's table `inner`: it delegates to the
    method of its own name, every parameter it has is a parameter of that method, and every
    parameter of that method receives what `okOne` says -/
def conforms (inner : List WMethod) (m : WMethod) : Bool :=
  match m.body.target? with
  | some (t, f) =>
    t == m.name &&
    match lookup inner t with
    | some tm => okFwd m.params tm.params f && m.params.all fun p => tm.params.any (·.name == p.name)
    | none => false
  | none => false

end Wrap
