import AnsiModel.Scrub
import AnsiModel.Pad
/-
  AnsiModel.Render — `to_str`, `__str__`, `__format__`, `_apply_string_format`,
  `is_formatting_valid/parsable`, and the raw-argument front ends of apply/remove/find.
-/

namespace AStr

/-- `apply_formatting(settings, start, end, topmost)` with the settings as the caller wrote them;
    new setting objects take the ids `nid, nid+1, …` -/
def applyRaw (x : AStr) (nid : Nat) (a : SArg) (start end_ : Option Int) (topmost : Bool := true) :
    Except PyErr AStr :=
  let n := x.len
  let st := sliceIdx n start 0
  let en := sliceIdx n end_ n
  if !a.truthy ∨ st ≥ n ∨ en ≤ st then .ok x
  else do
    let ts ← Scrub.scrub a
    pure (x.applyFormatting (freshSettings nid ts) start end_ topmost)

/-- `remove_formatting(settings, start, end)`; `none` = Python `None` -/
def removeRaw (x : AStr) (a : Option SArg) (start end_ : Option Int) : Except PyErr AStr :=
  let n := x.len
  let st := sliceIdx n start 0
  let en := sliceIdx n end_ n
  let falsy : Bool := match a with | some a => !a.truthy | none => false
  if falsy ∨ st ≥ n ∨ en ≤ st then .ok x
  else
    match a with
    | none => .ok (x.removeFormatting none start end_)
    | some a => do
      let ts ← Scrub.scrub a
      pure (x.removeFormatting (some ts) start end_)

/-- `find_settings(settings, start, end, reverse)` -/
def findRaw (x : AStr) (a : SArg) (start end_ : Option Int) (reverse : Bool) :
    Except PyErr (Option Nat × Option Nat) :=
  let n := x.len
  let st := sliceIdx n start 0
  let en := sliceIdx n end_ n
  if en < st then .ok (none, none)
  else do
    let ts ← Scrub.scrub a
    pure (x.findSettings ts start end_ reverse)

/-- `is_formatting_valid()` -/
def isFormattingValid (x : AStr) : Bool := x.fmts.all (fun kp => kp.2.add.all (fun s => SettingTxt.valid s.txt))

/-- `is_formatting_parsable()` / `is_optimizable()` -/
def isFormattingParsable (x : AStr) : Bool :=
  x.fmts.all (fun kp => kp.2.add.all (fun s => SettingTxt.parsable s.txt))

end AStr

namespace Render

def dot (c : Char) : Bool := c != '\n'
def sign (c : Char) : Bool := c == '+' || c == '-'
def align (c : Char) : Bool := c == '<' || c == '>' || c == '^'

/-- `(^.?[-\+]?[<>\^]?[0-9]*)(:.*)?$` -/
def reSpec : Re :=
  .seq (.cap 1 (.seq (.opt (.cls dot)) (.seq (.opt (.cls sign)) (.seq (.opt (.cls align)) (.star Py.isDigit)))))
    (.seq (.opt (.cap 2 (.seq (.cls (· == ':')) (.star dot)))) .eos)

/-- `^(?:(.?)([+-]?)<)?([0-9]*)$` -/
def reLeft : Re :=
  .seq (.opt (.seq (.cap 1 (.opt (.cls dot))) (.seq (.cap 2 (.opt (.cls sign))) (.cls (· == '<')))))
    (.seq (.cap 3 (.star Py.isDigit)) .eos)

/-- `^(.?)([+-]?)X([0-9]*)$` for X = `>` or `^` -/
def reAligned (a : Char) : Re :=
  .seq (.cap 1 (.opt (.cls dot))) (.seq (.cap 2 (.opt (.cls sign))) (.seq (.cls (· == a))
    (.seq (.cap 3 (.star Py.isDigit)) .eos)))

inductive Just where | left | right | center

/-- the common body of the three branches of `_apply_string_format` -/
def applyJust (obj : AStr) (nid : Nat) (caps : Re.Caps) (j : Just) (settings : Option Str) : Except PyErr AStr := do
  let num := (Re.group caps 3).getD []
  let g2 := (Re.group caps 2).getD []
  let extend := g2.isEmpty || g2 == ['+']
  let fill : Char := match Re.group caps 1 with
    | some (c :: _) => c
    | _ => ' '
  let st : SArg := .str (settings.getD [])
  let doApply : Bool := match settings with | some s => !s.isEmpty | none => false
  let obj ← if !extend ∧ doApply then obj.applyRaw nid st none none else pure obj
  let obj := if num.isEmpty then obj else
    let w : Int := Py.digitsVal num
    match j with
    | .left => obj.ljust w fill extend
    | .right => obj.rjust w fill extend
    | .center => obj.center w fill extend
  if extend ∧ doApply then obj.applyRaw nid st none none else pure obj

/-- `_apply_string_format(string_format, settings)` -/
def applyStringFormat (obj : AStr) (nid : Nat) (fmt : Str) (settings : Option Str) : Except PyErr AStr :=
  match Re.matchStart reLeft fmt with
  | some caps => applyJust obj nid caps .left settings
  | none =>
  match Re.matchStart (reAligned '>') fmt with
  | some caps => applyJust obj nid caps .right settings
  | none =>
  match Re.matchStart (reAligned '^') fmt with
  | some caps => applyJust obj nid caps .center settings
  | none => .error .valueError

/-- the `if format_spec:` part of `to_str`: the copy with the spec applied -/
def applySpec (x : AStr) (nid : Nat) (spec : Str) : Except PyErr AStr :=
  let parts : Str × Option Str :=
    match Re.matchStart reSpec spec with
    | none => (spec, none)
    | some caps =>
      match Re.group caps 2 with
      | some (_ :: rest) => ((Re.group caps 1).getD [], some rest)
      | _ => ((Re.group caps 1).getD [], none)
  if !parts.1.isEmpty then applyStringFormat x nid parts.1 parts.2
  else match parts.2 with
    | some s => if s.isEmpty then .ok x else x.applyRaw nid (.str s) none none
    | none => .ok x

def clearCode (eff : Nat) : Str :=
  match Gen.clearTable.find? (fun r => r.1 == eff) with
  | some r => Py.natStr r.2
  | none => []

def sgr (codes : Str) : Str := Gen.sgrPrefix ++ codes ++ Gen.sgrSuffix

structure St where
  out     : Str := []
  last    : Nat := 0
  exist   : Bool := false
  dict    : PyDict := []
  first   : Bool := true

/-- one iteration of the rendering loop (for a change point with `idx < len(obj)`) -/
def step (s : Str) (optimize resetStart : Bool) (st : St) (t : Nat × Point × List Setting) : St :=
  let (idx, p, cur) := t
  let out := if st.first ∧ idx > 0 ∧ resetStart then st.out ++ Gen.escapeClear else st.out
  let out := out ++ (s.take idx).drop st.last
  let toApply := texts cur
  let toApply := if !p.rem.isEmpty ∧ !toApply.isEmpty then Py.natStr Gen.paramReset :: toApply else toApply
  let codes := joinSep Gen.ansiSep toApply
  let newDict := if optimize then settingsToDict cur [] else st.dict
  let (applyIt, codes) :=
    if optimize then
      let old := st.dict
      let cleared := (old.filter (fun kv => !newDict.contains kv.1)).map (fun kv => clearCode kv.1)
      let changed := (newDict.filter (fun kv =>
          match old.get? kv.1 with
          | none => true
          | some v => v.txt != kv.2.txt)).map (fun kv => kv.2.txt)
      let opt := joinSep Gen.ansiSep (cleared ++ changed)
      if opt.isEmpty then (false, codes)
      else if opt.length < codes.length then (true, opt)
      else (true, codes)
    else (true, codes)
  let (applyIt, codes) :=
    if idx = 0 ∧ resetStart then (true, joinSep Gen.ansiSep [Py.natStr Gen.paramReset, codes]) else (applyIt, codes)
  let out := if applyIt then out ++ sgr codes else out
  { out := out, last := idx, exist := !cur.isEmpty, dict := newDict, first := false }

/-- `to_str(None, optimize, reset_start, reset_end)` on the (already spec-applied) object -/
def render (obj : AStr) (optimize resetStart resetEnd : Bool) : Str :=
  let optimize := optimize && obj.isFormattingParsable
  let pts := (replay obj.fmts).takeWhile (fun t => t.1 < obj.len)
  let st := pts.foldl (step obj.s optimize resetStart) {}
  let out := if st.first ∧ resetStart then st.out ++ Gen.escapeClear else st.out
  let out := out ++ obj.s.drop st.last
  if st.exist ∧ resetEnd then out ++ Gen.escapeClear else out

end Render

namespace AStr

/-- `to_str(format_spec, optimize, reset_start, reset_end)`; `spec = none` ⇔ `None` -/
def toStr (x : AStr) (spec : Option Str := none) (optimize : Bool := true) (resetStart : Bool := false)
    (resetEnd : Bool := true) (nid : Nat := 0) : Except PyErr Str :=
  let hasSpec : Bool := match spec with | some s => !s.isEmpty | none => false
  if !hasSpec ∧ x.fmts.isEmpty ∧ !resetStart then .ok x.s
  else if hasSpec then do
    let obj ← Render.applySpec x nid (spec.getD [])
    pure (Render.render obj optimize resetStart resetEnd)
  else .ok (Render.render x optimize resetStart resetEnd)

/-- `str(x)` -/
def str (x : AStr) : Str := Render.render' x
where Render.render' (x : AStr) : Str := if x.fmts.isEmpty then x.s else Render.render x true false true

end AStr
