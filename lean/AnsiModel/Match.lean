import AnsiModel.Render
/-
  AnsiModel.Match — `format_matching`, `unformat_matching`, `apply_formatting_for_match`.

  The matches come from Python's `re.finditer` — an external function; they enter the model as the
  list of `(start, end)` spans, in the order `finditer` yields them.  `takeCount` is the
  `if count < 0 or count > 0: …; count -= 1 … else: break` bookkeeping of the loop.
-/

/-- greatest setting identity in a table, plus one: the next unused identity -/
def Fmts.nextId (f : Fmts) : Nat :=
  f.foldl (fun m kp => (kp.2.add ++ kp.2.rem).foldl (fun m s => max m (s.id + 1)) m) 0

/-- the first `count` spans (all of them when `count < 0`) -/
def takeCount (count : Int) (spans : List (Int × Int)) : List (Int × Int) :=
  if count < 0 then spans else spans.take count.toNat

namespace AStr

/-- `format_matching(spec, *fmt, count=…)` given the `re.finditer` spans -/
def formatMatching (x : AStr) (a : SArg) (spans : List (Int × Int)) (count : Int := -1) : Except PyErr AStr :=
  (takeCount count spans).foldlM
    (fun (acc : AStr) (se : Int × Int) => acc.applyRaw acc.fmts.nextId a (some se.1) (some se.2) true) x

/-- `unformat_matching(spec, *fmt, count=…)`; `a = none` ⇔ no format given or `None` among them -/
def unformatMatching (x : AStr) (a : Option SArg) (spans : List (Int × Int)) (count : Int := -1) :
    Except PyErr AStr :=
  (takeCount count spans).foldlM
    (fun (acc : AStr) (se : Int × Int) => acc.removeRaw a (some se.1) (some se.2)) x

end AStr
