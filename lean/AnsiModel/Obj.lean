import AnsiModel.StrLike
import AnsiModel.Render
/-
  AnsiModel.Obj — the primitives the *statement-by-statement* translation of object-mutating methods
  is written in (`harness/pyobj.py` → `AnsiModel/Generated/Methods.lean`).

  The translated methods (`_shift_settings_idx`, `ljust`, `rjust`, `center`, `assign_str`, …) read and
  write `obj._s` and `obj._fmts`.  Python integers stay `Int` in the translation, so every place where
  the model's representation is narrower than Python's is an explicit outcome here instead of an
  assumption of the translator:

  * `Exc.py e`    — the method raised the Python exception `e` (what the model distinguishes);
  * `Exc.key`     — `d.pop(k)` / `d[k]` on an absent key (KeyError);
  * `Exc.outside` — the method did something the model's representation cannot hold (a negative
                    dictionary key, `None` stored as a change point).

  The theorems over the generated functions (`Props/C11c.lean`, `Props/C12b.lean`) show that on
  well-formed values the last two never happen.
-/

inductive Exc where
  | py (e : PyErr)
  | key
  | outside
  deriving DecidableEq, Repr

deriving instance DecidableEq for Except

namespace Py

/-- `s * n` for a `str` s and an `int` n (empty for n ≤ 0) -/
def strMul (s : Str) (n : Int) : Str := (List.replicate n.toNat s).flatten

theorem strMul_single (c : Char) (n : Int) : strMul [c] n = List.replicate n.toNat c := by
  unfold strMul
  induction n.toNat with
  | zero => rfl
  | succ k ih => simp [List.replicate_succ, ih]

/-- Python's slice bound for a list of length `n` (`None` never occurs where this is used) -/
def listIdx (n : Nat) (i : Int) : Nat := if i < 0 then ((n : Int) + i).toNat else min i.toNat n

/-- `l[lo:hi] = new` -/
def sliceAssign {α : Type} (l : List α) (lo hi : Int) (new : List α) : List α :=
  let a := listIdx l.length lo
  let b := max a (listIdx l.length hi)
  l.take a ++ new ++ l.drop b

/-- truth value of a variable that holds `None` or a list -/
def truthyOptList {α : Type} : Option (List α) → Bool
  | some l => !l.isEmpty
  | none => false

/-- a list is needed where the variable may hold `None`: outside the model -/
def optGet {α : Type} : Option α → Except Exc α
  | some l => .ok l
  | none => .error .outside

/-- `l[i]`; IndexError outside `-len ≤ i < len` -/
def getIdx {α : Type} (l : List α) (i : Int) : Except Exc α :=
  let j := if i < 0 then (l.length : Int) + i else i
  if j < 0 then .error (.py .indexError)
  else match l[j.toNat]? with
    | some a => .ok a
    | none => .error (.py .indexError)

/-- `d[k]` for a small local dictionary kept as an association list; KeyError when absent -/
def assocGet {β : Type} (d : List (Int × β)) (k : Int) : Except Exc β :=
  match d.find? (fun kv => kv.1 == k) with
  | some kv => .ok kv.2
  | none => .error .key

/-- `sorted(l, reverse=r)` for ints -/
def sortedInts (l : List Int) (r : Bool) : List Int :=
  let s := l.mergeSort (fun a b => decide (a ≤ b))
  if r then s.reverse else s

/-- `d[k]` for a dictionary of settings keyed by effect; KeyError when absent -/
def dictGet (d : List (Nat × Setting)) (k : Nat) : Except Exc Setting :=
  match d.find? (fun kv => kv.1 == k) with
  | some kv => .ok kv.2
  | none => .error .key

/-- `k not in d or d[k] != v` for a dictionary of settings keyed by effect (`!=` compares the setting texts) -/
def dictNe (d : List (Nat × Setting)) (k : Nat) (v : Setting) : Bool :=
  match (d.find? (fun kv => kv.1 == k)) with
  | some kv => kv.2.txt != v.txt
  | none => true

/-- `s.find(sub, start)` as Python answers it: the index, or -1 -/
def findInt (s sub : Str) (start : Int) : Int :=
  match Py.find s sub (listIdx s.length start) with
  | some i => (i : Int)
  | none => -1

/-- `s.rfind(sub)`: the index, or -1 -/
def rfindInt (s sub : Str) : Int :=
  match Py.rfind s sub with
  | some i => (i : Int)
  | none => -1

/-- `s.split(sep, maxsplit)` / `s.rsplit(sep, maxsplit)`; an empty separator is `str`'s ValueError -/
def pySplit (s : Str) (sep : Option Str) (maxsplit : Int) (r : Bool) : Except Exc (List Str) :=
  match sep with
  | some [] => .error (.py .valueError)
  | some sp => .ok (if r then Py.rsplitSep s sp maxsplit else Py.splitSep s sp maxsplit)
  | none => .ok (if r then Py.rsplitWs s maxsplit else Py.splitWs s maxsplit)

/-- truth value of a variable that holds `None` or a string -/
def truthyOptStr : Option Str → Bool
  | some s => !s.isEmpty
  | none => false

/-- `a or b` as a value, for `a` a string or `None` and `b` a string -/
def optStrOr (a : Option Str) (b : Str) : Str :=
  match a with
  | some s => if s.isEmpty then b else s
  | none => b

/-- `int(s)`; ValueError unless `s` is an integer literal (ASCII, as in the model) -/
def pyInt (s : Str) : Except Exc Int :=
  match Py.int s with
  | some i => .ok i
  | none => .error (.py .valueError)

/-- `l[i] = v`; IndexError outside `-len ≤ i < len` -/
def setIdx {α : Type} (l : List α) (i : Int) (v : α) : Except Exc (List α) :=
  let j := if i < 0 then (l.length : Int) + i else i
  if j < 0 ∨ j ≥ l.length then .error (.py .indexError) else .ok (l.set j.toNat v)

/-- `l[lo:hi]` (`None` = absent bound) -/
def listSlice {α : Type} (l : List α) (lo hi : Option Int) : List α :=
  let a := match lo with | none => 0 | some i => listIdx l.length i
  let b := match hi with | none => l.length | some i => listIdx l.length i
  (l.take b).drop a

/-- `while c(l[0]): del l[0]` — IndexError once the list is used up -/
def dropWhileHead {α : Type} (c : α → Bool) : List α → Except Exc (List α)
  | [] => .error (.py .indexError)
  | a :: rest => if c a then dropWhileHead c rest else .ok (a :: rest)

/-- `range(n)` / `reversed(range(n))` -/
def rangeAsc (n : Int) : List Int := (List.range n.toNat).map Int.ofNat
def rangeDesc (n : Int) : List Int := ((List.range n.toNat).reverse).map Int.ofNat

/-- `del l[i]`; IndexError outside `-len ≤ i < len` -/
def delIdx {α : Type} (l : List α) (i : Int) : Except Exc (List α) :=
  if 0 ≤ i ∧ i < l.length then .ok (l.eraseIdx i.toNat)
  else if i < 0 ∧ -(l.length : Int) ≤ i then .ok (l.eraseIdx ((l.length : Int) + i).toNat)
  else .error (.py .indexError)

end Py

namespace Obj

/-- `k in d` for an `int` k -/
def has (f : Fmts) (k : Int) : Bool := decide (0 ≤ k) && f.contains k.toNat

/-- `d.pop(k)`: the point and the dictionary without it; KeyError when absent -/
def pop (f : Fmts) (k : Int) : Except Exc (Point × Fmts) :=
  if k < 0 then .error .key
  else match f.get? k.toNat with
    | some p => .ok (p, f.erase k.toNat)
    | none => .error .key

/-- `d.pop(k, None)` -/
def popD (f : Fmts) (k : Int) : Option Point × Fmts :=
  if k < 0 then (none, f)
  else match f.get? k.toNat with
    | some p => (some p, f.erase k.toNat)
    | none => (none, f)

/-- `d[k] = p` -/
def set (f : Fmts) (k : Int) (p : Point) : Except Exc Fmts :=
  if k < 0 then .error .outside else .ok (f.set k.toNat p)

/-- `d[k] = v` where `v` may be `None` as far as the translator can see -/
def setOpt (f : Fmts) (k : Int) (v : Option Point) : Except Exc Fmts :=
  match v with
  | some p => set f k p
  | none => .error .outside

/-- `d[k]` read; KeyError when absent -/
def get (f : Fmts) (k : Int) : Except Exc Point :=
  if k < 0 then .error .key
  else match f.get? k.toNat with
    | some p => .ok p
    | none => .error .key

/-- `d[k].<something> = …` / `d[k].<method>(…)`: the point at `k` is replaced by `g` of it; KeyError when absent -/
def modifyAt (f : Fmts) (k : Int) (g : Point → Point) : Except Exc Fmts :=
  if k < 0 then .error .key
  else match f.get? k.toNat with
    | some _ => .ok (f.modify k.toNat g)
    | none => .error .key

/-- `del d[k]`; KeyError when absent -/
def del (f : Fmts) (k : Int) : Except Exc Fmts :=
  if k < 0 then .error .key
  else match f.get? k.toNat with
    | some _ => .ok (f.erase k.toNat)
    | none => .error .key

/-- a call into a hand-modelled method: its Python exception, if any, is the translated method's -/
def liftPy {α : Type} : Except PyErr α → Except Exc α
  | .ok a => .ok a
  | .error e => .error (.py e)

/-- `sorted(d.keys(), reverse=True)` -/
def keysDesc (f : Fmts) : List Int := (f.keys.reverse).map Int.ofNat

/-- `sorted(d.keys())` / `d.keys()` of a dictionary kept in ascending order -/
def keysAsc (f : Fmts) : List Int := f.keys.map Int.ofNat

end Obj
