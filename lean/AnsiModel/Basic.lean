/-
  AnsiModel.Basic — data representation shared by the whole model.

  * text               : `List Char`              (Python `str`; no lone surrogates)
  * AnsiSetting object : `Setting = {id, txt}`    (`is`  ↦ `id =`,  `==` ↦ `txt =`)
  * _AnsiSettingPoint  : `Point = {add, rem}`
  * `_fmts` dict       : `Fmts` = association list, strictly ascending in the key
  * AnsiString         : `AStr = {s, fmts}`

  Import-free on purpose (core Lean only) so that the driver links as a `lean_exe`.
-/

abbrev Str := List Char

/-- A Python `AnsiSetting` object: `id` is the object identity, `txt` its `_str`. -/
structure Setting where
  id  : Nat
  txt : Str
  deriving DecidableEq, Repr, Inhabited

/-- `_AnsiSettingPoint` -/
structure Point where
  add : List Setting := []
  rem : List Setting := []
  deriving DecidableEq, Repr, Inhabited

/-- `_AnsiSettingPoint.__bool__` -/
def Point.nonEmpty (p : Point) : Bool := !p.add.isEmpty || !p.rem.isEmpty

/-- The `_fmts` dictionary, kept as an association list in ascending key order. -/
abbrev Fmts := List (Nat × Point)

structure AStr where
  s    : Str  := []
  fmts : Fmts := []
  deriving DecidableEq, Repr, Inhabited

/-- Python exception classes that the model distinguishes. -/
inductive PyErr where
  | typeError | valueError | indexError
  deriving DecidableEq, Repr, Inhabited

namespace Fmts

/-- `k in d` / `d[k]` -/
def get? : Fmts → Nat → Option Point
  | [], _ => none
  | (k', p) :: rest, k => if k' = k then some p else if k < k' then none else get? rest k

def contains (f : Fmts) (k : Nat) : Bool := (f.get? k).isSome

/-- `d[k]` with an absent key read as the empty point (an empty point is a replay no-op). -/
def getD (f : Fmts) (k : Nat) : Point := (f.get? k).getD {}

/-- `d[k] = p` (insert or overwrite), keeping ascending order. -/
def set : Fmts → Nat → Point → Fmts
  | [], k, p => [(k, p)]
  | (k', p') :: rest, k, p =>
    if k' = k then (k, p) :: rest
    else if k < k' then (k, p) :: (k', p') :: rest
    else (k', p') :: set rest k p

/-- `del d[k]` (no-op when absent) -/
def erase : Fmts → Nat → Fmts
  | [], _ => []
  | (k', p') :: rest, k => if k' = k then rest else (k', p') :: erase rest k

/-- `if k not in d: d[k] = _AnsiSettingPoint()` -/
def ensure (f : Fmts) (k : Nat) : Fmts := if f.contains k then f else f.set k {}

/-- `d[k].<field> = g d[k]` for a key that is present (no-op otherwise). -/
def modify : Fmts → Nat → (Point → Point) → Fmts
  | [], _, _ => []
  | (k', p') :: rest, k, g => if k' = k then (k', g p') :: rest else (k', p') :: modify rest k g

def keys (f : Fmts) : List Nat := f.map (·.1)

end Fmts

/-- `_find_setting_reference(find, in_list) >= 0` -/
def hasId (l : List Setting) (i : Nat) : Bool := l.any (·.id == i)

/-- `x in list` for AnsiSetting (value comparison) -/
def hasTxt (l : List Setting) (t : Str) : Bool := l.any (·.txt == t)

/-- delete the first element that `is` the given object -/
def eraseId (l : List Setting) (i : Nat) : List Setting := l.eraseP (·.id == i)

def texts (l : List Setting) : List Str := l.map (·.txt)

/-- `';'.join` -/
def joinSep (sep : Str) : List Str → Str
  | [] => []
  | [a] => a
  | a :: rest => a ++ sep ++ joinSep sep rest

def semi : Str := [';']
