import AnsiModel.Parse
import AnsiModel.Regex
import AnsiModel.Generated.Formats
/-
  AnsiModel.Scrub — `_AnsiSettingPoint._scrub_ansi_settings`, `_scrub_ansi_format_string`,
  `_scrub_ansi_format_int`, `_parse_rgb_string`, and the colour builders of `_AnsiControlFn`.
-/

/-- a `settings` argument as the caller wrote it -/
inductive SArg where
  | str    (s : Str)
  | int    (i : Int)
  | obj    (t : Str)           -- an AnsiSetting object holding text t
  | member (name : Str)        -- an AnsiFormat member
  | list   (l : List SArg)     -- list or tuple
  | selfRef                    -- a list that is one of its own ancestors, at this position
  | bad    (truthy : Bool)     -- any unsupported type (float, None, dict, …)
  deriving Repr, Inhabited

/-- Python truthiness of the raw argument (`if not settings`) -/
def SArg.truthy : SArg → Bool
  | .str s => !s.isEmpty
  | .int i => i != 0
  | .obj _ => true
  | .member _ => true
  | .list l => !l.isEmpty
  | .selfRef => true
  | .bad t => t

/-- an element of `settings_out` before the integer runs are combined -/
inductive SOut where
  | setting (t : Str)
  | int (i : Int)
  deriving Repr, DecidableEq, Inhabited

namespace Scrub

open Re in
def isHex (c : Char) : Bool := Py.isDigit c || ('a' ≤ c && c ≤ 'f') || ('A' ≤ c && c ≤ 'F')

def hexVal (s : Str) : Nat :=
  s.foldl (fun n c =>
    16 * n + (if Py.isDigit c then c.toNat - '0'.toNat
              else if 'a' ≤ c && c ≤ 'f' then c.toNat - 'a'.toNat + 10
              else c.toNat - 'A'.toNat + 10)) 0

/-- `int(group, 16 if hex else 10)`; `none` = ValueError -/
def numVal (digits : Str) (hex : Bool) : Option Nat :=
  if hex then some (hexVal digits)
  else if digits.all Py.isDigit then some (Py.digitsVal digits) else none

/-- `((?:fg_)?|(?:bg_)|(?:ul_)|(?:dul_))` as group 1 -/
def rePrefix : Re :=
  .cap 1 (.alt (.opt (Re.lit "fg_".toList)) (.alt (Re.lit "bg_".toList) (.alt (Re.lit "ul_".toList) (Re.lit "dul_".toList))))

def reOpen : Re := .opt (.cls (fun c => c == '[' || c == '('))
def reClose : Re := .opt (.cls (fun c => c == ')' || c == ']'))
def reWs : Re := .star Py.isSpace
/-- `(0x)?([0-9a-fA-F]+)` with groups a, b -/
def reNum (a b : Nat) : Re := .seq (.opt (.cap a (Re.lit "0x".toList))) (.cap b (Re.plus isHex))
def reComma : Re := .cls (· == ',')

/-- `^(prefix)rgb\([\[\(]?\s*N\s*,\s*N\s*,\s*N\s*[\)\]]?\)$` -/
def reRgb3 : Re :=
  .seq rePrefix (.seq (Re.lit "rgb(".toList) (.seq reOpen (.seq reWs (.seq (reNum 2 3) (.seq reWs (.seq reComma
  (.seq reWs (.seq (reNum 4 5) (.seq reWs (.seq reComma (.seq reWs (.seq (reNum 6 7) (.seq reWs (.seq reClose
  (.seq (Re.lit ")".toList) .eos)))))))))))))))

/-- `^(prefix)rgb\([\[\(]?\s*N\s*[\)\]]?\)$` -/
def reRgb1 : Re :=
  .seq rePrefix (.seq (Re.lit "rgb(".toList) (.seq reOpen (.seq reWs (.seq (reNum 2 3) (.seq reWs (.seq reClose
  (.seq (Re.lit ")".toList) .eos)))))))

/-- `^(prefix)colou?r256\([\[\(]?\s*N\s*[\)\]]?\)$` -/
def reColor : Re :=
  .seq rePrefix (.seq (Re.lit "colo".toList) (.seq (.opt (.cls (· == 'u'))) (.seq (Re.lit "r256(".toList)
  (.seq reOpen (.seq reWs (.seq (reNum 2 3) (.seq reWs (.seq reClose (.seq (Re.lit ")".toList) .eos)))))))))

/-- component: 0 FOREGROUND, 1 BACKGROUND, 2 UNDERLINE, 3 DOUBLE_UNDERLINE -/
def component (pfx : Option Str) : Nat :=
  match pfx with
  | some p => if p == "bg_".toList then 1 else if p == "ul_".toList then 2 else if p == "dul_".toList then 3 else 0
  | none => 0

def joinNats (l : List Nat) : Str := joinSep semi (l.map Py.natStr)

/-- setup sequence of the i-th member of `_AnsiControlFn` (iteration order) -/
def setupSeq (i : Nat) : List Nat := (Gen.ctrlFns[i]?.map (·.1)).getD []

/-- `_AnsiControlFn.rgb` / `.color256` results as setting texts.
    `fnIdx`: index of the 256-colour function of the component in `Gen.ctrlFns`; 24-bit is next. -/
def colorSettings (comp : Nat) (is24 : Bool) (args : List Nat) : List Str :=
  let base := if comp == 1 then 2 else if comp == 0 then 0 else 4
  let body := joinNats (setupSeq (base + (if is24 then 1 else 0)) ++ args)
  if comp == 2 then [Py.natStr Gen.paramUnderline, body]
  else if comp == 3 then [Py.natStr Gen.paramDoubleUnderline, body]
  else [body]

/-- `_parse_rgb_string`: `none` = no pattern matched (returns None); `some (error)` = ValueError -/
def parseRgbString (s : Str) : Option (Except PyErr (List Str)) :=
  match Re.matchStart reRgb3 s with
  | some caps =>
    let g := Re.group caps
    match numVal ((g 3).getD []) (g 2).isSome, numVal ((g 5).getD []) (g 4).isSome,
          numVal ((g 7).getD []) (g 6).isSome with
    | some r, some gr, some b =>
      some (.ok (colorSettings (component (g 1)) true [min 255 r, min 255 gr, min 255 b]))
    | _, _, _ => some (.error .valueError)
  | none =>
  match Re.matchStart reRgb1 s with
  | some caps =>
    let g := Re.group caps
    match numVal ((g 3).getD []) (g 2).isSome with
    | some v =>
      some (.ok (colorSettings (component (g 1)) true [(v / 65536) % 256, (v / 256) % 256, v % 256]))
    | none => some (.error .valueError)
  | none =>
  match Re.matchStart reColor s with
  | some caps =>
    let g := Re.group caps
    match numVal ((g 3).getD []) (g 2).isSome with
    | some v => some (.ok (colorSettings (component (g 1)) false [v]))
    | none => some (.error .valueError)
  | none => none

/-- ASCII `str.upper()` -/
def upperAscii (c : Char) : Char := if 'a' ≤ c && c ≤ 'z' then Char.ofNat (c.toNat - 32) else c

/-- `format.upper().replace(' ', '_').replace('-', '_')` -/
def normName (s : Str) : Str := s.map (fun c => let c := upperAscii c; if c == ' ' || c == '-' then '_' else c)

/-- `AnsiFormat[name]` → texts of its ansi_settings -/
def lookupFormat (name : Str) : Option (List Str) := (Gen.formatTable.find? (fun r => r.1 == name)).map (·.2)

/-- one `format` of the `;`-separated string -/
def scrubDirective (fmt : Str) : Except PyErr (List SOut) :=
  match lookupFormat (normName fmt) with
  | some ts => .ok (ts.map .setting)
  | none =>
    match parseRgbString fmt with
    | some (.error e) => .error e
    | some (.ok ts) => .ok (ts.map .setting)
    | none =>
      if fmt.isEmpty then .ok []
      else
        match Py.int fmt with
        | none => .error .valueError
        | some i => if i < 0 then .error .valueError else .ok [.int i]

/-- `_scrub_ansi_format_string` -/
def scrubString (s : Str) : Except PyErr (List SOut) :=
  match s with
  | [] => .ok []
  | '[' :: rest => if rest.isEmpty then .error .valueError else .ok [.setting rest]
  | _ => (Py.splitOnChar ';' s).foldlM (fun acc fmt => do
            let r ← scrubDirective fmt
            pure (acc ++ r)) []

/-- combine the integer runs of `settings_out` with `parse_graphic_sequence(run, True)` -/
def combineInts : List SOut → List Int → List Str
  | [], run => if run.isEmpty then [] else pgsList (run.map Code.int) true
  | .int i :: rest, run => combineInts rest (run ++ [i])
  | .setting t :: rest, run =>
    (if run.isEmpty then [] else pgsList (run.map Code.int) true) ++ t :: combineInts rest []

mutual
/-- one element of the `for setting in settings` loop -/
def scrubItem : SArg → Except PyErr (List SOut)
  | .obj t => .ok [.setting t]
  | .str s => scrubString s
  | .int i => if i < 0 then .error .valueError else .ok [.int i]
  | .member name =>
    match lookupFormat name with
    | some ts => .ok (ts.map .setting)
    | none => .error .typeError
  | .list l => do
    let r ← scrubItems l
    pure ((combineInts r []).map .setting)
  | .selfRef => .error .valueError
  | .bad _ => .error .typeError
def scrubItems : List SArg → Except PyErr (List SOut)
  | [] => .ok []
  | a :: rest => do
    let r ← scrubItem a
    let rs ← scrubItems rest
    pure (r ++ rs)
end

/-- `_scrub_ansi_settings(settings)`: texts of the resulting AnsiSettings, in order -/
def scrub (a : SArg) : Except PyErr (List Str) :=
  match a with
  | .list l => do
    let r ← scrubItems l
    pure (combineInts r [])
  | a => do
    let r ← scrubItem a
    pure (combineInts r [])

end Scrub

/-- fresh setting objects for the given texts, ids `nid, nid+1, …` -/
def freshSettings (nid : Nat) (ts : List Str) : List Setting :=
  ts.zipIdx.map (fun (t, i) => ⟨nid + i, t⟩)
