import AnsiModel.Regex
/-
  AnsiModel.RegexCls — first-order character classes for the regular expressions that
  harness/pyre.py translates from the source (`AnsiModel/Generated/Regexes.lean`).

  A class `[...]` of Python's `re` is a list of items, possibly negated; the translator emits
  `Re.cls (Cls.test ⟨neg, items⟩)` / `Re.star (Cls.test ⟨neg, items⟩)`.
  `\s` and `\d` are the model's ASCII `Py.isSpace` / `Py.isDigit` (Unicode tables are unmodelled,
  DESIGN §4); `.` is `⟨true, [.ch '\n']⟩`.
-/

/-- one member of a character class -/
inductive ClsItem where
  | ch (c : Char)            -- a literal character
  | range (lo hi : Char)     -- `lo-hi`
  | space                    -- `\s`
  | digit                    -- `\d`
  deriving Repr, DecidableEq

def ClsItem.test : ClsItem → Char → Bool
  | .ch c, x => x == c
  | .range lo hi, x => lo ≤ x && x ≤ hi
  | .space, x => Py.isSpace x
  | .digit, x => Py.isDigit x

/-- `[items]` (`neg = false`) or `[^items]` (`neg = true`) -/
structure Cls where
  neg : Bool
  items : List ClsItem
  deriving Repr, DecidableEq

/-- does the class contain the character -/
def Cls.test (k : Cls) (x : Char) : Bool := (k.items.any (·.test x)) != k.neg
