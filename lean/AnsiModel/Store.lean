import AnsiModel.StrLike
import AnsiModel.Match
/-
  AnsiModel.Store — a small operation language over a store of named values, for statements about
  *histories*: `step : Store → Op → Store × Outcome`.

  The model is pure: an operation returns new values for exactly the variables it may write
  (`writes`).  In-place operations write their receiver; every other operation writes only its
  destination variable.  Fresh setting identities come from the store's counter.
-/

abbrev Var := Nat

structure Store where
  vals : List (Var × AStr) := []
  nid  : Nat := 1
  deriving Repr, Inhabited

namespace Store

def get? (σ : Store) (v : Var) : Option AStr := (σ.vals.find? (fun kv => kv.1 == v)).map (·.2)

def put (σ : Store) (v : Var) (x : AStr) : Store :=
  { σ with vals := (v, x) :: σ.vals.filter (fun kv => kv.1 != v) }

end Store

inductive Op where
  | new     (dst : Var) (s : Str) (settings : List SArg)
  | copy    (dst src : Var) (settings : List SArg)
  | apply   (v : Var) (a : SArg) (start end_ : Option Int) (top : Bool)
  | remove  (v : Var) (a : Option SArg) (start end_ : Option Int)
  | clear   (v : Var)
  | slice   (dst src : Var) (a b : Option Int)
  | index   (dst src : Var) (i : Int)
  | iadd    (v w : Var)
  | add     (dst v w : Var)
  | addStr  (dst v : Var) (t : Str)
  | ljust   (dst src : Var) (w : Int) (fill : Str) (ext : Bool)
  | rjust   (dst src : Var) (w : Int) (fill : Str) (ext : Bool)
  | center  (dst src : Var) (w : Int) (fill : Str) (ext : Bool)
  | assign  (v : Var) (t : Str)
  | simplify (v : Var)
  | strip   (dst src : Var) (chars : Option Str) (l r : Bool)
  | removeprefix (dst src : Var) (p : Str)
  | removesuffix (dst src : Var) (p : Str)
  | replace (dst src : Var) (old : Str) (new : Var ⊕ Str) (count : Int)
  | render  (src : Var) (spec : Option Str) (o rs re : Bool)
  | find    (src : Var) (a : SArg) (start end_ : Option Int) (rev : Bool)
  -- appended later (the numbering of the constructors above is fixed: the driver parses by number)
  | zfill   (dst src : Var) (w : Int)
  | clip    (dst src : Var) (a b : Option Int)
  | join    (dst : Var) (vs : List Var)
  | fmatch  (v : Var) (a : SArg) (spans : List (Int × Int)) (count : Int)
  | unfmatch (v : Var) (a : Option SArg) (spans : List (Int × Int)) (count : Int)
  | splitPiece (dst src : Var) (sep : Option Str) (maxsplit : Int) (r : Bool) (j : Nat)
  | linePiece (dst src : Var) (keepends : Bool) (j : Nat)
  | partPiece (dst src : Var) (sep : Str) (r : Bool) (j : Nat)
  | expandtabs (dst src : Var) (k : Int)
  deriving Inhabited

/-- the variables an operation may write -/
def Op.writes : Op → List Var
  | .new d _ _ | .copy d _ _ | .slice d _ _ _ | .index d _ _ | .add d _ _ | .addStr d _ _
  | .ljust d _ _ _ _ | .rjust d _ _ _ _ | .center d _ _ _ _ | .strip d _ _ _ _
  | .removeprefix d _ _ | .removesuffix d _ _ | .replace d _ _ _ _
  | .zfill d _ _ | .clip d _ _ _ | .join d _ | .splitPiece d _ _ _ _ _ | .linePiece d _ _ _
  | .partPiece d _ _ _ _ | .expandtabs d _ _ => [d]
  | .apply v _ _ _ _ | .remove v _ _ _ | .clear v | .iadd v _ | .assign v _ | .simplify v
  | .fmatch v _ _ _ | .unfmatch v _ _ _ => [v]
  | .render _ _ _ _ _ | .find _ _ _ _ _ => []

inductive Outcome where
  | ok
  | str (s : Str)
  | range (a b : Option Nat)
  | err (e : PyErr)
  | unbound                -- the script names a variable that does not exist
  deriving Repr, Inhabited

/-- `format_matching` for a value that lives in a store: the loop of `AStr.formatMatching`
    (`AnsiModel/Match.lean`), except that the new setting objects of every iteration get identities
    from the store's counter `nid` on (and never below the value's own `nextId`).
    `AStr.formatMatching` numbers them from the value's own `nextId`, which is right for a value on its
    own but, inside a store, could hand out an identity that another variable already uses for a
    different object.  With `nid = 0` this function IS `AStr.formatMatching`
    (`Store.formatMatchingFrom_zero` in `AnsiProofs/Props/C08.lean`). -/
def AStr.formatMatchingFrom (x : AStr) (nid : Nat) (a : SArg) (spans : List (Int × Int)) (count : Int) :
    Except PyErr AStr :=
  (takeCount count spans).foldlM
    (fun (acc : AStr) (se : Int × Int) =>
      acc.applyRaw (max nid acc.fmts.nextId) a (some se.1) (some se.2) true) x

namespace Store

/-- after writing `x` the counter is moved past every identity `x` holds -/
def bump (σ : Store) (x : AStr) : Store := { σ with nid := max σ.nid x.fmts.nextId }

/-- write `x` to `v` -/
def commit (σ : Store) (v : Var) (x : AStr) : Store × Outcome := ((σ.put v x).bump x, .ok)

def withVal (σ : Store) (v : Var) (k : AStr → Store × Outcome) : Store × Outcome :=
  match σ.get? v with
  | some x => k x
  | none => (σ, .unbound)

def fromExcept (σ : Store) (v : Var) (r : Except PyErr AStr) : Store × Outcome :=
  match r with
  | .ok x => σ.commit v x
  | .error e => (σ, .err e)

def pad1 (σ : Store) (dst : Var) (fill : Str) (f : Char → AStr) : Store × Outcome :=
  match fill with
  | [c] => σ.commit dst (f c)
  | _ => (σ, .err .valueError)

/-- the values of a list of variables; `none` if one of them is not bound -/
def getAll (σ : Store) : List Var → Option (List AStr)
  | [] => some []
  | v :: vs =>
    match σ.get? v, σ.getAll vs with
    | some x, some xs => some (x :: xs)
    | _, _ => none

/-- write the selected element of a result list / tuple to `dst`.  A position that does not exist
    (`j` out of range) is treated like a variable that does not exist: the store is unchanged and
    the outcome is `.unbound` (it is the *script* that is wrong; in Python the script's own
    subscript `pieces[j]` would raise, not a method of the library). -/
def piece (σ : Store) (dst : Var) : Option AStr → Store × Outcome
  | some p => σ.commit dst p
  | none => (σ, .unbound)

def step (σ : Store) : Op → Store × Outcome
  | .new d s ss => σ.fromExcept d (AStr.ofStr s ss σ.nid)
  | .copy d src ss => σ.withVal src fun x => σ.fromExcept d (x.ofAStr ss σ.nid)
  | .apply v a st en top => σ.withVal v fun x => σ.fromExcept v (x.applyRaw σ.nid a st en top)
  | .remove v a st en => σ.withVal v fun x => σ.fromExcept v (x.removeRaw a st en)
  | .clear v => σ.withVal v fun x => σ.commit v x.clearFormatting
  | .slice d src a b => σ.withVal src fun x => σ.commit d (x.getSlice a b)
  | .index d src i => σ.withVal src fun x => σ.fromExcept d (x.getIndex i)
  | .iadd v w => σ.withVal v fun x => σ.withVal w fun y => σ.commit v (x.iadd y)
  | .add d v w => σ.withVal v fun x => σ.withVal w fun y => σ.commit d (x.iadd y)
  | .addStr d v t => σ.withVal v fun x => σ.commit d (x.iadd (AStr.setAnsi t σ.nid).1)
  | .ljust d src w fill e => σ.withVal src fun x => σ.pad1 d fill (fun c => x.ljust w c e)
  | .rjust d src w fill e => σ.withVal src fun x => σ.pad1 d fill (fun c => x.rjust w c e)
  | .center d src w fill e => σ.withVal src fun x => σ.pad1 d fill (fun c => x.center w c e)
  | .assign v t => σ.withVal v fun x => σ.commit v (x.assignStr t)
  | .simplify v => σ.withVal v fun x => σ.commit v (x.simplify σ.nid)
  | .strip d src cs l r => σ.withVal src fun x => σ.commit d (x.stripGen cs l r false)
  | .removeprefix d src p => σ.withVal src fun x => σ.commit d (x.removeprefix p)
  | .removesuffix d src p => σ.withVal src fun x => σ.commit d (x.removesuffix p)
  | .replace d src old new count => σ.withVal src fun x =>
      match new with
      | .inr t => σ.commit d (x.replace old (.str t) count σ.nid)
      | .inl w => σ.withVal w fun y => σ.commit d (x.replace old (.astr y) count σ.nid)
  | .render src spec o rs re => σ.withVal src fun x =>
      match x.toStr spec o rs re σ.nid with
      | .ok s => (σ, .str s)
      | .error e => (σ, .err e)
  | .find src a st en rev => σ.withVal src fun x =>
      match x.findRaw a st en rev with
      | .ok r => (σ, .range r.1 r.2)
      | .error e => (σ, .err e)
  | .zfill d src w => σ.withVal src fun x => σ.commit d (x.zfill w)
  | .clip d src a b => σ.withVal src fun x => σ.commit d (x.getSlice a b)
  | .join d vs =>
      match σ.getAll vs with
      | some xs => σ.commit d (AStr.join xs)
      | none => (σ, .unbound)
  | .fmatch v a spans count => σ.withVal v fun x =>
      σ.fromExcept v (x.formatMatchingFrom σ.nid a spans count)
  | .unfmatch v a spans count => σ.withVal v fun x => σ.fromExcept v (x.unformatMatching a spans count)
  | .splitPiece d src sep maxsplit r j => σ.withVal src fun x =>
      match x.splitGen sep maxsplit r with
      | .ok ps => σ.piece d ps[j]?
      | .error e => (σ, .err e)
  | .linePiece d src keepends j => σ.withVal src fun x => σ.piece d (x.splitlines keepends)[j]?
  | .partPiece d src sep r j => σ.withVal src fun x =>
      let t := x.partitionGen sep r
      σ.piece d [t.1, t.2.1, t.2.2][j]?
  | .expandtabs d src k => σ.withVal src fun x => σ.commit d (x.expandtabs k σ.nid)

/-- run a whole script -/
def run (σ : Store) (ops : List Op) : Store := ops.foldl (fun s op => (s.step op).1) σ

end Store
