import AnsiModel.StrLike
import AnsiModel.Match
/-
  AnsiModel.Store — a small operation language over a store of named values, for statements about
  *histories*: `step : Store → Op → Store × Outcome`.

  The model is pure: an operation returns new values for exactly the variables it may write
  (`writes`).  In-place operations write their receiver; every other operation writes only its
  destination variable.  Fresh setting identities come from the store's counter.
-/

abbrev Var := Nat

structure Store where
  vals : List (Var × AStr) := []
  nid  : Nat := 1
  deriving Repr, Inhabited

namespace Store

def get? (σ : Store) (v : Var) : Option AStr := (σ.vals.find? (fun kv => kv.1 == v)).map (·.2)

def put (σ : Store) (v : Var) (x : AStr) : Store :=
  { σ with vals := (v, x) :: σ.vals.filter (fun kv => kv.1 != v) }

end Store

inductive Op where
  | new     (dst : Var) (s : Str) (settings : List SArg)
  | copy    (dst src : Var) (settings : List SArg)
  | apply   (v : Var) (a : SArg) (start end_ : Option Int) (top : Bool)
  | remove  (v : Var) (a : Option SArg) (start end_ : Option Int)
  | clear   (v : Var)
  | slice   (dst src : Var) (a b : Option Int)
  | index   (dst src : Var) (i : Int)
  | iadd    (v w : Var)
  | add     (dst v w : Var)
  | addStr  (dst v : Var) (t : Str)
  | ljust   (dst src : Var) (w : Int) (fill : Str) (ext : Bool)
  | rjust   (dst src : Var) (w : Int) (fill : Str) (ext : Bool)
  | center  (dst src : Var) (w : Int) (fill : Str) (ext : Bool)
  | assign  (v : Var) (t : Str)
  | simplify (v : Var)
  | strip   (dst src : Var) (chars : Option Str) (l r : Bool)
  | removeprefix (dst src : Var) (p : Str)
  | removesuffix (dst src : Var) (p : Str)
  | replace (dst src : Var) (old : Str) (new : Var ⊕ Str) (count : Int)
  | render  (src : Var) (spec : Option Str) (o rs re : Bool)
  | find    (src : Var) (a : SArg) (start end_ : Option Int) (rev : Bool)
  deriving Inhabited

/-- the variables an operation may write -/
def Op.writes : Op → List Var
  | .new d _ _ | .copy d _ _ | .slice d _ _ _ | .index d _ _ | .add d _ _ | .addStr d _ _
  | .ljust d _ _ _ _ | .rjust d _ _ _ _ | .center d _ _ _ _ | .strip d _ _ _ _
  | .removeprefix d _ _ | .removesuffix d _ _ | .replace d _ _ _ _ => [d]
  | .apply v _ _ _ _ | .remove v _ _ _ | .clear v | .iadd v _ | .assign v _ | .simplify v => [v]
  | .render _ _ _ _ _ | .find _ _ _ _ _ => []

inductive Outcome where
  | ok
  | str (s : Str)
  | range (a b : Option Nat)
  | err (e : PyErr)
  | unbound                -- the script names a variable that does not exist
  deriving Repr, Inhabited

namespace Store

/-- after writing `x` the counter is moved past every identity `x` holds -/
def bump (σ : Store) (x : AStr) : Store := { σ with nid := max σ.nid x.fmts.nextId }

/-- write `x` to `v` -/
def commit (σ : Store) (v : Var) (x : AStr) : Store × Outcome := ((σ.put v x).bump x, .ok)

def withVal (σ : Store) (v : Var) (k : AStr → Store × Outcome) : Store × Outcome :=
  match σ.get? v with
  | some x => k x
  | none => (σ, .unbound)

def fromExcept (σ : Store) (v : Var) (r : Except PyErr AStr) : Store × Outcome :=
  match r with
  | .ok x => σ.commit v x
  | .error e => (σ, .err e)

def pad1 (σ : Store) (dst : Var) (fill : Str) (f : Char → AStr) : Store × Outcome :=
  match fill with
  | [c] => σ.commit dst (f c)
  | _ => (σ, .err .valueError)

def step (σ : Store) : Op → Store × Outcome
  | .new d s ss => σ.fromExcept d (AStr.ofStr s ss σ.nid)
  | .copy d src ss => σ.withVal src fun x => σ.fromExcept d (x.ofAStr ss σ.nid)
  | .apply v a st en top => σ.withVal v fun x => σ.fromExcept v (x.applyRaw σ.nid a st en top)
  | .remove v a st en => σ.withVal v fun x => σ.fromExcept v (x.removeRaw a st en)
  | .clear v => σ.withVal v fun x => σ.commit v x.clearFormatting
  | .slice d src a b => σ.withVal src fun x => σ.commit d (x.getSlice a b)
  | .index d src i => σ.withVal src fun x => σ.fromExcept d (x.getIndex i)
  | .iadd v w => σ.withVal v fun x => σ.withVal w fun y => σ.commit v (x.iadd y)
  | .add d v w => σ.withVal v fun x => σ.withVal w fun y => σ.commit d (x.iadd y)
  | .addStr d v t => σ.withVal v fun x => σ.commit d (x.iadd (AStr.setAnsi t σ.nid).1)
  | .ljust d src w fill e => σ.withVal src fun x => σ.pad1 d fill (fun c => x.ljust w c e)
  | .rjust d src w fill e => σ.withVal src fun x => σ.pad1 d fill (fun c => x.rjust w c e)
  | .center d src w fill e => σ.withVal src fun x => σ.pad1 d fill (fun c => x.center w c e)
  | .assign v t => σ.withVal v fun x => σ.commit v (x.assignStr t)
  | .simplify v => σ.withVal v fun x => σ.commit v (x.simplify σ.nid)
  | .strip d src cs l r => σ.withVal src fun x => σ.commit d (x.stripGen cs l r false)
  | .removeprefix d src p => σ.withVal src fun x => σ.commit d (x.removeprefix p)
  | .removesuffix d src p => σ.withVal src fun x => σ.commit d (x.removesuffix p)
  | .replace d src old new count => σ.withVal src fun x =>
      match new with
      | .inr t => σ.commit d (x.replace old (.str t) count σ.nid)
      | .inl w => σ.withVal w fun y => σ.commit d (x.replace old (.astr y) count σ.nid)
  | .render src spec o rs re => σ.withVal src fun x =>
      match x.toStr spec o rs re σ.nid with
      | .ok s => (σ, .str s)
      | .error e => (σ, .err e)
  | .find src a st en rev => σ.withVal src fun x =>
      match x.findRaw a st en rev with
      | .ok r => (σ, .range r.1 r.2)
      | .error e => (σ, .err e)

/-- run a whole script -/
def run (σ : Store) (ops : List Op) : Store := ops.foldl (fun s op => (s.step op).1) σ

end Store
