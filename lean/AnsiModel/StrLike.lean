import AnsiModel.SetAnsi
/-
  AnsiModel.StrLike — the str-like methods re-implemented on top of slicing and concatenation:
  `_strip`, `removeprefix/suffix`, `replace`, `_split`, `splitlines`, `partition`, `rpartition`,
  case methods (text supplied by CPython), `expandtabs`; plus models of `str.split/rsplit/splitlines`.
-/

namespace Py

/-- `s.split(sep, maxsplit)` for non-empty `sep`; `maxsplit < 0` = no limit.
    `fuel` bounds the scan (the input length suffices). -/
def splitSepAux (sep : Str) : Nat → Str → Str → Int → List Str
  | 0, cur, rest, _ => [cur ++ rest]
  | fuel + 1, cur, rest, maxsplit =>
    match rest with
    | [] => [cur]
    | c :: rest' =>
      if maxsplit ≠ 0 ∧ startsWith rest sep then
        cur :: splitSepAux sep fuel [] (rest.drop sep.length) (maxsplit - 1)
      else splitSepAux sep fuel (cur ++ [c]) rest' maxsplit

def splitSep (s sep : Str) (maxsplit : Int) : List Str := splitSepAux sep (s.length + 1) [] s maxsplit

/-- `s.rsplit(sep, maxsplit)` via the mirror image -/
def rsplitSep (s sep : Str) (maxsplit : Int) : List Str :=
  ((splitSep s.reverse sep.reverse maxsplit).map List.reverse).reverse

/-- `s.split(None, maxsplit)` -/
def splitWsAux : Nat → Str → Int → List Str
  | 0, _, _ => []
  | fuel + 1, s, maxsplit =>
    let s := s.dropWhile isSpace
    if s.isEmpty then []
    else if maxsplit = 0 then [s]
    else
      let w := s.takeWhile (fun c => !isSpace c)
      w :: splitWsAux fuel (s.drop w.length) (maxsplit - 1)

def splitWs (s : Str) (maxsplit : Int) : List Str := splitWsAux (s.length + 1) s maxsplit

/-- `s.rsplit(None, maxsplit)` -/
def rsplitWs (s : Str) (maxsplit : Int) : List Str :=
  ((splitWs s.reverse maxsplit).map List.reverse).reverse

/-- line boundaries of `str.splitlines` (single characters; `\r\n` handled in the scanner) -/
def isLineBreak (c : Char) : Bool :=
  c == '\n' || c == '\r' || c.toNat == 0x0b || c.toNat == 0x0c || c.toNat == 0x1c || c.toNat == 0x1d ||
  c.toNat == 0x1e || c.toNat == 0x85 || c.toNat == 0x2028 || c.toNat == 0x2029

/-- `s.splitlines(keepends)` -/
def splitlinesAux (keepends : Bool) : Str → Str → List Str
  | [], cur => if cur.isEmpty then [] else [cur]
  | '\r' :: '\n' :: rest, cur =>
    (if keepends then cur ++ ['\r', '\n'] else cur) :: splitlinesAux keepends rest []
  | c :: rest, cur =>
    if isLineBreak c then (if keepends then cur ++ [c] else cur) :: splitlinesAux keepends rest []
    else splitlinesAux keepends rest (cur ++ [c])

def splitlines (s : Str) (keepends : Bool) : List Str := splitlinesAux keepends s []

end Py

namespace AStr

/-- `_strip(chars, inplace, do_lstrip, do_rstrip)`; `chars = none` ⇔ `None` -/
def stripGen (x : AStr) (chars : Option Str) (doL doR inplace : Bool) : AStr :=
  let cs := chars.getD Gen.whitespaceChars
  let lcount := if doL then (x.s.takeWhile (fun c => cs.contains c)).length else 0
  let rcount : Option Int :=
    if doR ∧ lcount < x.len then
      let r := (x.s.reverse.takeWhile (fun c => cs.contains c)).length
      if r = 0 then none else some (-(r : Int))
    else none
  if inplace ∧ lcount = 0 ∧ rcount.isNone then x
  else x.getSlice (some lcount) rcount

/-- `removeprefix(prefix)` -/
def removeprefix (x : AStr) (pfx : Str) : AStr :=
  if !Py.startsWith x.s pfx then x else x.getSlice (some pfx.length) none

/-- `removesuffix(suffix)` -/
def removesuffix (x : AStr) (sfx : Str) : AStr :=
  if sfx.isEmpty ∨ !Py.endsWith x.s sfx then x else x.getSlice none (some (-(sfx.length : Int)))

/-- how `replace` obtains the value to insert for one match -/
inductive Repl where
  | str  (raw : Str)      -- a plain `str`: parsed, then given the settings of the match's first character
  | astr (v : AStr)       -- an AnsiString / AnsiStr (used as is; a copy for AnsiStr)

/-- `len(replace)`: the length of the text that is inserted for one match (a plain `str` is parsed,
    so escape sequences in it do not count) -/
def Repl.advance : Repl → Nat
  | .str raw => (AStr.setAnsi raw 0).1.len
  | .astr v => v.len

/-- the `while` loop of `replace`; `fuel` bounds the number of iterations -/
def replaceLoop (old : Str) (new : Repl) : Nat → AStr → Int → Option Nat → Nat → AStr
  | 0, obj, _, _, _ => obj
  | fuel + 1, obj, count, idx, nid =>
    match idx with
    | none => obj
    | some i =>
      if count = 0 then obj
      else
        let (rep, nid') : AStr × Nat :=
          match new with
          | .astr v => (v, nid)
          | .str raw =>
            let r := setAnsi raw nid
            let act := obj.ansiSettingsAt i
            ((r.1.applyFormatting (freshSettings r.2 (texts act)) none none true), r.2 + act.length)
        let obj' := ((obj.getSlice none (some i)).iadd rep).iadd (obj.getSlice (some ((i + old.length : Nat) : Int)) none)
        let count' := if count > 0 then count - 1 else count
        let from_ := i + new.advance + (if old.isEmpty then 1 else 0)
        replaceLoop old new fuel obj' count' (Py.find obj'.s old from_) nid'

/-- `replace(old, new, count)` -/
def replace (x : AStr) (old : Str) (new : Repl) (count : Int) (nid : Nat) : AStr :=
  replaceLoop old new (x.len + 2) x count (Py.find x.s old 0) nid

/-- the offset recovery shared by `_split` and `splitlines`:
    `idx = self._s.find(s, idx); …; idx += len(s) (+ len(sep))` -/
def pieceOffsets (s : Str) (gap : Nat) : List Str → Nat → List (Nat × Nat)
  | [], _ => []
  | p :: rest, idx =>
    let at_ := (Py.find s p idx).getD 0     -- find() cannot fail for a piece of s; -1 never happens
    (at_, p.length) :: pieceOffsets s gap rest (at_ + p.length + gap)

def piecesAt (x : AStr) (offs : List (Nat × Nat)) : List AStr :=
  offs.map (fun ol => x.getSlice (some (ol.1 : Int)) (some ((ol.1 + ol.2 : Nat) : Int)))

/-- `_split(sep, maxsplit, r)`; `sep = none` ⇔ whitespace splitting; empty `sep` is str's ValueError -/
def splitGen (x : AStr) (sep : Option Str) (maxsplit : Int) (r : Bool) : Except PyErr (List AStr) :=
  match sep with
  | some [] => .error .valueError
  | some sp =>
    let ps := if r then Py.rsplitSep x.s sp maxsplit else Py.splitSep x.s sp maxsplit
    .ok (x.piecesAt (pieceOffsets x.s sp.length ps 0))
  | none =>
    let ps := if r then Py.rsplitWs x.s maxsplit else Py.splitWs x.s maxsplit
    .ok (x.piecesAt (pieceOffsets x.s 0 ps 0))

/-- `splitlines(keepends)` -/
def splitlines (x : AStr) (keepends : Bool) : List AStr :=
  x.piecesAt (pieceOffsets x.s 0 (Py.splitlines x.s keepends) 0)

/-- `partition(sep)` / `rpartition(sep)` -/
def partitionGen (x : AStr) (sep : Str) (r : Bool) : AStr × AStr × AStr :=
  match (if r then Py.rfind x.s sep else Py.find x.s sep 0) with
  | some idx =>
    let e : Int := ((idx + sep.length : Nat) : Int)
    (x.getSlice (some 0) (some (idx : Int)), x.getSlice (some (idx : Int)) (some e), x.getSlice (some e) none)
  | none => (x, {}, {})

/-- case methods: CPython supplies the converted text; the table is left alone -/
def mapText (x : AStr) (t : Str) : AStr := { x with s := t }

/-- `expandtabs(tabsize)` -/
def expandtabs (x : AStr) (tabsize : Int) (nid : Nat) : AStr :=
  x.replace ['\t'] (.str (List.replicate tabsize.toNat ' ')) (-1) nid

end AStr
