import AnsiModel.PyStr
/-
  AnsiModel.Regex — a small backtracking matcher with Python `re` semantics for the constructs
  the library's nine patterns use: character classes, literals, greedy `?`/`*`/`+` (star and plus
  over single-character classes only), capture groups, alternation, `$`.

  `$` (no MULTILINE): end of string, or just before a final '\n'.  `.` does not match '\n'.
  All patterns of the library are anchored with `^` or used with `re.match`, so matching starts
  at position 0 only.
-/

inductive Re where
  | cls  (p : Char → Bool)              -- one character in a class
  | star (p : Char → Bool)              -- greedy `[..]*`
  | opt  (r : Re)                       -- greedy `(..)?`
  | cap  (n : Nat) (r : Re)             -- capture group n
  | seq  (a b : Re)
  | alt  (a b : Re)
  | eps
  | eos                                 -- `$`

namespace Re

abbrev Caps := List (Nat × Str)

def lit : Str → Re
  | [] => eps
  | c :: rest => seq (cls (· == c)) (lit rest)

def plus (p : Char → Bool) : Re := seq (cls p) (star p)

/-- `m r s caps k`: match `r` at the front of `s`, then continue with `k`; `matched` accumulates
    (reversed) the characters consumed inside the innermost open capture — captures are
    implemented by passing the consumed prefix explicitly instead. -/
def m {α} : Re → Str → Caps → (Str → Caps → Option α) → Option α
  | cls p, s, caps, k =>
    match s with
    | c :: rest => if p c then k rest caps else none
    | [] => none
  | star p, s, caps, k =>
    -- greedy: try the longest run first, then shorter ones
    let run := s.takeWhile p
    let rec go : Nat → Option α
      | 0 => k s caps
      | n + 1 => match k (s.drop (n + 1)) caps with
        | some a => some a
        | none => go n
    go run.length
  | opt r, s, caps, k =>
    match m r s caps k with
    | some a => some a
    | none => k s caps
  | cap n r, s, caps, k =>
    m r s caps (fun rest caps' => k rest ((n, s.take (s.length - rest.length)) :: caps'.filter (·.1 != n)))
  | seq a b, s, caps, k => m a s caps (fun rest caps' => m b rest caps' k)
  | alt a b, s, caps, k =>
    match m a s caps k with
    | some x => some x
    | none => m b s caps k
  | eps, s, caps, k => k s caps
  | eos, s, caps, k => if s.isEmpty ∨ s == ['\n'] then k s caps else none

/-- `re.match(r, s)` / `re.search('^…', s)`: the capture list of the first successful match -/
def matchStart (r : Re) (s : Str) : Option Caps := m r s [] (fun _ caps => some caps)

/-- `match.group(n)`; `none` when the group did not participate -/
def group (caps : Caps) (n : Nat) : Option Str := (caps.find? (·.1 == n)).map (·.2)

end Re
