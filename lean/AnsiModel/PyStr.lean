import AnsiModel.Basic
/-
  AnsiModel.PyStr — executable models of the CPython primitives the library calls:
  `int(str)`, `str(int)`, `str.strip()`, `str.split(sep)`, `find`, `startswith`, …
  ASCII only where Unicode tables would be needed (listed in DESIGN §4 as unmodelled).
-/

namespace Py

/-- `Py_UNICODE_ISSPACE` restricted to ASCII -/
def isSpace (c : Char) : Bool :=
  c == ' ' || (9 ≤ c.toNat && c.toNat ≤ 13) || (0x1c ≤ c.toNat && c.toNat ≤ 0x1f)

def isDigit (c : Char) : Bool := '0' ≤ c && c ≤ '9'

def rstripBy (p : Char → Bool) (s : Str) : Str := (s.reverse.dropWhile p).reverse

/-- `s.strip()` -/
def strip (s : Str) : Str := rstripBy isSpace (s.dropWhile isSpace)

/-- value of a run of ASCII digits -/
def digitsVal (s : Str) : Nat := s.foldl (fun n c => 10 * n + (c.toNat - '0'.toNat)) 0

/-- digits with optional single underscores between them (`int()` grammar); returns the value -/
def parseDigitsU : Str → Option Nat → Bool → Option Nat
  -- acc = value so far (none = no digit yet); lastUnderscore
  | [], acc, lastU => if lastU then none else acc
  | c :: rest, acc, lastU =>
    if isDigit c then parseDigitsU rest (some (10 * acc.getD 0 + (c.toNat - '0'.toNat))) false
    else if c == '_' then
      (match acc with
       | none => none
       | some _ => if lastU then none else parseDigitsU rest acc true)
    else none

/-- `int(s)` for a `str` in base 10 (`none` = ValueError) -/
def int (s : Str) : Option Int :=
  match strip s with
  | '+' :: rest => (parseDigitsU rest none false).map (fun n => (n : Int))
  | '-' :: rest => (parseDigitsU rest none false).map (fun n => -(n : Int))
  | t => (parseDigitsU t none false).map (fun n => (n : Int))

/-- `s.isdigit()` (ASCII) -/
def isdigit (s : Str) : Bool := !s.isEmpty && s.all isDigit

def natDigitsAux : Nat → Nat → Str → Str
  | 0, _, acc => acc
  | fuel + 1, n, acc =>
    let acc' := Char.ofNat ('0'.toNat + n % 10) :: acc
    if n / 10 = 0 then acc' else natDigitsAux fuel (n / 10) acc'

/-- `str(n)` for a non-negative int -/
def natStr (n : Nat) : Str := natDigitsAux (n + 1) n []

/-- `str(i)` for an int -/
def intStr (i : Int) : Str := if i < 0 then '-' :: natStr i.natAbs else natStr i.toNat

/-- `s.split(sep)` for a one-character separator -/
def splitOnChar (sep : Char) : Str → List Str
  | [] => [[]]
  | c :: rest =>
    if c == sep then [] :: splitOnChar sep rest
    else
      match splitOnChar sep rest with
      | [] => [[c]]
      | h :: t => (c :: h) :: t

/-- `s.startswith(p)` -/
def startsWith : Str → Str → Bool
  | _, [] => true
  | [], _ :: _ => false
  | c :: s, d :: p => c == d && startsWith s p

/-- `s.endswith(p)` -/
def endsWith (s p : Str) : Bool := startsWith s.reverse p.reverse

/-- lowest index `i ≥ from_` with `s[i:].startswith(sub)`; counting from the front of `s` -/
def findFrom : Str → Str → Nat → Nat → Option Nat
  | s, sub, pos, from_ =>
    match s with
    | [] => if pos ≥ from_ ∧ sub.isEmpty then some pos else none
    | _ :: rest =>
      if pos ≥ from_ ∧ startsWith s sub then some pos else findFrom rest sub (pos + 1) from_

/-- `s.find(sub, start)` for `0 ≤ start` (`none` = -1) -/
def find (s sub : Str) (start : Nat := 0) : Option Nat := findFrom s sub 0 start

/-- all start positions of `sub` in `s` (overlapping allowed) -/
def occurrences : Str → Str → Nat → List Nat
  | [], sub, pos => if sub.isEmpty then [pos] else []
  | c :: rest, sub, pos =>
    if startsWith (c :: rest) sub then pos :: occurrences rest sub (pos + 1) else occurrences rest sub (pos + 1)

/-- `s.rfind(sub)` -/
def rfind (s sub : Str) : Option Nat := (occurrences s sub 0).getLast?

end Py
