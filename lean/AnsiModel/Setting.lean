import AnsiModel.PyStr
import AnsiModel.Generated.Tables
/-
  AnsiModel.Setting — `AnsiSetting.valid`, `.parsable`, `.to_list`, `.get_initial_param`
  and the `AnsiParam` lookup (ansi_format.py, ansi_param.py).
-/

/-- an element of `to_list()` / of `parse_graphic_sequence`'s item list -/
inductive Code where
  | int (i : Int)
  | str (s : Str)
  deriving DecidableEq, Repr, Inhabited

/-- `AnsiParam(c)`: `(effect_type.value, effect_fn.value)` or none (ValueError) -/
def ansiParam (c : Int) : Option (Nat × Nat) :=
  if c < 0 then none else (Gen.paramTable.find? (fun r => r.1 == c.toNat)).map (·.2)

/-- is the character a control-sequence terminator (0x40–0x7E) -/
def isTerm (c : Char) : Bool := Gen.termLo ≤ c.toNat && c.toNat ≤ Gen.termHi

namespace SettingTxt

/-- `AnsiSetting.valid` -/
def valid (t : Str) : Bool := t.all (fun c => !isTerm c)

/-- `AnsiSetting.to_list()` -/
def toList (t : Str) : List Code :=
  (Py.splitOnChar ';' t).map (fun v =>
    let v := Py.strip v
    if Py.isdigit v then Code.int (Py.digitsVal v) else Code.str v)

/-- `_AnsiControlFn.seq_starts_with_fn(seq)` -/
def startsWithFn : List Nat → List Code → Bool
  | [], _ => true
  | _ :: _, [] => false
  | m :: ms, c :: cs => c == Code.int m && startsWithFn ms cs

/-- the `for fn in _AnsiControlFn` loop of `parsable`: `some b` = returned b inside the loop,
    `none` = fell through (with `found`) -/
def parsableFnLoop (codes : List Code) : List (List Nat × Nat) → Bool → Option Bool × Bool
  | [], found => (none, found)
  | (setup, nargs) :: rest, found =>
    if startsWithFn setup codes then (some (codes.length == setup.length + nargs), found)
    else if codes.head? == setup.head?.map (fun m => Code.int m) then parsableFnLoop codes rest true
    else parsableFnLoop codes rest found

/-- `AnsiSetting.parsable` -/
def parsable (t : Str) : Bool :=
  if !valid t then false
  else
    let codes := toList t
    match codes with
    | [] => false
    | c0 :: _ =>
      if c0 == Code.int 0 then false
      else if !(codes.all (fun c => match c with | .int i => 0 ≤ i ∧ i ≤ 255 | .str _ => false)) then false
      else
        match c0 with
        | .str _ => false
        | .int i0 =>
          if (ansiParam i0).isNone then false
          else
            match parsableFnLoop codes Gen.ctrlFns false with
            | (some b, _) => b
            | (none, true) => false
            | (none, false) => codes.length == 1

/-- `AnsiSetting.get_initial_param()` as `(effect, fn)` -/
def initialParam (t : Str) : Option (Nat × Nat) :=
  match Py.splitOnChar ';' t with
  | [] => none
  | v :: _ => (Py.int v).bind ansiParam

end SettingTxt
