import AnsiModel.Replay
/-
  AnsiModel.Format — `_slice_val_to_idx`, `apply_formatting`, `remove_formatting`,
  `clear_formatting`, `find_settings` (ansi_string.py).

  The settings argument arrives here already scrubbed (`Scrub.lean`): for `apply` a list of
  *fresh* setting objects, for `remove`/`find` the list of setting texts (value comparison) or
  `none` for "all".
-/

/-- `_slice_val_to_idx(val, default)` for a string of length `n` -/
def sliceIdx (n : Nat) (v : Option Int) (dflt : Nat) : Nat :=
  match v with
  | none => dflt
  | some v => if v < 0 then ((n : Int) + v).toNat else min v.toNat n

namespace AStr

/-- `apply_formatting` after the settings have been scrubbed into the fresh objects `N`. -/
def applyFormatting (x : AStr) (N : List Setting) (start end_ : Option Int) (topmost : Bool) : AStr :=
  let n := x.len
  let st := sliceIdx n start 0
  let en := sliceIdx n end_ n
  if st ≥ n ∨ en ≤ st then x
  else if N.isEmpty then x
  else
    let f := x.fmts.ensure st
    -- insert_settings(True, ansi_settings, topmost)
    let f := f.modify st (fun p => { p with add := if topmost then p.add ++ N else N ++ p.add })
    let f :=
      if topmost then f
      else
        -- remove and re-add whatever leads up to the start index, right behind the new settings
        let pa := (f.getD st).add
        let P := (active f st).filter (fun s => !hasId pa s.id)
        if P.isEmpty then f
        else f.modify st (fun p =>
          { rem := p.rem ++ P, add := p.add.take N.length ++ P ++ p.add.drop N.length })
    let f := f.ensure en
    let f := f.modify en (fun p => { p with rem := if topmost then p.rem ++ N else N ++ p.rem })
    { x with fmts := f }

/-- is the setting selected by `remove_formatting`'s argument (`none` = all) -/
def selected (M : Option (List Str)) (s : Setting) : Bool :=
  match M with
  | none => true
  | some l => l.contains s.txt

/-- body of `if idx == start:` — returns the new point and the new `removed_settings` -/
def removeAtStart (M : Option (List Str)) (p : Point) (removed : List Setting) (cur : List Setting) :
    Point × List Setting :=
  cur.foldl (fun (acc : Point × List Setting) s =>
    if selected M s then
      if hasId acc.1.add s.id then ({ acc.1 with add := eraseId acc.1.add s.id }, acc.2 ++ [s])
      else ({ acc.1 with rem := acc.1.rem ++ [s] }, acc.2 ++ [s])
    else acc) (p, removed)

/-- the `for i in reversed(range(len(settings_point.rem)))` loop: stop markers of removed settings
    disappear together with the entry in `removed_settings`.  Returns (new rem, new removed). -/
def removeRems (rem : List Setting) (removed : List Setting) : List Setting × List Setting :=
  rem.foldr (fun s (acc : List Setting × List Setting) =>
    if hasId acc.2 s.id then (acc.1, eraseId acc.2 s.id) else (s :: acc.1, acc.2)) ([], removed)

def removeLoop (M : Option (List Str)) (st en n : Nat) :
    List Setting → List (Nat × Point × List Setting) → Fmts
  | _, [] => []
  | removed, (idx, p, cur) :: rest =>
    if idx < st then (idx, p) :: removeLoop M st en n removed rest
    else if idx > en then (idx, p) :: rest.map (fun t => (t.1, t.2.1))
    else if idx = st then
      let r := removeAtStart M p removed cur
      (idx, r.1) :: removeLoop M st en n r.2 rest
    else
      let rr := removeRems p.rem removed
      if idx = en then
        if en ≠ n ∧ !rr.2.isEmpty then
          let carried := (cur.filter (fun s => !hasId p.add s.id)).dropWhile (fun s => !hasId rr.2 s.id)
          let p' : Point :=
            { rem := rr.1 ++ carried.filter (fun s => !hasId rr.2 s.id), add := carried ++ p.add }
          (idx, p') :: removeLoop M st en n rr.2 rest
        else (idx, { p with rem := rr.1 }) :: removeLoop M st en n rr.2 rest
      else
        let gone := p.add.filter (selected M)
        let p' : Point := { rem := rr.1, add := p.add.filter (fun s => !selected M s) }
        (idx, p') :: removeLoop M st en n (rr.2 ++ gone.reverse) rest

/-- `remove_formatting` after scrubbing (`M = none` ⇔ `settings` was `None`/falsy-None). -/
def removeFormatting (x : AStr) (M : Option (List Str)) (start end_ : Option Int) : AStr :=
  let n := x.len
  let st := sliceIdx n start 0
  let en := sliceIdx n end_ n
  if st ≥ n ∨ en ≤ st then x
  else
    let f := (x.fmts.ensure st).ensure en
    let f := removeLoop M st en n [] (replay f)
    { x with fmts := f.filter (fun kp => kp.2.nonEmpty) }

/-- `clear_formatting` -/
def clearFormatting (x : AStr) : AStr := { x with fmts := [] }

def allIn (want : List Str) (cur : List Setting) : Bool := want.all (fun t => hasTxt cur t)

/-- `find_settings` after scrubbing (`want` = texts of the scrubbed settings) -/
def findSettings (x : AStr) (want : List Str) (start end_ : Option Int) (reverse : Bool) :
    Option Nat × Option Nat :=
  let n := x.len
  let st := sliceIdx n start 0
  let en := sliceIdx n end_ n
  if en < st then (none, none)
  else if want.isEmpty then (some st, some en)
  else
    let tbl := (replay x.fmts).filter (fun t => st ≤ t.1 ∧ t.1 ≤ en)
    let fs0 : Option Nat :=
      if !(tbl.any (fun t => t.1 = st)) ∧ st < en then
        (if allIn want (x.ansiSettingsAt st) then some st else none)
      else none
    let cands := if reverse then tbl.reverse else tbl
    let fs : Option Nat :=
      match fs0 with
      | some i => some i
      | none => (cands.find? (fun t => t.1 < en ∧ allIn want t.2.2)).map (·.1)
    match fs with
    | none => (none, none)
    | some i =>
      let fe := (tbl.find? (fun t => t.1 > i ∧ !allIn want t.2.2)).map (·.1)
      (some i, fe)

end AStr
