import AnsiModel.Concat
/-
  AnsiModel.Pad — `_shift_settings_idx`, `ljust`, `rjust`, `center`, `zfill`.
-/

/-- `_shift_settings_idx(num, keep_origin)` for `num ≥ 0` -/
def shiftKeys (f : Fmts) (num : Nat) (keepOrigin : Bool) : Fmts :=
  f.map (fun kp => if keepOrigin ∧ kp.1 = 0 then kp else (kp.1 + num, kp.2))

namespace AStr

def ljust (x : AStr) (width : Int) (fill : Char) (extend : Bool) : AStr :=
  let n := x.len
  let num := (width - n).toNat
  if num > 0 then
    let f := if extend then
        (match x.fmts.get? n with
         | some p => (x.fmts.erase n).set (n + num) p
         | none => x.fmts)
      else x.fmts
    { s := x.s ++ List.replicate num fill, fmts := f }
  else x

def rjust (x : AStr) (width : Int) (fill : Char) (extend : Bool) : AStr :=
  let n := x.len
  let num := (width - n).toNat
  if num > 0 then
    { s := List.replicate num fill ++ x.s, fmts := shiftKeys x.fmts num extend }
  else x

def center (x : AStr) (width : Int) (fill : Char) (extend : Bool) : AStr :=
  let n := x.len
  let num := (width - n).toNat
  if num > 0 then
    let left := num / 2
    let right := num - left
    let s' := List.replicate left fill ++ x.s ++ List.replicate right fill
    let endPoint := if extend then x.fmts.get? n else none
    let f := if extend then x.fmts.erase n else x.fmts
    let f := shiftKeys f left extend
    let f := match endPoint with
      | some p => f.set s'.length p
      | none => f
    { s := s', fmts := f }
  else x

def zfill (x : AStr) (width : Int) : AStr := x.rjust width '0' true

end AStr
