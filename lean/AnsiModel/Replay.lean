import AnsiModel.Basic
/-
  AnsiModel.Replay — `_AnsiSettingsIterator`, `ansi_settings_at`, `settings_at`
  (ansi_string.py: class _AnsiSettingsIterator, AnsiString.ansi_settings_at)

  The iterator walks the keys in ascending order; at each point it first deletes, for every
  stop marker, the first active setting that *is* that object, then appends the start markers.
  With `WITH_ASSERTIONS` a stop marker that matches nothing raises; the model is the
  assertion-free function and `replayOk` is the assertion as a separate predicate.
-/

/-- one `__next__`: new `current_settings` from the old one and the point -/
def stepPoint (cur : List Setting) (p : Point) : List Setting :=
  (p.rem.foldl (fun c s => eraseId c s.id) cur) ++ p.add

/-- would `__next__` raise under WITH_ASSERTIONS at this point? (`false` = it raises) -/
def stepOk : List Setting → List Setting → Bool
  | _, [] => true
  | cur, s :: rest => hasId cur s.id && stepOk (eraseId cur s.id) rest

/-- All triples `(idx, settings_point, current_settings)` the iterator yields
    (`current_settings` as a snapshot taken at the yield). -/
def replayFrom (cur : List Setting) : Fmts → List (Nat × Point × List Setting)
  | [] => []
  | (k, p) :: rest =>
    let cur' := stepPoint cur p
    (k, p, cur') :: replayFrom cur' rest

def replay (f : Fmts) : List (Nat × Point × List Setting) := replayFrom [] f

def replayOkFrom (cur : List Setting) : Fmts → Bool
  | [] => true
  | (_, p) :: rest => stepOk cur p.rem && replayOkFrom (stepPoint cur p) rest

/-- the library's own self-check passes on a full iteration -/
def replayOk (f : Fmts) : Bool := replayOkFrom [] f

/-- `current_settings` after the last key `≤ i` -/
def activeFrom (cur : List Setting) : Fmts → Nat → List Setting
  | [], _ => cur
  | (k, p) :: rest, i => if k ≤ i then activeFrom (stepPoint cur p) rest i else cur

def active (f : Fmts) (i : Nat) : List Setting := activeFrom [] f i

namespace AStr

def len (x : AStr) : Nat := x.s.length

/-- `ansi_settings_at(idx)` -/
def ansiSettingsAt (x : AStr) (idx : Int) : List Setting :=
  if 0 ≤ idx ∧ idx < x.len then active x.fmts idx.toNat else []

/-- `settings_at(idx)` -/
def settingsAt (x : AStr) (idx : Int) : Str := joinSep semi (texts (x.ansiSettingsAt idx))

end AStr
