import AnsiModel.Setting
/-
  AnsiModel.Parse — `ParsedAnsiControlSequenceString`, `parse_graphic_sequence`,
  `settings_to_dict` (ansi_parsing.py).
-/

/-- one recorded `AnsiControlSequence` -/
structure CtlSeq where
  sequence   : Str
  terminator : Str   -- one character, or empty
  deriving DecidableEq, Repr, Inhabited

/-- `ParsedAnsiControlSequenceString`: `_s` and `sequences` (insertion order = ascending key) -/
structure Parsed where
  text : Str := []
  seqs : List (Nat × List CtlSeq) := []
  deriving DecidableEq, Repr, Inhabited

namespace Parsed

/-- `sequences[idx].append(x)` / `sequences[idx] = [x]`; keys arrive in non-decreasing order -/
def record (p : Parsed) (c : CtlSeq) : Parsed :=
  let idx := p.text.length
  match p.seqs.reverse with
  | (k, l) :: restRev => if k = idx then { p with seqs := (restRev.reverse) ++ [(k, l ++ [c])] }
                          else { p with seqs := p.seqs ++ [(idx, [c])] }
  | [] => { p with seqs := [(idx, [c])] }

def push (p : Parsed) (s : Str) : Parsed := { p with text := p.text ++ s }

end Parsed

/-- is a finished candidate sequence accepted?
    `(terminator or allow_empty_terminator) and (acceptable is None or terminator in acceptable)` -/
def acceptSeq (allowEmpty : Bool) (acceptable : Option Str) (term : Str) : Bool :=
  (!term.isEmpty || allowEmpty) &&
  (match acceptable with
   | none => true
   | some acc => match term with
     | [] => true              -- `'' in acceptable` is True for any str
     | c :: _ => acc.contains c)

inductive TokMode where
  | text
  | params (ps : Str)

/-- the tokenizer's two nested `while` loops as one structural recursion with a mode -/
def tokLoop (allowEmpty : Bool) (acceptable : Option Str) : TokMode → Str → Parsed → Parsed
  | .text, [], o => o
  | .text, '\x1b' :: '[' :: rest, o => tokLoop allowEmpty acceptable (.params []) rest o
  | .text, c :: rest, o => tokLoop allowEmpty acceptable .text rest (o.push [c])
  | .params ps, [], o =>
    if acceptSeq allowEmpty acceptable [] then o.record ⟨ps, []⟩
    else o.push (Gen.csi ++ ps)
  | .params ps, c :: rest, o =>
    if isTerm c then
      (if acceptSeq allowEmpty acceptable [c] then
        tokLoop allowEmpty acceptable .text rest (o.record ⟨ps, [c]⟩)
       else tokLoop allowEmpty acceptable .text rest (o.push (Gen.csi ++ ps ++ [c])))
    else tokLoop allowEmpty acceptable (.params (ps ++ [c])) rest o

/-- `ParsedAnsiControlSequenceString(s, allow_empty_terminator, acceptable_terminators)` -/
def tokenize (s : Str) (allowEmpty : Bool := true) (acceptable : Option Str := none) : Parsed :=
  tokLoop allowEmpty acceptable .text s {}

/-- `formatted_str` -/
def Parsed.formatted (p : Parsed) : Str :=
  let r := p.seqs.foldl (fun (acc : Str × Nat) (kv : Nat × List CtlSeq) =>
      (acc.1 ++ pySliceL p.text acc.2 kv.1 ++
        (kv.2.map (fun c => Gen.csi ++ c.sequence ++ c.terminator)).flatten, kv.1)) ([], 0)
  r.1 ++ p.text.drop r.2
where pySliceL (s : Str) (a b : Nat) : Str := (s.take b).drop a

/-- str() of a code item as `AnsiSetting([...])` joins it -/
def Code.toStr : Code → Str
  | .int i => Py.intStr i
  | .str s => s

/-- items of `parse_graphic_sequence` after the `int()` pass -/
def pgsItemsOfStr (s : Str) : List Code :=
  (Py.splitOnChar ';' s).map (fun it =>
    let it := Py.strip it
    match Py.int it with
    | some i => Code.int i
    | none => if it.isEmpty then Code.int 0 else Code.str it)

def pgsItemsOfList (l : List Code) : List Code :=
  l.map (fun it => match it with
    | .int i => .int i
    | .str s => match Py.int s with
      | some i => .int i
      | none => if s.isEmpty then .int 0 else .str s)

/-- the `for fn in _AnsiControlFn` loop of `parse_graphic_sequence` at position `idx`:
    returns (left_in_set, fn_set, fn_found) -/
def pgsFnLoop (tail : List Code) (value : Int) :
    List (List Nat × Nat) → Nat × Bool × Bool → Nat × Bool × Bool
  | [], acc => acc
  | (setup, nargs) :: rest, (left, fnSet, fnFound) =>
    if SettingTxt.startsWithFn setup tail then pgsFnLoop tail value rest (setup.length + nargs, true, fnFound)
    else if setup.head?.map (fun m => (m : Int)) == some value then pgsFnLoop tail value rest (left, fnSet, true)
    else pgsFnLoop tail value rest (left, fnSet, fnFound)

structure PgsSt where
  left : Int := 0
  cur  : List Int := []
  out  : List Str := []

def joinInts (l : List Int) : Str := joinSep semi (l.map Py.intStr)

/-- main loop of `parse_graphic_sequence` over the suffixes of `items` -/
def pgsLoop (addErr : Bool) : List Code → PgsSt → PgsSt
  | [], st => st
  | it :: rest, st =>
    match it with
    | .int value =>
      let r : Option Int :=            -- none = `continue`; some left = proceed with this left_in_set
        if st.cur.isEmpty then
          let (left, fnSet, fnFound) := pgsFnLoop (it :: rest) value Gen.ctrlFns (1, false, false)
          if fnFound ∧ !fnSet ∧ !addErr then none else some (left : Int)
        else some st.left
      match r with
      | none => pgsLoop addErr rest st
      | some left =>
        let cur := st.cur ++ [value]
        let left := left - 1
        if left ≤ 0 then
          let t := joinInts cur
          let keep := addErr || cur.length == 1 || SettingTxt.parsable t
          pgsLoop addErr rest { left := left, cur := [], out := if keep then st.out ++ [t] else st.out }
        else pgsLoop addErr rest { st with left := left, cur := cur }
    | .str s =>
      if addErr then pgsLoop addErr rest { st with out := st.out ++ [s] } else pgsLoop addErr rest st

/-- `parse_graphic_sequence` on prepared items; returns the texts of the new settings.
    `emptyInput` = `not sequence` -/
def pgsItems (items : List Code) (addErr : Bool) : List Str :=
  let st := pgsLoop addErr items {}
  if !st.cur.isEmpty ∧ addErr then st.out ++ [joinInts st.cur] else st.out

def pgsStr (s : Str) (addErr : Bool := false) : List Str :=
  if s.isEmpty then ["0".toList] else pgsItems (pgsItemsOfStr s) addErr

def pgsList (l : List Code) (addErr : Bool := false) : List Str :=
  if l.isEmpty then ["0".toList] else pgsItems (pgsItemsOfList l) addErr

/-- Python dict keyed by effect value, in insertion order -/
abbrev PyDict := List (Nat × Setting)

namespace PyDict
def get? (d : PyDict) (k : Nat) : Option Setting := (d.find? (fun kv => kv.1 == k)).map (·.2)
def contains (d : PyDict) (k : Nat) : Bool := d.any (fun kv => kv.1 == k)
/-- `d[k] = v`: overwrite in place, or append -/
def insert : PyDict → Nat → Setting → PyDict
  | [], k, v => [(k, v)]
  | (k', v') :: rest, k, v => if k' == k then (k, v) :: rest else (k', v') :: insert rest k v
def erase (d : PyDict) (k : Nat) : PyDict := d.filter (fun kv => kv.1 != k)
end PyDict

/-- `settings_to_dict(settings, old)` -/
def settingsToDict (ss : List Setting) (old : PyDict := []) : PyDict :=
  ss.foldl (fun d s =>
    match SettingTxt.initialParam s.txt with
    | none => d
    | some (eff, fn) =>
      if fn == Gen.fnApply then d.insert eff s
      else if fn == Gen.fnClear then d.erase eff
      else []) old
