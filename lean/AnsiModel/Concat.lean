import AnsiModel.Slice
/-
  AnsiModel.Concat — `__iadd__`, `__add__`, `join` for AnsiString operands
  (a `str` operand is first turned into an AnsiString by the caller, as the code does).
-/

/-- `_find_settings_references(find_list, in_list)` -/
def findRefs (find inl : List Setting) : List (Nat × Nat) :=
  (find.zipIdx.map (fun (s, i) =>
    (inl.zipIdx.filter (fun (s2, _) => s2.id == s.id)).map (fun (_, i2) => (i, i2)))).flatten

/-- `_same_setting_references` -/
def sameRefs (a b : List Setting) : Bool := a.map (·.id) == b.map (·.id)

structure IaddSt where
  f    : Fmts
  find : List Setting
  repl : List Setting

/-- the `for find_idx, add_idx in reversed(finds)` loop -/
def retarget (rem find repl : List Setting) (finds : List (Nat × Nat)) :
    List Setting × List Setting × List Setting :=
  finds.reverse.foldl (fun (acc : List Setting × List Setting × List Setting) (fa : Nat × Nat) =>
    match acc.2.2[fa.1]? with
    | some r => (acc.1.set fa.2 r, acc.2.1.eraseIdx fa.1, acc.2.2.eraseIdx fa.1)
    | none => acc) (rem, find, repl)

/-- one iteration of the `for key, settings_add, settings_rem in incoming_fmts` loop -/
def iaddStep (shift : Nat) (actPrev : List Setting) (laterAdds : List Setting) (st : IaddSt) (kp : Nat × Point) : IaddSt :=
  let key := kp.1 + shift
  let add := kp.2.add
  let rem := kp.2.rem
  match st.f.get? key with
  | some mine =>
    let k := add.length
    let head := mine.rem.take k
    if key = shift ∧ !add.isEmpty ∧ texts head == texts add ∧
        sameRefs (actPrev.filter (fun s => hasId head s.id)) head ∧
        !(head.any (fun s => hasId laterAdds s.id)) then
      let mine' : Point := { mine with rem := mine.rem.drop k }
      if !mine'.nonEmpty ∧ rem.isEmpty then
        { f := st.f.erase key, find := add, repl := head }
      else
        { f := st.f.set key { mine' with rem := mine'.rem ++ rem }, find := add, repl := head }
    else
      { st with f := st.f.set key { add := mine.add ++ add, rem := mine.rem ++ rem } }
  | none =>
    let r := retarget rem st.find st.repl (findRefs st.find rem)
    { f := st.f.set key { add := add, rem := r.1 }, find := r.2.1, repl := r.2.2 }

namespace AStr

/-- `self += value` for an AnsiString `value`; returns the new `self` -/
def iadd (a b : AStr) : AStr :=
  let shift := a.len
  let s' := a.s ++ b.s
  let actPrev := ({ a with s := s' } : AStr).ansiSettingsAt ((shift : Int) - 1)
  -- start markers of the incoming string at keys other than 0: a merged setting must not start again there
  let laterAdds := (b.fmts.filter (fun kp => kp.1 != 0)).flatMap (fun kp => kp.2.add)
  let r := b.fmts.foldl (iaddStep shift actPrev laterAdds) { f := a.fmts, find := [], repl := [] }
  { s := s', fmts := r.f }

/-- `AnsiString.join(x1, ..., xn)` for AnsiString arguments -/
def join : List AStr → AStr
  | [] => {}
  | x :: rest => rest.foldl iadd x

end AStr
