import AnsiModel.Render
/-
  AnsiModel.SetAnsi — `set_ansi_str`, the constructors, `simplify`.
-/

namespace AStr

/-- the body of the inner loop of `set_ansi_str` for one recorded sequence at `key`;
    state = (self, current_settings, next fresh id) -/
def setAnsiStep (acc : AStr × PyDict × Nat) (key : Nat) (seq : CtlSeq) : AStr × PyDict × Nat :=
  let (x, old, nid) := acc
  if key ≥ x.len then acc
  else
    let settings : List Setting := (pgsStr seq.sequence false).map (fun t => ⟨0, t⟩)
    let new := settingsToDict settings old
    -- settings_to_remove / settings_to_apply in the order the two loops build them
    let changed := new.filter (fun kv => match old.get? kv.1 with
      | some v => v.txt != kv.2.txt
      | none => false)
    let toRemove := (changed.filterMap (fun kv => old.get? kv.1)) ++
      (old.filter (fun kv => !new.contains kv.1)).map (·.2)
    let toApply := (new.filter (fun kv => match old.get? kv.1 with
      | some v => v.txt != kv.2.txt
      | none => true)).map (·.2)
    let x := if toRemove.isEmpty then x else x.removeFormatting (some (texts toRemove)) (some key) none
    let x := if toApply.isEmpty then x
             else x.applyFormatting (freshSettings nid (texts toApply)) (some key) none true
    (x, new, nid + toApply.length)

/-- `set_ansi_str(s)`: returns the new value and the next unused id -/
def setAnsi (s : Str) (nid : Nat := 0) : AStr × Nat :=
  let p := tokenize s false (some Gen.sgrTerminator)
  let x0 : AStr := { s := p.text, fmts := [] }
  let r := p.seqs.foldl (fun acc kv => kv.2.foldl (fun acc sq => setAnsiStep acc kv.1 sq) acc) (x0, ([] : PyDict), nid)
  (r.1, r.2.2)

/-- `AnsiString(s, *settings)` for a `str` s -/
def ofStr (s : Str) (settings : List SArg) (nid : Nat := 0) : Except PyErr AStr :=
  let r := setAnsi s nid
  if settings.isEmpty then .ok r.1 else r.1.applyRaw r.2 (.list settings) none none

/-- `AnsiString(other, *settings)` for an AnsiString/AnsiStr `other` -/
def ofAStr (x : AStr) (settings : List SArg) (nid : Nat) : Except PyErr AStr :=
  if settings.isEmpty then .ok x else x.applyRaw nid (.list settings) none none

/-- `simplify()` -/
def simplify (x : AStr) (nid : Nat) : AStr :=
  let f := x.fmts.map (fun kp =>
    (kp.1, ({ add := kp.2.add.filter (fun s => SettingTxt.valid s.txt),
              rem := kp.2.rem.filter (fun s => SettingTxt.valid s.txt) } : Point)))
  let y : AStr := { x with fmts := f }
  (setAnsi y.str nid).1

end AStr
