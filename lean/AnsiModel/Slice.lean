import AnsiModel.Format
/-
  AnsiModel.Slice — `__getitem__`, `clip`, the character iterator, `assign_str`.
-/

/-- Python `s[a:b]` on a list once `a`, `b` are normalised indices -/
def pySlice (s : Str) (st en : Nat) : Str := (s.take en).drop st

namespace AStr

/-- the `for idx, settings, current_settings in _AnsiSettingsIterator(self._fmts)` loop of
    `__getitem__`; state = (previous_settings, settings_initialized, new_s._fmts) -/
def getLoop (st en n : Nat) :
    List Setting → Bool → Fmts → List (Nat × Point × List Setting) → List Setting × Bool × Fmts
  | prev, init, out, [] => (prev, init, out)
  | prev, init, out, (idx, p, cur) :: rest =>
    if idx > n ∨ idx > en then (prev, init, out)
    else if idx = en then
      (prev, init, if p.rem.isEmpty then out else out.set (idx - st) { rem := p.rem })
    else if idx = st then
      getLoop st en n cur true (if cur.isEmpty then out else out.set 0 { add := cur }) rest
    else if idx > st then
      let out := if !init ∧ !prev.isEmpty then out.set 0 { add := prev } else out
      getLoop st en n cur true (out.set (idx - st) p) rest
    else getLoop st en n cur init out rest

/-- `self[st:en]` for normalised `st`, `en` (shared by the slice and the integer form) -/
def getRange (x : AStr) (st en : Nat) : AStr :=
  let text := pySlice x.s st en
  if text.isEmpty then { s := [] }
  else
    let r := getLoop st en x.len [] false [] (replay x.fmts)
    let prev := r.1
    let out := if !r.2.1 ∧ !prev.isEmpty then r.2.2.set 0 { add := prev } else r.2.2
    let newLen := text.length
    let out :=
      if prev.isEmpty then out
      else
        let out := out.ensure newLen
        let have_ := (out.getD newLen).rem
        out.modify newLen (fun p => { p with rem := p.rem ++ prev.filter (fun s => !hasId have_ s.id) })
    { s := text, fmts := out }

/-- `self[start:stop]` (step `None` or 1) -/
def getSlice (x : AStr) (start stop : Option Int) : AStr :=
  x.getRange (sliceIdx x.len start 0) (sliceIdx x.len stop x.len)

/-- `self[i]` for an int -/
def getIndex (x : AStr) (i : Int) : Except PyErr AStr :=
  if i < -(x.len : Int) ∨ i ≥ x.len then .error .indexError
  else
    let st := (if i ≥ 0 then i else (x.len : Int) + i).toNat
    .ok (x.getRange st (st + 1))

/-- `clip(start, end)` -/
def clip (x : AStr) (start end_ : Option Int) : AStr := x.getSlice start end_

/-- `list(iter(self))` -/
def chars (x : AStr) : List AStr := (List.range x.len).map (fun i => x.getRange i (i + 1))

/-- `assign_str(s)` -/
def assignStr (x : AStr) (t : Str) : AStr :=
  let n := x.len
  if t.length > n then
    match x.fmts.get? n with
    | some p => { s := t, fmts := (x.fmts.erase n).set t.length p }
    | none => { x with s := t }
  else if t.length < n then { (x.getSlice none (some t.length)) with s := t }
  else { x with s := t }

end AStr
