import AnsiModel
import AnsiSpec
/-
  Line-protocol driver.  One step per input line, one result line per step.
  Input  : `<op> <integer tokens …>`      (strings as `<len> <code points…>`, `N` = None)
  Output : `ok …` | `err TypeError|ValueError|IndexError` | `bad-op …`
  Setting identities in the output are renamed in order of first appearance.
  This file is glue (parsing/printing) around the model's functions; it is exercised, not verified.
-/

abbrev P := StateT (List String) (Except String)

def tok : P String := do
  match (← get) with
  | [] => throw "eol"
  | t :: rest => set rest; pure t

def pInt : P Int := do
  let t ← tok
  match t.toInt? with
  | some i => pure i
  | none => throw s!"int expected: {t}"

def pNat : P Nat := do
  let i ← pInt
  if i < 0 then throw "nat expected" else pure i.toNat

def pBool : P Bool := do pure ((← pInt) != 0)

def pOptInt : P (Option Int) := do
  let t ← tok
  if t == "N" then pure none else
  match t.toInt? with
  | some i => pure (some i)
  | none => throw s!"optint expected: {t}"

def pMany {α} (n : Nat) (p : P α) : P (List α) := do
  let mut out := #[]
  for _ in [0:n] do
    out := out.push (← p)
  pure out.toList

def pStrN (n : Nat) : P Str := do
  let cps ← pMany n pNat
  pure (cps.map Char.ofNat)

def pStr : P Str := do pStrN (← pNat)

def pOptStr : P (Option Str) := do
  let t ← tok
  if t == "N" then pure none else
  match t.toNat? with
  | some n => pure (some (← pStrN n))
  | none => throw "optstr"

def pSetting : P Setting := do
  let i ← pNat
  let t ← pStr
  pure ⟨i, t⟩

def pPoint : P (Nat × Point) := do
  let k ← pNat
  let add ← pMany (← pNat) pSetting
  let rem ← pMany (← pNat) pSetting
  pure (k, { add := add, rem := rem })

def pAStr : P AStr := do
  let s ← pStr
  let pts ← pMany (← pNat) pPoint
  pure { s := s, fmts := pts }

partial def pSArg : P SArg := do
  let tag ← pNat
  match tag with
  | 0 => pure (.str (← pStr))
  | 1 => pure (.int (← pInt))
  | 2 => pure (.obj (← pStr))
  | 3 => pure (.member (← pStr))
  | 4 => do
    let n ← pNat
    let mut out := #[]
    for _ in [0:n] do
      out := out.push (← pSArg)
    pure (.list out.toList)
  | 5 => pure .selfRef
  | _ => pure (.bad (← pBool))

def pOptSArg : P (Option SArg) := do
  match (← get) with
  | "N" :: rest => set rest; pure none
  | _ => pure (some (← pSArg))

def pCode : P Code := do
  let tag ← pNat
  if tag == 0 then pure (.int (← pInt)) else pure (.str (← pStr))

def pOp : P Op := do
  let tag ← pNat
  match tag with
  | 0 => do let d ← pNat; let t ← pStr; let n ← pNat; let ss ← pMany n pSArg; pure (.new d t ss)
  | 1 => do let d ← pNat; let src ← pNat; let n ← pNat; let ss ← pMany n pSArg; pure (.copy d src ss)
  | 2 => do let v ← pNat; let a ← pSArg; let st ← pOptInt; let en ← pOptInt; let top ← pBool; pure (.apply v a st en top)
  | 3 => do let v ← pNat; let a ← pOptSArg; let st ← pOptInt; let en ← pOptInt; pure (.remove v a st en)
  | 4 => do pure (.clear (← pNat))
  | 5 => do let d ← pNat; let src ← pNat; let a ← pOptInt; let b ← pOptInt; pure (.slice d src a b)
  | 6 => do let d ← pNat; let src ← pNat; let i ← pInt; pure (.index d src i)
  | 7 => do let v ← pNat; let w ← pNat; pure (.iadd v w)
  | 8 => do let d ← pNat; let v ← pNat; let w ← pNat; pure (.add d v w)
  | 9 => do let d ← pNat; let v ← pNat; let t ← pStr; pure (.addStr d v t)
  | 10 => do let d ← pNat; let src ← pNat; let w ← pInt; let f ← pStr; let e ← pBool; pure (.ljust d src w f e)
  | 11 => do let d ← pNat; let src ← pNat; let w ← pInt; let f ← pStr; let e ← pBool; pure (.rjust d src w f e)
  | 12 => do let d ← pNat; let src ← pNat; let w ← pInt; let f ← pStr; let e ← pBool; pure (.center d src w f e)
  | 13 => do let v ← pNat; let t ← pStr; pure (.assign v t)
  | 14 => do pure (.simplify (← pNat))
  | 15 => do let d ← pNat; let src ← pNat; let cs ← pOptStr; let l ← pBool; let r ← pBool; pure (.strip d src cs l r)
  | 16 => do let d ← pNat; let src ← pNat; let p ← pStr; pure (.removeprefix d src p)
  | 17 => do let d ← pNat; let src ← pNat; let p ← pStr; pure (.removesuffix d src p)
  | 18 => do
    let d ← pNat; let src ← pNat; let old ← pStr; let kind ← pNat
    let new ← (if kind == 0 then do pure (Sum.inl (← pNat)) else do pure (Sum.inr (← pStr)))
    let count ← pInt
    pure (.replace d src old new count)
  | 19 => do let src ← pNat; let spec ← pOptStr; let o ← pBool; let rs ← pBool; let re ← pBool; pure (.render src spec o rs re)
  | 20 => do let src ← pNat; let a ← pSArg; let st ← pOptInt; let en ← pOptInt; let rev ← pBool; pure (.find src a st en rev)
  | 21 => do let d ← pNat; let src ← pNat; let w ← pInt; pure (.zfill d src w)
  | 22 => do let d ← pNat; let src ← pNat; let a ← pOptInt; let b ← pOptInt; pure (.clip d src a b)
  | 23 => do let d ← pNat; let n ← pNat; let vs ← pMany n pNat; pure (.join d vs)
  | 24 => do
    let v ← pNat; let a ← pSArg; let count ← pInt; let n ← pNat
    let spans ← pMany n (do let s ← pInt; let e ← pInt; pure (s, e))
    pure (.fmatch v a spans count)
  | 25 => do
    let v ← pNat; let a ← pOptSArg; let count ← pInt; let n ← pNat
    let spans ← pMany n (do let s ← pInt; let e ← pInt; pure (s, e))
    pure (.unfmatch v a spans count)
  | 26 => do let d ← pNat; let src ← pNat; let sep ← pOptStr; let m ← pInt; let r ← pBool; let j ← pNat; pure (.splitPiece d src sep m r j)
  | 27 => do let d ← pNat; let src ← pNat; let k ← pBool; let j ← pNat; pure (.linePiece d src k j)
  | 28 => do let d ← pNat; let src ← pNat; let sep ← pStr; let r ← pBool; let j ← pNat; pure (.partPiece d src sep r j)
  | _ => do let d ← pNat; let src ← pNat; let k ← pInt; pure (.expandtabs d src k)

/-! ### printing -/

abbrev Ren := StateM (List Nat)   -- ids in order of first appearance

def renId (i : Nat) : Ren Nat := do
  let seen ← get
  match seen.idxOf? i with
  | some k => pure k
  | none => set (seen ++ [i]); pure seen.length

def showStr (s : Str) : String :=
  String.intercalate " " (toString s.length :: s.map (fun c => toString c.toNat))

def showSetting (s : Setting) : Ren String := do
  let k ← renId s.id
  pure s!"{k} {showStr s.txt}"

def showSettings (l : List Setting) : Ren String := do
  let parts ← l.mapM showSetting
  pure (String.intercalate " " (toString l.length :: parts))

def showAStr (x : AStr) : Ren String := do
  let pts ← x.fmts.mapM (fun kp => do
    let a ← showSettings kp.2.add
    let r ← showSettings kp.2.rem
    pure s!"{kp.1} {a} {r}")
  pure (String.intercalate " " ([showStr x.s, toString x.fmts.length] ++ pts))

def showAStrs (l : List AStr) : Ren String := do
  let parts ← l.mapM showAStr
  pure (String.intercalate " " (toString l.length :: parts))

def showErr : PyErr → String
  | .typeError => "err TypeError"
  | .valueError => "err ValueError"
  | .indexError => "err IndexError"

def runRen (r : Ren String) : String := (r.run []).1

def okA (x : AStr) : String := "ok " ++ runRen (showAStr x)
def okAs (l : List AStr) : String := "ok " ++ runRen (showAStrs l)
def exA (r : Except PyErr AStr) : String := match r with | .ok x => okA x | .error e => showErr e
def showOptNat : Option Nat → String | none => "N" | some n => toString n
def showStrs (l : List Str) : String := String.intercalate " " (toString l.length :: l.map showStr)

def maxIdF (f : Fmts) : Nat :=
  f.foldl (fun m kp => (kp.2.add ++ kp.2.rem).foldl (fun m s => max m s.id) m) 0
def nidOf (xs : List AStr) : Nat := xs.foldl (fun m x => max m (maxIdF x.fmts)) 0 + 1

/-- report a value whose own table fails the library's self-check -/
def chk (x : AStr) : String := if replayOk x.fmts then "" else " !assert"

def step (op : String) : P String := do
  match op with
  | "apply" => do
    let x ← pAStr; let a ← pSArg; let st ← pOptInt; let en ← pOptInt; let top ← pBool
    pure (exA (x.applyRaw (nidOf [x]) a st en top))
  | "remove" => do
    let x ← pAStr; let a ← pOptSArg; let st ← pOptInt; let en ← pOptInt
    pure (exA (x.removeRaw a st en))
  | "clear" => do
    let x ← pAStr
    pure (okA x.clearFormatting)
  | "find" => do
    let x ← pAStr; let a ← pSArg; let st ← pOptInt; let en ← pOptInt; let rev ← pBool
    match x.findRaw a st en rev with
    | .ok (a, b) => pure s!"ok {showOptNat a} {showOptNat b}"
    | .error e => pure (showErr e)
  | "settingsat" => do
    let x ← pAStr; let i ← pInt
    pure ("ok " ++ runRen (showSettings (x.ansiSettingsAt i)) ++ " " ++ showStr (x.settingsAt i))
  | "slice" => do
    let x ← pAStr; let a ← pOptInt; let b ← pOptInt
    pure (okA (x.getSlice a b))
  | "index" => do
    let x ← pAStr; let i ← pInt
    pure (exA (x.getIndex i))
  | "iter" => do
    let x ← pAStr
    pure (okAs x.chars)
  | "assign" => do
    let x ← pAStr; let t ← pStr
    pure (okA (x.assignStr t))
  | "iadd" => do
    let a ← pAStr; let b ← pAStr
    pure (okA (a.iadd b))
  | "join" => do
    let n ← pNat
    let xs ← pMany n pAStr
    pure (okA (AStr.join xs))
  | "ljust" => do
    let x ← pAStr; let w ← pInt; let f ← pStr; let e ← pBool
    match f with
    | [c] => pure (okA (x.ljust w c e))
    | _ => pure (showErr .valueError)
  | "rjust" => do
    let x ← pAStr; let w ← pInt; let f ← pStr; let e ← pBool
    match f with
    | [c] => pure (okA (x.rjust w c e))
    | _ => pure (showErr .valueError)
  | "center" => do
    let x ← pAStr; let w ← pInt; let f ← pStr; let e ← pBool
    match f with
    | [c] => pure (okA (x.center w c e))
    | _ => pure (showErr .valueError)
  | "zfill" => do
    let x ← pAStr; let w ← pInt
    pure (okA (x.zfill w))
  | "tostr" => do
    let x ← pAStr; let spec ← pOptStr; let o ← pBool; let rs ← pBool; let re ← pBool
    match x.toStr spec o rs re (nidOf [x]) with
    | .ok s => pure ("ok " ++ showStr s)
    | .error e => pure (showErr e)
  | "flags" => do
    let x ← pAStr
    pure s!"ok {if x.isFormattingValid then 1 else 0} {if x.isFormattingParsable then 1 else 0} {if replayOk x.fmts then 1 else 0}"
  | "new" => do
    let s ← pStr; let n ← pNat
    let ss ← pMany n pSArg
    pure (exA (AStr.ofStr s ss 1))
  | "copynew" => do
    let x ← pAStr; let n ← pNat
    let ss ← pMany n pSArg
    pure (exA (x.ofAStr ss (nidOf [x])))
  | "simplify" => do
    let x ← pAStr
    pure (okA (x.simplify (nidOf [x])))
  | "strip" => do
    let x ← pAStr; let cs ← pOptStr; let l ← pBool; let r ← pBool; let ip ← pBool
    pure (okA (x.stripGen cs l r ip))
  | "removeprefix" => do
    let x ← pAStr; let p ← pStr
    pure (okA (x.removeprefix p))
  | "removesuffix" => do
    let x ← pAStr; let p ← pStr
    pure (okA (x.removesuffix p))
  | "replace" => do
    let x ← pAStr; let old ← pStr; let kind ← pNat
    let new ← (if kind == 0 then do pure (AStr.Repl.str (← pStr)) else do pure (AStr.Repl.astr (← pAStr)))
    let count ← pInt
    let extra := match new with | .astr v => [v] | _ => []
    pure (okA (x.replace old new count (nidOf (x :: extra))))
  | "split" => do
    let x ← pAStr; let sep ← pOptStr; let m ← pInt; let r ← pBool
    match x.splitGen sep m r with
    | .ok l => pure (okAs l)
    | .error e => pure (showErr e)
  | "splitlines" => do
    let x ← pAStr; let k ← pBool
    pure (okAs (x.splitlines k))
  | "partition" => do
    let x ← pAStr; let sep ← pStr; let r ← pBool
    let (a, b, c) := x.partitionGen sep r
    pure (okAs [a, b, c])
  | "maptext" => do
    let x ← pAStr; let t ← pStr
    pure (okA (x.mapText t))
  | "expandtabs" => do
    let x ← pAStr; let n ← pInt
    pure (okA (x.expandtabs n (nidOf [x])))
  | "fmatch" => do
    -- format_matching: spans supplied by the harness (re.finditer); count applied by the model
    let x ← pAStr; let a ← pSArg; let count ← pInt; let n ← pNat
    let spans ← pMany n (do let s ← pInt; let e ← pInt; pure (s, e))
    pure (exA (x.formatMatching a spans count))
  | "unfmatch" => do
    let x ← pAStr; let a ← pOptSArg; let count ← pInt; let n ← pNat
    let spans ← pMany n (do let s ← pInt; let e ← pInt; pure (s, e))
    pure (exA (x.unformatMatching a spans count))
  | "tokenize" => do
    let s ← pStr; let allow ← pBool; let acc ← pOptStr
    let p := tokenize s allow acc
    let seqs := p.seqs.map (fun kv =>
      s!"{kv.1} {kv.2.length} " ++ String.intercalate " " (kv.2.map (fun c => showStr c.sequence ++ " " ++ showStr c.terminator)))
    pure ("ok " ++ showStr p.text ++ s!" {p.seqs.length} " ++ String.intercalate " " seqs ++ " | " ++ showStr p.formatted)
  | "pgs" => do
    let kind ← pNat
    let addErr ← pBool
    if kind == 0 then
      let s ← pStr
      pure ("ok " ++ showStrs (pgsStr s addErr))
    else
      let n ← pNat
      let items ← pMany n pCode
      pure ("ok " ++ showStrs (pgsList items addErr))
  | "todict" => do
    let n ← pNat
    let ss ← pMany n pStr
    let m ← pNat
    let old ← pMany m (do let k ← pNat; let t ← pStr; pure (k, (⟨0, t⟩ : Setting)))
    let d := settingsToDict (ss.map (fun t => ⟨0, t⟩)) old
    pure (s!"ok {d.length} " ++ String.intercalate " " (d.map (fun kv => s!"{kv.1} {showStr kv.2.txt}")))
  | "setting" => do
    let t ← pStr
    let ip := match SettingTxt.initialParam t with
      | some (e, f) => s!"{e} {f}"
      | none => "N"
    pure s!"ok {if SettingTxt.valid t then 1 else 0} {if SettingTxt.parsable t then 1 else 0} {ip}"
  | "scrub" => do
    let a ← pSArg
    match Scrub.scrub a with
    | .ok ts => pure ("ok " ++ showStrs ts)
    | .error e => pure (showErr e)
  | "helper" => do
    let k ← pNat; let n ← pNat
    let args ← pMany n pInt
    match Gen.helperTable[k]? with
    | some (_, nargs, some pieces) =>
      if nargs != n then pure "bad-op arity" else
      let s := (pieces.map (fun p => match p with
        | .csi => Gen.csi
        | .lit l => l
        | .arg i => Py.intStr (args.getD i 0))).flatten
      pure ("ok " ++ showStr s)
    | _ => pure "untranslatable"
  | "term" => do
    let s ← pStr
    let showSt (t : Term.TState) : String :=
      let l := Term.allGroups.zipIdx.filterMap (fun (g, i) => (t g).map (fun v => (i, v)))
      String.intercalate " " (toString l.length :: l.map (fun (i, v) =>
        String.intercalate " " (toString i :: toString v.length :: v.map toString)))
    let r := Term.run Term.default s
    pure ("ok " ++ String.intercalate " " (toString r.1.length :: r.1.map (fun (c, t) => s!"{c.toNat} {showSt t}"))
      ++ " | " ++ showSt r.2 ++ s!" | {if Term.wellFormed s then 1 else 0} " ++ showStr (Term.stripSgr s))
  | "script" => do
    -- Mode B: a whole history over the Store op language; after every op the outcome and ALL variables
    let n ← pNat
    let mut σ : Store := {}
    let mut outs : Array String := #[]
    for _ in [0:n] do
      let op ← pOp
      let r := σ.step op
      σ := r.1
      let oc := match r.2 with
        | .ok => "ok"
        | .str t => "str " ++ showStr t
        | .range a b => s!"range {showOptNat a} {showOptNat b}"
        | .err e => showErr e
        | .unbound => "unbound"
      let vars := σ.vals.toArray.qsort (fun a b => a.1 < b.1) |>.toList
      let dump := runRen (do
        let parts ← vars.mapM (fun kv => do pure s!"{kv.1} {← showAStr kv.2}")
        pure (String.intercalate " " (toString vars.length :: parts)))
      outs := outs.push (oc ++ " ; " ++ dump)
    pure (String.intercalate " || " outs.toList)
  | "tables" => do
    pure (s!"ok {Gen.paramTable.length} {Gen.clearTable.length} {Gen.ctrlFns.length} {Gen.formatTable.length}")
  | "format" => do
    let k ← pNat
    match Gen.formatTable[k]? with
    | some (name, ts) => pure ("ok " ++ showStr name ++ " " ++ showStrs ts)
    | none => pure "bad-op index"
  | _ => pure s!"bad-op {op}"

def runLine (line : String) : String :=
  match (line.trimAscii.toString.splitOn " ").filter (· != "") with
  | [] => ""
  | op :: rest =>
    match (step op).run rest with
    | .ok (out, []) => out
    | .ok (_, extra) => s!"bad-op trailing {extra.length}"
    | .error e => s!"bad-op {e}"

partial def loop (h : IO.FS.Stream) (out : IO.FS.Stream) : IO Unit := do
  let line ← h.getLine
  if line.isEmpty then return ()
  out.putStrLn (runLine line)
  loop h out

def main : IO Unit := do
  let out ← IO.getStdout
  loop (← IO.getStdin) out
