import AnsiSpec.Terminal
import AnsiSpec.Styled
