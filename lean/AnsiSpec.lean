import AnsiSpec.Terminal
