import AnsiProofs.Lemmas.Basic
