import AnsiProofs.Lemmas.RenderStrip
import AnsiProofs.Props.C18
import AnsiProofs.Lemmas.Basic
/-
  AnsiProofs.Lemmas.Render — helper lemmas for C01 (`to_str` against a conforming SGR terminal).

  * the terminal: `Reaches t0 out D T` ("feeding `out` displays `D` and leaves the terminal in text
    mode in state `T`"), closed under concatenation; plain text; one SGR sequence;
  * `Term.params` distributes over a `;`-join;
  * feed algebra: a list of complete groups acts on each group either as the identity or as a
    constant (`Simple`), hence is idempotent; a leading `0` makes the prior state irrelevant;
  * the optimised code string (`clear codes ++ changed entries`) moves `alpha old` to `alpha new`;
  * the rendering loop, by induction over the change-point table.
-/
open Term Eff

namespace RenderL

/-! ## the terminal: running over text and over one SGR sequence -/

theorem runAux_text_cons {c : Char} {rest : List Char}
    (h : ∀ rest', c = '\x1b' → rest = '[' :: rest' → False) (t : TState) (out) :
    runAux .text t (c :: rest) out = runAux .text t rest (out ++ [(c, t)]) := by
  rw [runAux]; exact h

theorem runAux_pre (m : Mode) (t : TState) (s : List Char) (out : List (Char × TState)) :
    ∀ pre, runAux m t s (pre ++ out) = (pre ++ (runAux m t s out).1, (runAux m t s out).2) := by
  fun_induction runAux m t s out with
  | case1 t out => intro pre; simp [runAux]
  | case2 t rest out ih => intro pre; simp only [runAux]; exact ih pre
  | case3 t c rest out h ih =>
    intro pre
    rw [runAux_text_cons h, List.append_assoc]; exact ih pre
  | case4 ps t out => intro pre; simp [runAux]
  | case5 ps t c rest out hf hm ih => intro pre; simp only [runAux, hf, hm, if_true]; exact ih pre
  | case6 ps t c rest out hf hm ih =>
    intro pre; simp only [runAux, hf, hm, if_true, Bool.false_eq_true, if_false]
    rw [List.append_assoc]; exact ih pre
  | case7 ps t c rest out hf ih =>
    intro pre; simp only [runAux, hf, Bool.false_eq_true, if_false]; exact ih pre

theorem runAux_acc (m : Mode) (t : TState) (s : List Char) (out : List (Char × TState)) :
    runAux m t s out = (out ++ (runAux m t s []).1, (runAux m t s []).2) := by
  simpa using runAux_pre m t s [] out

/-- feeding `out` to a terminal in state `t0` displays `D` and leaves it (in text mode) in state `T` -/
def Reaches (t0 : TState) (out : List Char) (D : List (Char × TState)) (T : TState) : Prop :=
  ∀ rest, Term.run t0 (out ++ rest) = (D ++ (Term.run T rest).1, (Term.run T rest).2)

theorem run_nil (t : TState) : Term.run t [] = ([], t) := by simp [Term.run, runAux]

theorem Reaches.run {t0 out D T} (h : Reaches t0 out D T) : Term.run t0 out = (D, T) := by
  have := h []
  simpa [run_nil] using this

theorem Reaches.nil (t : TState) : Reaches t [] [] t := by
  intro rest; simp

theorem Reaches.trans {t0 a D T b D' T'} (h1 : Reaches t0 a D T) (h2 : Reaches T b D' T') :
    Reaches t0 (a ++ b) (D ++ D') T' := by
  intro rest
  rw [List.append_assoc, h1, h2]
  simp

theorem Reaches.text (t : TState) {txt : List Char} (h : '\x1b' ∉ txt) :
    Reaches t txt (txt.map (fun c => (c, t))) t := by
  induction txt with
  | nil => exact Reaches.nil t
  | cons c txt ih =>
    intro rest
    have hc : c ≠ '\x1b' := fun e => h (by simp [e])
    have ih := ih (fun hm => h (by simp [hm])) rest
    unfold Term.run at ih ⊢
    rw [List.cons_append, runAux_text_cons (fun _ e _ => hc e), runAux_acc, ih]
    simp

theorem runAux_seq {ps : List Char} (h : ∀ c ∈ ps, isFinal c = false) (acc : List Char) (t : TState)
    (rest : List Char) (out) :
    runAux (.seq acc) t (ps ++ 'm' :: rest) out = runAux .text (feed t (params (acc ++ ps))) rest out := by
  induction ps generalizing acc with
  | nil =>
    have : isFinal 'm' = true := by decide
    simp [runAux, this]
  | cons c ps ih =>
    have hc := h c (by simp)
    simp only [List.cons_append, runAux, hc, Bool.false_eq_true, if_false]
    rw [ih (fun d hd => h d (by simp [hd]))]
    simp

theorem Reaches.sgr (t : TState) {ps : List Char} (h : ∀ c ∈ ps, isFinal c = false) :
    Reaches t ('\x1b' :: '[' :: ps ++ ['m']) [] (feed t (params ps)) := by
  intro rest
  unfold Term.run
  simp only [List.cons_append, List.append_assoc, runAux]
  rw [runAux_seq h]
  simp

/-! ## parameters of a `;`-join -/

theorem splitSemi_ne_nil (s : List Char) : Term.splitSemi s ≠ [] := by
  rw [splitSemi_eq]; exact splitOnChar_ne_nil _ _

theorem splitSemi_append_semi (a b : List Char) :
    Term.splitSemi (a ++ ';' :: b) = Term.splitSemi a ++ Term.splitSemi b := by
  induction a with
  | nil => simp [Term.splitSemi]
  | cons c a ih =>
    by_cases hc : c = ';'
    · subst hc; simp [Term.splitSemi, ih]
    · have hc' : (c == ';') = false := by simpa using hc
      simp only [List.cons_append, Term.splitSemi, hc', Bool.false_eq_true, if_false, ih]
      cases hs : Term.splitSemi a with
      | nil => exact absurd hs (splitSemi_ne_nil a)
      | cons h t => simp

/-- splitting on `;` distributes over joining with `;` (no condition on the pieces) -/
theorem params_append_semi (a b : List Char) :
    Term.params (a ++ ';' :: b) = Term.params a ++ Term.params b := by
  simp [Term.params, splitSemi_append_semi]

/-- the SGR parameters of a list of texts, in order -/
def codesT (ts : List Str) : List (Option Nat) := ts.flatMap Term.params

theorem codesT_nil : codesT [] = [] := rfl
theorem codesT_cons (t : Str) (ts : List Str) : codesT (t :: ts) = Term.params t ++ codesT ts := by
  simp [codesT]
theorem codesT_append (a b : List Str) : codesT (a ++ b) = codesT a ++ codesT b := by
  simp [codesT]
theorem codesT_texts (l : List Setting) : codesT (texts l) = codesOf l := by
  simp [codesT, texts, codesOf, List.flatMap_map]

theorem params_joinSep : ∀ (ts : List Str), ts ≠ [] → Term.params (joinSep [';'] ts) = codesT ts
  | [], h => absurd rfl h
  | [a], _ => by simp [joinSep, codesT]
  | a :: b :: rest, _ => by
    have ih := params_joinSep (b :: rest) (by simp)
    simp only [joinSep, List.append_assoc, List.singleton_append]
    rw [params_append_semi, ih, codesT_cons a]

theorem params_nil : Term.params [] = [some 0] := by decide

/-! ## parameter characters are not final bytes -/

def PChars (s : Str) : Prop := ∀ c ∈ s, Py.isDigit c = true ∨ c = ';'

theorem isFinal_of_pchar {c : Char} (h : Py.isDigit c = true ∨ c = ';') : Term.isFinal c = false := by
  rcases h with h | h
  · have := isDigit_range h
    have h' : ¬ (0x40 ≤ c.toNat) := by omega
    simp [Term.isFinal, h']
  · subst h; decide

theorem PChars.noFinal {s : Str} (h : PChars s) : ∀ c ∈ s, Term.isFinal c = false :=
  fun c hc => isFinal_of_pchar (h c hc)

theorem mem_splitOnChar {sep : Char} {s : Str} {c : Char} (hc : c ∈ s) :
    c = sep ∨ ∃ it ∈ Py.splitOnChar sep s, c ∈ it := by
  induction s with
  | nil => cases hc
  | cons d rest ih =>
    by_cases hd : d = sep
    · subst hd
      rcases List.mem_cons.1 hc with h | h
      · exact .inl h
      · rcases ih h with h | ⟨it, hit, hm⟩
        · exact .inl h
        · exact .inr ⟨it, by simp [Py.splitOnChar, hit], hm⟩
    · have hd' : (d == sep) = false := by simpa using hd
      simp only [Py.splitOnChar, hd', Bool.false_eq_true, if_false]
      cases hs : Py.splitOnChar sep rest with
      | nil => exact absurd hs (splitOnChar_ne_nil _ _)
      | cons h t =>
        rcases List.mem_cons.1 hc with e | e
        · exact .inr ⟨d :: h, by simp, by simp [e]⟩
        · rcases ih e with e | ⟨it, hit, hm⟩
          · exact .inl e
          · rw [hs] at hit
            rcases List.mem_cons.1 hit with e' | e'
            · subst e'; exact .inr ⟨d :: it, by simp, by simp [hm]⟩
            · exact .inr ⟨it, by simp [e'], hm⟩

theorem pchars_of_groupTxt {t : Str} (h : isGroupTxt t = true) : PChars t := by
  intro c hc
  rcases mem_splitOnChar (sep := ';') hc with e | ⟨it, hit, hm⟩
  · exact .inr e
  · exact .inl ((isdigit_iff.1 ((isGroupTxt_spec h).1 it hit)).2 c hm)

theorem pchars_natStr (n : Nat) : PChars (Py.natStr n) := fun c hc => .inl ((natStr_spec n).2.1 c hc)

theorem pchars_joinSep : ∀ (ts : List Str), (∀ t ∈ ts, PChars t) → PChars (joinSep [';'] ts)
  | [], _ => by intro c hc; simp [joinSep] at hc
  | [a], h => by simpa [joinSep] using h a (by simp)
  | a :: b :: rest, h => by
    have ih := pchars_joinSep (b :: rest) (fun t ht => h t (by simp [ht]))
    intro c hc
    simp only [joinSep, List.append_assoc, List.mem_append, List.mem_singleton] at hc
    rcases hc with hc | hc | hc
    · exact h a (by simp) c hc
    · exact .inr hc
    · exact ih c hc

theorem groupTxt_ne_nil {t : Str} (h : isGroupTxt t = true) : t ≠ [] := by
  intro e; subst e; revert h; decide

theorem joinSep_eq_nil {sep : Str} : ∀ {ts : List Str}, (∀ t ∈ ts, t ≠ []) → joinSep sep ts = [] → ts = []
  | [], _, _ => rfl
  | [a], h, e => absurd (by simpa [joinSep] using e) (h a (by simp))
  | a :: b :: rest, h, e => by
    simp only [joinSep, List.append_assoc, List.append_eq_nil_iff] at e
    exact absurd e.1 (h a (by simp))

/-! ## feed algebra: what a list of complete groups does to each group -/

/-- a state transformer that, for each group, either keeps the old value or installs a fixed one -/
def Simple (φ : TState → TState) : Prop :=
  ∃ d : Group → Option (Option Val), ∀ t g, φ t g = (d g).getD (t g)

theorem Simple.idem {φ : TState → TState} (h : Simple φ) (t : TState) : φ (φ t) = φ t := by
  obtain ⟨d, hd⟩ := h
  funext g
  rw [hd (φ t) g, hd t g]
  cases d g <;> rfl

theorem Simple.comp {φ ψ : TState → TState} (h1 : Simple φ) (h2 : Simple ψ) : Simple (fun t => ψ (φ t)) := by
  obtain ⟨d1, hd1⟩ := h1
  obtain ⟨d2, hd2⟩ := h2
  refine ⟨fun g => match d2 g with | some v => some v | none => d1 g, ?_⟩
  intro t g
  show ψ (φ t) g = _
  rw [hd2, hd1]
  cases h : d2 g <;> simp [h]

theorem simple_id : Simple (fun t => t) := ⟨fun _ => none, fun _ _ => rfl⟩

theorem simple_put (g : Group) (v : Val) : Simple (fun t => t.put g v) := by
  refine ⟨fun g' => if g' = g then some (some v) else none, ?_⟩
  intro t g'
  by_cases h : g' = g <;> simp [TState.put, h]

theorem simple_drop (g : Group) : Simple (fun t => t.drop g) := by
  refine ⟨fun g' => if g' = g then some none else none, ?_⟩
  intro t g'
  by_cases h : g' = g <;> simp [TState.drop, h]

theorem simple_default : Simple (fun _ => Term.default) := ⟨fun _ => some none, fun _ _ => rfl⟩

theorem simple_group {vals : List Nat} (h : GroupVals vals) : Simple (fun t => feed t (vals.map some)) := by
  cases h with
  | single c a b d =>
    simp only [List.map_cons, List.map_nil]
    cases hs : specEffect c with
    | none => simp only [feed_unknown hs, feed_nil]; exact simple_id
    | some act =>
      cases act with
      | reset => simp only [feed_reset hs, feed_nil]; exact simple_default
      | set g => simp only [feed_set hs, feed_nil]; exact simple_put g _
      | clear g => simp only [feed_clear hs, feed_nil]; exact simple_drop g
      | ext g => rcases specEffect_ext hs with h | h | h <;> simp_all
  | idx c n hc hn =>
    obtain ⟨g, hg⟩ := specEffect_of_extCode hc
    simp only [List.map_cons, List.map_nil, feed_ext5 hg, feed_nil, hn, if_true]
    exact simple_put g _
  | rgb c r g b hc hr hg' hb =>
    obtain ⟨gr, hg⟩ := specEffect_of_extCode hc
    simp only [List.map_cons, List.map_nil, feed_ext2 hg, feed_nil, hr, hg', hb, and_self, if_true]
    exact simple_put gr _

theorem simple_groupTxt {t : Str} (h : isGroupTxt t = true) : Simple (fun st => feed st (Term.params t)) := by
  obtain ⟨h1, h2⟩ := isGroupTxt_spec h
  rw [params_of_digits h1]
  exact simple_group h2

theorem simple_codesOf {l : List Setting} (h : ∀ s ∈ l, isGroupTxt s.txt = true) :
    Simple (fun st => feed st (codesOf l)) := by
  induction l with
  | nil => simp only [codesOf_nil, feed_nil]; exact simple_id
  | cons s l ih =>
    have hs := h s (by simp)
    have := Simple.comp (simple_groupTxt hs) (ih (fun x hx => h x (by simp [hx])))
    simpa only [codesOf_cons, feed_groupTxt hs] using this

/-- **idempotence**: re-emitting settings that are already in force changes nothing -/
theorem feed_codesOf_idem {l : List Setting} (h : ∀ s ∈ l, isGroupTxt s.txt = true) (t : TState) :
    feed (feed t (codesOf l)) (codesOf l) = feed t (codesOf l) :=
  (simple_codesOf h).idem t

/-- all current settings re-emitted on top of the old state -/
theorem feed_reemit {l : List Setting} (h : ∀ s ∈ l, isGroupTxt s.txt = true) (m : List Setting) (t : TState) :
    feed (feed t (codesOf l)) (codesOf (l ++ m)) = feed t (codesOf (l ++ m)) := by
  rw [feed_codesOf_append h, feed_codesOf_append h, feed_codesOf_idem h]

theorem specEffect_0 : specEffect 0 = some .reset := by decide

/-- a leading reset makes the prior state irrelevant -/
theorem feed_zero (t : TState) (l : List (Option Nat)) : feed t (some 0 :: l) = feed Term.default l :=
  feed_reset specEffect_0 t l


/-! ## Python dicts -/

theorem get?_insert (d : PyDict) (e : Nat) (s : Setting) (k : Nat) :
    (d.insert e s).get? k = if k = e then some s else d.get? k := by
  unfold PyDict.get?; rw [find_insert]; split <;> simp

theorem get?_erase (d : PyDict) (e k : Nat) : (d.erase e).get? k = if k = e then none else d.get? k := by
  unfold PyDict.get?; rw [find_erase]; split <;> simp

theorem get?_foldl_erase (es : List Nat) (d : PyDict) (k : Nat) :
    (es.foldl PyDict.erase d).get? k = if k ∈ es then none else d.get? k := by
  induction es generalizing d with
  | nil => simp
  | cons e es ih =>
    simp only [List.foldl_cons, ih, get?_erase, List.mem_cons]
    by_cases h1 : k ∈ es <;> by_cases h2 : k = e <;> simp [h1, h2]

abbrev insAll (l : List (Nat × Setting)) (d : PyDict) : PyDict := l.foldl (fun d kv => d.insert kv.1 kv.2) d

theorem get?_insAll_not_mem (l : List (Nat × Setting)) (d : PyDict) (k : Nat) (h : ∀ kv ∈ l, kv.1 ≠ k) :
    (insAll l d).get? k = d.get? k := by
  induction l generalizing d with
  | nil => rfl
  | cons a l ih =>
    simp only [insAll, List.foldl_cons]
    rw [ih _ (fun kv hkv => h kv (by simp [hkv])), get?_insert]
    have : k ≠ a.1 := fun e => h a (by simp) e.symm
    simp [this]

theorem get?_insAll_mem (l : List (Nat × Setting)) (hp : l.Pairwise (fun a b => a.1 ≠ b.1)) (d : PyDict)
    (kv : Nat × Setting) (h : kv ∈ l) : (insAll l d).get? kv.1 = some kv.2 := by
  induction l generalizing d with
  | nil => cases h
  | cons a l ih =>
    rw [List.pairwise_cons] at hp
    simp only [insAll, List.foldl_cons]
    rcases List.mem_cons.1 h with e | e
    · subst e
      rw [get?_insAll_not_mem l _ _ (fun b hb => (hp.1 b hb).symm), get?_insert]
      simp
    · exact ih hp.2 _ e

theorem mem_of_get? {d : PyDict} {k : Nat} {s : Setting} (h : d.get? k = some s) : (k, s) ∈ d := by
  unfold PyDict.get? at h
  cases hf : d.find? (fun kv => kv.1 == k) with
  | none => rw [hf] at h; cases h
  | some kv =>
    rw [hf] at h
    have h1 := List.find?_some hf
    have h2 := List.mem_of_find?_eq_some hf
    simp only [Option.map_some, Option.some.injEq] at h
    simp only [beq_iff_eq] at h1
    obtain ⟨a, b⟩ := kv
    simp only at h h1
    subst h; subst h1; exact h2

theorem get?_of_mem {d : PyDict} (hp : d.Pairwise (fun a b => a.1 ≠ b.1)) {k : Nat} {s : Setting}
    (h : (k, s) ∈ d) : d.get? k = some s := by
  induction d with
  | nil => cases h
  | cons a d ih =>
    rw [List.pairwise_cons] at hp
    rcases List.mem_cons.1 h with e | e
    · subst e; simp [PyDict.get?]
    · have : a.1 ≠ k := hp.1 _ e
      have h' : (a.1 == k) = false := by simpa using this
      have := ih hp.2 e
      simp only [PyDict.get?, List.find?_cons, h'] at this ⊢
      exact this

theorem contains_iff {d : PyDict} {k : Nat} : d.contains k = true ↔ ∃ s, d.get? k = some s := by
  induction d with
  | nil => simp [PyDict.contains, PyDict.get?]
  | cons a d ih =>
    by_cases h : a.1 = k
    · simp [PyDict.contains, PyDict.get?, h]
    · have h' : (a.1 == k) = false := by simpa using h
      simp only [PyDict.contains, PyDict.get?, List.any_cons, h', Bool.false_or, List.find?_cons] at ih ⊢
      exact ih

theorem contains_false_iff {d : PyDict} {k : Nat} : d.contains k = false ↔ d.get? k = none := by
  have := contains_iff (d := d) (k := k)
  cases hc : d.contains k <;> cases hg : d.get? k <;> simp_all

theorem alpha_get (d : PyDict) (g : Group) : alpha d g = (d.get? (effOfGroup g)).bind (entryVal g) := by
  rw [alpha_eq, PyDict.get?]
  cases d.find? (fun kv => kv.1 == effOfGroup g) <;> rfl

theorem entryVal_txt {s s' : Setting} (h : s.txt = s'.txt) (g : Group) : entryVal g s = entryVal g s' := by
  unfold entryVal; rw [h]

/-- `alpha` only looks at the texts filed under each key -/
theorem alpha_congr {d d' : PyDict}
    (h : ∀ k, (d.get? k).map (·.txt) = (d'.get? k).map (·.txt)) : alpha d = alpha d' := by
  funext g
  rw [alpha_get, alpha_get]
  have := h (effOfGroup g)
  cases h1 : d.get? (effOfGroup g) <;> cases h2 : d'.get? (effOfGroup g) <;> simp [h1, h2] at this ⊢
  exact entryVal_txt this g

/-! ## the optimised code string -/

/-- a dict entry as `settings_to_dict` files it -/
def EntryOK (kv : Nat × Setting) : Prop :=
  isGroupTxt kv.2.txt = true ∧ SettingTxt.initialParam kv.2.txt = some (kv.1, Gen.fnApply)

theorem entry_group {kv : Nat × Setting} (h : EntryOK kv) : ∃ g, groupOfEff kv.1 = some g := by
  obtain ⟨h1, h2⟩ := isGroupTxt_spec h.1
  have hi := initialParam_of_digits h1
  rw [h.2] at hi
  generalize valsOf kv.2.txt = vals at h2 hi
  cases h2 <;>
  · simp only [List.head?_cons, Option.map_some, Option.bind_some] at hi
    obtain ⟨g, hg, _⟩ := C18.tables_agree_apply hi.symm rfl
    exact ⟨g, hg⟩

theorem dictStep_entry {kv : Nat × Setting} (h : EntryOK kv) (d : PyDict) :
    dictStep d kv.2 = d.insert kv.1 kv.2 := by
  unfold dictStep; rw [h.2]; simp

theorem clearCode_spec {e : Nat} {g : Group} (hg : groupOfEff e = some g) :
    ∃ code, Render.clearCode e = Py.natStr code ∧ specEffect code = some (.clear g) := by
  have he := groupOfEff_eq_some.1 hg
  have hr : 2 ≤ e ∧ e ≤ 15 := by subst he; cases g <;> decide
  obtain ⟨code, hc⟩ := C18.clear_total_2_15 hr.1 hr.2
  unfold Render.clearCode
  cases hf : Gen.clearTable.find? (fun r => r.1 == e) with
  | none =>
    have := List.find?_eq_none.1 hf _ hc
    simp at this
  | some r =>
    have h1 := List.find?_some hf
    have h2 := List.mem_of_find?_eq_some hf
    simp only [beq_iff_eq] at h1
    obtain ⟨a, b⟩ := r
    simp only at h1; subst h1
    obtain ⟨g', hg', hs⟩ := C18.clear_correct h2 (by omega)
    rw [hg] at hg'; cases hg'
    exact ⟨b, rfl, hs⟩

theorem params_natStr (n : Nat) : Term.params (Py.natStr n) = [some n] :=
  params_joinNats (l := [n]) (by simp)

theorem feed_clears (es : List Nat) (h : ∀ e ∈ es, ∃ g, groupOfEff e = some g) (d : PyDict)
    (rest : List (Option Nat)) :
    feed (alpha d) (codesT (es.map Render.clearCode) ++ rest) = feed (alpha (es.foldl PyDict.erase d)) rest := by
  induction es generalizing d with
  | nil => simp [codesT_nil]
  | cons e es ih =>
    obtain ⟨g, hg⟩ := h e (by simp)
    obtain ⟨code, hc, hs⟩ := clearCode_spec hg
    simp only [List.map_cons, codesT_cons, hc, params_natStr, List.cons_append, List.nil_append,
      List.foldl_cons]
    rw [feed_clear hs, ← alpha_erase hg, ih (fun x hx => h x (by simp [hx]))]

theorem feed_entries (l : List (Nat × Setting)) (h : ∀ kv ∈ l, EntryOK kv) (d : PyDict)
    (rest : List (Option Nat)) :
    feed (alpha d) (codesT (l.map (fun kv => kv.2.txt)) ++ rest) = feed (alpha (insAll l d)) rest := by
  induction l generalizing d with
  | nil => simp [codesT_nil]
  | cons a l ih =>
    have ha := h a (by simp)
    simp only [List.map_cons, codesT_cons, List.append_assoc, insAll, List.foldl_cons]
    rw [feed_groupTxt ha.1, ← alpha_dictStep ha.1, dictStep_entry ha, ih (fun x hx => h x (by simp [hx]))]

/-- the `old_settings_dict[key] != value` test of the optimiser -/
def changedP (old : PyDict) (kv : Nat × Setting) : Bool :=
  match old.get? kv.1 with
  | none => true
  | some v => v.txt != kv.2.txt

/-- the items of the optimised code string: clear codes of the effects that left the dict, then the
    texts of the new or changed entries -/
def optItems (old new : PyDict) : List Str :=
  (old.filter (fun kv => !new.contains kv.1)).map (fun kv => Render.clearCode kv.1) ++
  (new.filter (changedP old)).map (fun kv => kv.2.txt)

/-- **the optimised string moves the terminal from the old dict's state to the new dict's** -/
theorem opt_feed {old new : PyDict} (ho : DictOK old) (hn : DictOK new) :
    feed (alpha old) (codesT (optItems old new)) = alpha new := by
  have e1 : (old.filter (fun kv => !new.contains kv.1)).map (fun kv => Render.clearCode kv.1) =
      ((old.filter (fun kv => !new.contains kv.1)).map (·.1)).map Render.clearCode := by
    simp [List.map_map, Function.comp_def]
  unfold optItems
  rw [codesT_append, e1, feed_clears, ← List.append_nil (codesT _), feed_entries, feed_nil]
  · apply alpha_congr
    intro k
    by_cases hk : ∃ kv ∈ new.filter (changedP old), kv.1 = k
    · obtain ⟨kv, hkv, rfl⟩ := hk
      rw [get?_insAll_mem _ (hn.1.filter _) _ kv hkv,
        get?_of_mem hn.1 (List.mem_filter.1 hkv).1]
    · rw [get?_insAll_not_mem _ _ _ (fun kv hkv e => hk ⟨kv, hkv, e⟩), get?_foldl_erase]
      cases hnew : new.get? k with
      | some s =>
        have hmem := mem_of_get? hnew
        have hnc : ¬ (changedP old (k, s) = true) := fun hc => hk ⟨(k, s), List.mem_filter.2 ⟨hmem, hc⟩, rfl⟩
        have hnr : k ∉ (old.filter (fun kv => !new.contains kv.1)).map (·.1) := by
          intro hm
          obtain ⟨kv, hkv, rfl⟩ := List.mem_map.1 hm
          have := (List.mem_filter.1 hkv).2
          have hc : new.contains kv.1 = true := contains_iff.2 ⟨s, hnew⟩
          simp [hc] at this
        rw [if_neg hnr]
        unfold changedP at hnc
        cases hold : old.get? k with
        | none => simp [hold] at hnc
        | some v => simpa [hold] using hnc
      | none =>
        split
        · rfl
        · rename_i hnr
          cases hold : old.get? k with
          | none => rfl
          | some v =>
            exfalso; apply hnr
            have hmem := mem_of_get? hold
            refine List.mem_map.2 ⟨(k, v), List.mem_filter.2 ⟨hmem, ?_⟩, rfl⟩
            simp [contains_false_iff.2 hnew]
  · intro kv hkv; exact hn.2 kv (List.mem_filter.1 hkv).1
  · intro e he
    obtain ⟨kv, hkv, rfl⟩ := List.mem_map.1 he
    exact entry_group (ho.2 kv (List.mem_filter.1 hkv).1)

theorem optItems_ne_nil {old new : PyDict} (ho : DictOK old) (hn : DictOK new) :
    ∀ t ∈ optItems old new, t ≠ [] ∧ PChars t := by
  intro t ht
  rcases List.mem_append.1 ht with h | h
  · obtain ⟨kv, hkv, rfl⟩ := List.mem_map.1 h
    obtain ⟨g, hg⟩ := entry_group (ho.2 kv (List.mem_filter.1 hkv).1)
    obtain ⟨code, hc, _⟩ := clearCode_spec hg
    rw [hc]; exact ⟨(natStr_spec code).1, pchars_natStr code⟩
  · obtain ⟨kv, hkv, rfl⟩ := List.mem_map.1 h
    have := (hn.2 kv (List.mem_filter.1 hkv).1).1
    exact ⟨groupTxt_ne_nil this, pchars_of_groupTxt this⟩


/-! ## one iteration of the rendering loop, taken apart -/

/-- the non-optimised code string -/
def codesU (p : Point) (cur : List Setting) : Str :=
  joinSep Gen.ansiSep
    (if !p.rem.isEmpty ∧ !(texts cur).isEmpty then Py.natStr Gen.paramReset :: texts cur else texts cur)

/-- the optimised code string -/
def codesO (old new : PyDict) : Str := joinSep Gen.ansiSep (optItems old new)

/-- which string is written, and whether anything is written at all -/
def choose (opt : Bool) (old new : PyDict) (cu : Str) : Bool × Str :=
  if opt then
    (if (codesO old new).isEmpty then (false, cu)
     else if (codesO old new).length < cu.length then (true, codesO old new)
     else (true, cu))
  else (true, cu)

def newDict (opt : Bool) (old : PyDict) (cur : List Setting) : PyDict :=
  if opt then settingsToDict cur [] else old

def finalCodes (opt rs : Bool) (idx : Nat) (old : PyDict) (p : Point) (cur : List Setting) : Bool × Str :=
  let ch := choose opt old (newDict opt old cur) (codesU p cur)
  if idx = 0 ∧ rs then (true, joinSep Gen.ansiSep [Py.natStr Gen.paramReset, ch.2]) else ch

theorem step_eq (s : Str) (opt rs : Bool) (st : Render.St) (idx : Nat) (p : Point) (cur : List Setting) :
    Render.step s opt rs st (idx, p, cur) =
      { out :=
          (if (finalCodes opt rs idx st.dict p cur).1 then
            (if st.first ∧ idx > 0 ∧ rs then st.out ++ Gen.escapeClear else st.out) ++
              (s.take idx).drop st.last ++ Render.sgr (finalCodes opt rs idx st.dict p cur).2
           else
            (if st.first ∧ idx > 0 ∧ rs then st.out ++ Gen.escapeClear else st.out) ++
              (s.take idx).drop st.last),
        last := idx, exist := !cur.isEmpty, dict := newDict opt st.dict cur, first := false } := by
  rfl


/-! ## the emitted sequence moves the terminal from `eff prev` to `eff cur` -/

theorem ansiSep_eq : Gen.ansiSep = [';'] := by decide
theorem resetStr_eq : Py.natStr Gen.paramReset = ['0'] := by decide
theorem params_zero : Term.params ['0'] = [some 0] := by decide

theorem eff_nil : eff [] = Term.default := by simp [eff, codesOf_nil, feed_nil]

theorem mem_foldl_eraseId {rem : List Setting} {cur : List Setting} {s : Setting}
    (h : s ∈ rem.foldl (fun c r => eraseId c r.id) cur) : s ∈ cur := by
  induction rem generalizing cur with
  | nil => exact h
  | cons r rem ih => exact List.mem_of_mem_eraseP (ih h)

theorem mem_stepPoint {cur : List Setting} {p : Point} {s : Setting} (h : s ∈ stepPoint cur p) :
    s ∈ cur ∨ s ∈ p.add := by
  rcases List.mem_append.1 h with h | h
  · exact .inl (mem_foldl_eraseId h)
  · exact .inr h

theorem pchars_texts {l : List Setting} (h : ∀ s ∈ l, isGroupTxt s.txt = true) : ∀ t ∈ texts l, PChars t := by
  intro t ht
  obtain ⟨s, hs, rfl⟩ := List.mem_map.1 ht
  exact pchars_of_groupTxt (h s hs)

theorem pchars_codesU (p : Point) {cur : List Setting} (h : ∀ s ∈ cur, isGroupTxt s.txt = true) :
    PChars (codesU p cur) := by
  unfold codesU
  rw [ansiSep_eq]
  apply pchars_joinSep
  split
  · intro t ht
    rcases List.mem_cons.1 ht with e | e
    · subst e; exact pchars_natStr _
    · exact pchars_texts h t e
  · exact pchars_texts h

/-- the non-optimised string: all current settings, after a reset when something stopped -/
theorem feed_codesU {prev : List Setting} (p : Point)
    (hprev : ∀ s ∈ prev, isGroupTxt s.txt = true) :
    feed (eff prev) (Term.params (codesU p (stepPoint prev p))) = eff (stepPoint prev p) := by
  unfold codesU
  rw [ansiSep_eq, resetStr_eq]
  by_cases hcur : stepPoint prev p = []
  · simp only [hcur, texts, List.map_nil, List.isEmpty_nil, Bool.not_true, Bool.false_eq_true, and_false,
      if_false, joinSep, params_nil, feed_zero, feed_nil, eff_nil]
  · have hne : texts (stepPoint prev p) ≠ [] := by simpa [texts] using hcur
    have hne' : (texts (stepPoint prev p)).isEmpty = false := by simpa [List.isEmpty_iff] using hne
    by_cases hrem : p.rem = []
    · have hc : stepPoint prev p = prev ++ p.add := by simp [stepPoint, hrem]
      simp only [hrem, List.isEmpty_nil, Bool.not_true, Bool.false_eq_true, false_and, if_false]
      rw [params_joinSep _ hne, codesT_texts, hc]
      exact feed_reemit hprev _ _
    · have hrem' : p.rem.isEmpty = false := by simpa [List.isEmpty_iff] using hrem
      simp only [hrem', hne', Bool.not_false, and_self, if_true]
      rw [params_joinSep _ (by simp), codesT_cons, params_zero, codesT_texts]
      simp only [List.cons_append, List.nil_append, feed_zero]
      rfl


theorem groupTxt_stepPoint {prev : List Setting} {p : Point}
    (hprev : ∀ s ∈ prev, isGroupTxt s.txt = true) (hadd : ∀ s ∈ p.add, isGroupTxt s.txt = true) :
    ∀ s ∈ stepPoint prev p, isGroupTxt s.txt = true :=
  fun s hs => (mem_stepPoint hs).elim (hprev s) (hadd s)

/-- **one change point**: whichever string the loop picks, it moves the terminal from the effective
    style of the previous settings to that of the current ones; if it writes nothing the two agree -/
theorem transition {prev : List Setting} (p : Point) {old : PyDict} (opt : Bool)
    (hprev : ∀ s ∈ prev, isGroupTxt s.txt = true) (hadd : ∀ s ∈ p.add, isGroupTxt s.txt = true)
    (hold : opt = true → alpha old = eff prev ∧ DictOK old) :
    PChars (choose opt old (newDict opt old (stepPoint prev p)) (codesU p (stepPoint prev p))).2 ∧
    (feed (eff prev)
        (Term.params (choose opt old (newDict opt old (stepPoint prev p)) (codesU p (stepPoint prev p))).2) =
        eff (stepPoint prev p) ∧
      ((choose opt old (newDict opt old (stepPoint prev p)) (codesU p (stepPoint prev p))).1 = false →
        eff prev = eff (stepPoint prev p))) ∧
    (opt = true → alpha (newDict opt old (stepPoint prev p)) = eff (stepPoint prev p) ∧
      DictOK (newDict opt old (stepPoint prev p))) := by
  have hcur := groupTxt_stepPoint hprev hadd
  generalize hc : stepPoint prev p = cur at hcur
  have hU : feed (eff prev) (Term.params (codesU p cur)) = eff cur := hc ▸ feed_codesU p hprev
  have hUc := pchars_codesU p hcur
  cases opt with
  | false => simp [choose, hU, hUc]
  | true =>
    obtain ⟨ho1, ho2⟩ := hold rfl
    have hn1 : alpha (settingsToDict cur []) = eff cur := by
      rw [alpha_settingsToDict hcur, alpha_nil]; rfl
    have hn2 : DictOK (settingsToDict cur []) := dictOK_settingsToDict hcur dictOK_nil
    have hof := opt_feed ho2 hn2
    have hit := optItems_ne_nil ho2 hn2
    simp only [newDict, if_true]
    refine ⟨?_, ?_, fun _ => ⟨hn1, hn2⟩⟩
    · unfold choose
      simp only [if_true]
      split
      · exact hUc
      · split
        · unfold codesO; rw [ansiSep_eq]
          exact pchars_joinSep _ (fun t ht => (hit t ht).2)
        · exact hUc
    · unfold choose
      simp only [if_true]
      split
      · rename_i hE
        have : optItems old (settingsToDict cur []) = [] :=
          joinSep_eq_nil (fun t ht => (hit t ht).1) (List.isEmpty_iff.1 hE)
        rw [this, codesT_nil, feed_nil] at hof
        refine ⟨hU, fun _ => ?_⟩
        rw [← ho1, hof, hn1]
      · rename_i hE
        have hne : optItems old (settingsToDict cur []) ≠ [] := by
          intro e; apply hE; simp [codesO, e, joinSep]
        split
        · refine ⟨?_, fun h => by cases h⟩
          unfold codesO
          rw [ansiSep_eq, params_joinSep _ hne, ← ho1, hof, hn1]
        · exact ⟨hU, fun h => by cases h⟩


/-! ## what is displayed -/

/-- the characters of `l` (a prefix of the text), each under the style the value reports for it -/
def dispL (x : AStr) (l : Str) : List (Char × TState) := l.zipIdx.map (fun ci => (ci.1, eff (act x ci.2)))

theorem den_eq (x : AStr) : den x = dispL x x.s := rfl

theorem zipIdx_map_const {α β : Type} (l : List α) (a : Nat) (h : Nat → β) (v : β)
    (hv : ∀ i, a ≤ i → i < a + l.length → h i = v) :
    (l.zipIdx a).map (fun ci => (ci.1, h ci.2)) = l.map (fun c => (c, v)) := by
  induction l generalizing a with
  | nil => rfl
  | cons c l ih =>
    simp only [List.zipIdx_cons, List.map_cons, List.length_cons] at hv ⊢
    rw [hv a (Nat.le_refl _) (by omega), ih (a + 1) (fun i h1 h2 => hv i (by omega) (by omega))]

theorem dispL_append (x : AStr) (a b : Str) (c : List Setting)
    (h : ∀ i, a.length ≤ i → i < a.length + b.length → act x i = c) :
    dispL x (a ++ b) = dispL x a ++ b.map (fun ch => (ch, eff c)) := by
  unfold dispL
  rw [List.zipIdx_append, List.map_append]
  congr 1
  simp only [Nat.zero_add]
  exact zipIdx_map_const b a.length (fun i => eff (act x i)) (eff c) (fun i h1 h2 => by rw [h i h1 h2])

theorem take_split (s : Str) {a k : Nat} (h : a ≤ k) : s.take k = s.take a ++ (s.take k).drop a := by
  conv => lhs; rw [← List.take_append_drop a (s.take k)]
  rw [List.take_take, Nat.min_eq_left h]

theorem dispL_take (x : AStr) {a k : Nat} (hak : a ≤ k) (hk : k ≤ x.len) (c : List Setting)
    (h : ∀ i, a ≤ i → i < k → act x i = c) :
    dispL x (x.s.take k) = dispL x (x.s.take a) ++ ((x.s.take k).drop a).map (fun ch => (ch, eff c)) := by
  have hlen : x.s.length = x.len := rfl
  rw [take_split x.s hak]
  have h1 : (x.s.take a).length = a := by rw [List.length_take]; omega
  have h2 : ((x.s.take a ++ (x.s.take k).drop a).drop a) = (x.s.take k).drop a := by
    rw [← take_split x.s hak]
  rw [h2]
  apply dispL_append
  intro i hi1 hi2
  rw [h1] at hi1 hi2
  have : ((x.s.take k).drop a).length = k - a := by rw [List.length_drop, List.length_take]; omega
  exact h i hi1 (by omega)

theorem dispL_drop (x : AStr) {a : Nat} (ha : a ≤ x.len) (c : List Setting)
    (h : ∀ i, a ≤ i → i < x.len → act x i = c) :
    dispL x x.s = dispL x (x.s.take a) ++ (x.s.drop a).map (fun ch => (ch, eff c)) := by
  have hlen : x.s.length = x.len := rfl
  conv => lhs; rw [← List.take_append_drop a x.s]
  apply dispL_append
  intro i hi1 hi2
  have h1 : (x.s.take a).length = a := by rw [List.length_take]; omega
  rw [h1] at hi1 hi2
  rw [List.length_drop] at hi2
  exact h i hi1 (by omega)

/-! ## the loop -/

theorem escapeClear_eq : Gen.escapeClear = '\x1b' :: '[' :: ([] : List Char) ++ ['m'] := by decide

theorem sgr_eq (codes : Str) : Render.sgr codes = '\x1b' :: '[' :: codes ++ ['m'] := by
  have h1 : Gen.sgrPrefix = ['\x1b', '['] := by decide
  have h2 : Gen.sgrSuffix = ['m'] := by decide
  simp [Render.sgr, h1, h2]

theorem reaches_clear (t : TState) : Reaches t Gen.escapeClear [] Term.default := by
  rw [escapeClear_eq]
  have := Reaches.sgr t (ps := []) (by simp)
  rwa [params_nil, feed_zero, feed_nil] at this

theorem reaches_sgr (t : TState) {codes : Str} (h : PChars codes) :
    Reaches t (Render.sgr codes) [] (feed t (Term.params codes)) := by
  rw [sgr_eq]; exact Reaches.sgr t h.noFinal

/-- the part of `to_str` after the loop -/
def finish (s : Str) (rs re : Bool) (st : Render.St) : Str :=
  if st.exist ∧ re then
    (if st.first ∧ rs then st.out ++ Gen.escapeClear else st.out) ++ s.drop st.last ++ Gen.escapeClear
  else (if st.first ∧ rs then st.out ++ Gen.escapeClear else st.out) ++ s.drop st.last

/-- the loop of `to_str` over the rest `f` of the table, `cur` being the iterator's settings -/
def loop (x : AStr) (opt rs : Bool) (cur : List Setting) (f : Fmts) (st : Render.St) : Render.St :=
  ((replayFrom cur f).takeWhile (fun t => t.1 < x.len)).foldl (Render.step x.s opt rs) st

theorem render_eq (x : AStr) (o rs re : Bool) :
    Render.render x o rs re = finish x.s rs re (loop x (o && x.isFormattingParsable) rs [] x.fmts {}) := rfl

theorem loop_nil (x : AStr) (opt rs : Bool) (cur : List Setting) (st : Render.St) :
    loop x opt rs cur [] st = st := rfl

theorem loop_cons (x : AStr) (opt rs : Bool) (cur : List Setting) (k : Nat) (p : Point) (rest : Fmts)
    (st : Render.St) :
    loop x opt rs cur ((k, p) :: rest) st =
      if k < x.len then
        loop x opt rs (stepPoint cur p) rest (Render.step x.s opt rs st (k, p, stepPoint cur p))
      else st := by
  unfold loop
  simp only [replayFrom, List.takeWhile_cons]
  by_cases h : k < x.len <;> simp [h]

/-- the style of the last character (what the terminal is left in when `reset_end=False`) -/
def lastStyle (x : AStr) : List Setting := if x.len = 0 then [] else act x (x.len - 1)

structure Inv (x : AStr) (t0 : TState) (opt : Bool) (cur : List Setting) (f : Fmts) (st : Render.St) : Prop where
  ltLen : st.first = false → st.last < x.len
  sorted : SortedKeys f
  keysGt : st.first = false → ∀ kp ∈ f, st.last < kp.1
  actEq : ∀ i, st.last ≤ i → act x i = activeFrom cur f i
  curG : ∀ s ∈ cur, isGroupTxt s.txt = true
  fG : ∀ kp ∈ f, ∀ s ∈ kp.2.add, isGroupTxt s.txt = true
  firstSt : st.first = true → st.out = [] ∧ st.last = 0 ∧ cur = []
  reach : st.first = false → Reaches t0 st.out (dispL x (x.s.take st.last)) (eff cur)
  dict : opt = true → alpha st.dict = eff cur ∧ DictOK st.dict
  exist : st.exist = !cur.isEmpty


theorem noEsc_drop_take {s : Str} (h : NoEsc s) (a k : Nat) : '\x1b' ∉ (s.take k).drop a :=
  fun hm => h (List.mem_of_mem_take (List.mem_of_mem_drop hm))

theorem noEsc_drop {s : Str} (h : NoEsc s) (a : Nat) : '\x1b' ∉ s.drop a :=
  fun hm => h (List.mem_of_mem_drop hm)

theorem Inv.lastLe {x t0 opt cur f st} (inv : Inv x t0 opt cur f st) : st.last ≤ x.len := by
  cases hf : st.first with
  | true => rw [(inv.firstSt hf).2.1]; exact Nat.zero_le _
  | false => exact Nat.le_of_lt (inv.ltLen hf)

/-- after the loop: the rest of the text and the closing reset -/
theorem finish_correct {x : AStr} {t0 : TState} {opt rs : Bool} (re : Bool) {cur : List Setting} {f : Fmts}
    {st : Render.St} (hne : NoEsc x.s) (h0 : rs = true ∨ t0 = Term.default)
    (inv : Inv x t0 opt cur f st) (hend : ∀ i, st.last ≤ i → i < x.len → act x i = cur) :
    Reaches t0 (finish x.s rs re st) (den x) (if re then Term.default else eff (lastStyle x)) := by
  have hlast := inv.lastLe
  have R1 : Reaches t0 (if st.first ∧ rs then st.out ++ Gen.escapeClear else st.out)
      (dispL x (x.s.take st.last)) (eff cur) := by
    cases hf : st.first with
    | true =>
      obtain ⟨h1, h2, h3⟩ := inv.firstSt hf
      rw [h1, h2, h3, eff_nil]
      have hd : dispL x (List.take 0 x.s) = [] := rfl
      rw [hd]
      cases rs with
      | true => simpa using reaches_clear t0
      | false =>
        have : t0 = Term.default := by simpa using h0
        subst this
        simpa using Reaches.nil Term.default
    | false => simpa using inv.reach hf
  have R2 := R1.trans (Reaches.text (eff cur) (noEsc_drop hne st.last))
  rw [← dispL_drop x hlast cur hend, ← den_eq] at R2
  unfold finish
  by_cases hE : st.exist = true ∧ re = true
  · rw [if_pos hE, hE.2]
    have R3 := R2.trans (reaches_clear (eff cur))
    simpa using R3
  · rw [if_neg hE]
    cases re with
    | true =>
      have hex : st.exist = false := by simpa using hE
      rw [inv.exist] at hex
      have hc : cur = [] := by simpa using hex
      rw [hc, eff_nil] at R2
      simpa using R2
    | false =>
      have : eff cur = eff (lastStyle x) := by
        unfold lastStyle
        by_cases hl : x.len = 0
        · rw [if_pos hl]
          cases hf : st.first with
          | true => rw [(inv.firstSt hf).2.2]
          | false => have := inv.ltLen hf; omega
        · rw [if_neg hl, hend (x.len - 1) (by
            cases hf : st.first with
            | true => rw [(inv.firstSt hf).2.1]; exact Nat.zero_le _
            | false => have := inv.ltLen hf; omega) (by omega)]
      rw [this] at R2
      simpa using R2

/-- one change point preserves the invariant -/
theorem inv_step {x : AStr} {t0 : TState} {opt rs : Bool} {cur : List Setting} {k : Nat} {p : Point}
    {rest : Fmts} {st : Render.St} (hne : NoEsc x.s) (h0 : rs = true ∨ t0 = Term.default)
    (inv : Inv x t0 opt cur ((k, p) :: rest) st) (hk : k < x.len) :
    Inv x t0 opt (stepPoint cur p) rest (Render.step x.s opt rs st (k, p, stepPoint cur p)) := by
  have hlk : st.last ≤ k := by
    cases hf : st.first with
    | true => rw [(inv.firstSt hf).2.1]; exact Nat.zero_le _
    | false => exact Nat.le_of_lt (inv.keysGt hf (k, p) (by simp))
  have hseg : ∀ i, st.last ≤ i → i < k → act x i = cur := by
    intro i h1 h2
    rw [inv.actEq i h1]
    have : ¬ k ≤ i := by omega
    simp [activeFrom, this]
  have hadd := inv.fG (k, p) (by simp)
  obtain ⟨tr1, ⟨tr2, tr3⟩, tr4⟩ := transition p opt inv.curG hadd inv.dict
  rw [step_eq]
  refine ⟨fun _ => hk, Fmts.sorted_tail inv.sorted, fun _ kp hkp => Fmts.sorted_head_lt inv.sorted kp hkp,
    ?_, groupTxt_stepPoint inv.curG hadd, fun kp hkp => inv.fG kp (by simp [hkp]), (fun h => by cases h),
    fun _ => ?_, tr4, rfl⟩
  · intro i hi
    have hi' : k ≤ i := hi
    rw [inv.actEq i (by omega)]
    simp [activeFrom, hi']
  · show Reaches t0 (if (finalCodes opt rs k st.dict p (stepPoint cur p)).1 = true then _ else _)
      (dispL x (x.s.take k)) (eff (stepPoint cur p))
    by_cases hA : k = 0 ∧ rs = true
    · obtain ⟨rfl, rfl⟩ := hA
      have hf : st.first = true := by
        cases hf : st.first with
        | true => rfl
        | false => have := inv.keysGt hf (0, p) (by simp); simp at this
      obtain ⟨h1, h2, h3⟩ := inv.firstSt hf
      subst h3
      have hfc : finalCodes opt true 0 st.dict p (stepPoint [] p) =
          (true, joinSep Gen.ansiSep [Py.natStr Gen.paramReset,
            (choose opt st.dict (newDict opt st.dict (stepPoint [] p)) (codesU p (stepPoint [] p))).2]) := by
        simp [finalCodes]
      rw [hfc, ansiSep_eq, resetStr_eq]
      have hp : PChars (joinSep [';'] [['0'],
          (choose opt st.dict (newDict opt st.dict (stepPoint [] p)) (codesU p (stepPoint [] p))).2]) := by
        apply pchars_joinSep
        intro t ht
        simp only [List.mem_cons, List.not_mem_nil, or_false] at ht
        rcases ht with rfl | rfl
        · exact pchars_natStr 0
        · exact tr1
      have R := reaches_sgr t0 hp
      rw [params_joinSep _ (by simp), codesT_cons, codesT_cons, codesT_nil, params_zero] at R
      simp only [List.cons_append, List.nil_append, List.append_nil, feed_zero] at R
      rw [eff_nil] at tr2
      rw [tr2] at R
      have hd : dispL x [] = [] := rfl
      simp only [h1, hd, if_true, List.take_zero, List.drop_nil, List.nil_append, List.append_nil]
      simpa using R
    · have hfc : finalCodes opt rs k st.dict p (stepPoint cur p) =
          choose opt st.dict (newDict opt st.dict (stepPoint cur p)) (codesU p (stepPoint cur p)) := by
        simp only [finalCodes]; rw [if_neg hA]
      rw [hfc]
      have R1 : Reaches t0 (if st.first = true ∧ k > 0 ∧ rs = true then st.out ++ Gen.escapeClear else st.out)
          (dispL x (x.s.take st.last)) (eff cur) := by
        cases hf : st.first with
        | true =>
          obtain ⟨h1, h2, h3⟩ := inv.firstSt hf
          rw [h1, h2, h3, eff_nil]
          have hd : dispL x (List.take 0 x.s) = [] := rfl
          rw [hd]
          by_cases hB : k > 0 ∧ rs = true
          · simp only [hB, and_self, if_true, List.nil_append]
            exact reaches_clear t0
          · have hrs : rs = false := by
              cases rs with
              | false => rfl
              | true => exfalso; simp at hA hB; omega
            have : t0 = Term.default := by simpa [hrs] using h0
            subst this
            simp only [true_and, if_neg hB]
            exact Reaches.nil Term.default
        | false => simpa using inv.reach hf
      have R2 := R1.trans (Reaches.text (eff cur) (noEsc_drop_take hne st.last k))
      rw [← dispL_take x hlk (Nat.le_of_lt hk) cur hseg] at R2
      cases hc : (choose opt st.dict (newDict opt st.dict (stepPoint cur p)) (codesU p (stepPoint cur p))).1 with
      | true =>
        have R3 := R2.trans (reaches_sgr (eff cur) tr1)
        rw [tr2] at R3
        simpa using R3
      | false =>
        rw [tr3 hc] at R2
        simpa using R2


theorem loop_correct {x : AStr} {t0 : TState} {opt rs : Bool} (re : Bool) (hne : NoEsc x.s)
    (h0 : rs = true ∨ t0 = Term.default) :
    ∀ (f : Fmts) (cur : List Setting) (st : Render.St), Inv x t0 opt cur f st →
      Reaches t0 (finish x.s rs re (loop x opt rs cur f st)) (den x)
        (if re then Term.default else eff (lastStyle x)) := by
  intro f
  induction f with
  | nil =>
    intro cur st inv
    rw [loop_nil]
    exact finish_correct re hne h0 inv (fun i h1 _ => by rw [inv.actEq i h1]; rfl)
  | cons kp rest ih =>
    obtain ⟨k, p⟩ := kp
    intro cur st inv
    rw [loop_cons]
    by_cases hk : k < x.len
    · rw [if_pos hk]; exact ih _ _ (inv_step hne h0 inv hk)
    · rw [if_neg hk]
      refine finish_correct re hne h0 inv (fun i h1 h2 => ?_)
      rw [inv.actEq i h1]
      have : ¬ k ≤ i := by omega
      simp [activeFrom, this]

theorem inv_init {x : AStr} (t0 : TState) (opt : Bool) (hs : SortedKeys x.fmts) (hg : GroupSettings x) :
    Inv x t0 opt [] x.fmts {} := by
  refine ⟨(fun h => by cases h), hs, (fun h => by cases h), fun _ _ => rfl, (fun _ h => by cases h), ?_,
    fun _ => ⟨rfl, rfl, rfl⟩, (fun h => by cases h), fun _ => ⟨by rw [alpha_nil, eff_nil], dictOK_nil⟩, rfl⟩
  intro kp hkp s hs'
  apply hg
  unfold Fmts.settings
  exact List.mem_flatMap.2 ⟨kp, hkp, List.mem_append_left _ hs'⟩

/-- **the rendering, run on a conforming terminal**: what is displayed and the state it is left in -/
theorem render_run {x : AStr} (hs : SortedKeys x.fmts) (hg : GroupSettings x) (hne : NoEsc x.s)
    (o rs re : Bool) (t0 : TState) (h0 : rs = true ∨ t0 = Term.default) :
    Term.run t0 (Render.render x o rs re) = (den x, if re then Term.default else eff (lastStyle x)) := by
  rw [render_eq]
  exact (loop_correct re hne h0 _ _ _ (inv_init t0 _ hs hg)).run

/-! ## the output begins with a reset when `reset_start` -/

/-- `out` begins with an SGR sequence whose first parameter is 0 (or empty) -/
def Begins (out : Str) : Prop :=
  ∃ ps rest, out = '\x1b' :: '[' :: ps ++ 'm' :: rest ∧ (∀ c ∈ ps, Term.isFinal c = false) ∧
    (Term.params ps).head? = some (some 0)

theorem Begins.append {a : Str} (h : Begins a) (b : Str) : Begins (a ++ b) := by
  obtain ⟨ps, rest, e, h1, h2⟩ := h
  exact ⟨ps, rest ++ b, by rw [e]; simp, h1, h2⟩

theorem begins_clear : Begins Gen.escapeClear :=
  ⟨[], [], by rw [escapeClear_eq], by simp, by rw [params_nil]; rfl⟩

theorem begins_sgr {cs : Str} (h1 : PChars cs) (h2 : (Term.params cs).head? = some (some 0)) :
    Begins (Render.sgr cs) :=
  ⟨cs, [], by rw [sgr_eq], h1.noFinal, h2⟩

theorem step_out (s : Str) (opt rs : Bool) (st : Render.St) (t : Nat × Point × List Setting) :
    (∃ tail, (Render.step s opt rs st t).out = st.out ++ tail) ∧ (Render.step s opt rs st t).first = false := by
  obtain ⟨k, p, cur⟩ := t
  rw [step_eq]
  refine ⟨?_, rfl⟩
  simp only
  split <;> split <;> simp

theorem foldl_step_out (s : Str) (opt rs : Bool) (l : List (Nat × Point × List Setting)) :
    ∀ st : Render.St, (∃ tail, (l.foldl (Render.step s opt rs) st).out = st.out ++ tail) ∧
      (st.first = false → (l.foldl (Render.step s opt rs) st).first = false) := by
  induction l with
  | nil => intro st; exact ⟨⟨[], by simp⟩, id⟩
  | cons t l ih =>
    intro st
    obtain ⟨⟨tail1, h1⟩, h2⟩ := step_out s opt rs st t
    obtain ⟨⟨tail2, h3⟩, h4⟩ := ih (Render.step s opt rs st t)
    refine ⟨⟨tail1 ++ tail2, ?_⟩, fun _ => h4 h2⟩
    rw [List.foldl_cons, h3, h1, List.append_assoc]

theorem finish_out (s : Str) (rs re : Bool) (st : Render.St) (hf : st.first = false) :
    ∃ tail, finish s rs re st = st.out ++ tail := by
  unfold finish
  simp only [hf, Bool.false_eq_true, false_and, if_false]
  split <;> simp

theorem render_begins {x : AStr} (hg : GroupSettings x) (o re : Bool) : Begins (Render.render x o true re) := by
  rw [render_eq]
  generalize (o && x.isFormattingParsable) = opt
  have hempty : Begins (finish x.s true re {}) := by
    have : finish x.s true re {} = Gen.escapeClear ++ x.s := by simp [finish]
    rw [this]; exact begins_clear.append _
  cases hf : x.fmts with
  | nil => rw [loop_nil]; exact hempty
  | cons kp rest =>
    obtain ⟨k, p⟩ := kp
    rw [loop_cons]
    by_cases hk : k < x.len
    · rw [if_pos hk]
      obtain ⟨⟨tail1, h1⟩, h2⟩ := foldl_step_out x.s opt true
        ((replayFrom (stepPoint [] p) rest).takeWhile (fun t => t.1 < x.len))
        (Render.step x.s opt true {} (k, p, stepPoint [] p))
      have h2 := h2 (step_out _ _ _ _ _).2
      obtain ⟨tail2, h3⟩ := finish_out x.s true re _ h2
      unfold loop
      rw [h3, h1, List.append_assoc]
      apply Begins.append
      rw [step_eq]
      by_cases hk0 : k = 0
      · subst hk0
        have hadd : ∀ s ∈ p.add, isGroupTxt s.txt = true := by
          intro s hs'
          apply hg
          unfold Fmts.settings
          rw [hf]
          exact List.mem_flatMap.2 ⟨(0, p), by simp, List.mem_append_left _ hs'⟩
        obtain ⟨tr1, _, _⟩ := transition (prev := []) p (old := []) opt (fun _ h => by cases h) hadd
          (fun _ => ⟨by rw [alpha_nil, eff_nil], dictOK_nil⟩)
        have hfc : finalCodes opt true 0 [] p (stepPoint [] p) =
            (true, joinSep Gen.ansiSep [Py.natStr Gen.paramReset,
              (choose opt [] (newDict opt [] (stepPoint [] p)) (codesU p (stepPoint [] p))).2]) := by
          simp [finalCodes]
        have hb : Begins (Render.sgr (joinSep [';'] [['0'],
            (choose opt [] (newDict opt [] (stepPoint [] p)) (codesU p (stepPoint [] p))).2])) := by
          apply begins_sgr
          · apply pchars_joinSep
            intro t ht
            simp only [List.mem_cons, List.not_mem_nil, or_false] at ht
            rcases ht with rfl | rfl
            · exact pchars_natStr 0
            · exact tr1
          · rw [params_joinSep _ (by simp), codesT_cons, params_zero]; rfl
        dsimp only
        rw [hfc, ansiSep_eq, resetStr_eq]
        simpa using hb
      · have hpos : k > 0 := by omega
        have hb : ∀ tail, Begins (([] ++ Gen.escapeClear) ++ tail) := fun tail => by
          simpa using begins_clear.append tail
        dsimp only
        have hcond : (true = true ∧ k > 0 ∧ true = true) := ⟨rfl, hpos, rfl⟩
        rw [if_pos hcond]
        split
        · rw [List.append_assoc]; exact hb _
        · exact hb _
    · rw [if_neg hk]; exact hempty

/-- Boolean form of `Begins` (used to refute it on concrete outputs) -/
def beginsB (out : Str) : Bool :=
  out.take 2 == ['\x1b', '['] &&
  ((out.drop 2).dropWhile (fun c => !Term.isFinal c)).head? == some 'm' &&
  (Term.params ((out.drop 2).takeWhile (fun c => !Term.isFinal c))).head? == some (some 0)

theorem takeWhile_nonFinal {ps : List Char} (h : ∀ c ∈ ps, Term.isFinal c = false) (rest : List Char) :
    (ps ++ 'm' :: rest).takeWhile (fun c => !Term.isFinal c) = ps ∧
    (ps ++ 'm' :: rest).dropWhile (fun c => !Term.isFinal c) = 'm' :: rest := by
  induction ps with
  | nil =>
    have : Term.isFinal 'm' = true := by decide
    simp [this]
  | cons c ps ih =>
    have hc := h c (by simp)
    have := ih (fun d hd => h d (by simp [hd]))
    simp [hc, this]

theorem Begins.check {out : Str} (h : Begins out) : beginsB out = true := by
  obtain ⟨ps, rest, rfl, h1, h2⟩ := h
  have := takeWhile_nonFinal h1 rest
  simp [beginsB, this.1, this.2, h2]

theorem eff_eq_alpha {l : List Setting} (h : ∀ s ∈ l, isGroupTxt s.txt = true) :
    eff l = alpha (settingsToDict l []) := by
  rw [alpha_settingsToDict h, alpha_nil]; rfl

/-- with an empty table the rendering is the text, preceded by the reset sequence when `reset_start` -/
theorem render_empty {x : AStr} (h : x.fmts = []) (o rs re : Bool) :
    Render.render x o rs re = (if rs then Gen.escapeClear else []) ++ x.s := by
  rw [render_eq, h, loop_nil]
  cases rs <;> simp [finish]

end RenderL
