import AnsiProofs.Lemmas.ParseText
import AnsiProofs.Lemmas.Basic
/-
  Helper lemmas for C15 (second half): the independent terminal tokenizer `Term.runAux` removes
  exactly the `ESC [ … m` sequences that `Render.render` inserts, and with `optimize = false`
  every change point emits the texts of the settings active there, verbatim.
-/

namespace RenderStripL

/-! ## The displayed characters of `Term.runAux`, without the terminal state -/

/-- the characters `Term.runAux` displays, as a function of the mode and the input only -/
def sm : Term.Mode → List Char → List Char
  | .text, [] => []
  | .text, '\x1b' :: '[' :: rest => sm (.seq []) rest
  | .text, c :: rest => c :: sm .text rest
  | .seq ps, [] => '\x1b' :: '[' :: ps
  | .seq ps, c :: rest =>
    if Term.isFinal c then
      if c == 'm' then sm .text rest
      else ('\x1b' :: '[' :: ps ++ [c]) ++ sm .text rest
    else sm (.seq (ps ++ [c])) rest

theorem runAux_chars (m : Term.Mode) (t : Term.TState) (s : List Char) (out : List (Char × Term.TState)) :
    (Term.runAux m t s out).1.map (·.1) = out.map (·.1) ++ sm m s := by
  fun_induction Term.runAux m t s out <;> simp_all [sm, Function.comp_def]

theorem stripSgr_eq_sm (s : List Char) : Term.stripSgr s = sm .text s := by
  simp [Term.stripSgr, Term.run, runAux_chars]

/-- no character of `l` is a final byte (0x40–0x7E) -/
def NonFinal (l : List Char) : Prop := ∀ c ∈ l, Term.isFinal c = false

theorem NonFinal.nil : NonFinal [] := fun _ h => by cases h

theorem NonFinal.append {a b : List Char} (ha : NonFinal a) (hb : NonFinal b) : NonFinal (a ++ b) := by
  intro c hc
  rcases List.mem_append.mp hc with h | h
  · exact ha c h
  · exact hb c h

theorem sm_text_cons (c : Char) (hc : c ≠ '\x1b') (rest : List Char) :
    sm .text (c :: rest) = c :: sm .text rest := by
  rw [sm]
  intro r h; cases h; contradiction

theorem sm_text_append {a : List Char} (ha : '\x1b' ∉ a) (rest : List Char) :
    sm .text (a ++ rest) = a ++ sm .text rest := by
  induction a with
  | nil => rfl
  | cons c a ih =>
    have hc : c ≠ '\x1b' := by intro e; apply ha; simp [e]
    have ha' : '\x1b' ∉ a := fun h => ha (List.mem_cons_of_mem _ h)
    simp [sm_text_cons c hc, ih ha']

theorem sm_seq_append {codes : List Char} (h : NonFinal codes) (ps rest : List Char) :
    sm (.seq ps) (codes ++ rest) = sm (.seq (ps ++ codes)) rest := by
  induction codes generalizing ps with
  | nil => simp
  | cons c cs ih =>
    have hc : Term.isFinal c = false := h c (by simp)
    have hcs : NonFinal cs := fun d hd => h d (List.mem_cons_of_mem _ hd)
    simp only [List.cons_append]
    rw [sm]
    simp only [hc, Bool.false_eq_true, if_false]
    rw [ih hcs]
    simp

theorem sm_sgr {codes : List Char} (h : NonFinal codes) (rest : List Char) :
    sm .text ('\x1b' :: '[' :: (codes ++ 'm' :: rest)) = sm .text rest := by
  rw [sm, sm_seq_append h, sm]
  have : Term.isFinal 'm' = true := by decide
  simp [this]

/-! ## Facts about the generated constants (re-checked whenever the tables are regenerated) -/

theorem sgrPrefix_eq : Gen.sgrPrefix = ['\x1b', '['] := by decide
theorem sgrSuffix_eq : Gen.sgrSuffix = ['m'] := by decide
theorem escapeClear_eq : Gen.escapeClear = ['\x1b', '[', 'm'] := by decide
theorem ansiSep_eq : Gen.ansiSep = [';'] := by decide
theorem termLo_eq : Gen.termLo = 0x40 := by decide
theorem termHi_eq : Gen.termHi = 0x7e := by decide

theorem clearTable_nonFinal :
    Gen.clearTable.all (fun r => (Py.natStr r.2).all (fun c => !Term.isFinal c)) = true := by decide

theorem paramReset_nonFinal : (Py.natStr Gen.paramReset).all (fun c => !Term.isFinal c) = true := by decide

theorem ansiSep_nonFinal : Gen.ansiSep.all (fun c => !Term.isFinal c) = true := by decide

/-- the library's terminator test is the terminal's final-byte test -/
theorem isTerm_eq_isFinal (c : Char) : isTerm c = Term.isFinal c := by
  unfold isTerm Term.isFinal
  rw [termLo_eq, termHi_eq]

theorem nonFinal_of_all {l : List Char} (h : l.all (fun c => !Term.isFinal c) = true) : NonFinal l := by
  intro c hc
  have := List.all_eq_true.mp h c hc
  simpa using this

theorem nonFinal_of_valid {t : Str} (h : SettingTxt.valid t = true) : NonFinal t := by
  intro c hc
  have := List.all_eq_true.mp h c hc
  rw [isTerm_eq_isFinal] at this
  simpa using this

theorem nonFinal_reset : NonFinal (Py.natStr Gen.paramReset) := nonFinal_of_all paramReset_nonFinal
theorem nonFinal_sep : NonFinal Gen.ansiSep := nonFinal_of_all ansiSep_nonFinal

theorem nonFinal_clearCode (eff : Nat) : NonFinal (Render.clearCode eff) := by
  unfold Render.clearCode
  split
  · rename_i r hr
    have hm := List.mem_of_find?_eq_some hr
    exact nonFinal_of_all (List.all_eq_true.mp clearTable_nonFinal r hm)
  · exact NonFinal.nil

theorem nonFinal_joinSep {sep : Str} (hs : NonFinal sep) :
    ∀ {l : List Str}, (∀ a ∈ l, NonFinal a) → NonFinal (joinSep sep l)
  | [], _ => NonFinal.nil
  | [a], h => h a (by simp)
  | a :: b :: rest, h => by
    show NonFinal (a ++ sep ++ joinSep sep (b :: rest))
    exact ((h a (by simp)).append hs).append
      (nonFinal_joinSep hs (fun c hc => h c (List.mem_cons_of_mem _ hc)))

/-! ## `Strips o txt`: the tokenizer, in text mode, displays `txt` for `o` and is in text mode again -/

def Strips (o txt : List Char) : Prop := ∀ rest, sm .text (o ++ rest) = txt ++ sm .text rest

theorem Strips.nil : Strips [] [] := fun _ => rfl

theorem Strips.append {a x b y : List Char} (h1 : Strips a x) (h2 : Strips b y) :
    Strips (a ++ b) (x ++ y) := by
  intro rest
  rw [List.append_assoc, h1, h2, List.append_assoc]

theorem Strips.text {a : List Char} (h : '\x1b' ∉ a) : Strips a a := fun rest => sm_text_append h rest

theorem Strips.sgr {codes : List Char} (h : NonFinal codes) : Strips (Render.sgr codes) [] := by
  intro rest
  unfold Render.sgr
  rw [sgrPrefix_eq, sgrSuffix_eq]
  simpa using sm_sgr h rest

theorem Strips.escapeClear : Strips Gen.escapeClear [] := by
  intro rest
  rw [escapeClear_eq]
  simpa using sm_sgr NonFinal.nil rest

theorem Strips.append_left {a x b : List Char} (h1 : Strips a x) (h2 : Strips b []) : Strips (a ++ b) x := by
  simpa using h1.append h2

theorem Strips.stripSgr {o txt : List Char} (h : Strips o txt) : Term.stripSgr o = txt := by
  have := h []
  simpa [stripSgr_eq_sm, sm] using this

/-- text without ESC passes through the terminal tokenizer -/
theorem stripSgr_append_text {a : List Char} (h : '\x1b' ∉ a) (rest : List Char) :
    Term.stripSgr (a ++ rest) = a ++ Term.stripSgr rest := by
  simp only [stripSgr_eq_sm]; exact sm_text_append h rest

/-- an inserted `ESC [ codes m` without a final byte among `codes` is removed -/
theorem stripSgr_sgr {codes : List Char} (h : NonFinal codes) (rest : List Char) :
    Term.stripSgr (Gen.sgrPrefix ++ codes ++ Gen.sgrSuffix ++ rest) = Term.stripSgr rest := by
  simp only [stripSgr_eq_sm]
  have := Strips.sgr h rest
  simpa [Render.sgr] using this

/-! ## Settings met during the replay come from the `add` lists -/

/-- every text of the list is free of final bytes -/
def Good (cur : List Setting) : Prop := ∀ s ∈ cur, NonFinal s.txt

theorem mem_foldl_eraseId {s : Setting} (rem : List Setting) (cur : List Setting)
    (h : s ∈ rem.foldl (fun c r => eraseId c r.id) cur) : s ∈ cur := by
  induction rem generalizing cur with
  | nil => exact h
  | cons r rem ih =>
    have := ih _ h
    exact List.mem_of_mem_eraseP this

theorem mem_stepPoint {s : Setting} {cur : List Setting} {p : Point} (h : s ∈ stepPoint cur p) :
    s ∈ cur ∨ s ∈ p.add := by
  unfold stepPoint at h
  rcases List.mem_append.mp h with h | h
  · exact Or.inl (mem_foldl_eraseId _ _ h)
  · exact Or.inr h

theorem good_stepPoint {cur : List Setting} {p : Point} (hc : Good cur) (hp : Good p.add) :
    Good (stepPoint cur p) := by
  intro s hs
  rcases mem_stepPoint hs with h | h
  · exact hc s h
  · exact hp s h

theorem good_replayFrom (f : Fmts) (cur : List Setting) (hc : Good cur) (hf : ∀ kp ∈ f, Good kp.2.add) :
    ∀ t ∈ replayFrom cur f, Good t.2.2 := by
  induction f generalizing cur with
  | nil => intro t ht; cases ht
  | cons kp rest ih =>
    obtain ⟨k, p⟩ := kp
    have hg : Good (stepPoint cur p) := good_stepPoint hc (hf (k, p) (by simp))
    intro t ht
    simp only [replayFrom, List.mem_cons] at ht
    rcases ht with rfl | ht
    · exact hg
    · exact ih _ hg (fun kp hkp => hf kp (List.mem_cons_of_mem _ hkp)) t ht

theorem good_of_valid {x : AStr} (h : x.isFormattingValid = true) : ∀ kp ∈ x.fmts, Good kp.2.add := by
  intro kp hkp s hs
  unfold AStr.isFormattingValid at h
  have h1 := List.all_eq_true.mp h kp hkp
  have h2 := List.all_eq_true.mp h1 s hs
  exact nonFinal_of_valid h2

theorem mem_replayFrom_key (f : Fmts) (cur : List Setting) :
    ∀ t ∈ replayFrom cur f, ∃ kp ∈ f, kp.1 = t.1 := by
  induction f generalizing cur with
  | nil => intro t ht; cases ht
  | cons kp rest ih =>
    obtain ⟨k, p⟩ := kp
    intro t ht
    simp only [replayFrom, List.mem_cons] at ht
    rcases ht with rfl | ht
    · exact ⟨(k, p), by simp, rfl⟩
    · obtain ⟨kp, hkp, e⟩ := ih _ t ht
      exact ⟨kp, List.mem_cons_of_mem _ hkp, e⟩

theorem pairwise_replayFrom (f : Fmts) (hs : SortedKeys f) (cur : List Setting) :
    (replayFrom cur f).Pairwise (fun a b => a.1 < b.1) := by
  induction f generalizing cur with
  | nil => exact List.Pairwise.nil
  | cons kp rest ih =>
    obtain ⟨k, p⟩ := kp
    simp only [replayFrom]
    refine List.pairwise_cons.mpr ⟨?_, ih (Fmts.sorted_tail hs) _⟩
    intro t ht
    obtain ⟨kp, hkp, e⟩ := mem_replayFrom_key rest _ t ht
    have := Fmts.sorted_head_lt hs kp hkp
    simpa [e] using this

/-- values of `settings_to_dict` are settings of the input list (or of the old dict) -/
theorem mem_insert {d : PyDict} {k : Nat} {v : Setting} {kv : Nat × Setting}
    (h : kv ∈ PyDict.insert d k v) : kv ∈ d ∨ kv = (k, v) := by
  induction d with
  | nil => simp [PyDict.insert] at h; exact Or.inr h
  | cons a d ih =>
    obtain ⟨k', v'⟩ := a
    unfold PyDict.insert at h
    split at h
    · rcases List.mem_cons.mp h with e | e
      · exact Or.inr e
      · exact Or.inl (List.mem_cons_of_mem _ e)
    · rcases List.mem_cons.mp h with e | e
      · exact Or.inl (by simp [e])
      · rcases ih e with e' | e'
        · exact Or.inl (List.mem_cons_of_mem _ e')
        · exact Or.inr e'

theorem mem_settingsToDict (ss : List Setting) (old : PyDict) {kv : Nat × Setting}
    (h : kv ∈ settingsToDict ss old) : kv ∈ old ∨ kv.2 ∈ ss := by
  unfold settingsToDict at h
  induction ss generalizing old with
  | nil => exact Or.inl h
  | cons s ss ih =>
    rw [List.foldl_cons] at h
    rcases ih _ h with h1 | h1
    · split at h1
      · exact Or.inl h1
      · split at h1
        · rcases mem_insert h1 with e | e
          · exact Or.inl e
          · exact Or.inr (by simp [e])
        · split at h1
          · exact Or.inl (List.mem_filter.mp h1).1
          · cases h1
    · exact Or.inr (List.mem_cons_of_mem _ h1)

/-! ## One loop iteration -/

/-- the output before the codes of this iteration are appended -/
def stepPre (s : Str) (rs : Bool) (st : Render.St) (idx : Nat) : Str :=
  (if st.first ∧ idx > 0 ∧ rs then st.out ++ Gen.escapeClear else st.out) ++ (s.take idx).drop st.last

/-- `codes_str` before optimisation -/
def baseCodes (p : Point) (cur : List Setting) : Str :=
  joinSep Gen.ansiSep
    (if !p.rem.isEmpty ∧ !(texts cur).isEmpty then Py.natStr Gen.paramReset :: texts cur else texts cur)

/-- `optimized_codes_str` -/
def optCodes (old : PyDict) (cur : List Setting) : Str :=
  joinSep Gen.ansiSep
    ((old.filter (fun kv => !(settingsToDict cur []).contains kv.1)).map (fun kv => Render.clearCode kv.1) ++
     ((settingsToDict cur []).filter (fun kv =>
          match old.get? kv.1 with
          | none => true
          | some v => v.txt != kv.2.txt)).map (fun kv => kv.2.txt))

/-- `(apply_to_out_str, codes_str)` at the end of the iteration -/
def emitAC (o rs : Bool) (old : PyDict) (idx : Nat) (p : Point) (cur : List Setting) : Bool × Str :=
  let codes := baseCodes p cur
  let ac : Bool × Str :=
    if o then
      (if (optCodes old cur).isEmpty then (false, codes)
       else if (optCodes old cur).length < codes.length then (true, optCodes old cur) else (true, codes))
    else (true, codes)
  if idx = 0 ∧ rs then (true, joinSep Gen.ansiSep [Py.natStr Gen.paramReset, ac.2]) else ac

theorem step_out (s : Str) (o rs : Bool) (st : Render.St) (idx : Nat) (p : Point) (cur : List Setting) :
    (Render.step s o rs st (idx, p, cur)).out =
      if (emitAC o rs st.dict idx p cur).1
      then stepPre s rs st idx ++ Render.sgr (emitAC o rs st.dict idx p cur).2
      else stepPre s rs st idx := by
  cases o <;> rfl

theorem step_last (s : Str) (o rs : Bool) (st : Render.St) (idx : Nat) (p : Point) (cur : List Setting) :
    (Render.step s o rs st (idx, p, cur)).last = idx := rfl

theorem step_first (s : Str) (o rs : Bool) (st : Render.St) (t : Nat × Point × List Setting) :
    (Render.step s o rs st t).first = false := rfl

theorem nonFinal_texts {cur : List Setting} (h : Good cur) : ∀ a ∈ texts cur, NonFinal a := by
  intro a ha
  obtain ⟨s, hs, rfl⟩ := List.mem_map.mp ha
  exact h s hs

theorem nonFinal_baseCodes (p : Point) {cur : List Setting} (h : Good cur) : NonFinal (baseCodes p cur) := by
  unfold baseCodes
  apply nonFinal_joinSep nonFinal_sep
  split
  · intro a ha
    rcases List.mem_cons.mp ha with rfl | ha
    · exact nonFinal_reset
    · exact nonFinal_texts h a ha
  · exact nonFinal_texts h

theorem nonFinal_optCodes (old : PyDict) {cur : List Setting} (h : Good cur) : NonFinal (optCodes old cur) := by
  unfold optCodes
  apply nonFinal_joinSep nonFinal_sep
  intro a ha
  rcases List.mem_append.mp ha with ha | ha
  · obtain ⟨kv, _, rfl⟩ := List.mem_map.mp ha
    exact nonFinal_clearCode _
  · obtain ⟨kv, hkv, rfl⟩ := List.mem_map.mp ha
    have hm := (List.mem_filter.mp hkv).1
    rcases mem_settingsToDict cur [] hm with h0 | h0
    · cases h0
    · exact h kv.2 h0

theorem nonFinal_emitAC (o rs : Bool) (old : PyDict) (idx : Nat) (p : Point) {cur : List Setting}
    (h : Good cur) : NonFinal (emitAC o rs old idx p cur).2 := by
  have hb := nonFinal_baseCodes p h
  have ho := nonFinal_optCodes old h
  have hac : NonFinal (if o = true then
      (if (optCodes old cur).isEmpty = true then (false, baseCodes p cur)
       else if (optCodes old cur).length < (baseCodes p cur).length then (true, optCodes old cur)
       else (true, baseCodes p cur))
    else (true, baseCodes p cur) : Bool × Str).2 := by
    split
    · split
      · exact hb
      · split
        · exact ho
        · exact hb
    · exact hb
  unfold emitAC
  simp only []
  split
  · apply nonFinal_joinSep nonFinal_sep
    intro a ha
    simp only [List.mem_cons, List.not_mem_nil, or_false] at ha
    rcases ha with rfl | rfl
    · exact nonFinal_reset
    · exact hac
  · exact hac

theorem take_append_seg (s : Str) {last idx : Nat} (h : last ≤ idx) :
    s.take last ++ (s.take idx).drop last = s.take idx := by
  have h1 : s.take last = (s.take idx).take last := by
    rw [List.take_take, Nat.min_eq_left h]
  rw [h1, List.take_append_drop]

theorem strips_stepPre {s : Str} (hn : NoEsc s) (rs : Bool) {st : Render.St} {idx : Nat}
    (h : Strips st.out (s.take st.last)) (hle : st.last ≤ idx) :
    Strips (stepPre s rs st idx) (s.take idx) := by
  unfold stepPre
  have h1 : Strips (if st.first ∧ idx > 0 ∧ rs then st.out ++ Gen.escapeClear else st.out)
      (s.take st.last) := by
    split
    · exact h.append_left Strips.escapeClear
    · exact h
  have h2 : Strips ((s.take idx).drop st.last) ((s.take idx).drop st.last) :=
    Strips.text (fun hm => hn (List.mem_of_mem_take (List.mem_of_mem_drop hm)))
  have := h1.append h2
  rwa [take_append_seg s hle] at this

theorem strips_step {s : Str} (hn : NoEsc s) (o rs : Bool) {st : Render.St} {idx : Nat} (p : Point)
    {cur : List Setting} (hg : Good cur)
    (h : Strips st.out (s.take st.last)) (hle : st.last ≤ idx) :
    Strips (Render.step s o rs st (idx, p, cur)).out (s.take idx) := by
  rw [step_out]
  have hp := strips_stepPre hn rs h hle
  split
  · exact hp.append_left (Strips.sgr (nonFinal_emitAC o rs st.dict idx p hg))
  · exact hp

/-! ## The whole loop -/

theorem strips_foldl {s : Str} (hn : NoEsc s) (o rs : Bool) (pts : List (Nat × Point × List Setting))
    (st : Render.St)
    (hpw : pts.Pairwise (fun a b => a.1 < b.1)) (hle : ∀ t ∈ pts, st.last ≤ t.1)
    (hg : ∀ t ∈ pts, Good t.2.2) (h : Strips st.out (s.take st.last)) :
    Strips (pts.foldl (Render.step s o rs) st).out (s.take (pts.foldl (Render.step s o rs) st).last) := by
  induction pts generalizing st with
  | nil => exact h
  | cons t pts ih =>
    obtain ⟨idx, p, cur⟩ := t
    rw [List.foldl_cons]
    have hpw' := List.pairwise_cons.mp hpw
    apply ih _ hpw'.2
    · intro t' ht'
      rw [step_last]
      exact Nat.le_of_lt (hpw'.1 t' ht')
    · exact fun t' ht' => hg t' (List.mem_cons_of_mem _ ht')
    · rw [step_last]
      exact strips_step hn o rs p (hg (idx, p, cur) (by simp)) h (hle (idx, p, cur) (by simp))

/-- the change points the rendering loop visits -/
def pts (x : AStr) : List (Nat × Point × List Setting) :=
  (replay x.fmts).takeWhile (fun t => t.1 < x.len)

theorem pts_pairwise {x : AStr} (hs : SortedKeys x.fmts) : (pts x).Pairwise (fun a b => a.1 < b.1) :=
  (pairwise_replayFrom x.fmts hs []).sublist (List.takeWhile_sublist _)

theorem pts_good {x : AStr} (hv : x.isFormattingValid = true) : ∀ t ∈ pts x, Good t.2.2 := by
  intro t ht
  have hm : t ∈ replay x.fmts := (List.takeWhile_sublist _).subset ht
  exact good_replayFrom x.fmts [] (fun _ h => by cases h) (good_of_valid hv) t hm

theorem render_eq (x : AStr) (o rs re : Bool) :
    Render.render x o rs re =
      let st := (pts x).foldl (Render.step x.s (o && x.isFormattingParsable) rs) {}
      let out := (if st.first ∧ rs then st.out ++ Gen.escapeClear else st.out) ++ x.s.drop st.last
      if st.exist ∧ re then out ++ Gen.escapeClear else out := rfl

theorem strips_render {x : AStr} (hs : SortedKeys x.fmts) (hv : x.isFormattingValid = true)
    (hn : NoEsc x.s) (o rs re : Bool) : Strips (Render.render x o rs re) x.s := by
  rw [render_eq]
  have hst := strips_foldl hn (o && x.isFormattingParsable) rs (pts x) {} (pts_pairwise hs)
    (fun _ _ => Nat.zero_le _) (pts_good hv) (by simpa using Strips.nil)
  simp only []
  generalize (pts x).foldl (Render.step x.s (o && x.isFormattingParsable) rs) {} = st at hst
  have h1 : Strips (if st.first ∧ rs then st.out ++ Gen.escapeClear else st.out) (x.s.take st.last) := by
    split
    · exact hst.append_left Strips.escapeClear
    · exact hst
  have h2 : Strips (x.s.drop st.last) (x.s.drop st.last) :=
    Strips.text (fun hm => hn (List.mem_of_mem_drop hm))
  have h3 := h1.append h2
  rw [List.take_append_drop] at h3
  split
  · exact h3.append_left Strips.escapeClear
  · exact h3

/-! ## Without optimisation every iteration emits the active settings verbatim -/

/-- `"0;"`: the reset parameter followed by the separator -/
def zeroSep : Str := Py.natStr Gen.paramReset ++ Gen.ansiSep

theorem joinSep_cons_cons (sep a b : Str) (rest : List Str) :
    joinSep sep (a :: b :: rest) = a ++ sep ++ joinSep sep (b :: rest) := rfl

theorem baseCodes_eq (p : Point) (cur : List Setting) :
    baseCodes p cur = joinSep Gen.ansiSep (texts cur) ∨
    baseCodes p cur = zeroSep ++ joinSep Gen.ansiSep (texts cur) := by
  unfold baseCodes
  split
  · rename_i h
    right
    cases hc : texts cur with
    | nil => simp [hc] at h
    | cons a rest => rw [joinSep_cons_cons]; rfl
  · exact Or.inl rfl

theorem emitAC_false (rs : Bool) (old : PyDict) (idx : Nat) (p : Point) (cur : List Setting) :
    ∃ pfx, (pfx = [] ∨ pfx = zeroSep ∨ pfx = zeroSep ++ zeroSep) ∧
      emitAC false rs old idx p cur = (true, pfx ++ joinSep Gen.ansiSep (texts cur)) := by
  unfold emitAC
  simp only [Bool.false_eq_true, if_false]
  have hj : ∀ c : Str, joinSep Gen.ansiSep [Py.natStr Gen.paramReset, c] = zeroSep ++ c := fun _ => rfl
  split
  · rcases baseCodes_eq p cur with e | e
    · exact ⟨zeroSep, Or.inr (Or.inl rfl), by rw [hj, e]⟩
    · exact ⟨zeroSep ++ zeroSep, Or.inr (Or.inr rfl), by rw [hj, e, List.append_assoc]⟩
  · rcases baseCodes_eq p cur with e | e
    · exact ⟨[], Or.inl rfl, by rw [e]; rfl⟩
    · exact ⟨zeroSep, Or.inr (Or.inl rfl), by rw [e]⟩

theorem step_out_prefix (s : Str) (o rs : Bool) (st : Render.St) (t : Nat × Point × List Setting) :
    ∃ a, (Render.step s o rs st t).out = st.out ++ a := by
  obtain ⟨idx, p, cur⟩ := t
  rw [step_out]
  unfold stepPre
  refine ⟨(if st.first ∧ idx > 0 ∧ rs then Gen.escapeClear else []) ++ (s.take idx).drop st.last ++
    (if (emitAC o rs st.dict idx p cur).1 then Render.sgr (emitAC o rs st.dict idx p cur).2 else []), ?_⟩
  split <;> split <;> simp

theorem foldl_out_prefix (s : Str) (o rs : Bool) (l : List (Nat × Point × List Setting)) (st : Render.St) :
    ∃ a, (l.foldl (Render.step s o rs) st).out = st.out ++ a := by
  induction l generalizing st with
  | nil => exact ⟨[], by simp⟩
  | cons t l ih =>
    rw [List.foldl_cons]
    obtain ⟨a, ha⟩ := ih (Render.step s o rs st t)
    obtain ⟨b, hb⟩ := step_out_prefix s o rs st t
    exact ⟨b ++ a, by rw [ha, hb, List.append_assoc]⟩

theorem foldl_emit_false (s : Str) (rs : Bool) (l1 l2 : List (Nat × Point × List Setting))
    (idx : Nat) (p : Point) (cur : List Setting) (st : Render.St) :
    ∃ pfx post, (pfx = [] ∨ pfx = zeroSep ∨ pfx = zeroSep ++ zeroSep) ∧
      ((l1 ++ (idx, p, cur) :: l2).foldl (Render.step s false rs) st).out =
        stepPre s rs (l1.foldl (Render.step s false rs) st) idx ++
          Render.sgr (pfx ++ joinSep Gen.ansiSep (texts cur)) ++ post := by
  rw [List.foldl_append, List.foldl_cons]
  generalize l1.foldl (Render.step s false rs) st = st1
  obtain ⟨pfx, hp, he⟩ := emitAC_false rs st1.dict idx p cur
  obtain ⟨post, hpost⟩ := foldl_out_prefix s false rs l2 (Render.step s false rs st1 (idx, p, cur))
  refine ⟨pfx, post, hp, ?_⟩
  rw [hpost, step_out, he]
  simp

/-- a key below the length is visited by the loop, with the settings active there -/
theorem mem_takeWhile_replayFrom (f : Fmts) (hs : SortedKeys f) (cur : List Setting) (n k : Nat)
    (hk : k ∈ f.keys) (hlt : k < n) :
    ∃ p, (k, p, activeFrom cur f k) ∈ (replayFrom cur f).takeWhile (fun t => t.1 < n) := by
  induction f generalizing cur with
  | nil => simp [Fmts.keys] at hk
  | cons kp rest ih =>
    obtain ⟨k0, p0⟩ := kp
    have hlt0 := Fmts.sorted_head_lt hs
    simp only [Fmts.keys, List.map_cons, List.mem_cons] at hk
    simp only [replayFrom, activeFrom]
    rcases hk with rfl | hk
    · refine ⟨p0, ?_⟩
      have hact : activeFrom (stepPoint cur p0) rest k = stepPoint cur p0 := by
        cases rest with
        | nil => rfl
        | cons kp' rest' =>
          have : k < kp'.1 := hlt0 kp' (by simp)
          simp only [activeFrom]
          rw [if_neg (by omega)]
      rw [List.takeWhile_cons]
      simp [hlt, hact]
    · obtain ⟨kp, hkp, e⟩ := List.mem_map.mp hk
      have h0 : k0 < k := by have := hlt0 kp hkp; simpa [e] using this
      obtain ⟨p, hp⟩ := ih (Fmts.sorted_tail hs) (stepPoint cur p0) hk
      refine ⟨p, ?_⟩
      rw [List.takeWhile_cons]
      have : k0 < n := by omega
      simp only [this, decide_true, if_true, if_pos (Nat.le_of_lt h0)]
      exact List.mem_cons_of_mem _ hp

theorem mem_pts {x : AStr} (hs : SortedKeys x.fmts) {k : Nat} (hk : k ∈ x.fmts.keys) (hlt : k < x.len) :
    ∃ p, (k, p, active x.fmts k) ∈ pts x :=
  mem_takeWhile_replayFrom x.fmts hs [] x.len k hk hlt

/-- `settings_at(k)` is the `;`-join of the texts active at `k` -/
theorem settingsAt_eq (x : AStr) {k : Nat} (h : k < x.len) :
    x.settingsAt (k : Int) = joinSep Gen.ansiSep (texts (active x.fmts k)) := by
  unfold AStr.settingsAt AStr.ansiSettingsAt
  have hc : (0 : Int) ≤ (k : Int) ∧ (k : Int) < (x.len : Int) := ⟨by omega, by omega⟩
  rw [if_pos hc, ansiSep_eq]
  rfl

end RenderStripL
