import AnsiProofs.Lemmas.Basic
/-
  Helper lemmas for property C17 (`ansi_settings_at`, `settings_at`, `find_settings`):
  `active` only changes at keys, the replay triples carry `active f k`, and the pieces
  `find_settings` is made of.
-/

/-! ### `active` is constant between change points -/

/-- no key in `(i, j]` ⇒ same replay result (no sortedness needed) -/
theorem activeFrom_const (cur : List Setting) (f : Fmts) {i j : Nat} (hij : i ≤ j)
    (h : ∀ k ∈ f.keys, ¬ (i < k ∧ k ≤ j)) : activeFrom cur f j = activeFrom cur f i := by
  induction f generalizing cur with
  | nil => rfl
  | cons kp rest ih =>
    obtain ⟨k, p⟩ := kp
    have hk := h k (by simp [Fmts.keys])
    have hrest : ∀ k' ∈ Fmts.keys rest, ¬ (i < k' ∧ k' ≤ j) := by
      intro k' hk'
      apply h k'
      simp only [Fmts.keys, List.map_cons, List.mem_cons] at hk' ⊢
      exact Or.inr hk'
    simp only [activeFrom]
    by_cases h1 : k ≤ i
    · have h2 : k ≤ j := by omega
      simp only [h1, h2, if_true]
      exact ih _ hrest
    · have h2 : ¬ k ≤ j := by omega
      simp only [h1, h2, if_false]

/-- **key lemma**: `active` is constant between change points -/
theorem active_const (f : Fmts) {i j : Nat} (hij : i ≤ j)
    (h : ∀ k ∈ f.keys, ¬ (i < k ∧ k ≤ j)) : active f j = active f i :=
  activeFrom_const [] f hij h

theorem active_succ_of_not_key (f : Fmts) (i : Nat) (h : i + 1 ∉ f.keys) :
    active f (i + 1) = active f i := by
  apply active_const f (Nat.le_succ i)
  intro k hk hlt
  have : k = i + 1 := by omega
  exact h (this ▸ hk)

/-- a property that holds at `i` and at every key in `(i, m)` holds on all of `[i, m)` -/
theorem active_scan (f : Fmts) (P : List Setting → Prop) {i m : Nat} (h0 : P (active f i))
    (hk : ∀ k ∈ f.keys, i < k → k < m → P (active f k)) :
    ∀ j, i ≤ j → j < m → P (active f j) := by
  intro j
  induction j with
  | zero =>
    intro h1 _
    have : i = 0 := by omega
    exact this ▸ h0
  | succ j ih =>
    intro h1 h2
    by_cases hij : i = j + 1
    · exact hij ▸ h0
    · by_cases hkey : j + 1 ∈ f.keys
      · exact hk _ hkey (by omega) h2
      · rw [active_succ_of_not_key f j hkey]
        exact ih (by omega) (by omega)

/-! ### the replay triples -/

theorem replayFrom_keys (cur : List Setting) (f : Fmts) :
    (replayFrom cur f).map (·.1) = f.keys := by
  induction f generalizing cur with
  | nil => rfl
  | cons kp rest ih =>
    obtain ⟨k, p⟩ := kp
    simp only [replayFrom, List.map_cons, Fmts.keys]
    rw [ih]; rfl

theorem activeFrom_of_lt (cur : List Setting) (f : Fmts) (i : Nat) (h : ∀ kp ∈ f, i < kp.1) :
    activeFrom cur f i = cur := by
  cases f with
  | nil => rfl
  | cons kp rest =>
    obtain ⟨k, p⟩ := kp
    have : ¬ k ≤ i := by
      have := h (k, p) (by simp)
      simp at this; omega
    simp only [activeFrom, this, if_false]

/-- each replay triple carries the settings active at its key -/
theorem replayFrom_cur (cur : List Setting) (f : Fmts) (hs : SortedKeys f)
    (t : Nat × Point × List Setting) (ht : t ∈ replayFrom cur f) :
    t.2.2 = activeFrom cur f t.1 := by
  induction f generalizing cur with
  | nil => cases ht
  | cons kp rest ih =>
    obtain ⟨k, p⟩ := kp
    have hlt := Fmts.sorted_head_lt hs
    simp only [replayFrom, List.mem_cons] at ht
    rcases ht with e | hin
    · subst e
      simp only [activeFrom, Nat.le_refl, if_true]
      exact (activeFrom_of_lt _ rest k hlt).symm
    · have hk : t.1 ∈ Fmts.keys rest := by
        rw [← replayFrom_keys (stepPoint cur p) rest]
        exact List.mem_map_of_mem hin
      obtain ⟨kp', hkp', e⟩ := List.mem_map.mp hk
      have : k < t.1 := e ▸ hlt kp' hkp'
      have hle : k ≤ t.1 := by omega
      simp only [activeFrom, hle, if_true]
      exact ih _ (Fmts.sorted_tail hs) hin

/-- **key lemma, second half**: `(k, p, cur) ∈ replay f → cur = active f k` -/
theorem replay_cur (f : Fmts) (hs : SortedKeys f) (t : Nat × Point × List Setting)
    (ht : t ∈ replay f) : t.2.2 = active f t.1 :=
  replayFrom_cur [] f hs t ht

theorem replay_cur' (f : Fmts) (hs : SortedKeys f) (k : Nat) (p : Point) (cur : List Setting)
    (ht : (k, p, cur) ∈ replay f) : cur = active f k :=
  replay_cur f hs (k, p, cur) ht

theorem replay_key_mem (f : Fmts) (t : Nat × Point × List Setting) (ht : t ∈ replay f) :
    t.1 ∈ f.keys := by
  rw [← replayFrom_keys [] f]
  exact List.mem_map_of_mem ht

theorem replay_of_key (f : Fmts) (k : Nat) (hk : k ∈ f.keys) : ∃ t ∈ replay f, t.1 = k := by
  rw [← replayFrom_keys [] f] at hk
  exact List.mem_map.mp hk

theorem replay_pairwise (f : Fmts) (hs : SortedKeys f) :
    (replay f).Pairwise (fun a b => a.1 < b.1) := by
  have h1 : (f.keys).Pairwise (· < ·) := by
    unfold Fmts.keys
    exact List.pairwise_map.mpr hs
  rw [← replayFrom_keys [] f] at h1
  exact List.pairwise_map.mp h1

/-! ### `find?` on a list sorted by a key -/

theorem find?_before {α : Type} (R : α → α → Prop) (p : α → Bool) (l : List α) (a : α)
    (hp : l.Pairwise R) (hf : l.find? p = some a) :
    ∀ b ∈ l, ¬ R a b → b ≠ a → p b = false := by
  obtain ⟨_, as, bs, hl, has⟩ := List.find?_eq_some_iff_append.mp hf
  intro b hb hR hne
  subst hl
  rcases List.mem_append.mp hb with h | h
  · simpa using has b h
  · rcases List.mem_cons.mp h with h | h
    · exact absurd h hne
    · have := (List.pairwise_append.mp hp).2.1
      exact absurd ((List.pairwise_cons.mp this).1 b h) hR

/-! ### the pieces of `find_settings` -/

/-- `idx_to_settings` -/
def findTbl (f : Fmts) (st en : Nat) : List (Nat × Point × List Setting) :=
  (replay f).filter (fun t => st ≤ t.1 ∧ t.1 ≤ en)

/-- the check of position `start` itself -/
def findFs0 (x : AStr) (want : List Str) (st en : Nat) : Option Nat :=
  if !((findTbl x.fmts st en).any (fun t => t.1 = st)) ∧ st < en then
    (if AStr.allIn want (x.ansiSettingsAt st) then some st else none)
  else none

/-- `found_start` -/
def findFs (x : AStr) (want : List Str) (st en : Nat) (rev : Bool) : Option Nat :=
  match findFs0 x want st en with
  | some i => some i
  | none =>
    ((if rev then (findTbl x.fmts st en).reverse else findTbl x.fmts st en).find?
      (fun t => t.1 < en ∧ AStr.allIn want t.2.2)).map (·.1)

/-- `found_end` for a given `found_start` -/
def findFe (f : Fmts) (want : List Str) (st en i : Nat) : Option Nat :=
  ((findTbl f st en).find? (fun t => t.1 > i ∧ !AStr.allIn want t.2.2)).map (·.1)

theorem findSettings_eq (x : AStr) (want : List Str) (start end_ : Option Int) (rev : Bool)
    (h1 : ¬ sliceIdx x.len end_ x.len < sliceIdx x.len start 0) (h2 : want ≠ []) :
    x.findSettings want start end_ rev =
      match findFs x want (sliceIdx x.len start 0) (sliceIdx x.len end_ x.len) rev with
      | none => (none, none)
      | some i => (some i, findFe x.fmts want (sliceIdx x.len start 0) (sliceIdx x.len end_ x.len) i) := by
  have h3 : want.isEmpty = false := by
    cases want with
    | nil => exact absurd rfl h2
    | cons a l => rfl
  unfold AStr.findSettings
  simp only [h1, if_false, h3, Bool.false_eq_true]
  rfl

/-! ### facts about the table -/

theorem mem_findTbl {f : Fmts} {st en : Nat} {t : Nat × Point × List Setting} :
    t ∈ findTbl f st en ↔ t ∈ replay f ∧ st ≤ t.1 ∧ t.1 ≤ en := by
  simp [findTbl, List.mem_filter]

theorem findTbl_pairwise (f : Fmts) (hs : SortedKeys f) (st en : Nat) :
    (findTbl f st en).Pairwise (fun a b => a.1 < b.1) :=
  (replay_pairwise f hs).filter _

theorem findTbl_any_st (f : Fmts) (st en : Nat) (h : st ≤ en) :
    (findTbl f st en).any (fun t => t.1 = st) = true ↔ st ∈ f.keys := by
  rw [List.any_eq_true]
  constructor
  · rintro ⟨t, ht, e⟩
    have e' : t.1 = st := by simpa using e
    exact e' ▸ replay_key_mem f t (mem_findTbl.mp ht).1
  · intro hk
    obtain ⟨t, ht, e⟩ := replay_of_key f st hk
    exact ⟨t, mem_findTbl.mpr ⟨ht, by omega, by omega⟩, by simpa using e⟩

/-- a key in range is in the table, with the settings active there -/
theorem findTbl_key (f : Fmts) (hs : SortedKeys f) (st en k : Nat) (hk : k ∈ f.keys)
    (h1 : st ≤ k) (h2 : k ≤ en) : ∃ t ∈ findTbl f st en, t.1 = k ∧ t.2.2 = active f k := by
  obtain ⟨t, ht, e⟩ := replay_of_key f k hk
  exact ⟨t, mem_findTbl.mpr ⟨ht, by omega, by omega⟩, e, e ▸ replay_cur f hs t ht⟩

theorem findTbl_mem (f : Fmts) (hs : SortedKeys f) (st en : Nat) (t : Nat × Point × List Setting)
    (ht : t ∈ findTbl f st en) :
    t.1 ∈ f.keys ∧ st ≤ t.1 ∧ t.1 ≤ en ∧ t.2.2 = active f t.1 := by
  obtain ⟨h1, h2, h3⟩ := mem_findTbl.mp ht
  exact ⟨replay_key_mem f t h1, h2, h3, replay_cur f hs t h1⟩

/-! ### `ansi_settings_at` -/

theorem ansiSettingsAt_nat (x : AStr) (i : Nat) (h : i < x.len) :
    x.ansiSettingsAt (i : Int) = active x.fmts i := by
  unfold AStr.ansiSettingsAt
  have : (0 : Int) ≤ (i : Int) ∧ (i : Int) < (x.len : Int) := ⟨by omega, by omega⟩
  simp only [this, and_self, if_true, Int.toNat_natCast]

/-! ### `found_start` -/

theorem findFs0_some {x : AStr} {want : List Str} {st en i : Nat} (hse : st ≤ en) (hen : en ≤ x.len)
    (h : findFs0 x want st en = some i) :
    i = st ∧ st < en ∧ st ∉ x.fmts.keys ∧ AStr.allIn want (active x.fmts st) = true := by
  unfold findFs0 at h
  split at h
  · rename_i hc
    obtain ⟨hc1, hc2⟩ := hc
    rw [ansiSettingsAt_nat x st (by omega)] at h
    split at h
    · rename_i hall
      refine ⟨by simpa using h.symm, hc2, ?_, hall⟩
      intro hk
      have := (findTbl_any_st x.fmts st en hse).mpr hk
      simp [this] at hc1
    · cases h
  · cases h

theorem findFs0_none {x : AStr} {want : List Str} {st en : Nat} (hse : st ≤ en) (hen : en ≤ x.len)
    (h : findFs0 x want st en = none) (hlt : st < en) :
    st ∈ x.fmts.keys ∨ AStr.allIn want (active x.fmts st) = false := by
  unfold findFs0 at h
  by_cases hk : st ∈ x.fmts.keys
  · exact Or.inl hk
  · right
    have hany : (findTbl x.fmts st en).any (fun t => t.1 = st) = false := by
      cases e : (findTbl x.fmts st en).any (fun t => decide (t.1 = st)) with
      | false => rfl
      | true => exact absurd ((findTbl_any_st x.fmts st en hse).mp e) hk
    rw [ansiSettingsAt_nat x st (by omega)] at h
    simp only [hany, Bool.not_false, hlt, and_self, if_true] at h
    split at h
    · cases h
    · rename_i hall
      simpa using hall

theorem findFs_in_range {x : AStr} (hs : SortedKeys x.fmts) {want : List Str} {st en : Nat} {rev : Bool}
    (hse : st ≤ en) (hen : en ≤ x.len) {i : Nat} (h : findFs x want st en rev = some i) :
    st ≤ i ∧ i < en ∧ AStr.allIn want (active x.fmts i) = true := by
  unfold findFs at h
  split at h
  · rename_i j hj
    obtain ⟨e, h1, _, h3⟩ := findFs0_some hse hen hj
    cases h
    subst e
    exact ⟨Nat.le_refl _, h1, h3⟩
  · obtain ⟨t, hf, e⟩ := Option.map_eq_some_iff.mp h
    have hp := List.find?_some hf
    have hm := List.mem_of_find?_eq_some hf
    have hm' : t ∈ findTbl x.fmts st en := by
      cases rev
      · simpa using hm
      · simpa using hm
    obtain ⟨_, h1, _, h3⟩ := findTbl_mem x.fmts hs st en t hm'
    simp only [decide_eq_true_eq, Bool.decide_and, Bool.and_eq_true] at hp
    subst e
    exact ⟨h1, hp.1, h3 ▸ hp.2⟩

/-- what a failed scan of the candidates says -/
theorem findFs_scan_none {x : AStr} (hs : SortedKeys x.fmts) {want : List Str} {st en : Nat} {rev : Bool}
    (h : findFs x want st en rev = none) :
    findFs0 x want st en = none ∧
    ∀ k ∈ x.fmts.keys, st ≤ k → k < en → AStr.allIn want (active x.fmts k) = false := by
  unfold findFs at h
  split at h
  · cases h
  · rename_i h0
    refine ⟨h0, ?_⟩
    intro k hk h1 h2
    obtain ⟨t, ht, e1, e2⟩ := findTbl_key x.fmts hs st en k hk h1 (by omega)
    have hf := Option.map_eq_none_iff.mp h
    have ht' : t ∈ (if rev then (findTbl x.fmts st en).reverse else findTbl x.fmts st en) := by
      cases rev
      · simpa using ht
      · simpa using ht
    have := List.find?_eq_none.mp hf t ht'
    simp only [decide_eq_true_eq, Bool.decide_and, Bool.and_eq_true, not_and, Bool.not_eq_true] at this
    rw [← e2]
    exact this (by omega)

theorem findFs_none {x : AStr} (hs : SortedKeys x.fmts) {want : List Str} {st en : Nat} {rev : Bool}
    (hse : st ≤ en) (hen : en ≤ x.len) (h : findFs x want st en rev = none) :
    ∀ i, st ≤ i → i < en → AStr.allIn want (active x.fmts i) = false := by
  obtain ⟨h0, hk⟩ := findFs_scan_none hs h
  intro i h1 h2
  have hst : AStr.allIn want (active x.fmts st) = false := by
    rcases findFs0_none hse hen h0 (by omega) with hkey | hf
    · exact hk st hkey (Nat.le_refl _) (by omega)
    · exact hf
  exact active_scan x.fmts (fun c => AStr.allIn want c = false) hst
    (fun k hkk h3 h4 => hk k hkk (by omega) h4) i h1 h2

theorem findFs_first {x : AStr} (hs : SortedKeys x.fmts) {want : List Str} {st en : Nat}
    (hse : st ≤ en) (hen : en ≤ x.len) {i : Nat} (h : findFs x want st en false = some i) :
    ∀ j, st ≤ j → j < i → AStr.allIn want (active x.fmts j) = false := by
  have hr := findFs_in_range hs hse hen h
  unfold findFs at h
  split at h
  · rename_i j hj
    obtain ⟨e, _, _, _⟩ := findFs0_some hse hen hj
    cases h
    intro j h1 h2
    omega
  · rename_i h0
    obtain ⟨t, hf, e⟩ := Option.map_eq_some_iff.mp h
    simp only [Bool.false_eq_true, if_false] at hf
    have hb := find?_before _ _ _ t (findTbl_pairwise x.fmts hs st en) hf
    have hkeys : ∀ k ∈ x.fmts.keys, st ≤ k → k < i → AStr.allIn want (active x.fmts k) = false := by
      intro k hk h1 h2
      obtain ⟨u, hu, e1, e2⟩ := findTbl_key x.fmts hs st en k hk h1 (by omega)
      have := hb u hu (by omega) (by intro e'; subst e'; omega)
      simp only [Bool.decide_and, Bool.and_eq_false_iff, decide_eq_false_iff_not] at this
      rw [← e2]
      rcases this with h | h
      · omega
      · simpa using h
    intro j h1 h2
    have hst : AStr.allIn want (active x.fmts st) = false := by
      rcases findFs0_none hse hen h0 (by omega) with hkey | hf
      · exact hkeys st hkey (Nat.le_refl _) (by omega)
      · exact hf
    exact active_scan x.fmts (fun c => AStr.allIn want c = false) hst
      (fun k hkk h3 h4 => hkeys k hkk (by omega) h4) j h1 h2

/-- reverse search: the change point found is the last one in range having all settings -/
theorem findFs_rev_last {x : AStr} (hs : SortedKeys x.fmts) {want : List Str} {st en : Nat}
    (hse : st ≤ en) (hen : en ≤ x.len) {i : Nat} (h : findFs x want st en true = some i)
    (hi : i ∈ x.fmts.keys) :
    ∀ k ∈ x.fmts.keys, i < k → k < en → AStr.allIn want (active x.fmts k) = false := by
  have hr := findFs_in_range hs hse hen h
  unfold findFs at h
  split at h
  · rename_i j hj
    obtain ⟨e, _, hnk, _⟩ := findFs0_some hse hen hj
    cases h
    exact absurd (e ▸ hi) hnk
  · obtain ⟨t, hf, e⟩ := Option.map_eq_some_iff.mp h
    simp only [if_true] at hf
    have hpw : (findTbl x.fmts st en).reverse.Pairwise (fun a b => b.1 < a.1) :=
      List.pairwise_reverse.mpr (findTbl_pairwise x.fmts hs st en)
    have hb := find?_before _ _ _ t hpw hf
    intro k hk h1 h2
    obtain ⟨u, hu, e1, e2⟩ := findTbl_key x.fmts hs st en k hk (by omega) (by omega)
    have := hb u (List.mem_reverse.mpr hu) (by omega) (by intro e'; subst e'; omega)
    simp only [Bool.decide_and, Bool.and_eq_false_iff, decide_eq_false_iff_not] at this
    rw [← e2]
    rcases this with h | h
    · omega
    · simpa using h

/-! ### `found_end` -/

theorem findFe_some {f : Fmts} (hs : SortedKeys f) {want : List Str} {st en i p : Nat}
    (h : findFe f want st en i = some p) :
    i < p ∧ p ≤ en ∧ AStr.allIn want (active f p) = false ∧
    ∀ k ∈ f.keys, st ≤ k → i < k → k < p → AStr.allIn want (active f k) = true := by
  unfold findFe at h
  obtain ⟨t, hf, e⟩ := Option.map_eq_some_iff.mp h
  have hp := List.find?_some hf
  obtain ⟨_, h1, h2, h3⟩ := findTbl_mem f hs st en t (List.mem_of_find?_eq_some hf)
  simp only [decide_eq_true_eq, Bool.decide_and, Bool.and_eq_true, Bool.not_eq_true',
    gt_iff_lt] at hp
  subst e
  refine ⟨hp.1, h2, h3 ▸ hp.2, ?_⟩
  intro k hk h4 h5 h6
  have hb := find?_before _ _ _ t (findTbl_pairwise f hs st en) hf
  obtain ⟨u, hu, e1, e2⟩ := findTbl_key f hs st en k hk h4 (by omega)
  have := hb u hu (by omega) (by intro e'; subst e'; omega)
  simp only [Bool.decide_and, Bool.and_eq_false_iff, decide_eq_false_iff_not, gt_iff_lt] at this
  rw [← e2]
  rcases this with h | h
  · omega
  · simpa using h

theorem findFe_none {f : Fmts} (hs : SortedKeys f) {want : List Str} {st en i : Nat}
    (h : findFe f want st en i = none) :
    ∀ k ∈ f.keys, st ≤ k → i < k → k ≤ en → AStr.allIn want (active f k) = true := by
  unfold findFe at h
  have hf := Option.map_eq_none_iff.mp h
  intro k hk h1 h2 h3
  obtain ⟨u, hu, e1, e2⟩ := findTbl_key f hs st en k hk h1 h3
  have := List.find?_eq_none.mp hf u hu
  simp only [decide_eq_true_eq, Bool.decide_and, Bool.and_eq_true, not_and, Bool.not_eq_true',
    gt_iff_lt, Bool.not_eq_false] at this
  rw [← e2]
  exact this (by omega)

/-- everything from `found_start` up to `found_end` (or the range end) has all the settings -/
theorem findFe_run {f : Fmts} (hs : SortedKeys f) {want : List Str} {st en i : Nat} (hsi : st ≤ i)
    (hi : AStr.allIn want (active f i) = true) :
    ∀ j, i ≤ j → j < en → (∀ p, findFe f want st en i = some p → j < p) →
      AStr.allIn want (active f j) = true := by
  intro j h1 h2 h3
  cases hfe : findFe f want st en i with
  | none =>
    exact active_scan f (fun c => AStr.allIn want c = true) hi
      (fun k hk h4 h5 => findFe_none hs hfe k hk (by omega) h4 (by omega)) j h1 h2
  | some p =>
    have hjp := h3 p hfe
    obtain ⟨_, _, _, hk⟩ := findFe_some hs hfe
    exact active_scan f (fun c => AStr.allIn want c = true) hi
      (fun k hkk h4 h5 => hk k hkk (by omega) h4 h5) j h1 hjp

/-! ### `_slice_val_to_idx` stays inside `0..n` -/

theorem sliceIdx_le_f17 (n : Nat) (v : Option Int) (d : Nat) (hd : d ≤ n) : sliceIdx n v d ≤ n := by
  unfold sliceIdx
  cases v with
  | none => exact hd
  | some v =>
    simp only
    split
    · omega
    · exact Nat.min_le_right _ _

/-! ### the two components of the result -/

theorem findSettings_fst (x : AStr) (want : List Str) (start end_ : Option Int) (rev : Bool)
    (h1 : sliceIdx x.len start 0 ≤ sliceIdx x.len end_ x.len) (h2 : want ≠ []) :
    (x.findSettings want start end_ rev).1 =
      findFs x want (sliceIdx x.len start 0) (sliceIdx x.len end_ x.len) rev := by
  rw [findSettings_eq x want start end_ rev (by omega) h2]
  split <;> simp_all

theorem findSettings_snd (x : AStr) (want : List Str) (start end_ : Option Int) (rev : Bool)
    (h1 : sliceIdx x.len start 0 ≤ sliceIdx x.len end_ x.len) (h2 : want ≠ []) {i : Nat}
    (hi : (x.findSettings want start end_ rev).1 = some i) :
    (x.findSettings want start end_ rev).2 =
      findFe x.fmts want (sliceIdx x.len start 0) (sliceIdx x.len end_ x.len) i := by
  rw [findSettings_eq x want start end_ rev (by omega) h2] at hi ⊢
  split at hi
  · cases hi
  · simp only
    cases hi
    rfl

theorem findSettings_snd_none (x : AStr) (want : List Str) (start end_ : Option Int) (rev : Bool)
    (hi : (x.findSettings want start end_ rev).1 = none) :
    (x.findSettings want start end_ rev).2 = none := by
  unfold AStr.findSettings at hi ⊢
  simp only at hi ⊢
  split
  · rfl
  · split
    · rename_i h1 h2
      simp [h1, h2] at hi
    · rename_i h1 h2
      simp only [h1, h2, if_false] at hi
      split
      · rfl
      · rename_i j hj
        simp only [hj] at hi
        cases hi
