import Lean
import AnsiSpec
/-
  AnsiProofs.Lemmas.Scrub — helper lemmas for properties C14 (`_scrub_ansi_settings` and friends)
  and C15 (`AnsiSetting.valid` / `.parsable`).

  `import Lean` is needed only for the simproc `strLitToList` below (see its doc-string).
-/

open Lean Meta Simp in
/-- Rewrite `"lit".toList` to the explicit character list.  The proof term is
    `String.toList_ofList` (the kernel expands a string literal to `String.ofList [...]`), so the
    kernel never has to *evaluate* `String.toList` (UTF-8 encode + decode; measured ~35 ms per
    name, 30 s for one pass over `Gen.formatTable`).  With the literals rewritten first, a
    `decide +kernel` pass over the whole table takes well under a second. -/
simproc strLitToList (String.toList _) := fun e => do
  let_expr String.toList s := e | return .continue
  let .lit (.strVal str) := s | return .continue
  let listExpr := toExpr str.toList
  let pf := mkApp (mkConst ``String.toList_ofList) listExpr
  return .done { expr := listExpr, proof? := some pf }

/-- decide a closed Boolean fact about `Gen.formatTable` in the kernel (no extra axioms) -/
macro "table_decide" : tactic =>
  `(tactic| (simp only [Gen.formatTable, strLitToList]; decide +kernel))

namespace ScrubL

/-! ## a decidable strict order on strings (lexicographic on code points) -/

def ltStr : Str → Str → Bool
  | [], [] => false
  | [], _ :: _ => true
  | _ :: _, [] => false
  | a :: as, b :: bs => decide (a.toNat < b.toNat) || (a == b && ltStr as bs)

theorem ltStr_irrefl : ∀ s : Str, ltStr s s = false
  | [] => rfl
  | a :: as => by simp [ltStr, ltStr_irrefl as]

theorem ltStr_trans : ∀ a b c : Str, ltStr a b = true → ltStr b c = true → ltStr a c = true
  | [], [], _, h, _ => by simp [ltStr] at h
  | [], _ :: _, [], _, h => by simp [ltStr] at h
  | [], _ :: _, _ :: _, _, _ => by simp [ltStr]
  | _ :: _, [], _, h, _ => by simp [ltStr] at h
  | _ :: _, _ :: _, [], _, h => by simp [ltStr] at h
  | x :: xs, y :: ys, z :: zs, h₁, h₂ => by
    simp only [ltStr, Bool.or_eq_true, decide_eq_true_eq, Bool.and_eq_true, beq_iff_eq] at h₁ h₂ ⊢
    rcases h₁ with h₁ | ⟨rfl, h₁⟩
    · rcases h₂ with h₂ | ⟨rfl, _⟩
      · left; omega
      · left; exact h₁
    · rcases h₂ with h₂ | ⟨rfl, h₂⟩
      · left; exact h₂
      · right; exact ⟨rfl, ltStr_trans xs ys zs h₁ h₂⟩

/-- adjacent keys strictly ascending (one linear pass) -/
def ascKeys {β} : List (Str × β) → Bool
  | [] => true
  | [_] => true
  | a :: b :: rest => ltStr a.1 b.1 && ascKeys (b :: rest)

theorem ascKeys_tail {β} {a : Str × β} {l : List (Str × β)} (h : ascKeys (a :: l) = true) :
    ascKeys l = true := by
  cases l with
  | nil => rfl
  | cons b rest => simp [ascKeys] at h; exact h.2

theorem ascKeys_head_lt {β} : ∀ {a : Str × β} {l : List (Str × β)}, ascKeys (a :: l) = true →
    ∀ r ∈ l, ltStr a.1 r.1 = true
  | _, [], _, r, hr => by simp at hr
  | a, b :: rest, h, r, hr => by
    simp only [ascKeys, Bool.and_eq_true] at h
    rcases List.mem_cons.1 hr with rfl | hr
    · exact h.1
    · exact ltStr_trans _ _ _ h.1 (ascKeys_head_lt h.2 r hr)

/-- lookup by key in a list with strictly ascending keys returns the entry itself -/
theorem find?_of_ascKeys {β} : ∀ {l : List (Str × β)}, ascKeys l = true → ∀ r ∈ l,
    l.find? (fun x => x.1 == r.1) = some r
  | [], _, r, hr => by simp at hr
  | a :: l, h, r, hr => by
    rcases List.mem_cons.1 hr with rfl | hr
    · simp
    · have hlt := ascKeys_head_lt h r hr
      have hne : (a.1 == r.1) = false := by
        apply Bool.eq_false_iff.2
        intro he
        have : a.1 = r.1 := by simpa using he
        rw [this, ltStr_irrefl] at hlt
        exact Bool.noConfusion hlt
      rw [List.find?_cons, hne]
      exact find?_of_ascKeys (ascKeys_tail h) r hr

/-! ## table facts (linear passes) -/

def isNameChar (c : Char) : Bool := ('A' ≤ c && c ≤ 'Z') || ('0' ≤ c && c ≤ '9') || c == '_'

def namesOk (l : List (Str × List Str)) : Bool := l.all (fun r => !r.1.isEmpty && r.1.all isNameChar)

set_option maxRecDepth 100000 in
theorem table_asc : ascKeys Gen.formatTable = true := by table_decide
set_option maxRecDepth 100000 in
theorem table_names : namesOk Gen.formatTable = true := by table_decide

open Scrub

/-! ## lookup in the format table -/

theorem lookup_of_mem {r : Str × List Str} (hr : r ∈ Gen.formatTable) : lookupFormat r.1 = some r.2 := by
  unfold lookupFormat
  rw [find?_of_ascKeys table_asc r hr]; rfl

theorem name_chars {r : Str × List Str} (hr : r ∈ Gen.formatTable) :
    r.1 ≠ [] ∧ ∀ c ∈ r.1, isNameChar c = true := by
  have h := table_names
  simp only [namesOk, List.all_eq_true, Bool.and_eq_true, Bool.not_eq_true', List.isEmpty_eq_false_iff] at h
  exact h r hr

theorem lookup_some_chars {n : Str} {ts : List Str} (h : lookupFormat n = some ts) :
    n ≠ [] ∧ ∀ c ∈ n, isNameChar c = true := by
  unfold lookupFormat at h
  cases hf : Gen.formatTable.find? (fun r => r.1 == n) with
  | none => simp [hf] at h
  | some r =>
    have h1 := List.find?_some hf
    have h2 := List.mem_of_find?_eq_some hf
    have : r.1 = n := by simpa using h1
    exact this ▸ name_chars h2

theorem lookup_none_of_char {n : Str} {c : Char} (hc : c ∈ n) (hn : isNameChar c = false) :
    lookupFormat n = none := by
  cases h : lookupFormat n with
  | none => rfl
  | some ts => have := (lookup_some_chars h).2 c hc; simp [hn] at this

/-! ## `str.split(';')` -/

theorem splitOnChar_ne_nil (sep : Char) : ∀ s : Str, Py.splitOnChar sep s ≠ []
  | [] => by simp [Py.splitOnChar]
  | c :: rest => by
    simp only [Py.splitOnChar]
    split
    · simp
    · split <;> simp

theorem splitOnChar_no_sep (sep : Char) : ∀ s : Str, sep ∉ s → Py.splitOnChar sep s = [s]
  | [], _ => rfl
  | c :: rest, h => by
    have h1 : (c == sep) = false := by
      apply Bool.eq_false_iff.2; intro he; exact h (by simp [beq_iff_eq.1 he])
    have h2 : sep ∉ rest := fun hm => h (List.mem_cons_of_mem _ hm)
    simp [Py.splitOnChar, h1, splitOnChar_no_sep sep rest h2]

theorem splitOnChar_append (sep : Char) : ∀ a b : Str, sep ∉ a →
    Py.splitOnChar sep (a ++ sep :: b) = a :: Py.splitOnChar sep b
  | [], b, _ => by simp [Py.splitOnChar]
  | c :: rest, b, h => by
    have h1 : (c == sep) = false := by
      apply Bool.eq_false_iff.2; intro he; exact h (by simp [beq_iff_eq.1 he])
    have h2 : sep ∉ rest := fun hm => h (List.mem_cons_of_mem _ hm)
    simp [Py.splitOnChar, h1, splitOnChar_append sep rest b h2]

/-! ## combining -/

theorem combineInts_settings (ts : List Str) : combineInts (ts.map SOut.setting) [] = ts := by
  induction ts with
  | nil => rfl
  | cons t ts ih => simp [combineInts, ih]

theorem scrubItems_append (l₁ l₂ : List SArg) :
    scrubItems (l₁ ++ l₂) = (do let a ← scrubItems l₁; let b ← scrubItems l₂; pure (a ++ b)) := by
  induction l₁ with
  | nil => 
    simp [scrubItems]
    cases scrubItems l₂ <;> rfl
  | cons a l₁ ih =>
    simp only [List.cons_append, scrubItems, ih]
    cases scrubItem a <;> cases scrubItems l₁ <;> cases scrubItems l₂ <;> simp [bind, Except.bind, pure, Except.pure]

theorem char_le_iff (a b : Char) : a ≤ b ↔ a.toNat ≤ b.toNat := by
  rw [Char.le_def, UInt32.le_iff_toNat_le]; rfl

theorem char_eq_iff (a b : Char) : a = b ↔ a.toNat = b.toNat := by
  constructor
  · intro h; rw [h]
  · intro h; rw [← Char.ofNat_toNat a, ← Char.ofNat_toNat b, h]

def normChar (c : Char) : Char := let c := upperAscii c; if c == ' ' || c == '-' then '_' else c

theorem normName_eq_map (s : Str) : normName s = s.map normChar := rfl

theorem isNameChar_iff (n : Char) : isNameChar n = true ↔
    (65 ≤ n.toNat ∧ n.toNat ≤ 90) ∨ (48 ≤ n.toNat ∧ n.toNat ≤ 57) ∨ n.toNat = 95 := by
  simp [isNameChar, char_le_iff, char_eq_iff, or_assoc]

theorem normChar_variant (n c : Char) (hn : isNameChar n = true)
    (h1 : 'A' ≤ n ∧ n ≤ 'Z' → c = n ∨ c.toNat = n.toNat + 32)
    (h2 : n = '_' → c = '_' ∨ c = '-' ∨ c = ' ')
    (h3 : '0' ≤ n ∧ n ≤ '9' → c = n) : normChar c = n := by
  rw [isNameChar_iff] at hn
  simp only [char_le_iff, char_eq_iff] at h1 h2 h3
  have e1 : '_'.toNat = 95 := rfl
  have e2 : '-'.toNat = 45 := rfl
  have e3 : ' '.toNat = 32 := rfl
  have e4 : 'A'.toNat = 65 := rfl
  have e5 : 'Z'.toNat = 90 := rfl
  have e6 : '0'.toNat = 48 := rfl
  have e7 : '9'.toNat = 57 := rfl
  simp only [e1,e2,e3,e4,e5,e6,e7] at h1 h2 h3
  have key : ∀ u : Char, u.toNat = n.toNat → 
      (if (u == ' ' || u == '-') = true then '_' else u) = n := by
    intro u hu
    have hun : u = n := (char_eq_iff _ _).2 hu
    subst hun
    have a1 : (u == ' ') = false := by
      apply Bool.eq_false_iff.2; intro he; rw [beq_iff_eq, char_eq_iff, e3] at he; omega
    have a2 : (u == '-') = false := by
      apply Bool.eq_false_iff.2; intro he; rw [beq_iff_eq, char_eq_iff, e2] at he; omega
    simp [a1, a2]
  simp only [normChar, upperAscii, char_le_iff, Bool.and_eq_true, decide_eq_true_eq]
  have e8 : 'a'.toNat = 97 := rfl
  have e9 : 'z'.toNat = 122 := rfl
  simp only [e8, e9]
  by_cases hc : 97 ≤ c.toNat ∧ c.toNat ≤ 122
  · have hcn : c.toNat - 32 = n.toNat := by omega
    rw [if_pos hc, hcn, Char.ofNat_toNat]
    exact key n rfl
  · rw [if_neg hc]
    by_cases hu : n.toNat = 95
    · have hn' : n = '_' := (char_eq_iff _ _).2 hu
      subst hn'
      rcases h2 hu with h | h | h
      · rw [(char_eq_iff c '_').2 h]; rfl
      · rw [(char_eq_iff c '-').2 h]; rfl
      · rw [(char_eq_iff c ' ').2 h]; rfl
    · apply key; omega

theorem normName_of_pointwise {name v : Str} (hlen : name.length = v.length)
    (h : ∀ i (h1 : i < name.length) (h2 : i < v.length), normChar v[i] = name[i]) :
    normName v = name := by
  apply List.ext_getElem
  · simp [normName_eq_map, hlen]
  · intro i h1 h2
    simp only [normName_eq_map, List.getElem_map]
    exact h i h2 (by simpa [normName_eq_map] using h1)
theorem scrubString_single {v : Str} (hne : v ≠ []) (hb : v.head? ≠ some '[') (hs : ';' ∉ v) :
    scrubString v = scrubDirective v := by
  cases v with
  | nil => exact absurd rfl hne
  | cons c rest =>
    have hc : c ≠ '[' := fun h => hb (by simp [h])
    unfold scrubString
    split
    · rename_i h; cases h
    · rename_i h; injection h with h1 h2; exact absurd h1 hc
    · rw [splitOnChar_no_sep ';' _ hs]
      simp only [List.foldlM_cons, List.foldlM_nil, List.nil_append]
      cases scrubDirective (c :: rest) <;> rfl

theorem scrub_str_eq (v : Str) : scrub (.str v) = (do let r ← scrubString v; pure (combineInts r [])) := by
  simp [scrub, scrubItem]

theorem scrubDirective_of_lookup {v : Str} {ts : List Str} (h : lookupFormat (normName v) = some ts) :
    scrubDirective v = .ok (ts.map .setting) := by
  simp [scrubDirective, h]

theorem scrub_str_name {v : Str} {ts : List Str} (hne : v ≠ []) (hb : v.head? ≠ some '[')
    (hs : ';' ∉ v) (hl : lookupFormat (normName v) = some ts) : scrub (.str v) = .ok ts := by
  rw [scrub_str_eq, scrubString_single hne hb hs, scrubDirective_of_lookup hl]
  simp [bind, Except.bind, pure, Except.pure, combineInts_settings]

theorem scrub_member {r : Str × List Str} (hr : r ∈ Gen.formatTable) : scrub (.member r.1) = .ok r.2 := by
  simp [scrub, scrubItem, lookup_of_mem hr, bind, Except.bind, pure, Except.pure, combineInts_settings]

theorem scrub_verbatim {t : Str} (ht : t ≠ []) : scrub (.str ('[' :: t)) = .ok [t] := by
  have : t.isEmpty = false := by cases t <;> simp_all
  simp [scrub, scrubItem, scrubString, this, bind, Except.bind, pure, Except.pure, combineInts]

theorem scrub_obj (t : Str) : scrub (.obj t) = .ok [t] := by
  simp [scrub, scrubItem, bind, Except.bind, pure, Except.pure, combineInts]

theorem scrub_neg_int {i : Int} (h : i < 0) : scrub (.int i) = .error .valueError := by
  simp [scrub, scrubItem, h, bind, Except.bind]

theorem scrub_bad (t : Bool) : scrub (.bad t) = .error .typeError := by
  simp [scrub, scrubItem, bind, Except.bind]

theorem scrub_list_err {pre post : List SArg} {a : SArg} {e : PyErr} {p : List SOut}
    (hp : scrubItems pre = .ok p) (ha : scrubItem a = .error e) :
    scrub (.list (pre ++ [a] ++ post)) = .error e := by
  simp [scrub, scrubItems_append, scrubItems, hp, ha, bind, Except.bind]

end ScrubL
