import Lean
import AnsiSpec
/-
  AnsiProofs.Lemmas.Scrub — helper lemmas for properties C14 (`_scrub_ansi_settings` and friends)
  and C15 (`AnsiSetting.valid` / `.parsable`).

  `import Lean` is needed only for the simproc `strLitToList` below (see its doc-string).
-/

open Lean Meta Simp in
/-- Rewrite `"lit".toList` to the explicit character list.  The proof term is
    `String.toList_ofList` (the kernel expands a string literal to `String.ofList [...]`), so the
    kernel never has to *evaluate* `String.toList` (UTF-8 encode + decode; measured ~35 ms per
    name, 30 s for one pass over `Gen.formatTable`).  With the literals rewritten first, a
    `decide +kernel` pass over the whole table takes well under a second. -/
simproc strLitToList (String.toList _) := fun e => do
  let_expr String.toList s := e | return .continue
  let .lit (.strVal str) := s | return .continue
  let listExpr := toExpr str.toList
  let pf := mkApp (mkConst ``String.toList_ofList) listExpr
  return .done { expr := listExpr, proof? := some pf }

/-- decide a closed Boolean fact about `Gen.formatTable` in the kernel (no extra axioms) -/
macro "table_decide" : tactic =>
  `(tactic| (simp only [Gen.formatTable, strLitToList]; decide +kernel))

namespace ScrubL

/-! ## a decidable strict order on strings (lexicographic on code points) -/

def ltStr : Str → Str → Bool
  | [], [] => false
  | [], _ :: _ => true
  | _ :: _, [] => false
  | a :: as, b :: bs => decide (a.toNat < b.toNat) || (a == b && ltStr as bs)

theorem ltStr_irrefl : ∀ s : Str, ltStr s s = false
  | [] => rfl
  | a :: as => by simp [ltStr, ltStr_irrefl as]

theorem ltStr_trans : ∀ a b c : Str, ltStr a b = true → ltStr b c = true → ltStr a c = true
  | [], [], _, h, _ => by simp [ltStr] at h
  | [], _ :: _, [], _, h => by simp [ltStr] at h
  | [], _ :: _, _ :: _, _, _ => by simp [ltStr]
  | _ :: _, [], _, h, _ => by simp [ltStr] at h
  | _ :: _, _ :: _, [], _, h => by simp [ltStr] at h
  | x :: xs, y :: ys, z :: zs, h₁, h₂ => by
    simp only [ltStr, Bool.or_eq_true, decide_eq_true_eq, Bool.and_eq_true, beq_iff_eq] at h₁ h₂ ⊢
    rcases h₁ with h₁ | ⟨rfl, h₁⟩
    · rcases h₂ with h₂ | ⟨rfl, _⟩
      · left; omega
      · left; exact h₁
    · rcases h₂ with h₂ | ⟨rfl, h₂⟩
      · left; exact h₂
      · right; exact ⟨rfl, ltStr_trans xs ys zs h₁ h₂⟩

/-- adjacent keys strictly ascending (one linear pass) -/
def ascKeys {β} : List (Str × β) → Bool
  | [] => true
  | [_] => true
  | a :: b :: rest => ltStr a.1 b.1 && ascKeys (b :: rest)

theorem ascKeys_tail {β} {a : Str × β} {l : List (Str × β)} (h : ascKeys (a :: l) = true) :
    ascKeys l = true := by
  cases l with
  | nil => rfl
  | cons b rest => simp [ascKeys] at h; exact h.2

theorem ascKeys_head_lt {β} : ∀ {a : Str × β} {l : List (Str × β)}, ascKeys (a :: l) = true →
    ∀ r ∈ l, ltStr a.1 r.1 = true
  | _, [], _, r, hr => by simp at hr
  | a, b :: rest, h, r, hr => by
    simp only [ascKeys, Bool.and_eq_true] at h
    rcases List.mem_cons.1 hr with rfl | hr
    · exact h.1
    · exact ltStr_trans _ _ _ h.1 (ascKeys_head_lt h.2 r hr)

/-- lookup by key in a list with strictly ascending keys returns the entry itself -/
theorem find?_of_ascKeys {β} : ∀ {l : List (Str × β)}, ascKeys l = true → ∀ r ∈ l,
    l.find? (fun x => x.1 == r.1) = some r
  | [], _, r, hr => by simp at hr
  | a :: l, h, r, hr => by
    rcases List.mem_cons.1 hr with rfl | hr
    · simp
    · have hlt := ascKeys_head_lt h r hr
      have hne : (a.1 == r.1) = false := by
        apply Bool.eq_false_iff.2
        intro he
        have : a.1 = r.1 := by simpa using he
        rw [this, ltStr_irrefl] at hlt
        exact Bool.noConfusion hlt
      rw [List.find?_cons, hne]
      exact find?_of_ascKeys (ascKeys_tail h) r hr

/-! ## table facts (linear passes) -/

def isNameChar (c : Char) : Bool := ('A' ≤ c && c ≤ 'Z') || ('0' ≤ c && c ≤ '9') || c == '_'

def namesOk (l : List (Str × List Str)) : Bool := l.all (fun r => !r.1.isEmpty && r.1.all isNameChar)

set_option maxRecDepth 100000 in
theorem table_asc : ascKeys Gen.formatTable = true := by table_decide
set_option maxRecDepth 100000 in
theorem table_names : namesOk Gen.formatTable = true := by table_decide

end ScrubL
