import Lean
import AnsiSpec
/-
  AnsiProofs.Lemmas.Scrub — helper lemmas for properties C14 (`_scrub_ansi_settings` and friends)
  and C15 (`AnsiSetting.valid` / `.parsable`).

  `import Lean` is needed only for the simproc `strLitToList` below (see its doc-string).
-/

namespace ScrubL

open Lean Meta Simp in
/-- Rewrite `"lit".toList` to the explicit character list.  The proof term is
    `String.toList_ofList` (the kernel expands a string literal to `String.ofList [...]`), so the
    kernel never has to *evaluate* `String.toList` (UTF-8 encode + decode; measured ~35 ms per
    name, 30 s for one pass over `Gen.formatTable`).  With the literals rewritten first, a
    `decide +kernel` pass over the whole table takes well under a second. -/
simproc strLitToList (String.toList _) := fun e => do
  let_expr String.toList s := e | return .continue
  let .lit (.strVal str) := s | return .continue
  let listExpr := toExpr str.toList
  let pf := mkApp (mkConst ``String.toList_ofList) listExpr
  return .done { expr := listExpr, proof? := some pf }

/-- decide a closed Boolean fact about `Gen.formatTable` in the kernel (no extra axioms) -/
macro "scrubl_table_decide" : tactic =>
  `(tactic| (simp only [Gen.formatTable, strLitToList]; decide +kernel))


/-! ## a decidable strict order on strings (lexicographic on code points) -/

def ltStr : Str → Str → Bool
  | [], [] => false
  | [], _ :: _ => true
  | _ :: _, [] => false
  | a :: as, b :: bs => decide (a.toNat < b.toNat) || (a == b && ltStr as bs)

theorem ltStr_irrefl : ∀ s : Str, ltStr s s = false
  | [] => rfl
  | a :: as => by simp [ltStr, ltStr_irrefl as]

theorem ltStr_trans : ∀ a b c : Str, ltStr a b = true → ltStr b c = true → ltStr a c = true
  | [], [], _, h, _ => by simp [ltStr] at h
  | [], _ :: _, [], _, h => by simp [ltStr] at h
  | [], _ :: _, _ :: _, _, _ => by simp [ltStr]
  | _ :: _, [], _, h, _ => by simp [ltStr] at h
  | _ :: _, _ :: _, [], _, h => by simp [ltStr] at h
  | x :: xs, y :: ys, z :: zs, h₁, h₂ => by
    simp only [ltStr, Bool.or_eq_true, decide_eq_true_eq, Bool.and_eq_true, beq_iff_eq] at h₁ h₂ ⊢
    rcases h₁ with h₁ | ⟨rfl, h₁⟩
    · rcases h₂ with h₂ | ⟨rfl, _⟩
      · left; omega
      · left; exact h₁
    · rcases h₂ with h₂ | ⟨rfl, h₂⟩
      · left; exact h₂
      · right; exact ⟨rfl, ltStr_trans xs ys zs h₁ h₂⟩

/-- adjacent keys strictly ascending (one linear pass) -/
def ascKeys {β} : List (Str × β) → Bool
  | [] => true
  | [_] => true
  | a :: b :: rest => ltStr a.1 b.1 && ascKeys (b :: rest)

theorem ascKeys_tail {β} {a : Str × β} {l : List (Str × β)} (h : ascKeys (a :: l) = true) :
    ascKeys l = true := by
  cases l with
  | nil => rfl
  | cons b rest => simp [ascKeys] at h; exact h.2

theorem ascKeys_head_lt {β} : ∀ {a : Str × β} {l : List (Str × β)}, ascKeys (a :: l) = true →
    ∀ r ∈ l, ltStr a.1 r.1 = true
  | _, [], _, r, hr => by simp at hr
  | a, b :: rest, h, r, hr => by
    simp only [ascKeys, Bool.and_eq_true] at h
    rcases List.mem_cons.1 hr with rfl | hr
    · exact h.1
    · exact ltStr_trans _ _ _ h.1 (ascKeys_head_lt h.2 r hr)

/-- lookup by key in a list with strictly ascending keys returns the entry itself -/
theorem find?_of_ascKeys {β} : ∀ {l : List (Str × β)}, ascKeys l = true → ∀ r ∈ l,
    l.find? (fun x => x.1 == r.1) = some r
  | [], _, r, hr => by simp at hr
  | a :: l, h, r, hr => by
    rcases List.mem_cons.1 hr with rfl | hr
    · simp
    · have hlt := ascKeys_head_lt h r hr
      have hne : (a.1 == r.1) = false := by
        apply Bool.eq_false_iff.2
        intro he
        have : a.1 = r.1 := by simpa using he
        rw [this, ltStr_irrefl] at hlt
        exact Bool.noConfusion hlt
      rw [List.find?_cons, hne]
      exact find?_of_ascKeys (ascKeys_tail h) r hr

/-! ## table facts (linear passes) -/

def isNameChar (c : Char) : Bool := ('A' ≤ c && c ≤ 'Z') || ('0' ≤ c && c ≤ '9') || c == '_'

def namesOk (l : List (Str × List Str)) : Bool := l.all (fun r => !r.1.isEmpty && r.1.all isNameChar)

set_option maxRecDepth 100000 in
theorem table_asc : ascKeys Gen.formatTable = true := by scrubl_table_decide
set_option maxRecDepth 100000 in
theorem table_names : namesOk Gen.formatTable = true := by scrubl_table_decide

open Scrub

/-! ## lookup in the format table -/

theorem lookup_of_mem {r : Str × List Str} (hr : r ∈ Gen.formatTable) : lookupFormat r.1 = some r.2 := by
  unfold lookupFormat
  rw [find?_of_ascKeys table_asc r hr]; rfl

theorem name_chars {r : Str × List Str} (hr : r ∈ Gen.formatTable) :
    r.1 ≠ [] ∧ ∀ c ∈ r.1, isNameChar c = true := by
  have h := table_names
  simp only [namesOk, List.all_eq_true, Bool.and_eq_true, Bool.not_eq_true', List.isEmpty_eq_false_iff] at h
  exact h r hr

theorem lookup_some_chars {n : Str} {ts : List Str} (h : lookupFormat n = some ts) :
    n ≠ [] ∧ ∀ c ∈ n, isNameChar c = true := by
  unfold lookupFormat at h
  cases hf : Gen.formatTable.find? (fun r => r.1 == n) with
  | none => simp [hf] at h
  | some r =>
    have h1 := List.find?_some hf
    have h2 := List.mem_of_find?_eq_some hf
    have : r.1 = n := by simpa using h1
    exact this ▸ name_chars h2

theorem lookup_none_of_char {n : Str} {c : Char} (hc : c ∈ n) (hn : isNameChar c = false) :
    lookupFormat n = none := by
  cases h : lookupFormat n with
  | none => rfl
  | some ts => have := (lookup_some_chars h).2 c hc; simp [hn] at this

/-! ## `str.split(';')` -/

theorem splitOnChar_ne_nil (sep : Char) : ∀ s : Str, Py.splitOnChar sep s ≠ []
  | [] => by simp [Py.splitOnChar]
  | c :: rest => by
    simp only [Py.splitOnChar]
    split
    · simp
    · split <;> simp

theorem splitOnChar_no_sep (sep : Char) : ∀ s : Str, sep ∉ s → Py.splitOnChar sep s = [s]
  | [], _ => rfl
  | c :: rest, h => by
    have h1 : (c == sep) = false := by
      apply Bool.eq_false_iff.2; intro he; exact h (by simp [beq_iff_eq.1 he])
    have h2 : sep ∉ rest := fun hm => h (List.mem_cons_of_mem _ hm)
    simp [Py.splitOnChar, h1, splitOnChar_no_sep sep rest h2]

theorem splitOnChar_append (sep : Char) : ∀ a b : Str, sep ∉ a →
    Py.splitOnChar sep (a ++ sep :: b) = a :: Py.splitOnChar sep b
  | [], b, _ => by simp [Py.splitOnChar]
  | c :: rest, b, h => by
    have h1 : (c == sep) = false := by
      apply Bool.eq_false_iff.2; intro he; exact h (by simp [beq_iff_eq.1 he])
    have h2 : sep ∉ rest := fun hm => h (List.mem_cons_of_mem _ hm)
    simp [Py.splitOnChar, h1, splitOnChar_append sep rest b h2]

/-! ## combining -/

theorem combineInts_settings (ts : List Str) : combineInts (ts.map SOut.setting) [] = ts := by
  induction ts with
  | nil => rfl
  | cons t ts ih => simp [combineInts, ih]

theorem scrubItems_append (l₁ l₂ : List SArg) :
    scrubItems (l₁ ++ l₂) = (do let a ← scrubItems l₁; let b ← scrubItems l₂; pure (a ++ b)) := by
  induction l₁ with
  | nil => 
    simp [scrubItems]
    cases scrubItems l₂ <;> rfl
  | cons a l₁ ih =>
    simp only [List.cons_append, scrubItems, ih]
    cases scrubItem a <;> cases scrubItems l₁ <;> cases scrubItems l₂ <;> simp [bind, Except.bind, pure, Except.pure]

theorem char_le_iff (a b : Char) : a ≤ b ↔ a.toNat ≤ b.toNat := by
  rw [Char.le_def, UInt32.le_iff_toNat_le]; rfl

theorem char_eq_iff (a b : Char) : a = b ↔ a.toNat = b.toNat := by
  constructor
  · intro h; rw [h]
  · intro h; rw [← Char.ofNat_toNat a, ← Char.ofNat_toNat b, h]

def normChar (c : Char) : Char := let c := upperAscii c; if c == ' ' || c == '-' then '_' else c

theorem normName_eq_map (s : Str) : normName s = s.map normChar := rfl

theorem isNameChar_iff (n : Char) : isNameChar n = true ↔
    (65 ≤ n.toNat ∧ n.toNat ≤ 90) ∨ (48 ≤ n.toNat ∧ n.toNat ≤ 57) ∨ n.toNat = 95 := by
  simp [isNameChar, char_le_iff, char_eq_iff, or_assoc]

theorem normChar_variant (n c : Char) (hn : isNameChar n = true)
    (h1 : 'A' ≤ n ∧ n ≤ 'Z' → c = n ∨ c.toNat = n.toNat + 32)
    (h2 : n = '_' → c = '_' ∨ c = '-' ∨ c = ' ')
    (h3 : '0' ≤ n ∧ n ≤ '9' → c = n) : normChar c = n := by
  rw [isNameChar_iff] at hn
  simp only [char_le_iff, char_eq_iff] at h1 h2 h3
  have e1 : '_'.toNat = 95 := rfl
  have e2 : '-'.toNat = 45 := rfl
  have e3 : ' '.toNat = 32 := rfl
  have e4 : 'A'.toNat = 65 := rfl
  have e5 : 'Z'.toNat = 90 := rfl
  have e6 : '0'.toNat = 48 := rfl
  have e7 : '9'.toNat = 57 := rfl
  simp only [e1,e2,e3,e4,e5,e6,e7] at h1 h2 h3
  have key : ∀ u : Char, u.toNat = n.toNat → 
      (if (u == ' ' || u == '-') = true then '_' else u) = n := by
    intro u hu
    have hun : u = n := (char_eq_iff _ _).2 hu
    subst hun
    have a1 : (u == ' ') = false := by
      apply Bool.eq_false_iff.2; intro he; rw [beq_iff_eq, char_eq_iff, e3] at he; omega
    have a2 : (u == '-') = false := by
      apply Bool.eq_false_iff.2; intro he; rw [beq_iff_eq, char_eq_iff, e2] at he; omega
    simp [a1, a2]
  simp only [normChar, upperAscii, char_le_iff, Bool.and_eq_true, decide_eq_true_eq]
  have e8 : 'a'.toNat = 97 := rfl
  have e9 : 'z'.toNat = 122 := rfl
  simp only [e8, e9]
  by_cases hc : 97 ≤ c.toNat ∧ c.toNat ≤ 122
  · have hcn : c.toNat - 32 = n.toNat := by omega
    rw [if_pos hc, hcn, Char.ofNat_toNat]
    exact key n rfl
  · rw [if_neg hc]
    by_cases hu : n.toNat = 95
    · have hn' : n = '_' := (char_eq_iff _ _).2 hu
      subst hn'
      rcases h2 hu with h | h | h
      · rw [(char_eq_iff c '_').2 h]; rfl
      · rw [(char_eq_iff c '-').2 h]; rfl
      · rw [(char_eq_iff c ' ').2 h]; rfl
    · apply key; omega

theorem normName_of_pointwise {name v : Str} (hlen : name.length = v.length)
    (h : ∀ i (h1 : i < name.length) (h2 : i < v.length), normChar v[i] = name[i]) :
    normName v = name := by
  apply List.ext_getElem
  · simp [normName_eq_map, hlen]
  · intro i h1 h2
    simp only [normName_eq_map, List.getElem_map]
    exact h i h2 (by simpa [normName_eq_map] using h1)
theorem scrubString_single {v : Str} (hne : v ≠ []) (hb : v.head? ≠ some '[') (hs : ';' ∉ v) :
    scrubString v = scrubDirective v := by
  cases v with
  | nil => exact absurd rfl hne
  | cons c rest =>
    have hc : c ≠ '[' := fun h => hb (by simp [h])
    unfold scrubString
    split
    · rename_i h; cases h
    · rename_i h; injection h with h1 h2; exact absurd h1 hc
    · rw [splitOnChar_no_sep ';' _ hs]
      simp only [List.foldlM_cons, List.foldlM_nil, List.nil_append]
      cases scrubDirective (c :: rest) <;> rfl

theorem scrub_str_eq (v : Str) : scrub (.str v) = (do let r ← scrubString v; pure (combineInts r [])) := by
  simp [scrub, scrubItem]

theorem scrubDirective_of_lookup {v : Str} {ts : List Str} (h : lookupFormat (normName v) = some ts) :
    scrubDirective v = .ok (ts.map .setting) := by
  simp [scrubDirective, h]

theorem scrub_str_name {v : Str} {ts : List Str} (hne : v ≠ []) (hb : v.head? ≠ some '[')
    (hs : ';' ∉ v) (hl : lookupFormat (normName v) = some ts) : scrub (.str v) = .ok ts := by
  rw [scrub_str_eq, scrubString_single hne hb hs, scrubDirective_of_lookup hl]
  simp [bind, Except.bind, pure, Except.pure, combineInts_settings]

theorem scrub_member {r : Str × List Str} (hr : r ∈ Gen.formatTable) : scrub (.member r.1) = .ok r.2 := by
  simp [scrub, scrubItem, lookup_of_mem hr, bind, Except.bind, pure, Except.pure, combineInts_settings]

theorem scrub_verbatim {t : Str} (ht : t ≠ []) : scrub (.str ('[' :: t)) = .ok [t] := by
  have : t.isEmpty = false := by cases t <;> simp_all
  simp [scrub, scrubItem, scrubString, this, bind, Except.bind, pure, Except.pure, combineInts]

theorem scrub_obj (t : Str) : scrub (.obj t) = .ok [t] := by
  simp [scrub, scrubItem, bind, Except.bind, pure, Except.pure, combineInts]

theorem scrub_neg_int {i : Int} (h : i < 0) : scrub (.int i) = .error .valueError := by
  simp [scrub, scrubItem, h, bind, Except.bind]

theorem scrub_bad (t : Bool) : scrub (.bad t) = .error .typeError := by
  simp [scrub, scrubItem, bind, Except.bind]

theorem scrub_list_err {pre post : List SArg} {a : SArg} {e : PyErr} {p : List SOut}
    (hp : scrubItems pre = .ok p) (ha : scrubItem a = .error e) :
    scrub (.list (pre ++ [a] ++ post)) = .error e := by
  simp [scrub, scrubItems_append, scrubItems, hp, ha, bind, Except.bind]

open SettingTxt

/-! ## `str(n)` -/

def digitChar (d : Nat) : Char := Char.ofNat ('0'.toNat + d)

/-- reference definition of the decimal digits (most significant first) -/
def digitsOf (n : Nat) : Str :=
  if n < 10 then [digitChar n] else digitsOf (n / 10) ++ [digitChar (n % 10)]
termination_by n
decreasing_by omega

theorem natDigitsAux_eq : ∀ fuel n acc, n < fuel → Py.natDigitsAux fuel n acc = digitsOf n ++ acc
  | 0, _, _, h => by omega
  | fuel + 1, n, acc, h => by
    rw [Py.natDigitsAux, digitsOf]
    by_cases hn : n < 10
    · have h0 : n / 10 = 0 := by omega
      have h1 : n % 10 = n := by omega
      simp [h0, h1, hn, digitChar]
    · have h0 : ¬ n / 10 = 0 := by omega
      simp only [h0, if_false, hn]
      rw [natDigitsAux_eq fuel (n / 10) _ (by omega)]
      simp [digitChar]

theorem natStr_eq (n : Nat) : Py.natStr n = digitsOf n := by
  simp [Py.natStr, natDigitsAux_eq (n + 1) n [] (by omega)]

theorem digitChar_toNat {d : Nat} (h : d < 10) : (digitChar d).toNat = 48 + d := by
  have : ∀ d < 10, (digitChar d).toNat = 48 + d := by decide
  exact this d h

theorem digitChar_isDigit {d : Nat} (h : d < 10) : Py.isDigit (digitChar d) = true := by
  have : ∀ d < 10, Py.isDigit (digitChar d) = true := by decide
  exact this d h

theorem digitsOf_ne_nil (n : Nat) : digitsOf n ≠ [] := by
  rw [digitsOf]; split <;> simp

theorem digitsOf_all (n : Nat) : ∀ c ∈ digitsOf n, Py.isDigit c = true := by
  induction n using Nat.strongRecOn with
  | _ n ih =>
    rw [digitsOf]
    split
    · intro c hc; simp at hc; subst hc; exact digitChar_isDigit (by omega)
    · intro c hc
      rcases List.mem_append.1 hc with h | h
      · exact ih (n / 10) (by omega) c h
      · simp at h; subst h; exact digitChar_isDigit (Nat.mod_lt _ (by omega))

theorem digitsVal_append (a : Str) (c : Char) :
    Py.digitsVal (a ++ [c]) = 10 * Py.digitsVal a + (c.toNat - '0'.toNat) := by
  simp [Py.digitsVal, List.foldl_append]

theorem digitsVal_digitsOf (n : Nat) : Py.digitsVal (digitsOf n) = n := by
  induction n using Nat.strongRecOn with
  | _ n ih =>
    rw [digitsOf]
    split
    · rename_i h
      simp [Py.digitsVal, digitChar_toNat h]
    · rw [digitsVal_append, ih (n / 10) (by omega), digitChar_toNat (Nat.mod_lt _ (by omega))]
      have : '0'.toNat = 48 := rfl
      omega

theorem natStr_ne_nil (n : Nat) : Py.natStr n ≠ [] := natStr_eq n ▸ digitsOf_ne_nil n
theorem natStr_all (n : Nat) : ∀ c ∈ Py.natStr n, Py.isDigit c = true := natStr_eq n ▸ digitsOf_all n
theorem digitsVal_natStr (n : Nat) : Py.digitsVal (Py.natStr n) = n := natStr_eq n ▸ digitsVal_digitsOf n

theorem isdigit_natStr (n : Nat) : Py.isdigit (Py.natStr n) = true := by
  have h1 := natStr_ne_nil n
  have h2 := natStr_all n
  simp only [Py.isdigit, Bool.and_eq_true, Bool.not_eq_true', List.all_eq_true]
  exact ⟨by cases h : Py.natStr n <;> simp_all, h2⟩

/-- facts about a decimal digit character -/
theorem isDigit_iff (c : Char) : Py.isDigit c = true ↔ 48 ≤ c.toNat ∧ c.toNat ≤ 57 := by
  simp [Py.isDigit, char_le_iff]

theorem isDigit_not_space {c : Char} (h : Py.isDigit c = true) : Py.isSpace c = false := by
  rw [isDigit_iff] at h
  have : ¬ c = ' ' := by rw [char_eq_iff]; show ¬ c.toNat = 32; omega
  simp [Py.isSpace, this]; omega

theorem isDigit_isHex {c : Char} (h : Py.isDigit c = true) : isHex c = true := by simp [isHex, h]

theorem isDigit_ne {c d : Char} (h : Py.isDigit c = true) (hd : Py.isDigit d = false) : c ≠ d := by
  intro e; subst e; simp [h] at hd

/-! ## `strip` -/

theorem strip_id {s : Str} (h1 : ∀ c, s.head? = some c → Py.isSpace c = false)
    (h2 : ∀ c, s.getLast? = some c → Py.isSpace c = false) : Py.strip s = s := by
  unfold Py.strip Py.rstripBy
  have e1 : s.dropWhile Py.isSpace = s := by
    cases s with
    | nil => rfl
    | cons c r => simp [List.dropWhile, h1 c rfl]
  rw [e1]
  have e2 : s.reverse.dropWhile Py.isSpace = s.reverse := by
    cases hr : s.reverse with
    | nil => rfl
    | cons c r =>
      have : s.getLast? = some c := by rw [List.getLast?_eq_head?_reverse, hr]; rfl
      simp [List.dropWhile, h2 c this]
  rw [e2, List.reverse_reverse]

theorem strip_digits {s : Str} (h : ∀ c ∈ s, Py.isDigit c = true) : Py.strip s = s := by
  apply strip_id
  · intro c hc; exact isDigit_not_space (h c (List.mem_of_mem_head? hc))
  · intro c hc; exact isDigit_not_space (h c (List.mem_of_getLast? hc))

/-- `parsable` after the `valid` test, as a function of `to_list()` -/
def parsableCodes (codes : List Code) : Bool :=
  match codes with
  | [] => false
  | c0 :: _ =>
    if c0 == Code.int 0 then false
    else if !(codes.all (fun c => match c with | .int i => 0 ≤ i ∧ i ≤ 255 | .str _ => false)) then false
    else
      match c0 with
      | .str _ => false
      | .int i0 =>
        if (ansiParam i0).isNone then false
        else
          match parsableFnLoop codes Gen.ctrlFns false with
          | (some b, _) => b
          | (none, true) => false
          | (none, false) => codes.length == 1

theorem parsable_eq (t : Str) : parsable t = (valid t && parsableCodes (toList t)) := by
  unfold parsable parsableCodes
  cases valid t <;> rfl

def natCodes (l : List Nat) : List Code := l.map (fun (n : Nat) => Code.int (n : Int))

/-- the grammar on the list of values -/
def groupVals (vals : List Nat) : Prop :=
  (∀ v ∈ vals, v ≤ 255) ∧
  ∃ first rest, vals = first :: rest ∧ first ≠ 0 ∧ Term.specEffect first ≠ none ∧
    (if first = 38 ∨ first = 48 ∨ first = 58 then
       (∃ n, rest = [5, n]) ∨ (∃ r g b, rest = [2, r, g, b])
     else rest = [])

theorem ctrlFns_eq : Gen.ctrlFns = [([38,5],1), ([38,2],3), ([48,5],1), ([48,2],3), ([58,5],1), ([58,2],3)] := by
  decide

theorem ansiParam_spec_check :
    (List.range 256).all (fun c => (ansiParam (c : Int)).isNone == (Term.specEffect c).isNone) = true := by
  decide +kernel

theorem ansiParam_spec {c : Nat} (h : c ≤ 255) : (ansiParam (c : Int)).isNone = (Term.specEffect c).isNone := by
  have := ansiParam_spec_check
  rw [List.all_eq_true] at this
  have := this c (by simp; omega)
  simpa using this

theorem codeInt_beq (i j : Int) : (Code.int i == Code.int j) = decide (i = j) := by
  by_cases h : i = j
  · subst h; simp
  · have : Code.int i ≠ Code.int j := by
      intro e; injection e with e; exact h e
    simp [h, this]

/-- the verdict of the function loop and the final length test of `parsable` -/
def loopVerdict (codes : List Code) : Bool :=
  match parsableFnLoop codes Gen.ctrlFns false with
  | (some b, _) => b
  | (none, true) => false
  | (none, false) => codes.length == 1

theorem cast_eq_2 (x : Nat) : ((x : Int) = 2) ↔ x = 2 := by omega
theorem cast_eq_5 (x : Nat) : ((x : Int) = 5) ↔ x = 5 := by omega
theorem cast_eq_38 (x : Nat) : ((x : Int) = 38) ↔ x = 38 := by omega
theorem cast_eq_48 (x : Nat) : ((x : Int) = 48) ↔ x = 48 := by omega
theorem cast_eq_58 (x : Nat) : ((x : Int) = 58) ↔ x = 58 := by omega

set_option linter.unusedSimpArgs false

theorem startsWithFn1_nat (m : Nat) (rest : List Nat) :
    startsWithFn [m] (natCodes rest) = match rest with | [] => false | b :: _ => decide (b = m) := by
  cases rest with
  | nil => rfl
  | cons b r => simp [startsWithFn, natCodes, codeInt_beq]; omega

theorem loopVerdict_ext (a : Nat) (ha : a = 38 ∨ a = 48 ∨ a = 58) (rest : List Nat) :
    loopVerdict (natCodes (a :: rest)) = true ↔ (∃ n, rest = [5, n]) ∨ (∃ r g b, rest = [2, r, g, b]) := by
  unfold loopVerdict
  rw [ctrlFns_eq]
  rcases rest with _ | ⟨b, rest⟩
  · rcases ha with rfl | rfl | rfl <;>
      simp [parsableFnLoop, startsWithFn, natCodes, codeInt_beq, cast_eq_2, cast_eq_5, cast_eq_38, cast_eq_48, cast_eq_58]
  · by_cases h5 : b = 5
    · subst h5
      rcases ha with rfl | rfl | rfl <;>
      rcases rest with _ | ⟨c, _ | ⟨d, rest⟩⟩ <;>
        simp [parsableFnLoop, startsWithFn, natCodes, codeInt_beq, cast_eq_2, cast_eq_5, cast_eq_38, cast_eq_48, cast_eq_58]
    · by_cases h2 : b = 2
      · subst h2
        rcases ha with rfl | rfl | rfl <;>
        rcases rest with _ | ⟨c, _ | ⟨d, _ | ⟨e, _ | ⟨f, rest⟩⟩⟩⟩ <;>
          simp [parsableFnLoop, startsWithFn, natCodes, codeInt_beq, cast_eq_2, cast_eq_5, cast_eq_38, cast_eq_48, cast_eq_58]
      · rcases ha with rfl | rfl | rfl <;>
          simp [parsableFnLoop, startsWithFn, natCodes, codeInt_beq, cast_eq_2, cast_eq_5, cast_eq_38, cast_eq_48, cast_eq_58, h5, h2]

theorem loopVerdict_plain (a : Nat) (ha : ¬ (a = 38 ∨ a = 48 ∨ a = 58)) (rest : List Nat) :
    loopVerdict (natCodes (a :: rest)) = true ↔ rest = [] := by
  unfold loopVerdict
  rw [ctrlFns_eq]
  have h1 : ¬ a = 38 := fun h => ha (Or.inl h)
  have h2 : ¬ a = 48 := fun h => ha (Or.inr (Or.inl h))
  have h3 : ¬ a = 58 := fun h => ha (Or.inr (Or.inr h))
  simp [parsableFnLoop, startsWithFn, natCodes, codeInt_beq, cast_eq_2, cast_eq_5, cast_eq_38, cast_eq_48, cast_eq_58, h1, h2, h3]

theorem loopVerdict_nat (a : Nat) (rest : List Nat) : loopVerdict (natCodes (a :: rest)) = true ↔
    (if a = 38 ∨ a = 48 ∨ a = 58 then (∃ n, rest = [5, n]) ∨ (∃ r g b, rest = [2, r, g, b])
     else rest = []) := by
  split
  · rename_i h; exact loopVerdict_ext a h rest
  · rename_i h; exact loopVerdict_plain a h rest

theorem parsableCodes_cons (a : Nat) (rest : List Nat) :
    parsableCodes (natCodes (a :: rest)) =
      (!decide (a = 0) && (a :: rest).all (fun v => decide (v ≤ 255)) && !(ansiParam (a : Int)).isNone &&
        loopVerdict (natCodes (a :: rest))) := by
  have hall : (natCodes (a :: rest)).all (fun c => match c with | .int i => 0 ≤ i ∧ i ≤ 255 | .str _ => false)
      = (a :: rest).all (fun v => decide (v ≤ 255)) := by
    simp only [natCodes, List.all_map]
    congr 1
    funext v
    simp only [Function.comp]
    by_cases h : v ≤ 255
    · simp [h]; omega
    · simp [h]; omega
  have hz : (Code.int (a : Int) == Code.int 0) = decide (a = 0) := by
    rw [codeInt_beq]; by_cases h : a = 0 <;> simp [h]
  unfold parsableCodes loopVerdict
  simp only [natCodes, List.map_cons] at hall ⊢
  rw [hz, hall]
  by_cases h0 : a = 0
  · simp [h0]
  · cases hA : List.all (a :: rest) (fun v => decide (v ≤ 255))
    · simp [h0]
    · cases hP : (ansiParam (a : Int)).isNone
      · simp [h0]
      · simp [h0]

theorem parsableCodes_nat (vals : List Nat) : parsableCodes (natCodes vals) = true ↔ groupVals vals := by
  cases vals with
  | nil => simp [parsableCodes, natCodes, groupVals]
  | cons a rest =>
    rw [parsableCodes_cons]
    simp only [Bool.and_eq_true, Bool.not_eq_true', decide_eq_false_iff_not, List.all_eq_true,
      decide_eq_true_eq, loopVerdict_nat, groupVals]
    constructor
    · rintro ⟨⟨⟨h0, hall⟩, hp⟩, hl⟩
      have ha : a ≤ 255 := hall a (List.mem_cons_self ..)
      refine ⟨hall, a, rest, rfl, h0, ?_, hl⟩
      rw [ansiParam_spec ha] at hp
      intro hn; rw [hn] at hp; simp at hp
    · rintro ⟨hall, f, r, he, h0, hs, hl⟩
      injection he with e1 e2
      subst e1; subst e2
      have ha : a ≤ 255 := hall a (List.mem_cons_self ..)
      refine ⟨⟨⟨h0, hall⟩, ?_⟩, hl⟩
      rw [ansiParam_spec ha]
      cases h : Term.specEffect a with
      | none => exact absurd h hs
      | some _ => rfl
/-! ## the spec's tokenizer functions coincide with the model's primitives -/

theorem splitSemi_eq : ∀ s : Str, Term.splitSemi s = Py.splitOnChar ';' s
  | [] => rfl
  | c :: rest => by
    simp only [Term.splitSemi, Py.splitOnChar, splitSemi_eq rest]
    split
    · rfl
    · cases Py.splitOnChar ';' rest <;> rfl

theorem isWs_eq : Term.isWs = Py.isSpace := rfl
theorem termIsDigit_eq : Term.isDigit = Py.isDigit := rfl
theorem trim_eq (s : Str) : Term.trim s = Py.strip s := rfl
theorem decimal_eq (s : Str) : Term.decimal s = Py.digitsVal s := rfl

/-! ## membership through split / strip -/

theorem mem_split (sep : Char) : ∀ (s : Str) (c : Char), c ∈ s → c = sep ∨ ∃ it ∈ Py.splitOnChar sep s, c ∈ it
  | [], c, h => by simp at h
  | d :: rest, c, h => by
    simp only [Py.splitOnChar]
    by_cases hd : d = sep
    · subst hd
      rcases List.mem_cons.1 h with rfl | h
      · exact Or.inl rfl
      · rcases mem_split d rest c h with h | ⟨it, hit, hc⟩
        · exact Or.inl h
        · exact Or.inr ⟨it, by simp [hit], hc⟩
    · have hd' : (d == sep) = false := by simp [hd]
      rw [hd']
      simp only [Bool.false_eq_true, if_false]
      cases hs : Py.splitOnChar sep rest with
      | nil => exact absurd hs (splitOnChar_ne_nil sep rest)
      | cons hh tt =>
        rcases List.mem_cons.1 h with rfl | h
        · exact Or.inr ⟨c :: hh, by simp, by simp⟩
        · rcases mem_split sep rest c h with h | ⟨it, hit, hc⟩
          · exact Or.inl h
          · rw [hs] at hit
            rcases List.mem_cons.1 hit with rfl | hit
            · exact Or.inr ⟨d :: it, by simp, by simp [hc]⟩
            · exact Or.inr ⟨it, by simp [hit], hc⟩

theorem mem_dropWhile_or {p : Char → Bool} : ∀ (s : Str) (c : Char), c ∈ s → p c = true ∨ c ∈ s.dropWhile p
  | [], c, h => by simp at h
  | d :: rest, c, h => by
    by_cases hd : p d = true
    · rw [List.dropWhile_cons_of_pos hd]
      rcases List.mem_cons.1 h with rfl | h
      · exact Or.inl hd
      · exact mem_dropWhile_or rest c h
    · rw [List.dropWhile_cons_of_neg hd]; exact Or.inr h

theorem mem_strip (s : Str) (c : Char) (h : c ∈ s) : Py.isSpace c = true ∨ c ∈ Py.strip s := by
  unfold Py.strip Py.rstripBy
  rcases mem_dropWhile_or (p := Py.isSpace) s c h with h | h
  · exact Or.inl h
  · rcases mem_dropWhile_or (p := Py.isSpace) _ c (List.mem_reverse.2 h) with h | h
    · exact Or.inl h
    · exact Or.inr (List.mem_reverse.2 h)

/-! ## `to_list()` -/

def items (t : Str) : List Str := (Py.splitOnChar ';' t).map Py.strip

theorem toList_eq (t : Str) :
    toList t = (items t).map (fun v => if Py.isdigit v then Code.int (Py.digitsVal v) else Code.str v) := by
  simp [toList, items, List.map_map, Function.comp_def]

theorem toList_digits {t : Str} (h : ∀ v ∈ items t, Py.isdigit v = true) :
    toList t = natCodes ((items t).map Py.digitsVal) := by
  rw [toList_eq, natCodes, List.map_map]
  apply List.map_congr_left
  intro v hv
  simp [h v hv]

theorem parsableCodes_all_int {codes : List Code} (h : parsableCodes codes = true) :
    ∀ c ∈ codes, ∃ i, c = Code.int i := by
  unfold parsableCodes at h
  split at h
  · cases h
  · split at h
    · cases h
    · split at h
      · cases h
      · rename_i hall
        simp only [Bool.not_eq_true', Bool.not_eq_false] at hall
        rw [List.all_eq_true] at hall
        intro c hc
        have := hall c hc
        cases c with
        | int i => exact ⟨i, rfl⟩
        | str s => simp at this

theorem items_digits_of_parsableCodes {t : Str} (h : parsableCodes (toList t) = true) :
    ∀ v ∈ items t, Py.isdigit v = true := by
  intro v hv
  have := parsableCodes_all_int h (if Py.isdigit v then Code.int (Py.digitsVal v) else Code.str v)
    (by rw [toList_eq]; exact List.mem_map.2 ⟨v, hv, rfl⟩)
  cases hd : Py.isdigit v with
  | true => rfl
  | false => rw [hd] at this; obtain ⟨i, hi⟩ := this; simp at hi

theorem isdigit_iff (v : Str) : Py.isdigit v = true ↔ v ≠ [] ∧ ∀ c ∈ v, Py.isDigit c = true := by
  cases v <;> simp [Py.isdigit]

theorem not_isTerm_of {c : Char} (h : c = ';' ∨ Py.isSpace c = true ∨ Py.isDigit c = true) : isTerm c = false := by
  have e : Gen.termLo = 64 := rfl
  simp only [isTerm, e]
  rcases h with rfl | h | h
  · decide
  · simp only [Py.isSpace, Bool.or_eq_true, beq_iff_eq, Bool.and_eq_true, decide_eq_true_eq, char_eq_iff] at h
    have : ' '.toNat = 32 := rfl
    have : ¬ 64 ≤ c.toNat := by omega
    simp [this]
  · rw [isDigit_iff] at h
    have : ¬ 64 ≤ c.toNat := by omega
    simp [this]

theorem valid_of_items_digits {t : Str} (h : ∀ v ∈ items t, Py.isdigit v = true) : valid t = true := by
  simp only [valid, List.all_eq_true, Bool.not_eq_true']
  intro c hc
  apply not_isTerm_of
  rcases mem_split ';' t c hc with h1 | ⟨it, hit, hcit⟩
  · exact Or.inl h1
  · rcases mem_strip it c hcit with h2 | h2
    · exact Or.inr (Or.inl h2)
    · have := h (Py.strip it) (List.mem_map.2 ⟨it, hit, rfl⟩)
      exact Or.inr (Or.inr (((isdigit_iff _).1 this).2 c h2))

/-- `parsable` in terms of the items and their values -/
theorem parsable_iff_items (t : Str) : parsable t = true ↔
    (∀ v ∈ items t, Py.isdigit v = true) ∧ groupVals ((items t).map Py.digitsVal) := by
  rw [parsable_eq, Bool.and_eq_true]
  constructor
  · rintro ⟨_, hp⟩
    have hd := items_digits_of_parsableCodes hp
    rw [toList_digits hd, parsableCodes_nat] at hp
    exact ⟨hd, hp⟩
  · rintro ⟨hd, hg⟩
    refine ⟨valid_of_items_digits hd, ?_⟩
    rw [toList_digits hd, parsableCodes_nat]; exact hg

/-! ## `';'.join(str(n) …)` and back -/

theorem split_joinSep : ∀ (xs : List Str), xs ≠ [] → (∀ x ∈ xs, ';' ∉ x) →
    Py.splitOnChar ';' (joinSep semi xs) = xs
  | [], h, _ => absurd rfl h
  | [a], _, h => by simpa [joinSep] using splitOnChar_no_sep ';' a (h a (by simp))
  | a :: b :: rest, _, h => by
    have ha : ';' ∉ a := h a (by simp)
    have := split_joinSep (b :: rest) (by simp) (fun x hx => h x (List.mem_cons_of_mem _ hx))
    simp only [joinSep, semi, List.append_assoc, List.singleton_append]
    rw [splitOnChar_append ';' a _ ha]
    exact congrArg _ this

theorem semi_not_mem_natStr (n : Nat) : ';' ∉ Py.natStr n := by
  intro h
  have := natStr_all n _ h
  simp [Py.isDigit] at this

theorem items_joinNats {l : List Nat} (h : l ≠ []) : items (joinNats l) = l.map Py.natStr := by
  unfold items joinNats
  rw [split_joinSep _ (by simpa using h) (by
    intro x hx; obtain ⟨n, _, rfl⟩ := List.mem_map.1 hx; exact semi_not_mem_natStr n)]
  rw [List.map_map]
  apply List.map_congr_left
  intro n _
  exact strip_digits (natStr_all n)

theorem parsable_joinNats {l : List Nat} (h : l ≠ []) : parsable (joinNats l) = true ↔ groupVals l := by
  rw [parsable_iff_items, items_joinNats h]
  have e : (l.map Py.natStr).map Py.digitsVal = l := by
    rw [List.map_map]
    conv => rhs; rw [← List.map_id l]
    apply List.map_congr_left
    intro n _; exact digitsVal_natStr n
  rw [e]
  constructor
  · exact fun h => h.2
  · intro hg
    refine ⟨?_, hg⟩
    intro v hv
    obtain ⟨n, _, rfl⟩ := List.mem_map.1 hv
    exact isdigit_natStr n

theorem toList_joinNats {l : List Nat} (h : l ≠ []) : toList (joinNats l) = natCodes l := by
  have hd : ∀ v ∈ items (joinNats l), Py.isdigit v = true := by
    rw [items_joinNats h]; intro v hv
    obtain ⟨n, _, rfl⟩ := List.mem_map.1 hv
    exact isdigit_natStr n
  rw [toList_digits hd, items_joinNats h, List.map_map]
  congr 1
  conv => rhs; rw [← List.map_id l]
  apply List.map_congr_left
  intro n _; exact digitsVal_natStr n

theorem natStr_eq_joinNats (n : Nat) : Py.natStr n = joinNats [n] := rfl

/-! ## the regular-expression matcher: equations and deterministic-run lemmas -/

open Re

theorem m_seq {α} (a b : Re) (s : Str) (caps : Caps) (k : Str → Caps → Option α) :
    m (seq a b) s caps k = m a s caps (fun rest caps' => m b rest caps' k) := by rw [m]
theorem m_cls_cons {α} (p : Char → Bool) (c : Char) (rest : Str) (caps : Caps) (k : Str → Caps → Option α) :
    m (cls p) (c :: rest) caps k = if p c then k rest caps else none := by rw [m]
theorem m_cls_nil {α} (p : Char → Bool) (caps : Caps) (k : Str → Caps → Option α) :
    m (cls p) [] caps k = none := by rw [m]
theorem m_eps {α} (s : Str) (caps : Caps) (k : Str → Caps → Option α) : m eps s caps k = k s caps := by rw [m]
theorem m_cap {α} (n : Nat) (r : Re) (s : Str) (caps : Caps) (k : Str → Caps → Option α) :
    m (cap n r) s caps k =
      m r s caps (fun rest caps' => k rest ((n, s.take (s.length - rest.length)) :: caps'.filter (·.1 != n))) := by
  rw [m]
theorem m_opt {α} (r : Re) (s : Str) (caps : Caps) (k : Str → Caps → Option α) :
    m (opt r) s caps k = (m r s caps k).or (k s caps) := by
  rw [m]; cases m r s caps k <;> rfl
theorem m_alt {α} (a b : Re) (s : Str) (caps : Caps) (k : Str → Caps → Option α) :
    m (alt a b) s caps k = (m a s caps k).or (m b s caps k) := by
  rw [m]; cases m a s caps k <;> rfl
theorem m_eos {α} (s : Str) (caps : Caps) (k : Str → Caps → Option α) :
    m eos s caps k = if s.isEmpty ∨ s == ['\n'] then k s caps else none := by rw [m]
theorem m_star {α} (p : Char → Bool) (s : Str) (caps : Caps) (k : Str → Caps → Option α) :
    m (star p) s caps k = m.go s caps k (s.takeWhile p).length := by rw [m]

theorem go_zero {α} (s : Str) (caps : Caps) (k : Str → Caps → Option α) : m.go s caps k 0 = k s caps := by
  rw [m.go]
theorem go_succ {α} (s : Str) (caps : Caps) (k : Str → Caps → Option α) (n : Nat) :
    m.go s caps k (n + 1) = (k (s.drop (n + 1)) caps).or (m.go s caps k n) := by
  rw [m.go]; cases k (s.drop (n + 1)) caps <;> rfl


theorem go_exact {α} (s : Str) (caps : Caps) (k : Str → Caps → Option α) :
    ∀ n, (∀ j, j < n → k (s.drop j) caps = none) → m.go s caps k n = k (s.drop n) caps
  | 0, _ => by rw [go_zero]; rfl
  | n + 1, h => by
    rw [go_succ]
    cases hk : k (s.drop (n + 1)) caps with
    | some a => rfl
    | none =>
      rw [Option.none_or, go_exact s caps k n (fun j hj => h j (by omega))]
      exact h n (by omega)

/-- a greedy `[..]*` whose shorter alternatives all fail is deterministic -/
theorem m_star_exact {α} (p : Char → Bool) (s : Str) (caps : Caps) (k : Str → Caps → Option α)
    (h : ∀ j, j < (s.takeWhile p).length → k (s.drop j) caps = none) :
    m (star p) s caps k = k (s.drop (s.takeWhile p).length) caps := by
  rw [m_star, go_exact s caps k _ h]

theorem m_star_skip {α} (p : Char → Bool) (s : Str) (caps : Caps) (k : Str → Caps → Option α)
    (h : ∀ c, s.head? = some c → p c = false) : m (star p) s caps k = k s caps := by
  have : s.takeWhile p = [] := by
    cases s with
    | nil => rfl
    | cons c r => simp [List.takeWhile, h c rfl]
  rw [m_star, this]; exact go_zero ..

theorem m_lit_append {α} : ∀ (p s : Str) (caps : Caps) (k : Str → Caps → Option α),
    m (lit p) (p ++ s) caps k = k s caps
  | [], s, caps, k => by simp [lit, m_eps]
  | c :: p, s, caps, k => by
    simp only [lit, List.cons_append, m_seq, m_cls_cons, beq_self_eq_true, if_true]
    exact m_lit_append p s caps k

theorem m_lit_none {α} : ∀ (p s : Str) (caps : Caps) (k : Str → Caps → Option α),
    Py.startsWith s p = false → m (lit p) s caps k = none
  | [], s, _, _, h => by cases s <;> simp [Py.startsWith] at h
  | c :: p, [], caps, k, _ => by simp [lit, m_seq, m_cls_nil]
  | c :: p, d :: s, caps, k, h => by
    simp only [Py.startsWith, Bool.and_eq_false_iff] at h
    simp only [lit, m_seq, m_cls_cons]
    by_cases hdc : d = c
    · subst hdc
      simp only [beq_self_eq_true, if_true]
      rcases h with h | h
      · simp at h
      · exact m_lit_none p s caps k h
    · simp [hdc]

theorem m_opt_cls_skip {α} (p : Char → Bool) (s : Str) (caps : Caps) (k : Str → Caps → Option α)
    (h : ∀ c, s.head? = some c → p c = false) : m (opt (cls p)) s caps k = k s caps := by
  rw [m_opt]
  cases s with
  | nil => rw [m_cls_nil]; rfl
  | cons c r => rw [m_cls_cons, h c rfl]; rfl


theorem takeWhile_append_run (p : Char → Bool) : ∀ (run rest : Str), (∀ c ∈ run, p c = true) →
    (∀ c, rest.head? = some c → p c = false) → (run ++ rest).takeWhile p = run
  | [], rest, _, h2 => by
    cases rest with
    | nil => rfl
    | cons c r => simp [h2 c rfl]
  | d :: run, rest, h1, h2 => by
    simp only [List.cons_append, List.takeWhile, h1 d (by simp)]
    rw [takeWhile_append_run p run rest (fun c hc => h1 c (List.mem_cons_of_mem _ hc)) h2]

/-- `([..]+)` as capture `b` on a run `ds` followed by a non-class character, when the
    continuation cannot start with a class character: deterministic, captures `ds` -/
theorem m_plus_cap_exact {α} (b : Nat) (p : Char → Bool) (ds rest : Str) (caps : Caps)
    (k : Str → Caps → Option α) (hne : ds ≠ []) (hp : ∀ c ∈ ds, p c = true)
    (hrest : ∀ c, rest.head? = some c → p c = false)
    (hk : ∀ d more caps', p d = true → k (d :: more) caps' = none) :
    m (cap b (plus p)) (ds ++ rest) caps k = k rest ((b, ds) :: caps.filter (·.1 != b)) := by
  cases ds with
  | nil => exact absurd rfl hne
  | cons d ds' =>
    have hp' : ∀ c ∈ ds', p c = true := fun c hc => hp c (List.mem_cons_of_mem _ hc)
    have htw := takeWhile_append_run p ds' rest hp' hrest
    rw [m_cap, plus, m_seq, List.cons_append, m_cls_cons, hp d (by simp), if_pos rfl]
    rw [m_star_exact]
    · rw [htw, List.drop_left]
      simp only [List.length_cons, List.length_append]
      have : ds'.length + rest.length + 1 - rest.length = ds'.length + 1 := by omega
      rw [this, List.take_succ_cons, List.take_left]
    · intro j hj
      rw [htw] at hj
      rw [List.drop_append_of_le_length (by omega), List.drop_eq_getElem_cons hj]
      exact hk _ _ _ (hp' _ (List.getElem_mem hj))

theorem startsWith_0x_false (ds rest : Str) (hne : ds ≠ []) (hd : ∀ c ∈ ds, Py.isDigit c = true)
    (hx : ∀ c, rest.head? = some c → c ≠ 'x') : Py.startsWith (ds ++ rest) "0x".toList = false := by
  have e : "0x".toList = ['0', 'x'] := by simp only [strLitToList]
  rw [e]
  match ds, hne, hd with
  | [d], _, _ =>
    cases rest with
    | nil => simp [Py.startsWith]
    | cons c r => simp [Py.startsWith, hx c rfl]
  | d :: d' :: r, _, hd =>
    have : d' ≠ 'x' := by
      intro h; have := hd d' (by simp); rw [h] at this; revert this; decide
    simp [Py.startsWith, this]

/-- `(0x)?([0-9a-fA-F]+)` on a decimal run followed by a non-hex character other than `x` -/
theorem m_reNum_exact {α} (a b : Nat) (ds rest : Str) (caps : Caps) (k : Str → Caps → Option α)
    (hne : ds ≠ []) (hd : ∀ c ∈ ds, Py.isDigit c = true)
    (hrest : ∀ c, rest.head? = some c → isHex c = false ∧ c ≠ 'x')
    (hk : ∀ d more caps', isHex d = true → k (d :: more) caps' = none) :
    m (reNum a b) (ds ++ rest) caps k = k rest ((b, ds) :: caps.filter (·.1 != b)) := by
  rw [reNum, m_seq, m_opt, m_cap,
    m_lit_none _ _ _ _ (startsWith_0x_false ds rest hne hd (fun c hc => (hrest c hc).2)), Option.none_or]
  exact m_plus_cap_exact b isHex ds rest caps k hne (fun c hc => isDigit_isHex (hd c hc))
    (fun c hc => (hrest c hc).1) hk


theorem isHex_iff (c : Char) : isHex c = true ↔
    (48 ≤ c.toNat ∧ c.toNat ≤ 57) ∨ (97 ≤ c.toNat ∧ c.toNat ≤ 102) ∨ (65 ≤ c.toNat ∧ c.toNat ≤ 70) := by
  simp [isHex, Py.isDigit, char_le_iff, or_assoc]

theorem isHex_not_space {c : Char} (h : isHex c = true) : Py.isSpace c = false := by
  rw [isHex_iff] at h
  have : ¬ c = ' ' := by rw [char_eq_iff]; show ¬ c.toNat = 32; omega
  simp [Py.isSpace, this]; omega

theorem isHex_ne {c d : Char} (h : isHex c = true) (hd : isHex d = false) : c ≠ d := by
  intro e; subst e; simp [h] at hd

theorem head?_append_mem {ds rest : Str} {c : Char} (hne : ds ≠ []) (h : (ds ++ rest).head? = some c) : c ∈ ds := by
  cases ds with
  | nil => exact absurd rfl hne
  | cons d r => simp at h; simp [h]

/-- `\s*(0x)?([0-9a-fA-F]+)\s*` on a decimal run followed by a character that is neither hex, `x`
    nor white space, when the continuation cannot start with a hex digit -/
theorem m_ws_num_ws {α} (a b : Nat) (ds rest : Str) (caps : Caps) (k : Str → Caps → Option α)
    (hne : ds ≠ []) (hd : ∀ c ∈ ds, Py.isDigit c = true)
    (hrest : ∀ c, rest.head? = some c → isHex c = false ∧ c ≠ 'x' ∧ Py.isSpace c = false)
    (hk : ∀ d more caps', isHex d = true → k (d :: more) caps' = none) :
    m reWs (ds ++ rest) caps (fun r c => m (reNum a b) r c (fun r c => m reWs r c k)) =
      k rest ((b, ds) :: caps.filter (·.1 != b)) := by
  rw [reWs, m_star_skip _ _ _ _ (fun c hc => isDigit_not_space (hd c (head?_append_mem hne hc)))]
  rw [m_reNum_exact a b ds rest caps _ hne hd (fun c hc => ⟨(hrest c hc).1, (hrest c hc).2.1⟩)]
  · exact m_star_skip _ _ _ _ (fun c hc => (hrest c hc).2.2)
  · intro d more caps' hdx
    rw [m_star_skip _ _ _ _ (fun c hc => by
      simp only [List.head?_cons, Option.some.injEq] at hc; subst hc; exact isHex_not_space hdx)]
    exact hk d more caps' hdx

/-- the regular expressions after the prefix group -/
def tail3 : Re :=
  .seq (Re.lit "rgb(".toList) (.seq reOpen (.seq reWs (.seq (reNum 2 3) (.seq reWs (.seq reComma
  (.seq reWs (.seq (reNum 4 5) (.seq reWs (.seq reComma (.seq reWs (.seq (reNum 6 7) (.seq reWs (.seq reClose
  (.seq (Re.lit ")".toList) .eos))))))))))))))
def tail1 : Re :=
  .seq (Re.lit "rgb(".toList) (.seq reOpen (.seq reWs (.seq (reNum 2 3) (.seq reWs (.seq reClose
  (.seq (Re.lit ")".toList) .eos))))))
def tailC : Re :=
  .seq (Re.lit "colo".toList) (.seq (.opt (.cls (· == 'u'))) (.seq (Re.lit "r256(".toList)
  (.seq reOpen (.seq reWs (.seq (reNum 2 3) (.seq reWs (.seq reClose (.seq (Re.lit ")".toList) .eos))))))))

theorem reRgb3_eq : reRgb3 = .seq rePrefix tail3 := rfl
theorem reRgb1_eq : reRgb1 = .seq rePrefix tail1 := rfl
theorem reColor_eq : reColor = .seq rePrefix tailC := rfl

def k0 : Str → Caps → Option Caps := fun _ caps => some caps

/-- the closing part `[\)\]]?\)$` on `")"` -/
theorem m_close {α} (caps : Caps) (k : Str → Caps → Option α) :
    m reClose [')'] caps (fun r c => m (lit ")".toList) r c (fun r c => m eos r c k)) = k [] caps := by
  have e : ")".toList = [')'] := by simp only [strLitToList]
  simp [reClose, m_opt, m_cls_cons, m_cls_nil, e, lit, m_seq, m_eps, m_eos]

theorem hex_digit_facts {d : Char} (h : isHex d = true) :
    (d == ',') = false ∧ (d == ')') = false ∧ (d == ']') = false ∧ (d == '[') = false ∧ (d == '(') = false := by
  rw [isHex_iff] at h
  simp only [beq_eq_false_iff_ne, ne_eq, char_eq_iff]
  refine ⟨?_, ?_, ?_, ?_, ?_⟩ <;> (intro e; rw [e] at h; revert h; decide)

theorem m_tail3 (R G B : Str) (caps : Caps)
    (hR : R ≠ [] ∧ ∀ c ∈ R, Py.isDigit c = true) (hG : G ≠ [] ∧ ∀ c ∈ G, Py.isDigit c = true)
    (hB : B ≠ [] ∧ ∀ c ∈ B, Py.isDigit c = true) :
    m tail3 ("rgb(".toList ++ (R ++ ',' :: (G ++ ',' :: (B ++ [')'])))) caps k0 =
      some ((7, B) :: (((5, G) :: (((3, R) :: caps.filter (·.1 != 3)).filter (·.1 != 5))).filter (·.1 != 7))) := by
  have comma : ∀ (s : Str) c, (',' :: s).head? = some c → isHex c = false ∧ c ≠ 'x' ∧ Py.isSpace c = false := by
    intro s c hc; simp only [List.head?_cons, Option.some.injEq] at hc; subst hc; decide
  have paren : ∀ c, [')'].head? = some c → isHex c = false ∧ c ≠ 'x' ∧ Py.isSpace c = false := by
    intro c hc; simp only [List.head?_cons, Option.some.injEq] at hc; subst hc; decide
  simp only [tail3, m_seq]
  rw [m_lit_append]
  rw [reOpen, m_opt_cls_skip _ _ _ _ (fun c hc => by
    have := hR.2 c (head?_append_mem hR.1 hc)
    have := hex_digit_facts (isDigit_isHex this)
    simp [this])]
  rw [m_ws_num_ws 2 3 R _ _ _ hR.1 hR.2 (comma _) (fun d more caps' hd => by
    rw [reComma, m_cls_cons, (hex_digit_facts hd).1]; rfl)]
  rw [reComma, m_cls_cons, if_pos (by decide)]
  rw [m_ws_num_ws 4 5 G _ _ _ hG.1 hG.2 (comma _) (fun d more caps' hd => by
    rw [m_cls_cons, (hex_digit_facts hd).1]; rfl)]
  rw [m_cls_cons, if_pos (by decide)]
  rw [m_ws_num_ws 6 7 B _ _ _ hB.1 hB.2 paren (fun d more caps' hd => by
    have f := hex_digit_facts hd
    rw [reClose, m_opt_cls_skip _ _ _ _ (fun c hc => by
      simp only [List.head?_cons, Option.some.injEq] at hc; subst hc; simp [f])]
    have e : ")".toList = [')'] := by simp only [strLitToList]
    simp [e, lit, m_seq, m_cls_cons, f])]
  rw [m_close]; rfl


/-- continuation that cannot start with one of the prefix letters -/
def NoPfxStart {α} (k : Str → Caps → Option α) : Prop :=
  ∀ c rest caps, c = 'f' ∨ c = 'b' ∨ c = 'u' ∨ c = 'd' → k (c :: rest) caps = none

theorem take_len_sub (p s : Str) : (p ++ s).take ((p ++ s).length - s.length) = p := by
  simp

theorem m_rePrefix_none {α} (s : Str) (caps : Caps) (k : Str → Caps → Option α)
    (hs : ∀ c, s.head? = some c → c ≠ 'f' ∧ c ≠ 'b' ∧ c ≠ 'u' ∧ c ≠ 'd') :
    m rePrefix s caps k = k s ((1, []) :: caps.filter (·.1 != 1)) := by
  have e1 : "fg_".toList = ['f','g','_'] := by simp only [strLitToList]
  have e2 : "bg_".toList = ['b','g','_'] := by simp only [strLitToList]
  have e3 : "ul_".toList = ['u','l','_'] := by simp only [strLitToList]
  have e4 : "dul_".toList = ['d','u','l','_'] := by simp only [strLitToList]
  cases s with
  | nil => simp [rePrefix, m_cap, m_alt, m_opt, e1, e2, e3, e4, lit, m_seq, m_cls_nil]
  | cons c rest =>
    have hc := hs c rfl
    simp [rePrefix, m_cap, m_alt, m_opt, e1, e2, e3, e4, lit, m_seq, m_cls_cons, hc]

theorem m_rePrefix_fg {α} (s : Str) (caps : Caps) (k : Str → Caps → Option α) (hk : NoPfxStart k) :
    m rePrefix ("fg_".toList ++ s) caps k = k s ((1, "fg_".toList) :: caps.filter (·.1 != 1)) := by
  have e1 : "fg_".toList = ['f','g','_'] := by simp only [strLitToList]
  have e2 : "bg_".toList = ['b','g','_'] := by simp only [strLitToList]
  have e3 : "ul_".toList = ['u','l','_'] := by simp only [strLitToList]
  have e4 : "dul_".toList = ['d','u','l','_'] := by simp only [strLitToList]
  have h := fun caps => hk 'f' ('g' :: '_' :: s) caps (by simp)
  have e : s.length + 1+ 1+ 1 - s.length = 3 := by omega
  simp [rePrefix, m_cap, m_alt, m_opt, e1, e2, e3, e4, lit, m_seq, m_cls_cons, m_eps, h, e]

theorem m_rePrefix_bg {α} (s : Str) (caps : Caps) (k : Str → Caps → Option α) (hk : NoPfxStart k) :
    m rePrefix ("bg_".toList ++ s) caps k = k s ((1, "bg_".toList) :: caps.filter (·.1 != 1)) := by
  have e1 : "fg_".toList = ['f','g','_'] := by simp only [strLitToList]
  have e2 : "bg_".toList = ['b','g','_'] := by simp only [strLitToList]
  have e3 : "ul_".toList = ['u','l','_'] := by simp only [strLitToList]
  have e4 : "dul_".toList = ['d','u','l','_'] := by simp only [strLitToList]
  have h := fun caps => hk 'b' ('g' :: '_' :: s) caps (by simp)
  have e : s.length + 1+ 1+ 1 - s.length = 3 := by omega
  simp [rePrefix, m_cap, m_alt, m_opt, e1, e2, e3, e4, lit, m_seq, m_cls_cons, m_eps, h, e]

theorem m_rePrefix_ul {α} (s : Str) (caps : Caps) (k : Str → Caps → Option α) (hk : NoPfxStart k) :
    m rePrefix ("ul_".toList ++ s) caps k = k s ((1, "ul_".toList) :: caps.filter (·.1 != 1)) := by
  have e1 : "fg_".toList = ['f','g','_'] := by simp only [strLitToList]
  have e2 : "bg_".toList = ['b','g','_'] := by simp only [strLitToList]
  have e3 : "ul_".toList = ['u','l','_'] := by simp only [strLitToList]
  have e4 : "dul_".toList = ['d','u','l','_'] := by simp only [strLitToList]
  have h := fun caps => hk 'u' ('l' :: '_' :: s) caps (by simp)
  have e : s.length + 1+ 1+ 1 - s.length = 3 := by omega
  simp [rePrefix, m_cap, m_alt, m_opt, e1, e2, e3, e4, lit, m_seq, m_cls_cons, m_eps, h, e]

theorem m_rePrefix_dul {α} (s : Str) (caps : Caps) (k : Str → Caps → Option α) (hk : NoPfxStart k) :
    m rePrefix ("dul_".toList ++ s) caps k = k s ((1, "dul_".toList) :: caps.filter (·.1 != 1)) := by
  have e1 : "fg_".toList = ['f','g','_'] := by simp only [strLitToList]
  have e2 : "bg_".toList = ['b','g','_'] := by simp only [strLitToList]
  have e3 : "ul_".toList = ['u','l','_'] := by simp only [strLitToList]
  have e4 : "dul_".toList = ['d','u','l','_'] := by simp only [strLitToList]
  have h := fun caps => hk 'd' ('u' :: 'l' :: '_' :: s) caps (by simp)
  have e : s.length + 1+ 1+ 1+ 1 - s.length = 4 := by omega
  simp [rePrefix, m_cap, m_alt, m_opt, e1, e2, e3, e4, lit, m_seq, m_cls_cons, m_eps, h, e]


/-- the spellings of the component prefix -/
def prefixes : List Str := [[], "fg_".toList, "bg_".toList, "ul_".toList, "dul_".toList]

theorem m_rePrefix_gen {α} (pfx : Str) (hp : pfx ∈ prefixes) (s : Str) (caps : Caps)
    (k : Str → Caps → Option α) (hs : ∀ c, s.head? = some c → c ≠ 'f' ∧ c ≠ 'b' ∧ c ≠ 'u' ∧ c ≠ 'd')
    (hk : NoPfxStart k) :
    m rePrefix (pfx ++ s) caps k = k s ((1, pfx) :: caps.filter (·.1 != 1)) := by
  simp only [prefixes, List.mem_cons, List.not_mem_nil, or_false] at hp
  rcases hp with rfl | rfl | rfl | rfl | rfl
  · exact m_rePrefix_none s caps k hs
  · exact m_rePrefix_fg s caps k hk
  · exact m_rePrefix_bg s caps k hk
  · exact m_rePrefix_ul s caps k hk
  · exact m_rePrefix_dul s caps k hk

theorem noPfxStart_lit {α} (w : Str) (c0 : Char) (X : Re) (k : Str → Caps → Option α)
    (hw : w.head? = some c0) (hc0 : c0 ≠ 'f' ∧ c0 ≠ 'b' ∧ c0 ≠ 'u' ∧ c0 ≠ 'd') :
    NoPfxStart (fun r c => m (.seq (lit w) X) r c k) := by
  intro c rest caps hc
  cases w with
  | nil => simp at hw
  | cons w0 w' =>
    simp only [List.head?_cons, Option.some.injEq] at hw
    subst hw
    have : (c == w0) = false := by
      rcases hc with rfl | rfl | rfl | rfl <;> simp [Ne.symm hc0.1, Ne.symm hc0.2.1, Ne.symm hc0.2.2.1, Ne.symm hc0.2.2.2]
    show m (.seq (lit (w0 :: w')) X) (c :: rest) caps k = none
    simp [m_seq, lit, m_cls_cons, this]

theorem rgbLit_head : "rgb(".toList.head? = some 'r' := by simp only [strLitToList]; rfl
theorem coloLit_head : "colo".toList.head? = some 'c' := by simp only [strLitToList]; rfl

theorem noPfx_tail3 : NoPfxStart (fun r c => m tail3 r c k0) :=
  noPfxStart_lit _ 'r' _ k0 rgbLit_head (by decide)
theorem noPfx_tail1 : NoPfxStart (fun r c => m tail1 r c k0) :=
  noPfxStart_lit _ 'r' _ k0 rgbLit_head (by decide)
theorem noPfx_tailC : NoPfxStart (fun r c => m tailC r c k0) :=
  noPfxStart_lit _ 'c' _ k0 coloLit_head (by decide)

theorem head_rgb (X : Str) : ∀ c, ("rgb(".toList ++ X).head? = some c → c ≠ 'f' ∧ c ≠ 'b' ∧ c ≠ 'u' ∧ c ≠ 'd' := by
  intro c hc
  have e : "rgb(".toList = ['r','g','b','('] := by simp only [strLitToList]
  rw [e] at hc; simp at hc; subst hc; decide
theorem head_colo (X : Str) : ∀ c, ("colo".toList ++ X).head? = some c → c ≠ 'f' ∧ c ≠ 'b' ∧ c ≠ 'u' ∧ c ≠ 'd' := by
  intro c hc
  have e : "colo".toList = ['c','o','l','o'] := by simp only [strLitToList]
  rw [e] at hc; simp at hc; subst hc; decide

/-- `^(prefix)rgb\(N,N,N\)$` on canonical decimal arguments -/
theorem match_rgb3 (pfx : Str) (hp : pfx ∈ prefixes) (R G B : Str)
    (hR : R ≠ [] ∧ ∀ c ∈ R, Py.isDigit c = true) (hG : G ≠ [] ∧ ∀ c ∈ G, Py.isDigit c = true)
    (hB : B ≠ [] ∧ ∀ c ∈ B, Py.isDigit c = true) :
    matchStart reRgb3 (pfx ++ ("rgb(".toList ++ (R ++ ',' :: (G ++ ',' :: (B ++ [')']))))) =
      some [(7, B), (5, G), (3, R), (1, pfx)] := by
  show m reRgb3 _ [] k0 = _
  rw [reRgb3_eq, m_seq, m_rePrefix_gen pfx hp _ _ _ (head_rgb _) noPfx_tail3, m_tail3 R G B _ hR hG hB]
  rfl


theorem paren_head : ∀ c, [')'].head? = some c → isHex c = false ∧ c ≠ 'x' ∧ Py.isSpace c = false := by
  intro c hc; simp only [List.head?_cons, Option.some.injEq] at hc; subst hc; decide

theorem open_skip_digits {α} (V rest : Str) (caps : Caps) (k : Str → Caps → Option α)
    (hV : V ≠ [] ∧ ∀ c ∈ V, Py.isDigit c = true) : m reOpen (V ++ rest) caps k = k (V ++ rest) caps := by
  rw [reOpen, m_opt_cls_skip _ _ _ _ (fun c hc => by
    have := hV.2 c (head?_append_mem hV.1 hc)
    have := hex_digit_facts (isDigit_isHex this)
    simp [this])]

/-- the continuation `[\)\]]?\)$` cannot start with a hex digit -/
theorem close_none_hex {α} (d : Char) (more : Str) (caps : Caps) (k : Str → Caps → Option α)
    (hd : isHex d = true) :
    m reClose (d :: more) caps (fun r c => m (lit ")".toList) r c (fun r c => m eos r c k)) = none := by
  have f := hex_digit_facts hd
  rw [reClose, m_opt_cls_skip _ _ _ _ (fun c hc => by
    simp only [List.head?_cons, Option.some.injEq] at hc; subst hc; simp [f])]
  have e : ")".toList = [')'] := by simp only [strLitToList]
  simp [e, lit, m_seq, m_cls_cons, f]

/-- `\([\[\()]?\s*N\s*[\)\]]?\)$` on one canonical decimal argument -/
theorem m_arg1 (V : Str) (caps : Caps) (hV : V ≠ [] ∧ ∀ c ∈ V, Py.isDigit c = true) :
    m reOpen (V ++ [')']) caps (fun r c => m reWs r c (fun r c => m (reNum 2 3) r c (fun r c => m reWs r c
      (fun r c => m reClose r c (fun r c => m (lit ")".toList) r c (fun r c => m eos r c k0)))))) =
      some ((3, V) :: caps.filter (·.1 != 3)) := by
  rw [open_skip_digits V _ _ _ hV]
  rw [m_ws_num_ws 2 3 V _ _ _ hV.1 hV.2 paren_head (fun d more caps' hd => close_none_hex d more caps' k0 hd)]
  rw [m_close]; rfl

theorem m_tail1 (V : Str) (caps : Caps) (hV : V ≠ [] ∧ ∀ c ∈ V, Py.isDigit c = true) :
    m tail1 ("rgb(".toList ++ (V ++ [')'])) caps k0 = some ((3, V) :: caps.filter (·.1 != 3)) := by
  simp only [tail1, m_seq]
  rw [m_lit_append]
  exact m_arg1 V caps hV

/-- the three-value pattern does not match a one-value string -/
theorem m_tail3_single (V : Str) (caps : Caps) (hV : V ≠ [] ∧ ∀ c ∈ V, Py.isDigit c = true) :
    m tail3 ("rgb(".toList ++ (V ++ [')'])) caps k0 = none := by
  simp only [tail3, m_seq]
  rw [m_lit_append, open_skip_digits V _ _ _ hV]
  rw [m_ws_num_ws 2 3 V _ _ _ hV.1 hV.2 paren_head (fun d more caps' hd => by
    rw [reComma, m_cls_cons, (hex_digit_facts hd).1]; rfl)]
  rw [reComma, m_cls_cons]; rfl

theorem m_tailC (u : Bool) (V : Str) (caps : Caps) (hV : V ≠ [] ∧ ∀ c ∈ V, Py.isDigit c = true) :
    m tailC ("colo".toList ++ ((if u then ['u'] else []) ++ ("r256(".toList ++ (V ++ [')'])))) caps k0 =
      some ((3, V) :: caps.filter (·.1 != 3)) := by
  have e : "r256(".toList = ['r','2','5','6','('] := by simp only [strLitToList]
  simp only [tailC, m_seq]
  rw [m_lit_append]
  cases u with
  | false =>
    rw [if_neg (by simp), List.nil_append, m_opt_cls_skip _ _ _ _ (fun c hc => by
      rw [e] at hc; simp at hc; subst hc; decide)]
    rw [m_lit_append]
    exact m_arg1 V caps hV
  | true =>
    rw [if_pos rfl, m_opt, List.singleton_append, m_cls_cons, if_pos (by decide), m_lit_append, m_arg1 V caps hV]
    rfl

theorem m_tail_rgb_on_colo {α} (X : Re) (Y : Str) (caps : Caps) (k : Str → Caps → Option α) :
    m (.seq (lit "rgb(".toList) X) ("colo".toList ++ Y) caps k = none := by
  have e1 : "rgb(".toList = ['r','g','b','('] := by simp only [strLitToList]
  have e2 : "colo".toList = ['c','o','l','o'] := by simp only [strLitToList]
  simp [e1, e2, m_seq, lit, m_cls_cons]

theorem match_rgb3_single (V : Str) (hV : V ≠ [] ∧ ∀ c ∈ V, Py.isDigit c = true) :
    matchStart reRgb3 ("rgb(".toList ++ (V ++ [')'])) = none := by
  show m reRgb3 _ [] k0 = _
  rw [reRgb3_eq, m_seq, m_rePrefix_none _ _ _ (head_rgb _)]
  exact m_tail3_single V _ hV

theorem match_rgb1 (V : Str) (hV : V ≠ [] ∧ ∀ c ∈ V, Py.isDigit c = true) :
    matchStart reRgb1 ("rgb(".toList ++ (V ++ [')'])) = some [(3, V), (1, [])] := by
  show m reRgb1 _ [] k0 = _
  rw [reRgb1_eq, m_seq, m_rePrefix_none _ _ _ (head_rgb _), m_tail1 V _ hV]
  rfl

theorem match_rgb3_colo (pfx : Str) (hp : pfx ∈ prefixes) (Y : Str) :
    matchStart reRgb3 (pfx ++ ("colo".toList ++ Y)) = none := by
  show m reRgb3 _ [] k0 = _
  rw [reRgb3_eq, m_seq, m_rePrefix_gen pfx hp _ _ _ (head_colo _) noPfx_tail3]
  exact m_tail_rgb_on_colo _ _ _ _

theorem match_rgb1_colo (pfx : Str) (hp : pfx ∈ prefixes) (Y : Str) :
    matchStart reRgb1 (pfx ++ ("colo".toList ++ Y)) = none := by
  show m reRgb1 _ [] k0 = _
  rw [reRgb1_eq, m_seq, m_rePrefix_gen pfx hp _ _ _ (head_colo _) noPfx_tail1]
  exact m_tail_rgb_on_colo _ _ _ _

theorem match_color (pfx : Str) (hp : pfx ∈ prefixes) (u : Bool) (V : Str)
    (hV : V ≠ [] ∧ ∀ c ∈ V, Py.isDigit c = true) :
    matchStart reColor (pfx ++ ("colo".toList ++ ((if u then ['u'] else []) ++ ("r256(".toList ++ (V ++ [')']))))) =
      some [(3, V), (1, pfx)] := by
  show m reColor _ [] k0 = _
  rw [reColor_eq, m_seq, m_rePrefix_gen pfx hp _ _ _ (head_colo _) noPfx_tailC, m_tailC u V _ hV]
  rfl


/-! ## `_parse_rgb_string` on the canonical spellings -/

theorem numVal_digits {V : Str} (hV : ∀ c ∈ V, Py.isDigit c = true) : numVal V false = some (Py.digitsVal V) := by
  have : V.all Py.isDigit = true := List.all_eq_true.2 hV
  simp [numVal, this]

theorem natStr_ok (n : Nat) : Py.natStr n ≠ [] ∧ ∀ c ∈ Py.natStr n, Py.isDigit c = true :=
  ⟨natStr_ne_nil n, natStr_all n⟩

theorem parse_rgb3 (pfx : Str) (hp : pfx ∈ prefixes) (r g b : Nat) :
    parseRgbString (pfx ++ ("rgb(".toList ++ (Py.natStr r ++ ',' :: (Py.natStr g ++ ',' :: (Py.natStr b ++ [')']))))) =
      some (.ok (colorSettings (component (some pfx)) true [min 255 r, min 255 g, min 255 b])) := by
  unfold parseRgbString
  rw [match_rgb3 pfx hp _ _ _ (natStr_ok r) (natStr_ok g) (natStr_ok b)]
  simp [Re.group, numVal_digits (natStr_all _), digitsVal_natStr]

theorem parse_rgb1 (v : Nat) :
    parseRgbString ("rgb(".toList ++ (Py.natStr v ++ [')'])) =
      some (.ok (colorSettings 0 true [(v / 65536) % 256, (v / 256) % 256, v % 256])) := by
  unfold parseRgbString
  rw [match_rgb3_single _ (natStr_ok v), match_rgb1 _ (natStr_ok v)]
  simp [Re.group, numVal_digits (natStr_all _), digitsVal_natStr, component]

theorem parse_color (pfx : Str) (hp : pfx ∈ prefixes) (u : Bool) (n : Nat) :
    parseRgbString (pfx ++ ("colo".toList ++ ((if u then ['u'] else []) ++ ("r256(".toList ++ (Py.natStr n ++ [')']))))) =
      some (.ok (colorSettings (component (some pfx)) false [n])) := by
  unfold parseRgbString
  rw [match_rgb3_colo pfx hp, match_rgb1_colo pfx hp, match_color pfx hp u _ (natStr_ok n)]
  simp [Re.group, numVal_digits (natStr_all _), digitsVal_natStr]

theorem component_vals : component (some []) = 0 ∧ component (some "fg_".toList) = 0 ∧
    component (some "bg_".toList) = 1 ∧ component (some "ul_".toList) = 2 ∧ component (some "dul_".toList) = 3 := by
  simp only [strLitToList]; decide

/-- a directive containing `(` is not an AnsiFormat name; if `_parse_rgb_string` accepts it, its
    settings are the result -/
theorem scrub_str_rgb {s : Str} {ts : List Str} (hs : ';' ∉ s) (hp : '(' ∈ s) (hb : s.head? ≠ some '[')
    (h : parseRgbString s = some (.ok ts)) : scrub (.str s) = .ok ts := by
  have hne : s ≠ [] := by intro e; rw [e] at hp; simp at hp
  have hl : lookupFormat (normName s) = none := by
    apply lookup_none_of_char (c := '(')
    · rw [normName_eq_map]; exact List.mem_map.2 ⟨'(', hp, by decide⟩
    · decide
  rw [scrub_str_eq, scrubString_single hne hb hs]
  simp [scrubDirective, hl, h, bind, Except.bind, pure, Except.pure, combineInts_settings]

/-! ## integers given as text -/

theorem parseDigitsU_some : ∀ (ds : Str) (acc : Nat), (∀ c ∈ ds, Py.isDigit c = true) →
    Py.parseDigitsU ds (some acc) false = some (ds.foldl (fun n c => 10 * n + (c.toNat - '0'.toNat)) acc)
  | [], acc, _ => by simp [Py.parseDigitsU]
  | d :: ds, acc, h => by
    have hd := h d (by simp)
    simp only [Py.parseDigitsU, hd, if_true, Option.getD_some, List.foldl_cons]
    exact parseDigitsU_some ds _ (fun c hc => h c (List.mem_cons_of_mem _ hc))

theorem parseDigitsU_digits {ds : Str} (hne : ds ≠ []) (h : ∀ c ∈ ds, Py.isDigit c = true) :
    Py.parseDigitsU ds none false = some (Py.digitsVal ds) := by
  cases ds with
  | nil => exact absurd rfl hne
  | cons d ds =>
    have hd := h d (by simp)
    simp only [Py.parseDigitsU, hd, if_true, Option.getD_none, Py.digitsVal, List.foldl_cons]
    exact parseDigitsU_some ds _ (fun c hc => h c (List.mem_cons_of_mem _ hc))

theorem int_digits {ds : Str} (hne : ds ≠ []) (h : ∀ c ∈ ds, Py.isDigit c = true) :
    Py.int ds = some (Py.digitsVal ds : Int) := by
  unfold Py.int
  rw [strip_digits h]
  cases ds with
  | nil => exact absurd rfl hne
  | cons d ds' =>
    have hd := h d (by simp)
    have h1 : d ≠ '+' := by intro e; rw [e] at hd; revert hd; decide
    have h2 : d ≠ '-' := by intro e; rw [e] at hd; revert hd; decide
    split
    · rename_i heq; injection heq with e1 _; exact absurd e1 h1
    · rename_i heq; injection heq with e1 _; exact absurd e1 h2
    · rw [parseDigitsU_digits hne h]; rfl

/-- no AnsiFormat name starts with a decimal digit (one linear pass) -/
def namesNoDigitStart (l : List (Str × List Str)) : Bool :=
  l.all (fun r => match r.1 with | c :: _ => !Py.isDigit c | [] => true)

set_option maxRecDepth 100000 in
theorem table_no_digit_start : namesNoDigitStart Gen.formatTable = true := by scrubl_table_decide

theorem lookup_none_of_digit_head {n : Str} {c : Char} (hc : n.head? = some c) (hd : Py.isDigit c = true) :
    lookupFormat n = none := by
  cases h : lookupFormat n with
  | none => rfl
  | some ts =>
    unfold lookupFormat at h
    cases hf : Gen.formatTable.find? (fun r => r.1 == n) with
    | none => simp [hf] at h
    | some r =>
      have h1 : r.1 = n := by simpa using List.find?_some hf
      have h2 := List.mem_of_find?_eq_some hf
      have h3 := table_no_digit_start
      simp only [namesNoDigitStart, List.all_eq_true] at h3
      have := h3 r h2
      rw [h1] at this
      cases n with
      | nil => simp at hc
      | cons c' n' =>
        simp only [List.head?_cons, Option.some.injEq] at hc; subst hc
        simp [hd] at this

theorem normChar_digit {c : Char} (h : Py.isDigit c = true) : normChar c = c :=
  normChar_variant c c (by simp [isNameChar, Py.isDigit] at h ⊢; simp [h])
    (fun _ => Or.inl rfl) (fun e => by rw [e] at h; exact absurd h (by decide)) (fun _ => rfl)

theorem normName_digits {ds : Str} (h : ∀ c ∈ ds, Py.isDigit c = true) : normName ds = ds := by
  rw [normName_eq_map]
  conv => rhs; rw [← List.map_id ds]
  exact List.map_congr_left (fun c hc => normChar_digit (h c hc))

/-- `_parse_rgb_string` returns None on a string that cannot start any of the patterns -/
theorem parseRgb_none_of_head {s : Str}
    (h : ∀ c, s.head? = some c → c ≠ 'f' ∧ c ≠ 'b' ∧ c ≠ 'u' ∧ c ≠ 'd' ∧ c ≠ 'r' ∧ c ≠ 'c') :
    parseRgbString s = none := by
  have h' : ∀ c, s.head? = some c → c ≠ 'f' ∧ c ≠ 'b' ∧ c ≠ 'u' ∧ c ≠ 'd' :=
    fun c hc => ⟨(h c hc).1, (h c hc).2.1, (h c hc).2.2.1, (h c hc).2.2.2.1⟩
  have e1 : "rgb(".toList = ['r','g','b','('] := by simp only [strLitToList]
  have e2 : "colo".toList = ['c','o','l','o'] := by simp only [strLitToList]
  have t : ∀ (w : Str) (w0 : Char) (w' : Str) (X : Re) (caps : Caps), w = w0 :: w' →
      (∀ c, s.head? = some c → c ≠ w0) → m (.seq (lit w) X) s caps k0 = none := by
    intro w w0 w' X caps hw hc
    subst hw
    cases s with
    | nil => simp [m_seq, lit, m_cls_nil]
    | cons c rest =>
      have : (c == w0) = false := by simpa using hc c rfl
      simp [m_seq, lit, m_cls_cons, this]
  have r3 : matchStart reRgb3 s = none := by
    show m reRgb3 s [] k0 = none
    rw [reRgb3_eq, m_seq, m_rePrefix_none s _ _ h']
    exact t _ 'r' _ _ _ e1 (fun c hc => (h c hc).2.2.2.2.1)
  have r1 : matchStart reRgb1 s = none := by
    show m reRgb1 s [] k0 = none
    rw [reRgb1_eq, m_seq, m_rePrefix_none s _ _ h']
    exact t _ 'r' _ _ _ e1 (fun c hc => (h c hc).2.2.2.2.1)
  have rc : matchStart reColor s = none := by
    show m reColor s [] k0 = none
    rw [reColor_eq, m_seq, m_rePrefix_none s _ _ h']
    exact t _ 'c' _ _ _ e2 (fun c hc => (h c hc).2.2.2.2.2)
  simp [parseRgbString, r3, r1, rc]

theorem digit_head_facts {c : Char} (h : Py.isDigit c = true) :
    c ≠ 'f' ∧ c ≠ 'b' ∧ c ≠ 'u' ∧ c ≠ 'd' ∧ c ≠ 'r' ∧ c ≠ 'c' := by
  refine ⟨?_, ?_, ?_, ?_, ?_, ?_⟩ <;> (intro e; rw [e] at h; revert h; decide)

/-- a directive that is a run of decimal digits is that integer -/
theorem scrubDirective_digits {ds : Str} (hne : ds ≠ []) (h : ∀ c ∈ ds, Py.isDigit c = true) :
    scrubDirective ds = .ok [.int (Py.digitsVal ds : Int)] := by
  have hhead : ∀ c, ds.head? = some c → Py.isDigit c = true := fun c hc => h c (List.mem_of_mem_head? hc)
  have hl : lookupFormat (normName ds) = none := by
    rw [normName_digits h]
    cases ds with
    | nil => exact absurd rfl hne
    | cons d r => exact lookup_none_of_digit_head rfl (h d (by simp))
  have hp : parseRgbString ds = none := parseRgb_none_of_head (fun c hc => digit_head_facts (hhead c hc))
  have he : ds.isEmpty = false := by cases ds <;> simp_all
  have hnn : ¬ ((Py.digitsVal ds : Int) < 0) := by omega
  simp [scrubDirective, hl, hp, he, int_digits hne h, hnn]

/-! ## several directives -/

/-- the directive loop of `_scrub_ansi_format_string` -/
def scrubDirectives : List Str → Except PyErr (List SOut)
  | [] => .ok []
  | f :: fs => do
    let r ← scrubDirective f
    let rs ← scrubDirectives fs
    pure (r ++ rs)

theorem foldlM_directives : ∀ (fs : List Str) (acc : List SOut),
    fs.foldlM (fun acc fmt => do let r ← scrubDirective fmt; pure (acc ++ r)) acc =
      (do let rs ← scrubDirectives fs; pure (acc ++ rs))
  | [], acc => by simp [scrubDirectives, bind, Except.bind, pure, Except.pure]
  | f :: fs, acc => by
    simp only [List.foldlM_cons, scrubDirectives]
    cases hd : scrubDirective f with
    | error e => simp [bind, Except.bind]
    | ok r =>
      simp only [bind, Except.bind, pure, Except.pure]
      have := foldlM_directives fs (acc ++ r)
      simp only [bind, Except.bind, pure, Except.pure] at this
      rw [this]
      cases scrubDirectives fs <;> simp

theorem scrubString_eq_directives {s : Str} (hne : s ≠ []) (hb : s.head? ≠ some '[') :
    scrubString s = scrubDirectives (Py.splitOnChar ';' s) := by
  cases s with
  | nil => exact absurd rfl hne
  | cons c rest =>
    have hc : c ≠ '[' := fun h => hb (by simp [h])
    unfold scrubString
    split
    · rename_i h; cases h
    · rename_i h; injection h with h1 h2; exact absurd h1 hc
    · rw [foldlM_directives]
      cases scrubDirectives (Py.splitOnChar ';' (c :: rest)) <;> simp [bind, Except.bind, pure, Except.pure]

/- NB: `scrubDirective`/`lookupFormat` must never be unfolded on a *closed* argument inside a proof
   term: the kernel would then evaluate the lookup over `Gen.formatTable`, including the UTF-8
   decoding of all its string literals (~30 s).  Hence the detour through a variable. -/
theorem scrubDirective_nil' (s : Str) (hs : s = []) : scrubDirective s = .ok [] := by
  have hl : lookupFormat (normName s) = none := by
    cases h : lookupFormat (normName s) with
    | none => rfl
    | some ts => subst hs; exact absurd rfl (lookup_some_chars h).1
  have hp : parseRgbString s = none := parseRgb_none_of_head (fun c hc => by subst hs; simp at hc)
  have he : s.isEmpty = true := by subst hs; rfl
  unfold scrubDirective
  rw [hl, hp]
  simp only [he, if_true]

theorem scrubDirective_nil : scrubDirective [] = .ok [] := scrubDirective_nil' [] rfl

theorem scrubDirectives_cons (f : Str) (fs : List Str) :
    scrubDirectives (f :: fs) = (do let r ← scrubDirective f; let rs ← scrubDirectives fs; pure (r ++ rs)) := by
  rw [scrubDirectives]

theorem scrubDirectives_nil : scrubDirectives [] = .ok [] := by rw [scrubDirectives]

theorem scrubString_as_directives {s : Str} (hb : s.head? ≠ some '[') :
    scrubString s = scrubDirectives (Py.splitOnChar ';' s) := by
  cases s with
  | nil =>
    have e : Py.splitOnChar ';' [] = [[]] := rfl
    have e2 : scrubString [] = .ok [] := rfl
    rw [e, e2, scrubDirectives_cons, scrubDirectives_nil, scrubDirective_nil]
    rfl
  | cons c r => exact scrubString_eq_directives (by simp) hb

theorem scrubString_multi {a b : Str} (hne : a ≠ []) (hb : a.head? ≠ some '[') (hs : ';' ∉ a) :
    scrubString (a ++ ';' :: b) =
      (do let r ← scrubDirective a; let rs ← scrubDirectives (Py.splitOnChar ';' b); pure (r ++ rs)) := by
  have h1 : a ++ ';' :: b ≠ [] := by simp
  have h2 : (a ++ ';' :: b).head? ≠ some '[' := by
    cases a with
    | nil => exact absurd rfl hne
    | cons c r => simpa using hb
  rw [scrubString_eq_directives h1 h2, splitOnChar_append ';' a b hs, scrubDirectives_cons]

theorem scrubDirectives_digits : ∀ (l : List Nat),
    scrubDirectives (l.map Py.natStr) = .ok (l.map (fun (n : Nat) => SOut.int (n : Int)))
  | [] => rfl
  | n :: l => by
    simp [scrubDirectives, scrubDirective_digits (natStr_ne_nil n) (natStr_all n), digitsVal_natStr,
      scrubDirectives_digits l, bind, Except.bind, pure, Except.pure]

theorem scrubItems_ints : ∀ (l : List Nat),
    scrubItems (l.map (fun (n : Nat) => SArg.int (n : Int))) = .ok (l.map (fun (n : Nat) => SOut.int (n : Int)))
  | [] => rfl
  | n :: l => by
    have : ¬ ((n : Int) < 0) := by omega
    simp [scrubItems, scrubItem, this, scrubItems_ints l, bind, Except.bind, pure, Except.pure]

theorem joinNats_head {l : List Nat} (h : l ≠ []) : ∀ c, (joinNats l).head? = some c → Py.isDigit c = true := by
  intro c hc
  match l, h with
  | [n], _ => exact natStr_all n c (List.mem_of_mem_head? hc)
  | n :: n' :: r, _ =>
    simp only [joinNats, List.map_cons, joinSep] at hc
    rw [List.append_assoc] at hc
    exact natStr_all n c (head?_append_mem (natStr_ne_nil n) hc)

/-- codes written as one `;`-separated string ≡ the same codes given as a list of ints -/
theorem scrub_codes_string {l : List Nat} (h : l ≠ []) :
    scrub (.str (joinNats l)) = scrub (.list (l.map (fun (n : Nat) => SArg.int (n : Int)))) := by
  have hb : (joinNats l).head? ≠ some '[' := by
    intro e; have := joinNats_head h _ e; revert this; decide
  have hsplit : Py.splitOnChar ';' (joinNats l) = l.map Py.natStr := by
    unfold joinNats
    exact split_joinSep _ (by simpa using h) (by
      intro x hx; obtain ⟨n, _, rfl⟩ := List.mem_map.1 hx; exact semi_not_mem_natStr n)
  rw [scrub_str_eq, scrubString_as_directives hb, hsplit, scrubDirectives_digits]
  simp [scrub, scrubItems_ints]

/-! ## nesting -/

theorem scrubItem_list_of_settings {l : List SArg} {ts : List Str}
    (h : scrubItems l = .ok (ts.map SOut.setting)) : scrubItem (.list l) = scrubItems l := by
  simp [scrubItem, h, bind, Except.bind, pure, Except.pure, combineInts_settings]

theorem scrub_nested_singleton (l : List SArg) : scrub (.list [.list l]) = scrub (.list l) := by
  simp only [scrub, scrubItems, scrubItem]
  cases scrubItems l with
  | error e => rfl
  | ok r => simp [bind, Except.bind, pure, Except.pure, combineInts_settings]

theorem normName_cons (c : Char) (cs : Str) : normName (c :: cs) = normChar c :: normName cs := rfl

/-- what a string that normalises to an AnsiFormat name looks like -/
theorem name_string_facts {v name : Str} (h : normName v = name) (hne : name ≠ [])
    (hc : ∀ c ∈ name, isNameChar c = true) : v ≠ [] ∧ v.head? ≠ some '[' ∧ ';' ∉ v := by
  refine ⟨?_, ?_, ?_⟩
  · intro e; subst e; exact hne h.symm
  · intro e
    cases v with
    | nil => simp at e
    | cons c cs =>
      simp only [List.head?_cons, Option.some.injEq] at e; subst e
      rw [normName_cons] at h
      have := hc (normChar '[') (by rw [← h]; simp)
      revert this; decide
  · intro e
    have : normChar ';' ∈ normName v := by rw [normName_eq_map]; exact List.mem_map.2 ⟨';', e, rfl⟩
    rw [h] at this
    have := hc _ this
    revert this; decide

/-! ## assembling `scrubDirective` / `scrub` results from facts about a (possibly closed) string
    without letting the kernel evaluate the table lookup -/

theorem lookup_none_of_all_ne {n : Str} (h : Gen.formatTable.all (fun r => r.1 != n) = true) :
    lookupFormat n = none := by
  unfold lookupFormat
  rw [List.all_eq_true] at h
  have : Gen.formatTable.find? (fun r => r.1 == n) = none := by
    rw [List.find?_eq_none]
    intro r hr
    have := h r hr
    simpa using this
  rw [this]; rfl

theorem scrubDirective_unknown (s : Str) (hl : lookupFormat (normName s) = none)
    (hp : parseRgbString s = none) (he : s.isEmpty = false) (hi : Py.int s = none) :
    scrubDirective s = .error .valueError := by
  unfold scrubDirective; rw [hl, hp]; simp only [he, hi]; rfl

theorem scrubDirective_negative (s : Str) (i : Int) (hl : lookupFormat (normName s) = none)
    (hp : parseRgbString s = none) (he : s.isEmpty = false) (hi : Py.int s = some i) (hneg : i < 0) :
    scrubDirective s = .error .valueError := by
  unfold scrubDirective; rw [hl, hp]; simp only [he, hi, hneg]; rfl

theorem scrubDirective_rgb_error (s : Str) (e : PyErr) (hl : lookupFormat (normName s) = none)
    (hp : parseRgbString s = some (.error e)) : scrubDirective s = .error e := by
  unfold scrubDirective; rw [hl, hp]

theorem scrub_str_single_error (s : Str) (e : PyErr) (hne : s ≠ []) (hb : s.head? ≠ some '[') (hs : ';' ∉ s)
    (h : scrubDirective s = .error e) : scrub (.str s) = .error e := by
  rw [scrub_str_eq, scrubString_single hne hb hs, h]; rfl

theorem scrub_str_multi_error_snd (a b : Str) (e : PyErr) (ra : List SOut) (hne : a ≠ [])
    (hb : a.head? ≠ some '[') (hs : ';' ∉ a) (hs' : ';' ∉ b)
    (ha : scrubDirective a = .ok ra) (h : scrubDirective b = .error e) :
    scrub (.str (a ++ ';' :: b)) = .error e := by
  rw [scrub_str_eq, scrubString_multi hne hb hs, splitOnChar_no_sep ';' b hs', scrubDirectives_cons, ha, h]
  rfl

/-! ## `scrub` of the canonical colour spellings -/

theorem semi_not_mem_prefix {pfx : Str} (hp : pfx ∈ prefixes) : ';' ∉ pfx := by
  simp only [prefixes, strLitToList, List.mem_cons, List.not_mem_nil, or_false] at hp
  rcases hp with rfl | rfl | rfl | rfl | rfl <;> decide

theorem prefix_head {pfx : Str} (hp : pfx ∈ prefixes) (c0 : Char) (X : Str) (h0 : c0 ≠ '[') :
    (pfx ++ c0 :: X).head? ≠ some '[' := by
  simp only [prefixes, strLitToList, List.mem_cons, List.not_mem_nil, or_false] at hp
  rcases hp with rfl | rfl | rfl | rfl | rfl <;> simp [h0]

theorem scrub_rgb3 (pfx : Str) (hp : pfx ∈ prefixes) (r g b : Nat) :
    scrub (.str (pfx ++ ("rgb(".toList ++ (Py.natStr r ++ ',' :: (Py.natStr g ++ ',' :: (Py.natStr b ++ [')'])))))) =
      .ok (colorSettings (component (some pfx)) true [min 255 r, min 255 g, min 255 b]) := by
  have e : "rgb(".toList = ['r','g','b','('] := by simp only [strLitToList]
  apply scrub_str_rgb _ _ _ (parse_rgb3 pfx hp r g b)
  · simp [e, semi_not_mem_prefix hp, semi_not_mem_natStr]
  · simp [e]
  · rw [e]; exact prefix_head hp 'r' _ (by decide)

theorem scrub_rgb1 (v : Nat) :
    scrub (.str ("rgb(".toList ++ (Py.natStr v ++ [')']))) =
      .ok (colorSettings 0 true [(v / 65536) % 256, (v / 256) % 256, v % 256]) := by
  have e : "rgb(".toList = ['r','g','b','('] := by simp only [strLitToList]
  apply scrub_str_rgb _ _ _ (parse_rgb1 v)
  · simp [e, semi_not_mem_natStr]
  · simp [e]
  · simp [e]

theorem scrub_color (pfx : Str) (hp : pfx ∈ prefixes) (u : Bool) (n : Nat) :
    scrub (.str (pfx ++ ("colo".toList ++ ((if u then ['u'] else []) ++ ("r256(".toList ++ (Py.natStr n ++ [')'])))))) =
      .ok (colorSettings (component (some pfx)) false [n]) := by
  have e : "colo".toList = ['c','o','l','o'] := by simp only [strLitToList]
  have e2 : "r256(".toList = ['r','2','5','6','('] := by simp only [strLitToList]
  apply scrub_str_rgb _ _ _ (parse_color pfx hp u n)
  · cases u <;> simp [e, e2, semi_not_mem_prefix hp, semi_not_mem_natStr]
  · simp [e2]
  · rw [e]; exact prefix_head hp 'c' _ (by decide)

theorem colorSettings_vals (args : List Nat) :
    colorSettings 0 true args = [joinNats ([38, 2] ++ args)] ∧
    colorSettings 1 true args = [joinNats ([48, 2] ++ args)] ∧
    colorSettings 2 true args = [Py.natStr 4, joinNats ([58, 2] ++ args)] ∧
    colorSettings 3 true args = [Py.natStr 21, joinNats ([58, 2] ++ args)] ∧
    colorSettings 0 false args = [joinNats ([38, 5] ++ args)] ∧
    colorSettings 1 false args = [joinNats ([48, 5] ++ args)] ∧
    colorSettings 2 false args = [Py.natStr 4, joinNats ([58, 5] ++ args)] ∧
    colorSettings 3 false args = [Py.natStr 21, joinNats ([58, 5] ++ args)] := by
  have e0 : setupSeq 0 = [38, 5] := by decide
  have e1 : setupSeq 1 = [38, 2] := by decide
  have e2 : setupSeq 2 = [48, 5] := by decide
  have e3 : setupSeq 3 = [48, 2] := by decide
  have e4 : setupSeq 4 = [58, 5] := by decide
  have e5 : setupSeq 5 = [58, 2] := by decide
  have u1 : Gen.paramUnderline = 4 := rfl
  have u2 : Gen.paramDoubleUnderline = 21 := rfl
  simp [colorSettings, e0, e1, e2, e3, e4, e5, u1, u2]


/-! ## decidable equality of results (for closed examples) -/

instance decEqExcept {ε α : Type} [DecidableEq ε] [DecidableEq α] : DecidableEq (Except ε α)
  | .ok a, .ok b => if h : a = b then isTrue (by rw [h]) else isFalse (by intro e; injection e with e; exact h e)
  | .error a, .error b => if h : a = b then isTrue (by rw [h]) else isFalse (by intro e; injection e with e; exact h e)
  | .ok _, .error _ => isFalse (by intro e; cases e)
  | .error _, .ok _ => isFalse (by intro e; cases e)

/-- membership in the member table from a Boolean pass -/
theorem mem_table_of_contains {x : Str × List Str} (h : Gen.formatTable.contains x = true) :
    x ∈ Gen.formatTable := List.contains_iff_mem.1 h

/-! ## re-association / literal-splitting helpers for the statements of C14 -/

theorem reassoc3 (p a b c : Str) :
    p ++ a ++ [','] ++ b ++ [','] ++ c ++ [')'] = p ++ (a ++ ',' :: (b ++ ',' :: (c ++ [')']))) := by
  simp

theorem colorLit :
    "color256(".toList = [] ++ ("colo".toList ++ ((if false then ['u'] else []) ++ "r256(".toList)) ∧
    "colour256(".toList = [] ++ ("colo".toList ++ ((if true then ['u'] else []) ++ "r256(".toList)) ∧
    "fg_color256(".toList = "fg_".toList ++ ("colo".toList ++ ((if false then ['u'] else []) ++ "r256(".toList)) ∧
    "bg_color256(".toList = "bg_".toList ++ ("colo".toList ++ ((if false then ['u'] else []) ++ "r256(".toList)) ∧
    "ul_color256(".toList = "ul_".toList ++ ("colo".toList ++ ((if false then ['u'] else []) ++ "r256(".toList)) ∧
    "dul_color256(".toList = "dul_".toList ++ ("colo".toList ++ ((if false then ['u'] else []) ++ "r256(".toList)) ∧
    "bg_colour256(".toList = "bg_".toList ++ ("colo".toList ++ ((if true then ['u'] else []) ++ "r256(".toList)) := by
  simp only [strLitToList]; decide

/-- remaining spellings (hex with `0x`, brackets, spaces), on instances: the string is recognised
    by `_parse_rgb_string` (evaluated in the kernel) and `scrub` returns exactly its settings -/
theorem spelled (s : String) (ts : List String)
    (h : Scrub.parseRgbString s.toList = some (.ok (ts.map String.toList)))
    (h1 : ';' ∉ s.toList) (h2 : '(' ∈ s.toList) (h3 : s.toList.head? ≠ some '[') :
    Scrub.scrub (.str s.toList) = .ok (ts.map String.toList) := scrub_str_rgb h1 h2 h3 h


end ScrubL
