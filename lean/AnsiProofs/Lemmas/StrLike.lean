import AnsiSpec
import AnsiProofs.Lemmas.Basic
/-
  Helper lemmas for property C10 (the str-like methods): facts about the TEXT (`.s`) of the
  results of slicing / concatenation / formatting, and about the CPython primitives of
  `AnsiModel/PyStr.lean` (`startsWith`, `findFrom`, `occurrences`) in terms of core `List` notions.

  Everything lives in `namespace SL` so that the names cannot clash with other lemma files.
-/

namespace SL

/-! ## text of slices, concatenations, formatting -/

theorem getRange_s (x : AStr) (st en : Nat) : (x.getRange st en).s = pySlice x.s st en := by
  unfold AStr.getRange
  by_cases h : (pySlice x.s st en).isEmpty = true
  · simp only [h, if_true]
    exact (List.isEmpty_iff.mp h).symm
  · simp only [h]
    rfl

theorem getSlice_s (x : AStr) (a b : Option Int) :
    (x.getSlice a b).s = pySlice x.s (sliceIdx x.len a 0) (sliceIdx x.len b x.len) :=
  getRange_s x _ _

theorem iadd_s (a b : AStr) : (a.iadd b).s = a.s ++ b.s := rfl

theorem applyFormatting_s (x : AStr) (N : List Setting) (a b : Option Int) (t : Bool) :
    (x.applyFormatting N a b t).s = x.s := by
  unfold AStr.applyFormatting
  simp only
  split
  · rfl
  · split <;> rfl

theorem removeFormatting_s (x : AStr) (M : Option (List Str)) (a b : Option Int) :
    (x.removeFormatting M a b).s = x.s := by
  unfold AStr.removeFormatting
  simp only
  split <;> rfl

theorem pySlice_eq (s : Str) (a b : Nat) : pySlice s a b = (s.take b).drop a := rfl

theorem sliceIdx_ofNat (n k d : Nat) : sliceIdx n (some (k : Int)) d = min k n := by
  have : ¬ ((k : Int) < 0) := by omega
  simp [sliceIdx, this]

theorem sliceIdx_negNat (n k d : Nat) (hk : 0 < k) : sliceIdx n (some (-(k : Int))) d = n - k := by
  have : (-(k : Int) < 0) := by omega
  simp only [sliceIdx, this, if_true]
  omega

/-- `x[a:]` for a natural `a` -/
theorem getSlice_from_s (x : AStr) (a : Nat) : (x.getSlice (some (a : Int)) none).s = x.s.drop a := by
  rw [getSlice_s, sliceIdx_ofNat, pySlice_eq]
  simp only [sliceIdx, AStr.len]
  rw [List.take_length]
  by_cases h : a ≤ x.s.length
  · rw [Nat.min_eq_left h]
  · rw [Nat.min_eq_right (by omega), List.drop_of_length_le (Nat.le_refl _),
      List.drop_of_length_le (by omega)]

/-- `x[:b]` for a natural `b` -/
theorem getSlice_to_s (x : AStr) (b : Nat) : (x.getSlice none (some (b : Int))).s = x.s.take b := by
  rw [getSlice_s, sliceIdx_ofNat, pySlice_eq]
  simp only [sliceIdx, AStr.len, List.drop_zero]
  by_cases h : b ≤ x.s.length
  · rw [Nat.min_eq_left h]
  · rw [Nat.min_eq_right (by omega), List.take_of_length_le (Nat.le_refl _),
      List.take_of_length_le (by omega)]

/-- `x[a:b]` for naturals -/
theorem getSlice_nat_s (x : AStr) (a b : Nat) :
    (x.getSlice (some (a : Int)) (some (b : Int))).s = (x.s.take b).drop a := by
  rw [getSlice_s, sliceIdx_ofNat, sliceIdx_ofNat, pySlice_eq]
  simp only [AStr.len]
  have h1 : x.s.take (min b x.s.length) = x.s.take b := by
    by_cases h : b ≤ x.s.length
    · rw [Nat.min_eq_left h]
    · rw [Nat.min_eq_right (by omega), List.take_of_length_le (Nat.le_refl _),
        List.take_of_length_le (by omega)]
  rw [h1]
  by_cases h : a ≤ x.s.length
  · rw [Nat.min_eq_left h]
  · rw [Nat.min_eq_right (by omega), List.drop_of_length_le, List.drop_of_length_le]
    · simp only [List.length_take]; omega
    · simp only [List.length_take]; omega

/-- `x[a:-r]` for naturals `a`, `r > 0` -/
theorem getSlice_negstop_s (x : AStr) (a : Option Int) (r : Nat) (hr : 0 < r) :
    (x.getSlice a (some (-(r : Int)))).s =
      (x.s.take (x.s.length - r)).drop (sliceIdx x.len a 0) := by
  rw [getSlice_s, sliceIdx_negNat _ _ _ hr, pySlice_eq]
  rfl

/-! ## `startswith` / `endswith` are the core prefix / suffix tests -/

theorem startsWith_eq (s p : Str) : Py.startsWith s p = p.isPrefixOf s := by
  induction p generalizing s with
  | nil => cases s <;> simp [Py.startsWith]
  | cons d p ih =>
    cases s with
    | nil => simp [Py.startsWith]
    | cons c s =>
      simp only [Py.startsWith, List.isPrefixOf, ih]
      congr 1
      rcases Decidable.em (c = d) with h | h
      · subst h; rfl
      · rw [beq_false_of_ne h, beq_false_of_ne (Ne.symm h)]

theorem endsWith_eq (s p : Str) : Py.endsWith s p = p.isSuffixOf s := by
  simp [Py.endsWith, startsWith_eq, List.isSuffixOf]

theorem startsWith_iff (s p : Str) : Py.startsWith s p = true ↔ ∃ t, s = p ++ t := by
  rw [startsWith_eq, List.isPrefixOf_iff_prefix]
  constructor
  · rintro ⟨t, h⟩; exact ⟨t, h.symm⟩
  · rintro ⟨t, h⟩; exact ⟨t, h.symm⟩

/-! ## strip -/

theorem drop_takeWhile_length (p : Char → Bool) (s : Str) :
    s.drop (s.takeWhile p).length = s.dropWhile p := by
  induction s with
  | nil => rfl
  | cons c s ih =>
    by_cases h : p c = true
    · simp [h, ih]
    · simp [h]

theorem take_sub_reverse_takeWhile (p : Char → Bool) (s : Str) :
    s.take (s.length - (s.reverse.takeWhile p).length) = (s.reverse.dropWhile p).reverse := by
  have h := List.takeWhile_append_dropWhile (p := p) (l := s.reverse)
  have hs : s = (s.reverse.dropWhile p).reverse ++ (s.reverse.takeWhile p).reverse := by
    rw [← List.reverse_append, h, List.reverse_reverse]
  have hl : s.length - (s.reverse.takeWhile p).length = ((s.reverse.dropWhile p).reverse).length := by
    have := congrArg List.length hs
    simp only [List.length_append, List.length_reverse] at this ⊢
    omega
  rw [hl]
  conv => lhs; arg 2; rw [hs]
  exact List.take_left' rfl

/-- when the left strip does not consume everything, the right strip counts the same on the
    stripped and the unstripped text -/
theorem reverse_takeWhile_dropWhile (p : Char → Bool) (s : Str)
    (h : (s.takeWhile p).length < s.length) :
    (s.dropWhile p).reverse.takeWhile p = s.reverse.takeWhile p := by
  have hsplit := List.takeWhile_append_dropWhile (p := p) (l := s)
  cases hd : s.dropWhile p with
  | nil =>
    rw [hd, List.append_nil] at hsplit
    rw [hsplit] at h
    omega
  | cons c d =>
    have hc : p c = false := by
      have := List.head_dropWhile_not p (l := s) (by rw [hd]; simp)
      simpa [hd] using this
    have hs : s.reverse = d.reverse ++ c :: (s.takeWhile p).reverse := by
      have : s.reverse = (s.takeWhile p ++ s.dropWhile p).reverse := by rw [hsplit]
      rw [this, hd]
      simp
    rw [hs, List.reverse_cons]
    rw [List.takeWhile_append, List.takeWhile_append]
    simp only [List.length_reverse]
    by_cases hall : (d.reverse.takeWhile p).length = d.length
    · simp [hall, hc]
    · simp [hall]

end SL
