import AnsiSpec
import AnsiProofs.Lemmas.Basic
/-
  Helper lemmas for property C10 (the str-like methods): facts about the TEXT (`.s`) of the
  results of slicing / concatenation / formatting, and about the CPython primitives of
  `AnsiModel/PyStr.lean` (`startsWith`, `findFrom`, `occurrences`) in terms of core `List` notions.

  Everything lives in `namespace StrLikeL` so that the names cannot clash with other lemma files.
-/

namespace StrLikeL

/-! ## text of slices, concatenations, formatting -/

theorem getRange_s (x : AStr) (st en : Nat) : (x.getRange st en).s = pySlice x.s st en := by
  unfold AStr.getRange
  by_cases h : (pySlice x.s st en).isEmpty = true
  · simp only [h, if_true]
    exact (List.isEmpty_iff.mp h).symm
  · simp only [h]
    rfl

theorem getSlice_s (x : AStr) (a b : Option Int) :
    (x.getSlice a b).s = pySlice x.s (sliceIdx x.len a 0) (sliceIdx x.len b x.len) :=
  getRange_s x _ _

theorem iadd_s (a b : AStr) : (a.iadd b).s = a.s ++ b.s := rfl

theorem applyFormatting_s (x : AStr) (N : List Setting) (a b : Option Int) (t : Bool) :
    (x.applyFormatting N a b t).s = x.s := by
  unfold AStr.applyFormatting
  simp only
  split
  · rfl
  · split <;> rfl

theorem removeFormatting_s (x : AStr) (M : Option (List Str)) (a b : Option Int) :
    (x.removeFormatting M a b).s = x.s := by
  unfold AStr.removeFormatting
  simp only
  split <;> rfl

theorem pySlice_eq (s : Str) (a b : Nat) : pySlice s a b = (s.take b).drop a := rfl

theorem sliceIdx_ofNat (n k d : Nat) : sliceIdx n (some (k : Int)) d = min k n := by
  have : ¬ ((k : Int) < 0) := by omega
  simp [sliceIdx, this]

theorem sliceIdx_negNat (n k d : Nat) (hk : 0 < k) : sliceIdx n (some (-(k : Int))) d = n - k := by
  have : (-(k : Int) < 0) := by omega
  simp only [sliceIdx, this, if_true]
  omega

/-- `x[a:]` for a natural `a` -/
theorem getSlice_from_s (x : AStr) (a : Nat) : (x.getSlice (some (a : Int)) none).s = x.s.drop a := by
  rw [getSlice_s, sliceIdx_ofNat, pySlice_eq]
  simp only [sliceIdx, AStr.len]
  rw [List.take_length]
  by_cases h : a ≤ x.s.length
  · rw [Nat.min_eq_left h]
  · rw [Nat.min_eq_right (by omega), List.drop_of_length_le (Nat.le_refl _),
      List.drop_of_length_le (by omega)]

/-- `x[:b]` for a natural `b` -/
theorem getSlice_to_s (x : AStr) (b : Nat) : (x.getSlice none (some (b : Int))).s = x.s.take b := by
  rw [getSlice_s, sliceIdx_ofNat, pySlice_eq]
  simp only [sliceIdx, AStr.len, List.drop_zero]
  by_cases h : b ≤ x.s.length
  · rw [Nat.min_eq_left h]
  · rw [Nat.min_eq_right (by omega), List.take_of_length_le (Nat.le_refl _),
      List.take_of_length_le (by omega)]

/-- `x[a:b]` for naturals -/
theorem getSlice_nat_s (x : AStr) (a b : Nat) :
    (x.getSlice (some (a : Int)) (some (b : Int))).s = (x.s.take b).drop a := by
  rw [getSlice_s, sliceIdx_ofNat, sliceIdx_ofNat, pySlice_eq]
  simp only [AStr.len]
  have h1 : x.s.take (min b x.s.length) = x.s.take b := by
    by_cases h : b ≤ x.s.length
    · rw [Nat.min_eq_left h]
    · rw [Nat.min_eq_right (by omega), List.take_of_length_le (Nat.le_refl _),
        List.take_of_length_le (by omega)]
  rw [h1]
  by_cases h : a ≤ x.s.length
  · rw [Nat.min_eq_left h]
  · rw [Nat.min_eq_right (by omega), List.drop_of_length_le, List.drop_of_length_le]
    · simp only [List.length_take]; omega
    · simp only [List.length_take]; omega

/-- `x[a:-r]` for naturals `a`, `r > 0` -/
theorem getSlice_negstop_s (x : AStr) (a : Option Int) (r : Nat) (hr : 0 < r) :
    (x.getSlice a (some (-(r : Int)))).s =
      (x.s.take (x.s.length - r)).drop (sliceIdx x.len a 0) := by
  rw [getSlice_s, sliceIdx_negNat _ _ _ hr, pySlice_eq]
  rfl

/-! ## `startswith` / `endswith` are the core prefix / suffix tests -/

theorem startsWith_eq (s p : Str) : Py.startsWith s p = p.isPrefixOf s := by
  induction p generalizing s with
  | nil => cases s <;> simp [Py.startsWith]
  | cons d p ih =>
    cases s with
    | nil => simp [Py.startsWith]
    | cons c s =>
      simp only [Py.startsWith, List.isPrefixOf, ih]
      congr 1
      rcases Decidable.em (c = d) with h | h
      · subst h; rfl
      · rw [beq_false_of_ne h, beq_false_of_ne (Ne.symm h)]

theorem endsWith_eq (s p : Str) : Py.endsWith s p = p.isSuffixOf s := by
  simp [Py.endsWith, startsWith_eq, List.isSuffixOf]

theorem startsWith_iff (s p : Str) : Py.startsWith s p = true ↔ ∃ t, s = p ++ t := by
  rw [startsWith_eq, List.isPrefixOf_iff_prefix]
  constructor
  · rintro ⟨t, h⟩; exact ⟨t, h.symm⟩
  · rintro ⟨t, h⟩; exact ⟨t, h.symm⟩

/-! ## strip -/

theorem drop_takeWhile_length (p : Char → Bool) (s : Str) :
    s.drop (s.takeWhile p).length = s.dropWhile p := by
  induction s with
  | nil => rfl
  | cons c s ih =>
    by_cases h : p c = true
    · simp [h, ih]
    · simp [h]

theorem take_sub_reverse_takeWhile (p : Char → Bool) (s : Str) :
    s.take (s.length - (s.reverse.takeWhile p).length) = (s.reverse.dropWhile p).reverse := by
  have h := List.takeWhile_append_dropWhile (p := p) (l := s.reverse)
  have hs : s = (s.reverse.dropWhile p).reverse ++ (s.reverse.takeWhile p).reverse := by
    rw [← List.reverse_append, h, List.reverse_reverse]
  have hl : s.length - (s.reverse.takeWhile p).length = ((s.reverse.dropWhile p).reverse).length := by
    have := congrArg List.length hs
    simp only [List.length_append, List.length_reverse] at this ⊢
    omega
  rw [hl]
  conv => lhs; arg 2; rw [hs]
  exact List.take_left' rfl

/-- when the left strip does not consume everything, the right strip counts the same on the
    stripped and the unstripped text -/
theorem reverse_takeWhile_dropWhile (p : Char → Bool) (s : Str)
    (h : (s.takeWhile p).length < s.length) :
    (s.dropWhile p).reverse.takeWhile p = s.reverse.takeWhile p := by
  have hsplit := List.takeWhile_append_dropWhile (p := p) (l := s)
  cases hd : s.dropWhile p with
  | nil =>
    rw [hd, List.append_nil] at hsplit
    rw [hsplit] at h
    omega
  | cons c d =>
    have hc : p c = false := by
      have := List.head_dropWhile_not p (l := s) (by rw [hd]; simp)
      simpa [hd] using this
    have hs : s.reverse = d.reverse ++ c :: (s.takeWhile p).reverse := by
      have : s.reverse = (s.takeWhile p ++ s.dropWhile p).reverse := by rw [hsplit]
      rw [this, hd]
      simp
    rw [hs, List.reverse_cons]
    rw [List.takeWhile_append, List.takeWhile_append]
    simp only [List.length_reverse]
    by_cases hall : (d.reverse.takeWhile p).length = d.length
    · simp [hall, hc]
    · simp [hall]

theorem stripGen_s (x : AStr) (chars : Option Str) (doL doR ip : Bool) :
    (x.stripGen chars doL doR ip).s =
      (if doR then fun s : Str => (s.reverse.dropWhile (fun c => (chars.getD Gen.whitespaceChars).contains c)).reverse else id)
        ((if doL then fun s : Str => s.dropWhile (fun c => (chars.getD Gen.whitespaceChars).contains c) else id) x.s) := by
  generalize hp : (fun c => (chars.getD Gen.whitespaceChars).contains c) = p
  unfold AStr.stripGen
  simp only [hp]
  have h1 : x.s.drop (if doL = true then (List.takeWhile p x.s).length else 0) =
      (if doL = true then fun s => List.dropWhile p s else id) x.s := by
    cases doL <;> simp [drop_takeWhile_length]
  have h2 : (if doL = true then (List.takeWhile p x.s).length else 0) < x.s.length →
      ((if doL = true then fun s => List.dropWhile p s else id) x.s).reverse.takeWhile p =
        x.s.reverse.takeWhile p := by
    cases doL
    · simp
    · intro h; exact reverse_takeWhile_dropWhile p x.s (by simpa using h)
  generalize (if doL = true then (List.takeWhile p x.s).length else 0) = l at h1 h2 ⊢
  generalize ((if doL = true then fun s => List.dropWhile p s else id) x.s) = t at h1 h2 ⊢
  have h3 : (t.reverse.dropWhile p).reverse = t.take (t.length - (t.reverse.takeWhile p).length) :=
    (take_sub_reverse_takeWhile p t).symm
  have hx : x.len = x.s.length := rfl
  by_cases hc : doR = true ∧ l < x.len
  · obtain ⟨hR, hlt⟩ := hc
    rw [hx] at hlt
    have h2' := h2 hlt
    simp only [hR, hx, hlt, and_self, if_true]
    rw [h3, h2']
    generalize (List.takeWhile p (List.reverse x.s)).length = r
    by_cases hr : r = 0
    · subst hr
      simp only [if_true, Option.isNone_none, and_true, Nat.sub_zero, List.take_length]
      split
      · rename_i h; rw [← h1, h.2]; rfl
      · rw [getSlice_from_s, h1]
    · simp only [hr, if_false, Option.isNone_some]
      simp only [Bool.false_eq_true, and_false, if_false]
      rw [getSlice_negstop_s _ _ _ (by omega), sliceIdx_ofNat, hx, Nat.min_eq_left (by omega),
        ← h1, List.drop_take, List.length_drop]
      congr 1
      omega
  · simp only [hc, if_false, Option.isNone_none, and_true]
    have : (if doR = true then fun s : Str => (List.dropWhile p (List.reverse s)).reverse else id) t = t := by
      cases doR
      · rfl
      · have : x.s.length ≤ l := by simp [hx] at hc; exact hc
        have : t = [] := by rw [← h1]; exact List.drop_of_length_le this
        subst this; rfl
    rw [this]
    split
    · rename_i h; rw [← h1, h.2]; rfl
    · rw [getSlice_from_s, h1]

/-! ## `find` / `rfind`: first / last position where `sub` is a prefix of the rest -/


theorem findFrom_nil (sub : Str) (pos from_ : Nat) :
    Py.findFrom [] sub pos from_ = if pos ≥ from_ ∧ sub.isEmpty then some pos else none := by
  rw [Py.findFrom]

theorem findFrom_cons (c : Char) (rest sub : Str) (pos from_ : Nat) :
    Py.findFrom (c :: rest) sub pos from_ =
      if pos ≥ from_ ∧ sub.isPrefixOf (c :: rest) then some pos
      else Py.findFrom rest sub (pos + 1) from_ := by
  rw [Py.findFrom, startsWith_eq]

theorem findFrom_some_iff (s sub : Str) (pos from_ r : Nat) :
    Py.findFrom s sub pos from_ = some r ↔
      ∃ j, r = pos + j ∧ j ≤ s.length ∧ from_ ≤ pos + j ∧ sub.isPrefixOf (s.drop j) = true ∧
        ∀ i < j, from_ ≤ pos + i → sub.isPrefixOf (s.drop i) = false := by
  induction s generalizing pos with
  | nil =>
    rw [findFrom_nil]
    constructor
    · intro h
      split at h
      · rename_i hc
        refine ⟨0, by simpa using h.symm, by simp, hc.1, ?_, by simp⟩
        have := hc.2
        cases sub <;> simp_all
      · cases h
    · rintro ⟨j, hr, hj, hf, hp, -⟩
      have hj0 : j = 0 := by simpa using hj
      subst hj0
      have : sub.isEmpty = true := by cases sub <;> simp_all
      rw [if_pos ⟨hf, this⟩, hr]; rfl
  | cons c rest ih =>
    rw [findFrom_cons]
    by_cases hc : pos ≥ from_ ∧ sub.isPrefixOf (c :: rest) = true
    · rw [if_pos hc]
      constructor
      · intro h
        refine ⟨0, by simpa using h.symm, by simp, hc.1, hc.2, by simp⟩
      · rintro ⟨j, hr, -, -, -, hall⟩
        cases j with
        | zero => rw [hr]; rfl
        | succ j =>
          have := hall 0 (by omega) hc.1
          rw [List.drop_zero, hc.2] at this
          cases this
    · rw [if_neg hc, ih]
      constructor
      · rintro ⟨j, hr, hj, hf, hp, hall⟩
        refine ⟨j + 1, by omega, by simp; omega, by omega, by simpa using hp, ?_⟩
        intro i hi hfi
        cases i with
        | zero =>
          cases hb : sub.isPrefixOf (c :: rest) with
          | false => simpa using hb
          | true => exact absurd ⟨hfi, hb⟩ hc
        | succ i =>
          have := hall i (by omega) (by omega)
          simpa using this
      · rintro ⟨j, hr, hj, hf, hp, hall⟩
        cases j with
        | zero => exact absurd ⟨hf, by simpa using hp⟩ hc
        | succ j =>
          refine ⟨j, by omega, by simpa using hj, by omega, by simpa using hp, ?_⟩
          intro i hi hfi
          have := hall (i + 1) (by omega) (by omega)
          simpa using this

/-- a match at `k ≥ from_` forces `find` to succeed at or before `k` -/
theorem findFrom_of_match (s sub : Str) (pos from_ k : Nat) (hk : k ≤ s.length)
    (hf : from_ ≤ pos + k) (hp : sub.isPrefixOf (s.drop k) = true) :
    ∃ j, j ≤ k ∧ Py.findFrom s sub pos from_ = some (pos + j) ∧ from_ ≤ pos + j ∧
      sub.isPrefixOf (s.drop j) = true := by
  induction s generalizing pos k with
  | nil =>
    have hk0 : k = 0 := by simpa using hk
    subst hk0
    refine ⟨0, Nat.le_refl _, ?_, hf, hp⟩
    rw [findFrom_nil]
    have : sub.isEmpty = true := by cases sub <;> simp_all
    rw [if_pos ⟨hf, this⟩]; rfl
  | cons c rest ih =>
    rw [findFrom_cons]
    by_cases hc : pos ≥ from_ ∧ sub.isPrefixOf (c :: rest) = true
    · exact ⟨0, Nat.zero_le _, by rw [if_pos hc]; rfl, hc.1, hc.2⟩
    · rw [if_neg hc]
      cases k with
      | zero => exact absurd ⟨hf, by simpa using hp⟩ hc
      | succ k =>
        obtain ⟨j, hjk, hfind, hfj, hpj⟩ := ih (pos + 1) k (by simpa using hk) (by omega) (by simpa using hp)
        exact ⟨j + 1, by omega, by rw [hfind]; congr 1; omega, by omega, by simpa using hpj⟩

theorem findFrom_append_skip (a b sub : Str) (pos from_ : Nat) (h : pos + a.length ≤ from_) :
    Py.findFrom (a ++ b) sub pos from_ = Py.findFrom b sub (pos + a.length) from_ := by
  induction a generalizing pos with
  | nil => rfl
  | cons c a ih =>
    simp only [List.length_cons] at h
    rw [List.cons_append, findFrom_cons, if_neg (by omega), ih (pos + 1) (by omega)]
    congr 1
    simp only [List.length_cons]; omega

theorem findFrom_shift (s sub : Str) (pos from_ d : Nat) :
    Py.findFrom s sub (pos + d) (from_ + d) = (Py.findFrom s sub pos from_).map (· + d) := by
  induction s generalizing pos with
  | nil =>
    rw [findFrom_nil, findFrom_nil]
    by_cases h : pos ≥ from_ ∧ sub.isEmpty = true
    · rw [if_pos h, if_pos ⟨by omega, h.2⟩]; rfl
    · rw [if_neg h, if_neg (by intro h'; exact h ⟨by omega, h'.2⟩)]; rfl
  | cons c rest ih =>
    rw [findFrom_cons, findFrom_cons]
    by_cases h : pos ≥ from_ ∧ sub.isPrefixOf (c :: rest) = true
    · rw [if_pos h, if_pos ⟨by omega, h.2⟩]; rfl
    · rw [if_neg h, if_neg (by intro h'; exact h ⟨by omega, h'.2⟩)]
      have : pos + d + 1 = (pos + 1) + d := by omega
      rw [this, ih]

theorem find_append_skip (a b sub : Str) (k : Nat) :
    Py.find (a ++ b) sub (a.length + k) = (Py.find b sub k).map (· + a.length) := by
  unfold Py.find
  rw [findFrom_append_skip a b sub 0 _ (by omega)]
  have := findFrom_shift b sub 0 k a.length
  rw [Nat.add_comm k] at this
  exact this

/-! occurrences -/
theorem occurrences_nil (sub : Str) (pos : Nat) :
    Py.occurrences [] sub pos = if sub.isEmpty then [pos] else [] := by rw [Py.occurrences]

theorem occurrences_cons (c : Char) (rest sub : Str) (pos : Nat) :
    Py.occurrences (c :: rest) sub pos =
      if sub.isPrefixOf (c :: rest) then pos :: Py.occurrences rest sub (pos + 1)
      else Py.occurrences rest sub (pos + 1) := by
  rw [Py.occurrences, startsWith_eq]

theorem mem_occurrences (s sub : Str) (pos r : Nat) :
    r ∈ Py.occurrences s sub pos ↔
      ∃ j, r = pos + j ∧ j ≤ s.length ∧ sub.isPrefixOf (s.drop j) = true := by
  induction s generalizing pos with
  | nil =>
    rw [occurrences_nil]
    cases sub with
    | nil => simp
    | cons d sub =>
      simp only [List.isEmpty_cons, Bool.false_eq_true, if_false, List.not_mem_nil, false_iff]
      rintro ⟨j, -, hj, hp⟩
      have : j = 0 := by simpa using hj
      subst this
      simp at hp
  | cons c rest ih =>
    rw [occurrences_cons]
    have key : (∃ j, r = pos + j ∧ j ≤ (c :: rest).length ∧ sub.isPrefixOf ((c :: rest).drop j) = true) ↔
        ((r = pos ∧ sub.isPrefixOf (c :: rest) = true) ∨
          ∃ j, r = pos + 1 + j ∧ j ≤ rest.length ∧ sub.isPrefixOf (rest.drop j) = true) := by
      constructor
      · rintro ⟨j, hr, hj, hp⟩
        cases j with
        | zero => exact Or.inl ⟨hr, by simpa using hp⟩
        | succ j => exact Or.inr ⟨j, by omega, by simpa using hj, by simpa using hp⟩
      · rintro (⟨hr, hp⟩ | ⟨j, hr, hj, hp⟩)
        · exact ⟨0, hr, by simp, by simpa using hp⟩
        · exact ⟨j + 1, by omega, by simpa using hj, by simpa using hp⟩
    rw [key]
    by_cases hp : sub.isPrefixOf (c :: rest) = true
    · rw [if_pos hp, List.mem_cons, ih]; simp [hp]
    · rw [if_neg hp, ih]; simp [hp]

theorem occurrences_sorted (s sub : Str) (pos : Nat) :
    (Py.occurrences s sub pos).Pairwise (· < ·) := by
  induction s generalizing pos with
  | nil => rw [occurrences_nil]; split <;> simp
  | cons c rest ih =>
    rw [occurrences_cons]
    split
    · rw [List.pairwise_cons]
      refine ⟨?_, ih _⟩
      intro r hr
      obtain ⟨j, hj, -⟩ := (mem_occurrences _ _ _ _).mp hr
      omega
    · exact ih _

theorem getLast?_sorted {l : List Nat} (h : l.Pairwise (· < ·)) (r : Nat) :
    l.getLast? = some r ↔ r ∈ l ∧ ∀ y ∈ l, y ≤ r := by
  constructor
  · intro hl
    obtain ⟨l', rfl⟩ := List.getLast?_eq_some_iff.mp hl
    rw [List.pairwise_append] at h
    refine ⟨by simp, ?_⟩
    intro y hy
    rcases List.mem_append.mp hy with hy | hy
    · exact Nat.le_of_lt (h.2.2 y hy r (by simp))
    · simp at hy; omega
  · rintro ⟨hr, hmax⟩
    cases hl : l.getLast? with
    | none => rw [List.getLast?_eq_none_iff] at hl; subst hl; cases hr
    | some z =>
      obtain ⟨l', rfl⟩ := List.getLast?_eq_some_iff.mp hl
      rw [List.pairwise_append] at h
      have hz := hmax z (by simp)
      rcases List.mem_append.mp hr with hr | hr
      · have := h.2.2 r hr z (by simp); omega
      · simp at hr; rw [hr]

theorem rfind_some_iff (s sub : Str) (r : Nat) :
    Py.rfind s sub = some r ↔
      r ≤ s.length ∧ sub.isPrefixOf (s.drop r) = true ∧
        ∀ i, r < i → i ≤ s.length → sub.isPrefixOf (s.drop i) = false := by
  unfold Py.rfind
  rw [getLast?_sorted (occurrences_sorted s sub 0), mem_occurrences]
  constructor
  · rintro ⟨⟨j, hr, hj, hp⟩, hmax⟩
    have : r = j := by omega
    subst this
    refine ⟨hj, hp, ?_⟩
    intro i hi hil
    cases hb : sub.isPrefixOf (s.drop i) with
    | false => rfl
    | true =>
      have := hmax i ((mem_occurrences _ _ _ _).mpr ⟨i, by omega, hil, hb⟩)
      omega
  · rintro ⟨hr, hp, hall⟩
    refine ⟨⟨r, by omega, hr, hp⟩, ?_⟩
    intro y hy
    obtain ⟨j, hj, hjl, hpj⟩ := (mem_occurrences _ _ _ _).mp hy
    have : y = j := by omega
    subst this
    by_cases hlt : r < y
    · have := hall y hlt hjl; rw [this] at hpj; cases hpj
    · omega

theorem rfind_none_iff (s sub : Str) :
    Py.rfind s sub = none ↔ ∀ i, i ≤ s.length → sub.isPrefixOf (s.drop i) = false := by
  unfold Py.rfind
  rw [List.getLast?_eq_none_iff, List.eq_nil_iff_forall_not_mem]
  constructor
  · intro h i hi
    cases hb : sub.isPrefixOf (s.drop i) with
    | false => rfl
    | true => exact absurd ((mem_occurrences _ _ _ _).mpr ⟨i, by omega, hi, hb⟩) (h i)
  · intro h r hr
    obtain ⟨j, -, hjl, hpj⟩ := (mem_occurrences _ _ _ _).mp hr
    rw [h j hjl] at hpj; cases hpj

theorem find_some_iff (s sub : Str) (st r : Nat) :
    Py.find s sub st = some r ↔
      r ≤ s.length ∧ st ≤ r ∧ sub.isPrefixOf (s.drop r) = true ∧
        ∀ i < r, st ≤ i → sub.isPrefixOf (s.drop i) = false := by
  unfold Py.find
  rw [findFrom_some_iff]
  constructor
  · rintro ⟨j, hr, hj, hf, hp, hall⟩
    have : r = j := by omega
    subst this
    exact ⟨hj, by omega, hp, fun i hi hs => hall i hi (by omega)⟩
  · rintro ⟨hr, hs, hp, hall⟩
    exact ⟨r, by omega, hr, by omega, hp, fun i hi hs => hall i hi (by omega)⟩

/-- a match at `k ≥ st` forces `find` to succeed at or before `k` -/
theorem find_of_match (s sub : Str) (st k : Nat) (hk : k ≤ s.length) (hs : st ≤ k)
    (hp : sub.isPrefixOf (s.drop k) = true) :
    ∃ j, Py.find s sub st = some j ∧ st ≤ j ∧ j ≤ k ∧ sub.isPrefixOf (s.drop j) = true := by
  obtain ⟨j, hjk, hf, hsj, hpj⟩ := findFrom_of_match s sub 0 st k hk (by omega) hp
  exact ⟨j, by unfold Py.find; rw [hf]; congr 1; omega, by omega, hjk, hpj⟩

theorem find_none_iff (s sub : Str) (st : Nat) :
    Py.find s sub st = none ↔ ∀ i, i ≤ s.length → st ≤ i → sub.isPrefixOf (s.drop i) = false := by
  constructor
  · intro h i hi hs
    cases hb : sub.isPrefixOf (s.drop i) with
    | false => rfl
    | true =>
      obtain ⟨j, hf, -⟩ := find_of_match s sub st i hi hs hb
      rw [h] at hf; cases hf
  · intro h
    cases hf : Py.find s sub st with
    | none => rfl
    | some r =>
      obtain ⟨hr, hs, hp, -⟩ := (find_some_iff _ _ _ _).mp hf
      rw [h r hr hs] at hp; cases hp

/-- a match exactly at the start position is what `find` returns -/
theorem find_at (s sub : Str) (k : Nat) (hk : k ≤ s.length) (hp : sub.isPrefixOf (s.drop k) = true) :
    Py.find s sub k = some k := by
  obtain ⟨j, hf, h1, h2, -⟩ := find_of_match s sub k k hk (Nat.le_refl _) hp
  have : j = k := by omega
  rw [hf, this]

theorem find_empty (s : Str) (k : Nat) :
    Py.find s [] k = if k ≤ s.length then some k else none := by
  by_cases h : k ≤ s.length
  · rw [if_pos h]; exact find_at s [] k h (by simp)
  · rw [if_neg h, find_none_iff]
    intro i hi hs; omega

/-- an occurrence at `i` splits the text -/
theorem occ_decomp (s sub : Str) (i : Nat) (hp : sub.isPrefixOf (s.drop i) = true) :
    s = s.take i ++ sub ++ s.drop (i + sub.length) := by
  obtain ⟨t, ht⟩ := List.isPrefixOf_iff_prefix.mp hp
  have h2 : s.drop (i + sub.length) = t := by
    rw [← List.drop_drop, ← ht]
    exact List.drop_left
  rw [h2, List.append_assoc, ht, List.take_append_drop]

theorem occ_of_decomp (pre sub post : Str) :
    sub.isPrefixOf ((pre ++ sub ++ post).drop pre.length) = true := by
  rw [List.append_assoc, List.drop_left]
  exact List.isPrefixOf_iff_prefix.mpr ⟨post, rfl⟩

theorem take_drop_occ (s sub : Str) (i : Nat) (hp : sub.isPrefixOf (s.drop i) = true) :
    (s.take (i + sub.length)).drop i = sub := by
  obtain ⟨t, ht⟩ := List.isPrefixOf_iff_prefix.mp hp
  rw [List.drop_take, ← ht]
  simp

theorem partitionGen_some (x : AStr) (sep : Str) (r : Bool) (i : Nat)
    (h : (if r then Py.rfind x.s sep else Py.find x.s sep 0) = some i)
    (hp : sep.isPrefixOf (x.s.drop i) = true) :
    ((x.partitionGen sep r).1.s, (x.partitionGen sep r).2.1.s, (x.partitionGen sep r).2.2.s) =
      (x.s.take i, sep, x.s.drop (i + sep.length)) := by
  unfold AStr.partitionGen
  rw [h]
  simp only
  have h0 : (some (0 : Int)) = some ((0 : Nat) : Int) := rfl
  rw [h0, getSlice_nat_s, getSlice_nat_s, getSlice_from_s, take_drop_occ _ _ _ hp]
  simp

theorem partitionGen_none (x : AStr) (sep : Str) (r : Bool)
    (h : (if r then Py.rfind x.s sep else Py.find x.s sep 0) = none) :
    x.partitionGen sep r = (x, {}, {}) := by
  unfold AStr.partitionGen
  rw [h]

/-! ## `set_ansi_str` of a string without ESC -/

theorem tokLoop_noesc (ae : Bool) (acc : Option Str) (s : Str) (o : Parsed) (h : '\x1b' ∉ s) :
    tokLoop ae acc .text s o = { o with text := o.text ++ s } := by
  induction s generalizing o with
  | nil => simp [tokLoop]
  | cons c rest ih =>
    have hc : c ≠ '\x1b' := fun e => h (by simp [e])
    have hr : '\x1b' ∉ rest := fun e => h (by simp [e])
    rw [tokLoop]
    · rw [ih _ hr]; simp [Parsed.push]
    · intro rest' e
      exact absurd e hc

/-- the tokenizer leaves a string without ESC unchanged and records nothing -/
theorem tokenize_noesc (ae : Bool) (acc : Option Str) (s : Str) (h : '\x1b' ∉ s) :
    tokenize s ae acc = { text := s, seqs := [] } := by
  unfold tokenize
  rw [tokLoop_noesc ae acc s {} h]
  rfl

theorem setAnsiStep_s (a : AStr × PyDict × Nat) (key : Nat) (seq : CtlSeq) :
    (AStr.setAnsiStep a key seq).1.s = a.1.s := by
  obtain ⟨x, old, nid⟩ := a
  unfold AStr.setAnsiStep
  simp only
  split
  · rfl
  · simp only
    split <;> split <;> simp [applyFormatting_s, removeFormatting_s]

/-- `set_ansi_str(s)`: the text is the tokenizer's unformatted text -/
theorem setAnsi_s (raw : Str) (nid : Nat) :
    (AStr.setAnsi raw nid).1.s = (tokenize raw false (some Gen.sgrTerminator)).text := by
  unfold AStr.setAnsi
  simp only
  have inner : ∀ (k : Nat) (l : List CtlSeq) (a : AStr × PyDict × Nat),
      (l.foldl (fun acc sq => AStr.setAnsiStep acc k sq) a).1.s = a.1.s := by
    intro k l
    induction l with
    | nil => intro a; rfl
    | cons c l ih => intro a; rw [List.foldl_cons, ih, setAnsiStep_s]
  have outer : ∀ (l : List (Nat × List CtlSeq)) (a : AStr × PyDict × Nat),
      (l.foldl (fun acc kv => kv.2.foldl (fun acc sq => AStr.setAnsiStep acc kv.1 sq) acc) a).1.s
        = a.1.s := by
    intro l
    induction l with
    | nil => intro a; rfl
    | cons c l ih => intro a; rw [List.foldl_cons, ih, inner]
  rw [outer]

theorem setAnsi_plain (raw : Str) (nid : Nat) (h : '\x1b' ∉ raw) : (AStr.setAnsi raw nid).1.s = raw := by
  rw [setAnsi_s, tokenize_noesc _ _ _ h]

/-! ## the `replace` loop -/

/-- the value inserted for one match and the next fresh id (the `let (rep, nid')` of the model) -/
def repOf (new : AStr.Repl) (obj : AStr) (i nid : Nat) : AStr × Nat :=
  match new with
  | .astr v => (v, nid)
  | .str raw =>
    let r := AStr.setAnsi raw nid
    let act := obj.ansiSettingsAt i
    ((r.1.applyFormatting (freshSettings r.2 (texts act)) none none true), r.2 + act.length)

theorem replaceLoop_succ (old : Str) (new : AStr.Repl) (fuel : Nat) (obj : AStr) (count : Int)
    (i nid : Nat) :
    AStr.replaceLoop old new (fuel + 1) obj count (some i) nid =
      if count = 0 then obj
      else
        let obj' := ((obj.getSlice none (some i)).iadd (repOf new obj i nid).1).iadd
          (obj.getSlice (some ((i + old.length : Nat) : Int)) none)
        AStr.replaceLoop old new fuel obj' (if count > 0 then count - 1 else count)
          (Py.find obj'.s old (i + new.advance + (if old.isEmpty then 1 else 0)))
          (repOf new obj i nid).2 := by
  cases new <;> rfl

theorem replaceLoop_none (old : Str) (new : AStr.Repl) (fuel : Nat) (obj : AStr) (count : Int)
    (nid : Nat) : AStr.replaceLoop old new fuel obj count none nid = obj := by
  cases fuel <;> rfl

/-- the text `replace` inserts -/
def replText : AStr.Repl → Str
  | .str raw => raw
  | .astr v => v.s

/-- a plain-`str` replacement must not contain ESC (it is parsed by `set_ansi_str`) -/
def ReplOk : AStr.Repl → Prop
  | .str raw => '\x1b' ∉ raw
  | .astr _ => True

theorem repOf_s (new : AStr.Repl) (h : ReplOk new) (obj : AStr) (i nid : Nat) :
    (repOf new obj i nid).1.s = replText new := by
  cases new with
  | astr v => rfl
  | str raw =>
    simp only [repOf, replText]
    rw [applyFormatting_s, setAnsi_plain raw nid h]

theorem advance_eq (new : AStr.Repl) (h : ReplOk new) : new.advance = (replText new).length := by
  cases new with
  | astr v => rfl
  | str raw =>
    simp only [AStr.Repl.advance, replText, AStr.len]
    rw [setAnsi_plain raw 0 h]

/-- text of one loop step: `obj[:i] + rep + obj[i+len(old):]` -/
theorem step_s (old : Str) (new : AStr.Repl) (h : ReplOk new) (obj : AStr) (i nid : Nat) :
    (((obj.getSlice none (some i)).iadd (repOf new obj i nid).1).iadd
      (obj.getSlice (some ((i + old.length : Nat) : Int)) none)).s =
      obj.s.take i ++ replText new ++ obj.s.drop (i + old.length) := by
  rw [iadd_s, iadd_s, getSlice_to_s, getSlice_from_s, repOf_s new h]

/-- The loop of `replace` for a non-empty `old`, against ANY function `R` that satisfies the
    three "first occurrence" equations; `fuel > len(rest)` suffices. -/
theorem replaceLoop_s (old : Str) (hold : old ≠ []) (new : AStr.Repl) (hnew : ReplOk new)
    (R : Str → Int → Str)
    (E1 : ∀ s c, (∀ j, j ≤ s.length → old.isPrefixOf (s.drop j) = false) → R s c = s)
    (E2 : ∀ s, R s 0 = s)
    (E3 : ∀ pre post c, c ≠ 0 →
        (∀ j, j < pre.length → old.isPrefixOf ((pre ++ old ++ post).drop j) = false) →
        R (pre ++ old ++ post) c = pre ++ replText new ++ R post (if c > 0 then c - 1 else c))
    (fuel : Nat) : ∀ (obj : AStr) (count : Int) (nid : Nat) (done rest : Str),
      obj.s = done ++ rest → rest.length + 1 ≤ fuel →
      (AStr.replaceLoop old new fuel obj count
        ((Py.find rest old 0).map (· + done.length)) nid).s = done ++ R rest count := by
  induction fuel with
  | zero => intro obj count nid done rest _ h; omega
  | succ fuel ih =>
    intro obj count nid done rest hobj hfuel
    cases hf : Py.find rest old 0 with
    | none =>
      rw [Option.map_none, replaceLoop_none, hobj,
        E1 rest count (fun j hj => (find_none_iff _ _ _).mp hf j hj (Nat.zero_le _))]
    | some k =>
      obtain ⟨hk, -, hocc, hfirst⟩ := (find_some_iff _ _ _ _).mp hf
      rw [Option.map_some, replaceLoop_succ]
      by_cases hc : count = 0
      · rw [if_pos hc, hobj, hc, E2]
      · rw [if_neg hc]
        simp only
        have hdec := occ_decomp rest old k hocc
        generalize hpre : rest.take k = pre at hdec
        generalize hpost : rest.drop (k + old.length) = post at hdec
        have hprelen : pre.length = k := by rw [← hpre, List.length_take]; omega
        have hstep := step_s old new hnew obj (k + done.length) nid
        have htake : obj.s.take (k + done.length) = done ++ pre := by
          rw [hobj, hdec]
          have : done ++ (pre ++ old ++ post) = (done ++ pre) ++ (old ++ post) := by simp
          rw [this]
          exact List.take_left' (by simp; omega)
        have hdrop : obj.s.drop (k + done.length + old.length) = post := by
          rw [hobj, hdec, ← hprelen]
          have : pre.length + done.length + old.length = (done ++ pre ++ old).length := by
            simp; omega
          rw [this]
          have : done ++ (pre ++ old ++ post) = (done ++ pre ++ old) ++ post := by simp
          rw [this, List.drop_left]
        rw [htake, hdrop] at hstep
        have hold0 : (if old.isEmpty = true then 1 else 0) = 0 := by
          cases old with
          | nil => exact absurd rfl hold
          | cons _ _ => rfl
        have hfrom : k + done.length + new.advance + (if old.isEmpty = true then 1 else 0) =
            (done ++ pre ++ replText new).length + 0 := by
          rw [hold0, advance_eq new hnew]; simp; omega
        generalize hobj' : ((obj.getSlice none (some ((k + done.length : Nat) : Int))).iadd
          (repOf new obj (k + done.length) nid).1).iadd
            (obj.getSlice (some ((k + done.length + old.length : Nat) : Int)) none) = obj' at hstep ⊢
        rw [hfrom, hstep, find_append_skip]
        have hlen : post.length + 1 ≤ fuel := by
          have := congrArg List.length hdec
          simp at this
          have : 0 < old.length := List.length_pos_iff.mpr hold
          omega
        rw [ih obj' _ _ (done ++ pre ++ replText new) post hstep hlen, hdec,
          E3 pre post count hc (by rw [← hdec, hprelen]; exact fun j hj => hfirst j hj (Nat.zero_le _))]
        simp

/-- `replace(old, new, count)` for a non-empty `old`; the fuel `len + 2` of the model suffices -/
theorem replace_s (x : AStr) (old : Str) (hold : old ≠ []) (new : AStr.Repl) (hnew : ReplOk new)
    (R : Str → Int → Str)
    (E1 : ∀ s c, (∀ j, j ≤ s.length → old.isPrefixOf (s.drop j) = false) → R s c = s)
    (E2 : ∀ s, R s 0 = s)
    (E3 : ∀ pre post c, c ≠ 0 →
        (∀ j, j < pre.length → old.isPrefixOf ((pre ++ old ++ post).drop j) = false) →
        R (pre ++ old ++ post) c = pre ++ replText new ++ R post (if c > 0 then c - 1 else c))
    (count : Int) (nid : Nat) : (x.replace old new count nid).s = R x.s count := by
  have := replaceLoop_s old hold new hnew R E1 E2 E3 (x.len + 2) x count nid [] x.s rfl
    (by simp [AStr.len])
  simpa [AStr.replace] using this

/-- The loop of `replace` for the empty `old`, against any `R` satisfying the insertion equations -/
theorem replaceLoop_empty_s (new : AStr.Repl) (hnew : ReplOk new) (R : Str → Int → Str)
    (Z0 : ∀ s, R s 0 = s)
    (Z1 : ∀ c, c ≠ 0 → R [] c = replText new)
    (Z2 : ∀ a s c, c ≠ 0 → R (a :: s) c = replText new ++ a :: R s (if c > 0 then c - 1 else c))
    (fuel : Nat) : ∀ (obj : AStr) (count : Int) (nid : Nat) (done rest : Str),
      obj.s = done ++ rest → rest.length + 1 ≤ fuel →
      (AStr.replaceLoop [] new fuel obj count (some done.length) nid).s = done ++ R rest count := by
  induction fuel with
  | zero => intro obj count nid done rest _ h; omega
  | succ fuel ih =>
    intro obj count nid done rest hobj hfuel
    rw [replaceLoop_succ]
    by_cases hc : count = 0
    · rw [if_pos hc, hobj, hc, Z0]
    · rw [if_neg hc]
      simp only
      have hstep := step_s [] new hnew obj done.length nid
      have htake : obj.s.take done.length = done := by rw [hobj]; exact List.take_left' rfl
      have hdrop : obj.s.drop (done.length + ([] : Str).length) = rest := by
        rw [hobj]; exact List.drop_left' rfl
      rw [htake, hdrop] at hstep
      generalize ((obj.getSlice none (some ((done.length : Nat) : Int))).iadd
          (repOf new obj done.length nid).1).iadd
            (obj.getSlice (some ((done.length + ([] : Str).length : Nat) : Int)) none) = obj' at hstep ⊢
      cases rest with
      | nil =>
        have hfind : Py.find obj'.s [] (done.length + new.advance +
            (if ([] : Str).isEmpty = true then 1 else 0)) = none := by
          rw [find_empty, hstep, advance_eq new hnew]; simp
        rw [hfind, replaceLoop_none, hstep, Z1 _ hc, List.append_nil]
      | cons a r =>
        have hfind : Py.find obj'.s [] (done.length + new.advance +
            (if ([] : Str).isEmpty = true then 1 else 0)) =
            some (done ++ replText new ++ [a]).length := by
          rw [find_empty, hstep, advance_eq new hnew]; simp; omega
        rw [hfind, ih obj' _ _ (done ++ replText new ++ [a]) r (by rw [hstep]; simp)
          (by simp at hfuel; omega), Z2 a r count hc]
        simp

theorem replace_empty_s (x : AStr) (new : AStr.Repl) (hnew : ReplOk new) (R : Str → Int → Str)
    (Z0 : ∀ s, R s 0 = s)
    (Z1 : ∀ c, c ≠ 0 → R [] c = replText new)
    (Z2 : ∀ a s c, c ≠ 0 → R (a :: s) c = replText new ++ a :: R s (if c > 0 then c - 1 else c))
    (count : Int) (nid : Nat) : (x.replace [] new count nid).s = R x.s count := by
  have := replaceLoop_empty_s new hnew R Z0 Z1 Z2 (x.len + 2) x count nid [] x.s rfl
    (by simp [AStr.len])
  unfold AStr.replace
  rw [find_empty, if_pos (Nat.zero_le _)]
  simpa using this

/-! ## pieces: offset recovery by `find` -/

theorem piecesAt_s (x : AStr) (offs : List (Nat × Nat)) :
    (x.piecesAt offs).map (·.s) = offs.map (fun ol => (x.s.take (ol.1 + ol.2)).drop ol.1) := by
  unfold AStr.piecesAt
  rw [List.map_map]
  apply List.map_congr_left
  intro ol _
  exact getSlice_nat_s x ol.1 (ol.1 + ol.2)

/-- the pieces occur in `s` in this order, each at or after `idx` resp. `gap` behind the end of the
    previous one -/
def Occ (s : Str) (gap : Nat) : List Str → Nat → Prop
  | [], _ => True
  | p :: rest, idx =>
    ∃ t, idx ≤ t ∧ t ≤ s.length ∧ p.isPrefixOf (s.drop t) = true ∧ Occ s gap rest (t + p.length + gap)

theorem Occ_mono {s : Str} {gap : Nat} {ps : List Str} {idx idx' : Nat}
    (h : Occ s gap ps idx) (hle : idx' ≤ idx) : Occ s gap ps idx' := by
  cases ps with
  | nil => trivial
  | cons p rest =>
    obtain ⟨t, h1, h2, h3, h4⟩ := h
    exact ⟨t, by omega, h2, h3, h4⟩

/-- whatever offsets `find` recovers (possibly earlier than the true ones), the slices taken there
    are the pieces -/
theorem pieceOffsets_text (s : Str) (gap : Nat) (ps : List Str) (idx : Nat) (h : Occ s gap ps idx) :
    (AStr.pieceOffsets s gap ps idx).map (fun ol => (s.take (ol.1 + ol.2)).drop ol.1) = ps := by
  induction ps generalizing idx with
  | nil => rfl
  | cons p rest ih =>
    obtain ⟨t, h1, h2, h3, h4⟩ := h
    obtain ⟨j, hf, hj1, hj2, hpj⟩ := find_of_match s p idx t h2 h1 h3
    simp only [AStr.pieceOffsets, hf, Option.getD_some, List.map_cons]
    rw [take_drop_occ s p j hpj, ih _ (Occ_mono h4 (by omega))]

/-- the true offsets of pieces laid out with `gap` characters between them -/
def offsetsFrom (gap : Nat) : List Str → Nat → List (Nat × Nat)
  | [], _ => []
  | p :: rest, idx => (idx, p.length) :: offsetsFrom gap rest (idx + p.length + gap)

theorem pieceOffsets_cons (s : Str) (gap : Nat) (p : Str) (rest : List Str) (idx : Nat) :
    AStr.pieceOffsets s gap (p :: rest) idx =
      ((Py.find s p idx).getD 0, p.length) ::
        AStr.pieceOffsets s gap rest ((Py.find s p idx).getD 0 + p.length + gap) := rfl

theorem offsetsFrom_cons (gap : Nat) (p : Str) (rest : List Str) (idx : Nat) :
    offsetsFrom gap (p :: rest) idx = (idx, p.length) :: offsetsFrom gap rest (idx + p.length + gap) :=
  rfl

theorem joinSep_cons_ne (sep a : Str) {l : List Str} (h : l ≠ []) :
    joinSep sep (a :: l) = a ++ sep ++ joinSep sep l := by
  cases l with
  | nil => exact absurd rfl h
  | cons b r => rfl

/-- pieces that join (with `sep`) to the rest of `s` behind `pre`: `find` from the running index
    recovers exactly the true offsets -/
theorem join_laid (sep : Str) (ps : List Str) (hps : ps ≠ []) (s pre : Str)
    (h : s = pre ++ joinSep sep ps) :
    AStr.pieceOffsets s sep.length ps pre.length = offsetsFrom sep.length ps pre.length ∧
      Occ s sep.length ps pre.length := by
  induction ps generalizing pre with
  | nil => exact absurd rfl hps
  | cons a l ih =>
    cases l with
    | nil =>
      have hocc : a.isPrefixOf (s.drop pre.length) = true := by
        rw [h]
        show a.isPrefixOf ((pre ++ a).drop pre.length) = true
        rw [List.drop_left]
        exact List.isPrefixOf_iff_prefix.mpr (List.prefix_refl a)
      have hlen : pre.length ≤ s.length := by rw [h]; simp
      refine ⟨?_, pre.length, Nat.le_refl _, hlen, hocc, trivial⟩
      simp [AStr.pieceOffsets, offsetsFrom, find_at s a pre.length hlen hocc]
    | cons b r =>
      have hj : joinSep sep (a :: b :: r) = a ++ sep ++ joinSep sep (b :: r) := rfl
      rw [hj] at h
      have hocc : a.isPrefixOf (s.drop pre.length) = true := by
        rw [h]
        have := occ_of_decomp pre a (sep ++ joinSep sep (b :: r))
        simp only [List.append_assoc] at this ⊢
        exact this
      have hlen : pre.length ≤ s.length := by rw [h]; simp
      have hnext : pre.length + a.length + sep.length = (pre ++ a ++ sep).length := by simp; omega
      obtain ⟨ih1, ih2⟩ := ih (by simp) (pre ++ a ++ sep) (by rw [h]; simp)
      refine ⟨?_, pre.length, Nat.le_refl _, hlen, hocc, ?_⟩
      · rw [pieceOffsets_cons, offsetsFrom_cons, find_at s a pre.length hlen hocc,
          Option.getD_some, hnext, ih1]
      · rw [hnext]; exact ih2

theorem offsetsFrom_getElem? (gap : Nat) (ps : List Str) (idx k : Nat) :
    (offsetsFrom gap ps idx)[k]? =
      ps[k]?.map (fun p => (idx + ((ps.take k).map (fun q => q.length + gap)).sum, p.length)) := by
  induction ps generalizing idx k with
  | nil => simp [offsetsFrom]
  | cons p rest ih =>
    cases k with
    | zero => simp [offsetsFrom]
    | succ k =>
      simp only [offsetsFrom, List.getElem?_cons_succ, ih, List.take_succ_cons, List.map_cons,
        List.sum_cons]
      cases rest[k]? with
      | none => rfl
      | some q => simp only [Option.map_some]; congr 2; omega

/-! ## `joinSep` and reversal -/

theorem joinSep_snoc (sep a : Str) {l : List Str} (h : l ≠ []) :
    joinSep sep (l ++ [a]) = joinSep sep l ++ sep ++ a := by
  induction l with
  | nil => exact absurd rfl h
  | cons b r ih =>
    cases r with
    | nil => rfl
    | cons c r' =>
      have h1 : joinSep sep (b :: c :: r') = b ++ sep ++ joinSep sep (c :: r') := rfl
      have h2 : joinSep sep (b :: c :: r' ++ [a]) = b ++ sep ++ joinSep sep (c :: r' ++ [a]) := rfl
      rw [h1, h2, ih (by simp)]
      simp

theorem joinSep_reverse (sep : Str) (l : List Str) :
    (joinSep sep l).reverse = joinSep sep.reverse (l.map List.reverse).reverse := by
  induction l with
  | nil => rfl
  | cons a r ih =>
    cases r with
    | nil => rfl
    | cons b r' =>
      have h1 : joinSep sep (a :: b :: r') = a ++ sep ++ joinSep sep (b :: r') := rfl
      rw [h1, List.map_cons, List.reverse_cons, joinSep_snoc _ _ (by simp), ← ih]
      simp

/-! ## `str.split(sep, maxsplit)` / `rsplit` (the model `Py.splitSep`) -/

theorem splitSepAux_ne (sep : Str) (fuel : Nat) (cur rest : Str) (m : Int) :
    Py.splitSepAux sep fuel cur rest m ≠ [] := by
  cases fuel with
  | zero => simp [Py.splitSepAux]
  | succ fuel =>
    cases rest with
    | nil => simp [Py.splitSepAux]
    | cons c r =>
      rw [Py.splitSepAux]
      split
      · simp
      · exact splitSepAux_ne sep fuel _ _ _

theorem splitSepAux_join (sep : Str) (fuel : Nat) (cur rest : Str) (m : Int) :
    joinSep sep (Py.splitSepAux sep fuel cur rest m) = cur ++ rest := by
  induction fuel generalizing cur rest m with
  | zero => simp [Py.splitSepAux, joinSep]
  | succ fuel ih =>
    cases rest with
    | nil => simp [Py.splitSepAux, joinSep]
    | cons c r =>
      rw [Py.splitSepAux]
      split
      · rename_i hc
        rw [joinSep_cons_ne _ _ (splitSepAux_ne _ _ _ _ _), ih]
        obtain ⟨t, ht⟩ := (startsWith_iff _ _).mp hc.2
        rw [ht]
        simp
      · rw [ih]; simp

theorem splitSepAux_length (sep : Str) (fuel : Nat) (cur rest : Str) (m : Int) (hm : 0 ≤ m) :
    (Py.splitSepAux sep fuel cur rest m).length ≤ m.toNat + 1 := by
  induction fuel generalizing cur rest m with
  | zero => simp [Py.splitSepAux]
  | succ fuel ih =>
    cases rest with
    | nil => simp [Py.splitSepAux]
    | cons c r =>
      rw [Py.splitSepAux]
      split
      · rename_i hc
        have := ih [] ((c :: r).drop sep.length) (m - 1) (by omega)
        simp only [List.length_cons]
        omega
      · exact ih _ _ _ hm

theorem splitSep_join (s sep : Str) (m : Int) : joinSep sep (Py.splitSep s sep m) = s := by
  simpa [Py.splitSep] using splitSepAux_join sep (s.length + 1) [] s m

theorem rsplitSep_join (s sep : Str) (m : Int) : joinSep sep (Py.rsplitSep s sep m) = s := by
  have h := joinSep_reverse sep.reverse (Py.splitSep s.reverse sep.reverse m)
  rw [splitSep_join, List.reverse_reverse, List.reverse_reverse] at h
  exact h.symm

theorem splitSep_ne (s sep : Str) (m : Int) : Py.splitSep s sep m ≠ [] :=
  splitSepAux_ne _ _ _ _ _

theorem rsplitSep_ne (s sep : Str) (m : Int) : Py.rsplitSep s sep m ≠ [] := by
  unfold Py.rsplitSep
  intro h
  have := congrArg List.length h
  simp only [List.length_reverse, List.length_map, List.length_nil] at this
  exact splitSep_ne _ _ _ (List.eq_nil_of_length_eq_zero this)

/-! ## pieces that occur in order, separated by arbitrary gaps -/

/-- `InOrder ps u`: `u = g₀ ++ p₀ ++ g₁ ++ p₁ ++ … ++ tail` for some gaps `gᵢ` -/
inductive InOrder : List Str → Str → Prop
  | nil (u : Str) : InOrder [] u
  | cons (g p rest : Str) (ps : List Str) (h : InOrder ps rest) : InOrder (p :: ps) (g ++ p ++ rest)

theorem InOrder.cons' {g p rest u : Str} {ps : List Str} (hu : u = g ++ p ++ rest) (h : InOrder ps rest) :
    InOrder (p :: ps) u := hu ▸ InOrder.cons g p rest ps h

theorem InOrder.weaken {ps : List Str} {u : Str} (h : InOrder ps u) (g : Str) : InOrder ps (g ++ u) := by
  cases h with
  | nil => exact InOrder.nil _
  | cons g' p rest ps h => exact InOrder.cons' (g := g ++ g') (by simp) h

theorem InOrder.snoc {ps : List Str} {u : Str} (h : InOrder ps u) (g p g' : Str) :
    InOrder (ps ++ [p]) (u ++ g ++ p ++ g') := by
  induction h with
  | nil u => exact InOrder.cons' (g := u ++ g) (rest := g') (by simp) (InOrder.nil _)
  | cons g₀ q rest ps _ ih => exact InOrder.cons' (g := g₀) (rest := rest ++ g ++ p ++ g') (by simp) ih

theorem InOrder.reverse {ps : List Str} {u : Str} (h : InOrder ps u) :
    InOrder (ps.map List.reverse).reverse u.reverse := by
  induction h with
  | nil u => exact InOrder.nil _
  | cons g p rest ps _ ih =>
    have := InOrder.snoc ih [] p.reverse g.reverse
    simpa using this

theorem InOrder.occ {ps : List Str} {u : Str} (h : InOrder ps u) (s pre : Str) (hs : s = pre ++ u) :
    Occ s 0 ps pre.length := by
  induction h generalizing pre with
  | nil u => trivial
  | cons g p rest ps _ ih =>
    refine ⟨(pre ++ g).length, by simp, by rw [hs]; simp, ?_, ?_⟩
    · rw [hs]
      have := occ_of_decomp (pre ++ g) p rest
      simp only [List.append_assoc] at this ⊢
      exact this
    · have := ih (pre ++ g ++ p) (by rw [hs]; simp)
      simpa [Nat.add_assoc] using this

/-- the text theorem for offset recovery with gap 0 -/
theorem pieceOffsets_sub (s : Str) (ps : List Str) (h : InOrder ps s) :
    (AStr.pieceOffsets s 0 ps 0).map (fun ol => (s.take (ol.1 + ol.2)).drop ol.1) = ps :=
  pieceOffsets_text s 0 ps 0 (h.occ s [] rfl)

/-! ## whitespace splitting and `splitlines` produce pieces in order -/

theorem splitWsAux_sub (fuel : Nat) (s : Str) (m : Int) : InOrder (Py.splitWsAux fuel s m) s := by
  induction fuel generalizing s m with
  | zero => exact InOrder.nil _
  | succ fuel ih =>
    rw [Py.splitWsAux]
    simp only
    have h1 := List.takeWhile_append_dropWhile (p := Py.isSpace) (l := s)
    split
    · exact InOrder.nil _
    · split
      · exact InOrder.cons' (g := s.takeWhile Py.isSpace) (rest := []) (by simp [h1]) (InOrder.nil _)
      · have h2 := List.takeWhile_append_dropWhile (p := fun c => !Py.isSpace c)
          (l := s.dropWhile Py.isSpace)
        rw [drop_takeWhile_length]
        refine InOrder.cons' (g := s.takeWhile Py.isSpace) ?_ (ih _ _)
        rw [List.append_assoc, h2, h1]

theorem splitWs_sub (s : Str) (m : Int) : InOrder (Py.splitWs s m) s := splitWsAux_sub _ _ _

theorem rsplitWs_sub (s : Str) (m : Int) : InOrder (Py.rsplitWs s m) s := by
  have := (splitWs_sub s.reverse m).reverse
  rwa [List.reverse_reverse] at this

theorem splitlinesAux_sub (keep : Bool) (s cur : Str) :
    InOrder (Py.splitlinesAux keep s cur) (cur ++ s) := by
  fun_induction Py.splitlinesAux keep s cur with
  | case1 cur _ => exact InOrder.nil _
  | case2 cur _ => exact InOrder.cons' (g := []) (rest := []) (by simp) (InOrder.nil _)
  | case3 rest cur ih =>
    simp only [List.nil_append] at ih
    cases keep
    · exact InOrder.cons' (g := []) (rest := '\r' :: '\n' :: rest) (by simp) (ih.weaken ['\r', '\n'])
    · exact InOrder.cons' (g := []) (rest := rest) (by simp) ih
  | case4 c rest cur hnot hbr ih =>
    simp only [List.nil_append] at ih
    cases keep
    · exact InOrder.cons' (g := []) (rest := c :: rest) (by simp) (ih.weaken [c])
    · exact InOrder.cons' (g := []) (rest := rest) (by simp) ih
  | case5 c rest cur hnot hbr ih =>
    simpa using ih

theorem splitlines_sub (s : Str) (keep : Bool) : InOrder (Py.splitlines s keep) s := by
  simpa [Py.splitlines] using splitlinesAux_sub keep s []

/-! ## `Py.splitSep` is "repeated `find`" (and its fuel suffices) -/

theorem splitSepAux_zero (sep : Str) (fuel : Nat) (cur rest : Str) :
    Py.splitSepAux sep fuel cur rest 0 = [cur ++ rest] := by
  induction fuel generalizing cur rest with
  | zero => rfl
  | succ fuel ih =>
    cases rest with
    | nil => simp [Py.splitSepAux]
    | cons c r =>
      rw [Py.splitSepAux, if_neg (by simp), ih]
      simp

/-- any fuel above the length of the rest gives the same result -/
theorem splitSepAux_fuel (sep : Str) (hsep : sep ≠ []) (fuel : Nat) :
    ∀ (cur rest : Str) (m : Int), rest.length + 1 ≤ fuel →
      Py.splitSepAux sep fuel cur rest m = Py.splitSepAux sep (rest.length + 1) cur rest m := by
  induction fuel using Nat.strongRecOn with
  | _ fuel ih =>
    intro cur rest m hf
    cases fuel with
    | zero => omega
    | succ f =>
      cases rest with
      | nil => simp [Py.splitSepAux]
      | cons c r =>
        have hseplen : 0 < sep.length := List.length_pos_iff.mpr hsep
        simp only [List.length_cons] at hf ⊢
        rw [Py.splitSepAux, Py.splitSepAux]
        split
        · have hd : ((c :: r).drop sep.length).length + 1 ≤ r.length + 1 := by
            simp only [List.length_drop, List.length_cons]; omega
          rw [ih f (by omega) [] _ _ (by omega), ih (r.length + 1) (by omega) [] _ _ hd]
        · rw [ih f (by omega) _ r _ (by omega)]

theorem findFrom_of_le (s sub : Str) (pos a b : Nat) (ha : a ≤ pos) (hb : b ≤ pos) :
    Py.findFrom s sub pos a = Py.findFrom s sub pos b := by
  induction s generalizing pos with
  | nil =>
    rw [findFrom_nil, findFrom_nil]
    by_cases h : sub.isEmpty = true
    · rw [if_pos ⟨ha, h⟩, if_pos ⟨hb, h⟩]
    · rw [if_neg (fun hc => h hc.2), if_neg (fun hc => h hc.2)]
  | cons c r ih =>
    rw [findFrom_cons, findFrom_cons]
    by_cases h : sub.isPrefixOf (c :: r) = true
    · rw [if_pos ⟨ha, h⟩, if_pos ⟨hb, h⟩]
    · rw [if_neg (fun hc => h hc.2), if_neg (fun hc => h hc.2), ih (pos + 1) (by omega) (by omega)]

theorem find_cons_of_not (c : Char) (r sep : Str) (h : ¬ (sep.isPrefixOf (c :: r) = true)) :
    Py.find (c :: r) sep 0 = (Py.find r sep 0).map (· + 1) := by
  unfold Py.find
  rw [findFrom_cons, if_neg (fun hc => h hc.2)]
  rw [findFrom_of_le r sep (0 + 1) 0 (0 + 1) (by omega) (by omega)]
  exact findFrom_shift r sep 0 0 1

/-- one round of `split`: cut at the first occurrence of `sep` (if `maxsplit` allows), go on
    behind it -/
theorem splitSepAux_find (sep : Str) (hsep : sep ≠ []) (rest : Str) :
    ∀ (cur : Str) (fuel : Nat) (m : Int), rest.length + 1 ≤ fuel → m ≠ 0 →
      Py.splitSepAux sep fuel cur rest m =
        match Py.find rest sep 0 with
        | none => [cur ++ rest]
        | some i => (cur ++ rest.take i) ::
            Py.splitSep (rest.drop (i + sep.length)) sep (m - 1) := by
  induction rest with
  | nil =>
    intro cur fuel m hf hm
    have : Py.find [] sep 0 = none := by
      rw [find_none_iff]
      intro i hi _
      have : i = 0 := by simpa using hi
      subst this
      cases sep with
      | nil => exact absurd rfl hsep
      | cons _ _ => rfl
    rw [this]
    cases fuel with
    | zero => omega
    | succ f => simp [Py.splitSepAux]
  | cons c r ih =>
    intro cur fuel m hf hm
    cases fuel with
    | zero => omega
    | succ f =>
      simp only [List.length_cons] at hf
      rw [Py.splitSepAux]
      by_cases hp : sep.isPrefixOf (c :: r) = true
      · have hfind : Py.find (c :: r) sep 0 = some 0 := find_at _ _ 0 (Nat.zero_le _) (by simpa using hp)
        have hseplen : 0 < sep.length := List.length_pos_iff.mpr hsep
        rw [if_pos ⟨hm, by rw [startsWith_eq]; exact hp⟩, hfind]
        simp only [List.take_zero, List.append_nil, Nat.zero_add]
        rw [splitSepAux_fuel sep hsep f [] _ _ (by simp only [List.length_drop, List.length_cons]; omega)]
        rfl
      · rw [if_neg (by rw [startsWith_eq]; exact fun h => hp h.2), ih _ f m (by omega) hm,
          find_cons_of_not c r sep hp]
        cases Py.find r sep 0 with
        | none => simp
        | some i =>
          have : i + 1 + sep.length = (i + sep.length) + 1 := by omega
          simp only [Option.map_some, List.take_succ_cons, this, List.drop_succ_cons]
          simp

/-- `str.split(sep, maxsplit)` as the model computes it IS "cut at the first occurrence, continue
    behind it, at most `maxsplit` times" — in particular the fuel of `Py.splitSep` suffices -/
theorem splitSep_unfold (s sep : Str) (hsep : sep ≠ []) (m : Int) :
    Py.splitSep s sep m =
      if m = 0 then [s]
      else match Py.find s sep 0 with
        | none => [s]
        | some i => s.take i :: Py.splitSep (s.drop (i + sep.length)) sep (m - 1) := by
  by_cases hm : m = 0
  · rw [if_pos hm, hm]; exact splitSepAux_zero sep _ [] s
  · rw [if_neg hm]
    have := splitSepAux_find sep hsep s [] (s.length + 1) m (Nat.le_refl _) hm
    simpa [Py.splitSep] using this

end StrLikeL
