import AnsiProofs.Props.C01
import AnsiProofs.Props.C04
import AnsiProofs.Props.C05
import AnsiProofs.Props.C06
/-
  AnsiProofs.Lemmas.Display — helper lemmas for C06b (the display-level reading of
  `apply_formatting`) and C05b (`s[:k] + s[k:]`).

  * `touches l g`: some setting of `l` sets or clears effect group `g` (a reset touches every group);
  * the two algebra facts about `eff (l ++ m)`: the later list decides the groups it touches, the
    groups it does not touch keep the value the earlier list gave them;
  * `eff` only looks at the texts of the settings;
  * the settings a character reports are settings of the table;
  * a slice, and a concatenation, mention only settings of their sources (no bound on the slice
    indices is needed: proved structurally over the slicing loop).
-/
open Term Eff RenderL

namespace DisplayL

/-! ## which groups a setting touches -/

/-- does SGR parameter `c` set or clear group `g`?  (`0`, the reset, clears every group) -/
def codeTouches (c : Nat) (g : Group) : Bool :=
  match specEffect c with
  | some .reset => true
  | some (.set g') => g' == g
  | some (.clear g') => g' == g
  | some (.ext g') => g' == g
  | none => false

/-- the same for the first number of a list of numbers -/
def headTouches (vals : List Nat) (g : Group) : Bool :=
  match vals with
  | c :: _ => codeTouches c g
  | [] => false

/-- does the setting text `t` (one SGR parameter group) set or clear group `g`?  Decided by its
    first parameter: `1` → boldness, `22` → boldness, `38;5;n` → fg, `0` → every group -/
def txtTouches (t : Str) (g : Group) : Bool :=
  match (Term.params t).head? with
  | some (some c) => codeTouches c g
  | _ => false

/-- some setting of `l` sets or clears group `g` -/
def touches (l : List Setting) (g : Group) : Prop := ∃ s ∈ l, txtTouches s.txt g = true

instance (l : List Setting) (g : Group) : Decidable (touches l g) := by
  unfold touches; infer_instance

theorem touches_nil (g : Group) : ¬ touches [] g := by
  rintro ⟨s, hs, _⟩; cases hs

theorem touches_cons {s : Setting} {l : List Setting} {g : Group} :
    touches (s :: l) g ↔ txtTouches s.txt g = true ∨ touches l g := by
  simp [touches]

theorem touches_append {l m : List Setting} {g : Group} :
    touches (l ++ m) g ↔ touches l g ∨ touches m g := by
  simp only [touches, List.mem_append]
  constructor
  · rintro ⟨s, hs | hs, h⟩
    · exact .inl ⟨s, hs, h⟩
    · exact .inr ⟨s, hs, h⟩
  · rintro (⟨s, hs, h⟩ | ⟨s, hs, h⟩)
    · exact ⟨s, .inl hs, h⟩
    · exact ⟨s, .inr hs, h⟩

/-- a reset touches every group -/
theorem txtTouches_zero (g : Group) : txtTouches ['0'] g = true := by
  cases g <;> decide

theorem txtTouches_eq {t : Str} (h : isGroupTxt t = true) (g : Group) :
    txtTouches t g = headTouches (valsOf t) g := by
  unfold txtTouches headTouches
  rw [params_of_digits (isGroupTxt_spec h).1]
  cases valsOf t <;> rfl

/-! ## one complete group -/

theorem feed_group_touch {vals : List Nat} (h : GroupVals vals) {g : Group}
    (ht : headTouches vals g = true) (st st' : TState) :
    feed st (vals.map some) g = feed st' (vals.map some) g := by
  cases h with
  | single c a b d =>
    simp only [headTouches, codeTouches] at ht
    simp only [List.map_cons, List.map_nil]
    cases hs : specEffect c with
    | none => simp [hs] at ht
    | some act =>
      cases act with
      | reset => rw [feed_reset hs, feed_reset hs]
      | set g' =>
        simp only [hs, beq_iff_eq] at ht; subst ht
        rw [feed_set hs, feed_set hs, feed_nil, feed_nil]; simp [TState.put]
      | clear g' =>
        simp only [hs, beq_iff_eq] at ht; subst ht
        rw [feed_clear hs, feed_clear hs, feed_nil, feed_nil]; simp [TState.drop]
      | ext g' => rcases specEffect_ext hs with h | h | h <;> simp_all
  | idx c n hc hn =>
    obtain ⟨g', hg⟩ := specEffect_of_extCode hc
    simp only [headTouches, codeTouches, hg, beq_iff_eq] at ht; subst ht
    simp only [List.map_cons, List.map_nil, feed_ext5 hg, feed_nil, hn, if_true]
    simp [TState.put]
  | rgb c r gg b hc hr hg' hb =>
    obtain ⟨g', hg⟩ := specEffect_of_extCode hc
    simp only [headTouches, codeTouches, hg, beq_iff_eq] at ht; subst ht
    simp only [List.map_cons, List.map_nil, feed_ext2 hg, feed_nil, hr, hg', hb, and_self, if_true]
    simp [TState.put]

theorem feed_group_notouch {vals : List Nat} (h : GroupVals vals) {g : Group}
    (ht : headTouches vals g = false) (st : TState) :
    feed st (vals.map some) g = st g := by
  cases h with
  | single c a b d =>
    simp only [headTouches, codeTouches] at ht
    simp only [List.map_cons, List.map_nil]
    cases hs : specEffect c with
    | none => rw [feed_unknown hs, feed_nil]
    | some act =>
      cases act with
      | reset => simp [hs] at ht
      | set g' =>
        simp only [hs, beq_eq_false_iff_ne, ne_eq] at ht
        rw [feed_set hs, feed_nil]
        have : ¬ g = g' := fun e => ht e.symm
        simp [TState.put, this]
      | clear g' =>
        simp only [hs, beq_eq_false_iff_ne, ne_eq] at ht
        rw [feed_clear hs, feed_nil]
        have : ¬ g = g' := fun e => ht e.symm
        simp [TState.drop, this]
      | ext g' => rcases specEffect_ext hs with h | h | h <;> simp_all
  | idx c n hc hn =>
    obtain ⟨g', hg⟩ := specEffect_of_extCode hc
    simp only [headTouches, codeTouches, hg, beq_eq_false_iff_ne, ne_eq] at ht
    have : ¬ g = g' := fun e => ht e.symm
    simp only [List.map_cons, List.map_nil, feed_ext5 hg, feed_nil, hn, if_true]
    simp [TState.put, this]
  | rgb c r gg b hc hr hg' hb =>
    obtain ⟨g', hg⟩ := specEffect_of_extCode hc
    simp only [headTouches, codeTouches, hg, beq_eq_false_iff_ne, ne_eq] at ht
    have : ¬ g = g' := fun e => ht e.symm
    simp only [List.map_cons, List.map_nil, feed_ext2 hg, feed_nil, hr, hg', hb, and_self, if_true]
    simp [TState.put, this]

/-- a group text that touches `g` gives `g` a value that does not depend on the prior state -/
theorem feed_txt_touch {t : Str} (h : isGroupTxt t = true) {g : Group} (ht : txtTouches t g = true)
    (st st' : TState) : feed st (Term.params t) g = feed st' (Term.params t) g := by
  rw [txtTouches_eq h] at ht
  rw [params_of_digits (isGroupTxt_spec h).1]
  exact feed_group_touch (isGroupTxt_spec h).2 ht st st'

/-- a group text that does not touch `g` leaves `g` as it was -/
theorem feed_txt_notouch {t : Str} (h : isGroupTxt t = true) {g : Group} (ht : txtTouches t g = false)
    (st : TState) : feed st (Term.params t) g = st g := by
  rw [txtTouches_eq h] at ht
  rw [params_of_digits (isGroupTxt_spec h).1]
  exact feed_group_notouch (isGroupTxt_spec h).2 ht st

/-! ## a list of settings -/

/-- settings that do not touch `g` leave `g` as it was -/
theorem feed_notouch {m : List Setting} (hm : ∀ s ∈ m, isGroupTxt s.txt = true) {g : Group}
    (ht : ¬ touches m g) (st : TState) : feed st (codesOf m) g = st g := by
  induction m generalizing st with
  | nil => rw [codesOf_nil, feed_nil]
  | cons s m ih =>
    have hs := hm s (by simp)
    rw [touches_cons, not_or] at ht
    rw [codesOf_cons, feed_groupTxt hs, ih (fun x hx => hm x (by simp [hx])) ht.2]
    exact feed_txt_notouch hs (by simpa using ht.1) st

/-- settings that touch `g` give `g` a value that does not depend on the prior state -/
theorem feed_touch {m : List Setting} (hm : ∀ s ∈ m, isGroupTxt s.txt = true) {g : Group}
    (ht : touches m g) (st st' : TState) : feed st (codesOf m) g = feed st' (codesOf m) g := by
  induction m generalizing st st' with
  | nil => exact absurd ht (touches_nil g)
  | cons s m ih =>
    have hs := hm s (by simp)
    have hm' : ∀ x ∈ m, isGroupTxt x.txt = true := fun x hx => hm x (by simp [hx])
    rw [codesOf_cons, feed_groupTxt hs, feed_groupTxt hs]
    by_cases h' : touches m g
    · exact ih hm' h' _ _
    · rw [feed_notouch hm' h', feed_notouch hm' h']
      rcases touches_cons.1 ht with h | h
      · exact feed_txt_touch hs h st st'
      · exact absurd h h'

/-- **what comes later decides the groups it touches** -/
theorem eff_append_right {l m : List Setting} (h : ∀ s ∈ l ++ m, isGroupTxt s.txt = true) {g : Group}
    (ht : touches m g) : eff (l ++ m) g = eff m g := by
  unfold eff
  rw [feed_codesOf_append (fun s hs => h s (by simp [hs]))]
  exact feed_touch (fun s hs => h s (by simp [hs])) ht _ _

/-- **groups the later settings do not touch keep the earlier value** -/
theorem eff_append_left {l m : List Setting} (h : ∀ s ∈ l ++ m, isGroupTxt s.txt = true) {g : Group}
    (ht : ¬ touches m g) : eff (l ++ m) g = eff l g := by
  unfold eff
  rw [feed_codesOf_append (fun s hs => h s (by simp [hs]))]
  exact feed_notouch (fun s hs => h s (by simp [hs])) ht _

/-- a group no setting touches shows its default -/
theorem eff_notouch {l : List Setting} (h : ∀ s ∈ l, isGroupTxt s.txt = true) {g : Group}
    (ht : ¬ touches l g) : eff l g = none := by
  unfold eff; rw [feed_notouch h ht]; rfl

/-- `eff` only looks at the texts -/
theorem eff_congr_texts {l l' : List Setting} (h : texts l = texts l') : eff l = eff l' := by
  unfold eff
  rw [← codesT_texts l, ← codesT_texts l', h]

/-! ## the settings a character reports are settings of the table -/

theorem settings_cons (k : Nat) (p : Point) (rest : Fmts) :
    Fmts.settings ((k, p) :: rest) = p.add ++ p.rem ++ Fmts.settings rest := by
  simp [Fmts.settings]

theorem mem_settings {f : Fmts} {s : Setting} :
    s ∈ f.settings ↔ ∃ kp ∈ f, s ∈ kp.2.add ∨ s ∈ kp.2.rem := by
  simp [Fmts.settings, List.mem_flatMap]

theorem mem_activeFrom {s : Setting} : ∀ (f : Fmts) (cur : List Setting) (i : Nat),
    s ∈ activeFrom cur f i → s ∈ cur ∨ s ∈ f.settings
  | [], cur, i, h => .inl h
  | (k, p) :: rest, cur, i, h => by
    rw [settings_cons]
    simp only [activeFrom] at h
    split at h
    · rcases mem_activeFrom rest _ i h with h | h
      · rcases RenderL.mem_stepPoint h with h | h
        · exact .inl h
        · exact .inr (by simp [h])
      · exact .inr (by simp [h])
    · exact .inl h

theorem mem_act {x : AStr} {i : Nat} {s : Setting} (h : s ∈ act x i) : s ∈ x.fmts.settings := by
  rcases mem_activeFrom x.fmts [] i h with h | h
  · cases h
  · exact h

theorem act_group {x : AStr} (hg : GroupSettings x) (i : Nat) : ∀ s ∈ act x i, isGroupTxt s.txt = true :=
  fun s hs => hg s (mem_act hs)

/-- the settings of `N ++ act x i` resp. `act x i ++ N` are group texts -/
theorem group_both {x : AStr} {N : List Setting} (hg : GroupSettings x)
    (hN : ∀ s ∈ N, isGroupTxt s.txt = true) (i : Nat) :
    (∀ s ∈ N ++ act x i, isGroupTxt s.txt = true) ∧ (∀ s ∈ act x i ++ N, isGroupTxt s.txt = true) := by
  constructor <;>
  · intro s hs
    rcases List.mem_append.1 hs with h | h
    all_goals first | exact hN s h | exact act_group hg i s h

/-! ## a slice mentions only settings of its source (any bounds) -/

theorem mem_settings_set {f : Fmts} {k : Nat} {p : Point} {s : Setting} (h : s ∈ (f.set k p).settings) :
    s ∈ f.settings ∨ s ∈ p.add ∨ s ∈ p.rem := by
  obtain ⟨kp, hkp, hs⟩ := mem_settings.1 h
  rcases Fmts.mem_set hkp with e | e
  · subst e; exact .inr hs
  · exact .inl (mem_settings.2 ⟨kp, e, hs⟩)

theorem mem_settings_ensure {f : Fmts} {k : Nat} {s : Setting} (h : s ∈ (f.ensure k).settings) :
    s ∈ f.settings := by
  unfold Fmts.ensure at h
  split at h
  · exact h
  · rcases mem_settings_set h with h | h | h
    · exact h
    · cases h
    · cases h

theorem mem_modify {f : Fmts} {k : Nat} {g : Point → Point} {x : Nat × Point} (h : x ∈ f.modify k g) :
    x ∈ f ∨ ∃ p, (k, p) ∈ f ∧ x = (k, g p) := by
  induction f with
  | nil => cases h
  | cons kp rest ih =>
    obtain ⟨k', p'⟩ := kp
    unfold Fmts.modify at h
    split at h
    · rename_i hk
      subst hk
      rcases List.mem_cons.1 h with e | e
      · exact .inr ⟨p', by simp, e⟩
      · exact .inl (by simp [e])
    · rcases List.mem_cons.1 h with e | e
      · exact .inl (by simp [e])
      · rcases ih e with e | ⟨p, hp, e⟩
        · exact .inl (by simp [e])
        · exact .inr ⟨p, by simp [hp], e⟩

/-- what the iterator yields: points of the table, and settings that started in the table -/
theorem replayFrom_sub (P : Setting → Prop) : ∀ (f : Fmts) (cur : List Setting),
    (∀ s ∈ cur, P s) → (∀ s ∈ f.settings, P s) →
    ∀ t ∈ replayFrom cur f, (∀ s ∈ t.2.1.add, P s) ∧ (∀ s ∈ t.2.1.rem, P s) ∧ (∀ s ∈ t.2.2, P s)
  | [], _, _, _, t, ht => by cases ht
  | (k, p) :: rest, cur, hc, hf, t, ht => by
    rw [settings_cons] at hf
    have hcur' : ∀ s ∈ stepPoint cur p, P s := by
      intro s hs
      rcases RenderL.mem_stepPoint hs with h | h
      · exact hc s h
      · exact hf s (by simp [h])
    simp only [replayFrom, List.mem_cons] at ht
    rcases ht with e | e
    · subst e
      exact ⟨fun s hs => hf s (by simp [hs]), fun s hs => hf s (by simp [hs]), hcur'⟩
    · exact replayFrom_sub P rest _ hcur' (fun s hs => hf s (by simp [hs])) t e

theorem getLoop_sub (P : Setting → Prop) (st en n : Nat) :
    ∀ (L : List (Nat × Point × List Setting)) (prev : List Setting) (init : Bool) (out : Fmts),
    (∀ t ∈ L, (∀ s ∈ t.2.1.add, P s) ∧ (∀ s ∈ t.2.1.rem, P s) ∧ (∀ s ∈ t.2.2, P s)) →
    (∀ s ∈ prev, P s) → (∀ s ∈ out.settings, P s) →
    (∀ s ∈ (AStr.getLoop st en n prev init out L).1, P s) ∧
    (∀ s ∈ (AStr.getLoop st en n prev init out L).2.2.settings, P s)
  | [], prev, init, out, _, hp, ho => by
    simp only [AStr.getLoop]; exact ⟨hp, ho⟩
  | (idx, p, cur) :: rest, prev, init, out, hL, hp, ho => by
    obtain ⟨ha, hr, hc⟩ := hL (idx, p, cur) (by simp)
    have hrest : ∀ t ∈ rest, (∀ s ∈ t.2.1.add, P s) ∧ (∀ s ∈ t.2.1.rem, P s) ∧ (∀ s ∈ t.2.2, P s) :=
      fun t ht => hL t (by simp [ht])
    simp only at ha hr hc
    simp only [AStr.getLoop]
    split
    · exact ⟨hp, ho⟩
    · split
      · refine ⟨hp, ?_⟩
        split
        · exact ho
        · intro s hs
          rcases mem_settings_set hs with h | h | h
          · exact ho s h
          · cases h
          · exact hr s h
      · split
        · apply getLoop_sub P st en n rest cur true _ hrest hc
          split
          · exact ho
          · intro s hs
            rcases mem_settings_set hs with h | h | h
            · exact ho s h
            · exact hc s h
            · cases h
        · split
          · apply getLoop_sub P st en n rest cur true _ hrest hc
            intro s hs
            rcases mem_settings_set hs with h | h | h
            · split at h
              · rcases mem_settings_set h with h | h | h
                · exact ho s h
                · exact hp s h
                · cases h
              · exact ho s h
            · exact ha s h
            · exact hr s h
          · exact getLoop_sub P st en n rest cur init out hrest hc ho

/-- **a slice mentions only settings of its source** — for all bounds, no invariant needed -/
theorem getRange_settings_sub (x : AStr) (st en : Nat) :
    ∀ s ∈ (x.getRange st en).fmts.settings, s ∈ x.fmts.settings := by
  intro s hs
  unfold AStr.getRange at hs
  simp only at hs
  split at hs
  · cases hs
  · have hL := replayFrom_sub (fun s => s ∈ x.fmts.settings) x.fmts [] (by simp) (fun s h => h)
    obtain ⟨h1, h2⟩ := getLoop_sub (fun s => s ∈ x.fmts.settings) st en x.len (replay x.fmts) [] false []
      hL (by simp) (by simp [Fmts.settings])
    generalize AStr.getLoop st en x.len [] false [] (replay x.fmts) = r at hs h1 h2
    have h3 : ∀ s ∈ (if (!r.2.1 ∧ !r.1.isEmpty) then r.2.2.set 0 { add := r.1 } else r.2.2).settings,
        s ∈ x.fmts.settings := by
      intro s hs
      split at hs
      · rcases mem_settings_set hs with h | h | h
        · exact h2 s h
        · exact h1 s h
        · cases h
      · exact h2 s hs
    generalize (if (!r.2.1 ∧ !r.1.isEmpty) then r.2.2.set 0 { add := r.1 } else r.2.2) = out at hs h3
    simp only at hs
    split at hs
    · exact h3 s hs
    · obtain ⟨kp, hkp, hm⟩ := mem_settings.1 hs
      rcases mem_modify hkp with e | ⟨p, hp, e⟩
      · exact h3 s (mem_settings_ensure (mem_settings.2 ⟨kp, e, hm⟩))
      · subst e
        simp only at hm
        have hp' : ∀ t, t ∈ p.add ∨ t ∈ p.rem → t ∈ x.fmts.settings :=
          fun t ht => h3 t (mem_settings_ensure (mem_settings.2 ⟨_, hp, ht⟩))
        rcases hm with hm | hm
        · exact hp' s (.inl hm)
        · rcases List.mem_append.1 hm with hm | hm
          · exact hp' s (.inr hm)
          · exact h1 s (List.mem_filter.1 hm).1

/-- two slices of one value never disagree on the text of a shared object -/
theorem slices_coherent_aux {x : AStr} (h : WF x) (a b c d : Nat) :
    ConcatL.CoherentPair (x.getRange a b) (x.getRange c d) :=
  fun s hs t ht e =>
    h.coherent s (getRange_settings_sub x a b s hs) t (getRange_settings_sub x c d t ht) e

theorem iadd_settings_sub {a b : AStr} (ha : WF a) (hb : WF b) :
    ∀ s ∈ (a.iadd b).fmts.settings, s ∈ a.fmts.settings ∨ s ∈ b.fmts.settings :=
  fun _ hs => ConcatL.mem_iadd_settings ha hb hs

/-! ## `map` over `zipIdx`, pointwise on the valid indices -/

theorem zipIdx_map_congr {α β : Type} (l : List α) (f g : α × Nat → β)
    (h : ∀ c i, i < l.length → f (c, i) = g (c, i)) : l.zipIdx.map f = l.zipIdx.map g := by
  apply List.map_congr_left
  rintro ⟨c, i⟩ hm
  have := List.snd_lt_of_mem_zipIdx hm
  exact h c i (by simpa using this)

end DisplayL
