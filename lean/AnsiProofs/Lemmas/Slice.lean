import AnsiProofs.Lemmas.Basic
/-
  Helper lemmas for property C04 (`__getitem__`, `clip`, the character iterator).

  Plan: the table built by `AStr.getRange` is characterised key by key (`getRange_get?`), then as a
  function `Nat → Point` (`sliceFn`, `getRange_toFun`); every semantic fact (`act`, `replayOk`,
  `Fmts.settings`) is then read off the function representation.
-/

/-! ## `pySlice` and `sliceIdx` -/

theorem pySlice_getElem? (s : Str) (st en k : Nat) :
    (pySlice s st en)[k]? = if st + k < en then s[st + k]? else none := by
  unfold pySlice
  rw [List.getElem?_drop, List.getElem?_take]

theorem pySlice_length (s : Str) (st en : Nat) :
    (pySlice s st en).length = min en s.length - st := by
  unfold pySlice
  simp [List.length_drop, List.length_take]

theorem pySlice_isEmpty_false {s : Str} {st en : Nat} (h1 : st < en) (h2 : en ≤ s.length) :
    (pySlice s st en).isEmpty = false := by
  have := pySlice_length s st en
  cases h : pySlice s st en with
  | nil => rw [h] at this; simp at this; omega
  | cons a l => rfl

theorem pySlice_eq_nil_of_not {s : Str} {st en : Nat} (h2 : en ≤ s.length)
    (h : ¬ (pySlice s st en) = []) : st < en := by
  have hl := pySlice_length s st en
  cases h' : pySlice s st en with
  | nil => exact absurd h' h
  | cons a l => rw [h'] at hl; simp at hl; omega

theorem sliceIdx_none (n d : Nat) : sliceIdx n none d = d := rfl

theorem sliceIdx_neg (n : Nat) (v : Int) (d : Nat) (h : v < 0) :
    sliceIdx n (some v) d = ((n : Int) + v).toNat := by
  simp [sliceIdx, h]

theorem sliceIdx_nonneg (n : Nat) (v : Int) (d : Nat) (h : v ≥ 0) :
    sliceIdx n (some v) d = min v.toNat n := by
  have : ¬ v < 0 := by omega
  simp [sliceIdx, this]

theorem sliceIdx_le_s4 (n : Nat) (v : Option Int) (d : Nat) : sliceIdx n v d ≤ max n d := by
  cases v with
  | none => simp [sliceIdx]; omega
  | some v =>
    by_cases h : v < 0
    · rw [sliceIdx_neg n v d h]; omega
    · rw [sliceIdx_nonneg n v d (by omega)]; omega

/-! ## more about sorted association lists -/

namespace Fmts

theorem keys_modify_s4 (f : Fmts) (k : Nat) (g : Point → Point) :
    (f.modify k g).map (·.1) = f.map (·.1) := by
  induction f with
  | nil => rfl
  | cons kp rest ih =>
    obtain ⟨k', p'⟩ := kp
    unfold Fmts.modify
    by_cases h : k' = k
    · simp [h]
    · simp [h, ih]

theorem sorted_iff_keys (f : Fmts) : SortedKeys f ↔ (f.map (·.1)).Pairwise (· < ·) := by
  unfold SortedKeys
  rw [List.pairwise_map]

theorem sorted_modify_s4 {f : Fmts} (h : SortedKeys f) (k : Nat) (g : Point → Point) :
    SortedKeys (f.modify k g) := by
  rw [sorted_iff_keys] at *
  rw [keys_modify_s4]; exact h

theorem get?_modify_s4 (f : Fmts) (k : Nat) (g : Point → Point) (j : Nat) :
    (f.modify k g).get? j = if j = k then (f.get? k).map g else f.get? j := by
  induction f with
  | nil => simp [Fmts.modify, get?_nil]
  | cons kp rest ih =>
    obtain ⟨k', p'⟩ := kp
    unfold Fmts.modify
    by_cases h : k' = k
    · subst h
      simp only [if_true, get?_cons]
      by_cases hj : j = k'
      · subst hj; simp
      · have : ¬ k' = j := fun e => hj e.symm
        simp [hj, this]
    · simp only [h, if_false, get?_cons, ih]
      by_cases hj : j = k
      · subst hj; simp [h]; split <;> rfl
      · simp [hj]

theorem sorted_ensure_s4 {f : Fmts} (h : SortedKeys f) (k : Nat) : SortedKeys (f.ensure k) := by
  unfold Fmts.ensure
  split
  · exact h
  · exact sorted_set h _ _

theorem get?_ensure_s4 {f : Fmts} (h : SortedKeys f) (k j : Nat) :
    (f.ensure k).get? j = if j = k then some (f.getD k) else f.get? j := by
  unfold Fmts.ensure Fmts.contains Fmts.getD
  cases hk : f.get? k with
  | none =>
    simp [get?_set h]
  | some p =>
    by_cases hj : j = k
    · subst hj; simp [hk]
    · simp [hj]

theorem mem_iff_get?_s4 {f : Fmts} (h : SortedKeys f) (k : Nat) (p : Point) :
    (k, p) ∈ f ↔ f.get? k = some p :=
  ⟨get?_eq_some_of_mem h, mem_of_get?_eq_some⟩

theorem get?_of_all_gt {f : Fmts} {i : Nat} (h : ∀ kp ∈ f, i < kp.1) : f.get? i = none :=
  get?_of_LB (lo := i + 1) (fun kp hk => h kp hk) (by omega)

end Fmts

theorem activeFrom_of_all_gt (cur : List Setting) {f : Fmts} {i : Nat} (h : ∀ kp ∈ f, i < kp.1) :
    activeFrom cur f i = cur := by
  cases f with
  | nil => rfl
  | cons kp rest =>
    obtain ⟨k, p⟩ := kp
    have : ¬ k ≤ i := by have := h (k, p) (by simp); simp at this; omega
    simp [activeFrom, this]

/-! ## the loop of `__getitem__` -/

/-- what the loop leaves at key `j` of the new table, for keys other than `0`, given the part `f` of
    the old table that is still to be visited and the new table `out` built so far -/
def loopGet (st en : Nat) (f out : Fmts) (j : Nat) : Option Point :=
  if 0 < j ∧ j < en - st ∧ (f.get? (st + j)).isSome then f.get? (st + j)
  else if j = en - st ∧ (f.getD en).rem.isEmpty = false then some { rem := (f.getD en).rem }
  else out.get? j

/-- the loop once `settings_initialized` is set: every remaining key is beyond `st` -/
theorem getLoop_init (st en n : Nat) (hen : en ≤ n) (hse : st < en) :
    ∀ (f : Fmts) (cur : List Setting) (out : Fmts), SortedKeys f → (∀ kp ∈ f, st < kp.1) →
      SortedKeys out →
      (AStr.getLoop st en n cur true out (replayFrom cur f)).1 = activeFrom cur f (en - 1) ∧
      (AStr.getLoop st en n cur true out (replayFrom cur f)).2.1 = true ∧
      SortedKeys (AStr.getLoop st en n cur true out (replayFrom cur f)).2.2 ∧
      ∀ j, (AStr.getLoop st en n cur true out (replayFrom cur f)).2.2.get? j = loopGet st en f out j := by
  intro f
  induction f with
  | nil =>
    intro cur out _ _ ho
    simp [replayFrom, AStr.getLoop, activeFrom, ho, loopGet, Fmts.get?_nil, Fmts.getD]
  | cons kp rest ih =>
    obtain ⟨k, p⟩ := kp
    intro cur out hs hgt ho
    have hk : st < k := hgt (k, p) (by simp)
    have hs' := Fmts.sorted_tail hs
    have hlb := Fmts.LB_tail_of_sorted hs
    have hgt' : ∀ kp ∈ rest, st < kp.1 := fun kp h => hgt kp (by simp [h])
    simp only [replayFrom, AStr.getLoop]
    by_cases h1 : k > n ∨ k > en
    · have hken : en < k := by omega
      simp only [h1, if_true]
      refine ⟨?_, trivial, ho, ?_⟩
      · have : ¬ k ≤ en - 1 := by omega
        simp [activeFrom, this]
      · intro j
        unfold loopGet
        have e1 : ∀ j, j < en - st → Fmts.get? ((k, p) :: rest) (st + j) = none := by
          intro j hj
          rw [Fmts.get?_cons]
          have a : ¬ k = st + j := by omega
          have b : st + j < k := by omega
          simp [a, b]
        have e2 : Fmts.getD ((k, p) :: rest) en = {} := by
          unfold Fmts.getD
          rw [Fmts.get?_cons]
          have a : ¬ k = en := by omega
          simp [a, hken]
        rw [e2]
        by_cases hj : j < en - st
        · simp [e1 j hj]
        · simp [hj]
    · simp only [h1, if_false]
      by_cases h2 : k = en
      · subst h2
        simp only [if_true]
        have e1 : ∀ j, j < k - st → Fmts.get? ((k, p) :: rest) (st + j) = none := by
          intro j hj
          rw [Fmts.get?_cons]
          have a : ¬ k = st + j := by omega
          have b : st + j < k := by omega
          simp [a, b]
        have e2 : Fmts.getD ((k, p) :: rest) k = p := by
          unfold Fmts.getD
          rw [Fmts.get?_cons]
          simp
        refine ⟨?_, trivial, ?_, ?_⟩
        · have : ¬ k ≤ k - 1 := by omega
          simp [activeFrom, this]
        · split
          · exact ho
          · exact Fmts.sorted_set ho _ _
        · intro j
          unfold loopGet
          rw [e2]
          by_cases hj : j < k - st
          · have hj' : ¬ j = k - st := by omega
            simp only [e1 j hj, hj']
            split
            · simp
            · rw [Fmts.get?_set ho]; simp [hj']
          · by_cases hj' : j = k - st
            · subst hj'
              cases hr : p.rem.isEmpty
              · simp [Fmts.get?_set ho]
              · simp
            · have : ¬ (j < k - st) := hj
              cases hr : p.rem.isEmpty
              · simp [Fmts.get?_set ho, hj', this]
              · simp [hj', this]
      · have hken : k < en := by omega
        have h3 : ¬ k = st := by omega
        simp only [h2, h3, if_false, hk, if_true]
        have hdead : ¬ ((!true) = true ∧ (!cur.isEmpty) = true) := by simp
        simp only [hdead, if_false]
        obtain ⟨i1, i2, i3, i4⟩ := ih (stepPoint cur p) (out.set (k - st) p) hs' hgt' (Fmts.sorted_set ho _ _)
        refine ⟨?_, i2, i3, ?_⟩
        · rw [i1]
          have : k ≤ en - 1 := by omega
          simp [activeFrom, this]
        · intro j
          rw [i4]
          unfold loopGet
          have e2 : Fmts.getD ((k, p) :: rest) en = Fmts.getD rest en := by
            unfold Fmts.getD
            rw [Fmts.get?_cons]
            have a : ¬ k = en := by omega
            have b : ¬ en < k := by omega
            simp [a, b]
          rw [e2, Fmts.get?_cons, Fmts.get?_set ho]
          by_cases hj : st + j = k
          · have a : j = k - st := by omega
            have b : Fmts.get? rest (st + j) = none := Fmts.get?_of_LB hlb (by omega)
            have c : ¬ j = en - st := by omega
            have d : 0 < j ∧ j < en - st := by omega
            have e : k - st = j := by omega
            rw [e]
            rw [hj] at b
            simp [hj, b, c, d]
          · have a : ¬ j = k - st := by omega
            have a' : ¬ k = st + j := by omega
            simp only [a, a', if_false]
            by_cases hlt : st + j < k
            · have b : Fmts.get? rest (st + j) = none := Fmts.get?_of_LB hlb (by omega)
              simp [hlt, b]
            · simp [hlt]

theorem Fmts.get?_cons_of_lt {k i : Nat} (p : Point) (rest : Fmts) (h : k < i) :
    Fmts.get? ((k, p) :: rest) i = Fmts.get? rest i := by
  rw [Fmts.get?_cons]
  have a : ¬ k = i := by omega
  have b : ¬ i < k := by omega
  simp [a, b]

theorem Fmts.getD_cons_of_lt {k i : Nat} (p : Point) (rest : Fmts) (h : k < i) :
    Fmts.getD ((k, p) :: rest) i = Fmts.getD rest i := by
  unfold Fmts.getD
  rw [Fmts.get?_cons_of_lt p rest h]

theorem Fmts.get?_cons_of_gt {k i : Nat} (p : Point) (rest : Fmts) (h : i < k) :
    Fmts.get? ((k, p) :: rest) i = none := by
  rw [Fmts.get?_cons]
  have a : ¬ k = i := by omega
  simp [a, h]

theorem loopGet_zero {st en : Nat} (hse : st < en) (f out : Fmts) :
    loopGet st en f out 0 = out.get? 0 := by
  unfold loopGet
  have : ¬ 0 = en - st := by omega
  simp [this]

theorem loopGet_congr {st en : Nat} (f out out' : Fmts) (j : Nat) (h : out.get? j = out'.get? j) :
    loopGet st en f out j = loopGet st en f out' j := by
  unfold loopGet
  rw [h]

/-- a key below or at `st` does not matter for the keys `≠ 0` of the new table -/
theorem loopGet_cons_le {st en k : Nat} (hse : st < en) (hk : k ≤ st) (p : Point) (rest out : Fmts)
    {j : Nat} (hj : j ≠ 0) :
    loopGet st en ((k, p) :: rest) out j = loopGet st en rest out j := by
  unfold loopGet
  rw [Fmts.get?_cons_of_lt p rest (by omega : k < st + j), Fmts.getD_cons_of_lt p rest (by omega : k < en)]

/-- a key strictly between `st` and `en` is copied -/
theorem loopGet_step {st en k : Nat} (hk : st < k) (hken : k < en) (p : Point) {rest out : Fmts}
    (hlb : Fmts.LB (k + 1) rest) (ho : SortedKeys out) (j : Nat) :
    loopGet st en rest (out.set (k - st) p) j = loopGet st en ((k, p) :: rest) out j := by
  unfold loopGet
  rw [Fmts.getD_cons_of_lt p rest hken, Fmts.get?_cons, Fmts.get?_set ho]
  by_cases hj : st + j = k
  · have b : Fmts.get? rest (st + j) = none := Fmts.get?_of_LB hlb (by omega)
    have c : ¬ j = en - st := by omega
    have d : 0 < j ∧ j < en - st := by omega
    have e : k - st = j := by omega
    rw [e]
    rw [hj] at b
    simp [hj, b, c, d]
  · have a : ¬ j = k - st := by omega
    have a' : ¬ k = st + j := by omega
    simp only [a, a', if_false]
    by_cases hlt : st + j < k
    · have b : Fmts.get? rest (st + j) = none := Fmts.get?_of_LB hlb (by omega)
      simp [hlt, b]
    · simp [hlt]

/-- a key beyond `en` ends the loop: nothing is left to copy -/
theorem loopGet_cons_gt {st en k : Nat} (hken : en < k) (p : Point) (rest out : Fmts) (j : Nat) :
    loopGet st en ((k, p) :: rest) out j = out.get? j := by
  unfold loopGet
  have e2 : Fmts.getD ((k, p) :: rest) en = {} := by
    unfold Fmts.getD
    rw [Fmts.get?_cons_of_gt p rest hken]; rfl
  rw [e2]
  by_cases hj : j < en - st
  · rw [Fmts.get?_cons_of_gt p rest (by omega : st + j < k)]; simp
  · simp [hj]

/-- the key `en` contributes its stop markers -/
theorem loopGet_cons_eq {st en : Nat} (hse : st < en) (p : Point) (rest out : Fmts) (j : Nat) :
    loopGet st en ((en, p) :: rest) out j =
      if j = en - st ∧ p.rem.isEmpty = false then some { rem := p.rem } else out.get? j := by
  unfold loopGet
  have e2 : Fmts.getD ((en, p) :: rest) en = p := by
    unfold Fmts.getD
    rw [Fmts.get?_cons]; simp
  rw [e2]
  by_cases hj : j < en - st
  · rw [Fmts.get?_cons_of_gt p rest (by omega : st + j < en)]; simp
  · simp [hj]

/-- the `if not settings_initialized and previous_settings` fix-up after the loop -/
def fixInit (r : List Setting × Bool × Fmts) : Fmts :=
  if !r.2.1 ∧ !r.1.isEmpty then r.2.2.set 0 { add := r.1 } else r.2.2

/-- the table after the loop and the fix-up, key by key -/
def sliceGet (st en : Nat) (cur : List Setting) (f : Fmts) (j : Nat) : Option Point :=
  if j = 0 then
    (if (activeFrom cur f st).isEmpty then none else some { add := activeFrom cur f st })
  else loopGet st en f [] j

/-- key `0` of the new table when it is written from the settings `c` -/
def init0 (c : List Setting) : Fmts := if c.isEmpty then [] else Fmts.set [] 0 { add := c }

theorem sorted_init0 (c : List Setting) : SortedKeys (init0 c) := by
  unfold init0; split <;> simp [SortedKeys, Fmts.set]

theorem init0_get? (c : List Setting) (j : Nat) :
    (init0 c).get? j = if j = 0 then (if c.isEmpty then none else some { add := c }) else none := by
  unfold init0
  by_cases hc : c.isEmpty
  · simp [hc, Fmts.get?_nil]
  · simp only [hc]
    by_cases hj : j = 0
    · subst hj; simp [Fmts.set, Fmts.get?_cons]
    · have : ¬ 0 = j := fun e => hj e.symm
      simp [Fmts.set, Fmts.get?_cons, Fmts.get?_nil, hj, this]

theorem fixInit_stop (cur : List Setting) {out : Fmts} (ho : SortedKeys out) (h0 : out.get? 0 = none) :
    SortedKeys (fixInit (cur, false, out)) ∧
    ∀ j, (fixInit (cur, false, out)).get? j =
      if j = 0 then (if cur.isEmpty then none else some { add := cur }) else out.get? j := by
  cases cur with
  | nil =>
    refine ⟨by simpa [fixInit] using ho, ?_⟩
    intro j
    by_cases hj : j = 0
    · subst hj; simp [fixInit, h0]
    · simp [fixInit, hj]
  | cons a l =>
    refine ⟨by simpa [fixInit] using Fmts.sorted_set ho _ _, ?_⟩
    intro j
    simp only [fixInit, Bool.not_false, List.isEmpty_cons, true_and, if_true, Fmts.get?_set ho]
    simp

theorem getLoop_uninit (st en n : Nat) (hen : en ≤ n) (hse : st < en) :
    ∀ (f : Fmts) (cur : List Setting), SortedKeys f →
      (AStr.getLoop st en n cur false [] (replayFrom cur f)).1 = activeFrom cur f (en - 1) ∧
      SortedKeys (fixInit (AStr.getLoop st en n cur false [] (replayFrom cur f))) ∧
      ∀ j, (fixInit (AStr.getLoop st en n cur false [] (replayFrom cur f))).get? j = sliceGet st en cur f j := by
  intro f
  induction f with
  | nil =>
    intro cur _
    simp only [replayFrom, AStr.getLoop, activeFrom]
    obtain ⟨q1, q2⟩ := fixInit_stop cur (out := []) (by simp [SortedKeys]) rfl
    refine ⟨trivial, q1, ?_⟩
    intro j
    rw [q2]
    unfold sliceGet loopGet
    simp [activeFrom, Fmts.get?_nil, Fmts.getD]
  | cons kp rest ih =>
    obtain ⟨k, p⟩ := kp
    intro cur hs
    have hs' := Fmts.sorted_tail hs
    have hlb := Fmts.LB_tail_of_sorted hs
    simp only [replayFrom, AStr.getLoop]
    by_cases h1 : k > n ∨ k > en
    · have hken : en < k := by omega
      simp only [h1, if_true]
      have a1 : activeFrom cur ((k, p) :: rest) (en - 1) = cur := by
        have : ¬ k ≤ en - 1 := by omega
        simp [activeFrom, this]
      have a2 : activeFrom cur ((k, p) :: rest) st = cur := by
        have : ¬ k ≤ st := by omega
        simp [activeFrom, this]
      obtain ⟨q1, q2⟩ := fixInit_stop cur (out := []) (by simp [SortedKeys]) rfl
      refine ⟨a1.symm, q1, ?_⟩
      intro j
      rw [q2]
      unfold sliceGet
      rw [a2, loopGet_cons_gt hken]
    · simp only [h1, if_false]
      by_cases h2 : k = en
      · subst h2
        simp only [if_true]
        have a1 : activeFrom cur ((k, p) :: rest) (k - 1) = cur := by
          have : ¬ k ≤ k - 1 := by omega
          simp [activeFrom, this]
        have a2 : activeFrom cur ((k, p) :: rest) st = cur := by
          have : ¬ k ≤ st := by omega
          simp [activeFrom, this]
        have hne : ¬ 0 = k - st := by omega
        refine ⟨a1.symm, ?_⟩
        unfold sliceGet
        simp only [a2, loopGet_cons_eq hse]
        cases hr : p.rem.isEmpty
        · obtain ⟨q1, q2⟩ := fixInit_stop cur (out := Fmts.set [] (k - st) { rem := p.rem })
            (Fmts.sorted_set (by simp [SortedKeys]) _ _)
            (by rw [Fmts.get?_set (by simp [SortedKeys])]; simp [hne, Fmts.get?_nil])
          simp only [Bool.false_eq_true, if_false]
          refine ⟨q1, ?_⟩
          intro j
          rw [q2, Fmts.get?_set (by simp [SortedKeys])]
          simp
        · obtain ⟨q1, q2⟩ := fixInit_stop cur (out := []) (by simp [SortedKeys]) rfl
          simp only [if_true]
          refine ⟨q1, ?_⟩
          intro j
          rw [q2]
          simp
      · have hken : k < en := by omega
        simp only [h2, if_false]
        by_cases h3 : k = st
        · subst h3
          simp only [if_true]
          have hgt : ∀ kp ∈ rest, k < kp.1 := Fmts.sorted_head_lt hs
          have a1 : activeFrom cur ((k, p) :: rest) (en - 1) = activeFrom (stepPoint cur p) rest (en - 1) := by
            have : k ≤ en - 1 := by omega
            simp [activeFrom, this]
          have a2 : activeFrom cur ((k, p) :: rest) k = stepPoint cur p := by
            simp [activeFrom, activeFrom_of_all_gt _ hgt]
          obtain ⟨i1, i2, i3, i4⟩ := getLoop_init k en n hen hse rest (stepPoint cur p)
            (init0 (stepPoint cur p)) hs' hgt (sorted_init0 _)
          unfold init0 at i1 i2 i3 i4
          rw [a1]
          refine ⟨i1, ?_, ?_⟩
          · unfold fixInit; rw [i2]; simpa using i3
          · intro j
            unfold fixInit; rw [i2]
            simp only [Bool.not_true, Bool.false_eq_true, false_and, if_false]
            rw [i4]
            unfold sliceGet
            rw [a2]
            have h0 := init0_get? (stepPoint cur p) j
            unfold init0 at h0
            by_cases hj : j = 0
            · subst hj
              rw [loopGet_zero hse, h0]; simp
            · rw [loopGet_congr _ _ [] j (by rw [h0]; simp [hj, Fmts.get?_nil])]
              simp only [hj, if_false]
              exact (loopGet_cons_le hse (Nat.le_refl _) p rest [] hj).symm
        · simp only [h3, if_false]
          by_cases h4 : k > st
          · simp only [h4, if_true]
            have a1 : activeFrom cur ((k, p) :: rest) (en - 1) = activeFrom (stepPoint cur p) rest (en - 1) := by
              have : k ≤ en - 1 := by omega
              simp [activeFrom, this]
            have a2 : activeFrom cur ((k, p) :: rest) st = cur := by
              have : ¬ k ≤ st := by omega
              simp [activeFrom, this]
            have hgt : ∀ kp ∈ rest, st < kp.1 := fun kp h => by
              have := Fmts.sorted_head_lt hs kp h; simp at this; omega
            have e0 : (if (!false) = true ∧ (!cur.isEmpty) = true then Fmts.set [] 0 { add := cur } else [])
                = init0 cur := by
              unfold init0; cases cur <;> simp
            rw [e0]
            obtain ⟨i1, i2, i3, i4⟩ := getLoop_init st en n hen hse rest (stepPoint cur p)
              ((init0 cur).set (k - st) p) hs' hgt (Fmts.sorted_set (sorted_init0 _) _ _)
            rw [a1]
            refine ⟨i1, ?_, ?_⟩
            · unfold fixInit; rw [i2]; simpa using i3
            · intro j
              unfold fixInit; rw [i2]
              simp only [Bool.not_true, Bool.false_eq_true, false_and, if_false]
              rw [i4, loopGet_step h4 hken p hlb (sorted_init0 _)]
              unfold sliceGet
              rw [a2]
              by_cases hj : j = 0
              · subst hj
                rw [loopGet_zero hse, init0_get?]; simp
              · rw [loopGet_congr _ _ [] j (by rw [init0_get?]; simp [hj, Fmts.get?_nil])]
                simp [hj]
          · simp only [h4, if_false]
            have hlt : k < st := by omega
            have a1 : activeFrom cur ((k, p) :: rest) (en - 1) = activeFrom (stepPoint cur p) rest (en - 1) := by
              have : k ≤ en - 1 := by omega
              simp [activeFrom, this]
            have a2 : activeFrom cur ((k, p) :: rest) st = activeFrom (stepPoint cur p) rest st := by
              have : k ≤ st := by omega
              simp [activeFrom, this]
            obtain ⟨i1, i2, i3⟩ := ih (stepPoint cur p) hs'
            rw [a1]
            refine ⟨i1, i2, ?_⟩
            intro j
            rw [i3]
            unfold sliceGet
            rw [a2]
            by_cases hj : j = 0
            · simp [hj]
            · simp only [hj, if_false]
              exact (loopGet_cons_le hse (by omega) p rest [] hj).symm

/-! ## closing the slice and the resulting table -/

/-- the last block of `__getitem__`: everything still active is stopped at `newLen` -/
def closeFmts (out : Fmts) (prev : List Setting) (newLen : Nat) : Fmts :=
  if prev.isEmpty then out
  else
    let out := out.ensure newLen
    let have_ := (out.getD newLen).rem
    out.modify newLen (fun p => { p with rem := p.rem ++ prev.filter (fun s => !hasId have_ s.id) })

/-- the point written at `newLen` -/
def closePoint (q : Point) (prev : List Setting) : Point :=
  { add := q.add, rem := q.rem ++ prev.filter (fun s => !hasId q.rem s.id) }

theorem sorted_closeFmts {out : Fmts} (ho : SortedKeys out) (prev : List Setting) (L : Nat) :
    SortedKeys (closeFmts out prev L) := by
  unfold closeFmts
  split
  · exact ho
  · exact Fmts.sorted_modify_s4 (Fmts.sorted_ensure_s4 ho _) _ _

theorem closeFmts_get? {out : Fmts} (ho : SortedKeys out) (prev : List Setting) (L j : Nat) :
    (closeFmts out prev L).get? j =
      if j = L ∧ prev.isEmpty = false then some (closePoint (out.getD L) prev) else out.get? j := by
  unfold closeFmts
  cases hp : prev.isEmpty
  · simp only [Bool.false_eq_true, if_false, and_true]
    rw [Fmts.get?_modify_s4]
    simp only [Fmts.get?_ensure_s4 ho]
    have e : (out.ensure L).getD L = out.getD L := by
      show ((out.ensure L).get? L).getD {} = _
      rw [Fmts.get?_ensure_s4 ho]; simp
    rw [e]
    by_cases hj : j = L
    · simp [hj, closePoint]
    · simp [hj]
  · simp

theorem getRange_fmts (x : AStr) {st en : Nat} (hse : st < en) (hen : en ≤ x.len) :
    (x.getRange st en).fmts =
      closeFmts (fixInit (AStr.getLoop st en x.len [] false [] (replayFrom [] x.fmts)))
        (AStr.getLoop st en x.len [] false [] (replayFrom [] x.fmts)).1 (en - st) := by
  have hl : (pySlice x.s st en).length = en - st := by
    rw [pySlice_length]; unfold AStr.len at hen; omega
  unfold AStr.getRange
  simp only [pySlice_isEmpty_false hse hen, Bool.false_eq_true, if_false, hl]
  rfl

theorem getRange_s (x : AStr) (st en : Nat) : (x.getRange st en).s = pySlice x.s st en := by
  unfold AStr.getRange
  cases h : (pySlice x.s st en).isEmpty
  · simp only [h, Bool.false_eq_true, if_false]
  · simp only [h, if_true]
    exact (List.isEmpty_iff.mp h).symm

theorem getRange_of_empty (x : AStr) {st en : Nat} (h : pySlice x.s st en = []) :
    x.getRange st en = { s := [], fmts := [] } := by
  unfold AStr.getRange
  simp [h]

/-- the new table, key by key -/
def rangeGet (f : Fmts) (st en j : Nat) : Option Point :=
  if j = en - st ∧ (active f (en - 1)).isEmpty = false then
    some (closePoint ((sliceGet st en [] f (en - st)).getD {}) (active f (en - 1)))
  else sliceGet st en [] f j

theorem getRange_sorted (x : AStr) (hs : SortedKeys x.fmts) {st en : Nat} (hse : st < en) (hen : en ≤ x.len) :
    SortedKeys (x.getRange st en).fmts := by
  rw [getRange_fmts x hse hen]
  exact sorted_closeFmts (getLoop_uninit st en x.len hen hse x.fmts [] hs).2.1 _ _

theorem getRange_get? (x : AStr) (hs : SortedKeys x.fmts) {st en : Nat} (hse : st < en) (hen : en ≤ x.len)
    (j : Nat) : (x.getRange st en).fmts.get? j = rangeGet x.fmts st en j := by
  rw [getRange_fmts x hse hen]
  obtain ⟨i1, i2, i3⟩ := getLoop_uninit st en x.len hen hse x.fmts [] hs
  rw [closeFmts_get? i2, i1]
  unfold rangeGet Fmts.getD active
  rw [i3, i3]

theorem sliceGet_zero (st en : Nat) (c : List Setting) (f : Fmts) :
    (sliceGet st en c f 0).getD {} = { add := activeFrom c f st } := by
  unfold sliceGet
  cases h : activeFrom c f st with
  | nil => simp
  | cons a l => simp

theorem sliceGet_mid {st en j : Nat} (c : List Setting) (f : Fmts) (h0 : 0 < j) (h1 : j < en - st) :
    (sliceGet st en c f j).getD {} = f.getD (st + j) := by
  unfold sliceGet loopGet Fmts.getD
  have a : ¬ j = 0 := by omega
  have b : ¬ j = en - st := by omega
  simp only [a, b, if_false, h0, h1, true_and, false_and]
  cases h : Fmts.get? f (st + j) with
  | none => simp [Fmts.get?_nil]
  | some p => simp

theorem sliceGet_end {st en : Nat} (c : List Setting) (f : Fmts) (hse : st < en) :
    (sliceGet st en c f (en - st)).getD {} = { rem := (f.getD en).rem } := by
  unfold sliceGet loopGet
  have a : ¬ en - st = 0 := by omega
  have b : ¬ en - st < en - st := by omega
  simp only [a, b, if_false, and_false, false_and, true_and]
  cases h : (f.getD en).rem with
  | nil => simp [Fmts.get?_nil]
  | cons a l => simp

theorem sliceGet_beyond {st en j : Nat} (c : List Setting) (f : Fmts) (h : en - st < j) :
    sliceGet st en c f j = none := by
  unfold sliceGet loopGet
  have a : ¬ j = 0 := by omega
  have b : ¬ j = en - st := by omega
  have d : ¬ j < en - st := by omega
  simp [a, b, d, Fmts.get?_nil]

/-- the new table as a function of the old one (`g`), the settings active at `st` (`a0`) and the
    settings active at `en - 1` (`aE`) -/
def sliceFn (g : Nat → Point) (a0 aE : List Setting) (st en : Nat) (j : Nat) : Point :=
  if j = 0 then { add := a0 }
  else if j < en - st then g (st + j)
  else if j = en - st then closePoint { rem := (g en).rem } aE
  else {}

theorem rangeGet_getD (f : Fmts) {st en : Nat} (hse : st < en) (j : Nat) :
    (rangeGet f st en j).getD {} =
      sliceFn (Fmts.toFun f) (active f st) (active f (en - 1)) st en j := by
  unfold rangeGet sliceFn
  rw [sliceGet_end [] f hse]
  by_cases h0 : j = 0
  · subst h0
    have : ¬ 0 = en - st := by omega
    simp only [this, false_and, if_false, if_true]
    exact sliceGet_zero st en [] f
  · simp only [h0, if_false]
    by_cases h1 : j < en - st
    · have : ¬ j = en - st := by omega
      simp only [this, false_and, if_false, h1, if_true]
      exact sliceGet_mid [] f (by omega) h1
    · simp only [h1, if_false]
      by_cases h2 : j = en - st
      · subst h2
        simp only [true_and, if_true]
        cases hp : (active f (en - 1)).isEmpty
        · simp [Fmts.toFun]
        · simp only [Bool.true_eq_false, if_false]
          rw [sliceGet_end [] f hse]
          have : active f (en - 1) = [] := List.isEmpty_iff.mp hp
          simp [closePoint, this, Fmts.toFun]
      · simp only [h2, false_and, if_false]
        rw [sliceGet_beyond [] f (by omega)]; rfl

theorem getRange_toFun (x : AStr) (hs : SortedKeys x.fmts) {st en : Nat} (hse : st < en) (hen : en ≤ x.len)
    (j : Nat) : Fmts.toFun (x.getRange st en).fmts j =
      sliceFn (Fmts.toFun x.fmts) (active x.fmts st) (active x.fmts (en - 1)) st en j := by
  unfold Fmts.toFun Fmts.getD
  rw [getRange_get? x hs hse hen]
  exact rangeGet_getD x.fmts hse j

/-- keys of the new table are within the new text -/
theorem getRange_keys (x : AStr) (hs : SortedKeys x.fmts) {st en : Nat} (hse : st < en) (hen : en ≤ x.len) :
    ∀ kp ∈ (x.getRange st en).fmts, kp.1 ≤ en - st := by
  intro kp hkp
  obtain ⟨k, p⟩ := kp
  have h := Fmts.get?_eq_some_of_mem (getRange_sorted x hs hse hen) hkp
  rw [getRange_get? x hs hse hen] at h
  simp only
  apply Classical.byContradiction
  intro hc
  have a : ¬ k = en - st := by omega
  unfold rangeGet at h
  simp only [a, false_and, if_false] at h
  rw [sliceGet_beyond [] x.fmts (by omega)] at h
  cases h

/-! ## deleting by identity in a list without repeated identities -/

theorem eraseId_eq_filter {c : List Setting} (h : (c.map (·.id)).Nodup) (i : Nat) :
    eraseId c i = c.filter (fun s => !(s.id == i)) := by
  induction c with
  | nil => rfl
  | cons a l ih =>
    have hn : a.id ∉ l.map (·.id) ∧ (l.map (·.id)).Nodup :=
      List.nodup_cons.mp (by rw [List.map_cons] at h; exact h)
    unfold eraseId at *
    by_cases ha : a.id = i
    · subst ha
      rw [List.eraseP_cons_of_pos (by simp)]
      rw [List.filter_cons_of_neg (by simp)]
      symm
      apply List.filter_eq_self.mpr
      intro s hs
      have : ¬ s.id = a.id := by
        intro e
        exact hn.1 (by rw [← e]; exact List.mem_map.mpr ⟨s, hs, rfl⟩)
      simp [this]
    · rw [List.eraseP_cons_of_neg (by simp [ha])]
      rw [List.filter_cons_of_pos (by simp [ha])]
      rw [ih hn.2]

theorem nodup_ids_filter {c : List Setting} (h : (c.map (·.id)).Nodup) (q : Setting → Bool) :
    ((c.filter q).map (·.id)).Nodup :=
  List.Nodup.sublist (List.Sublist.map _ List.filter_sublist) h

theorem hasId_cons (s : Setting) (l : List Setting) (i : Nat) :
    hasId (s :: l) i = (s.id == i || hasId l i) := by
  simp [hasId]

theorem hasId_append_s4 (a b : List Setting) (i : Nat) : hasId (a ++ b) i = (hasId a i || hasId b i) := by
  simp [hasId]

theorem hasId_of_mem {l : List Setting} {s : Setting} (h : s ∈ l) : hasId l s.id = true := by
  unfold hasId
  exact List.any_eq_true.mpr ⟨s, h, by simp⟩

theorem foldl_eraseId_eq_filter (L : List Setting) :
    ∀ {c : List Setting}, (c.map (·.id)).Nodup →
      L.foldl (fun c s => eraseId c s.id) c = c.filter (fun s => !hasId L s.id) := by
  induction L with
  | nil =>
    intro c _
    simp only [List.foldl_nil, hasId, List.any_nil, Bool.not_false]
    exact (List.filter_eq_self.mpr (fun _ _ => rfl)).symm
  | cons a L ih =>
    intro c h
    simp only [List.foldl_cons]
    rw [eraseId_eq_filter h, ih (nodup_ids_filter h _), List.filter_filter]
    apply List.filter_congr
    intro s _
    rw [hasId_cons]
    by_cases h1 : s.id = a.id
    · simp [h1]
    · have h1' : ¬ a.id = s.id := fun e => h1 e.symm
      have e1 : (s.id == a.id) = false := beq_eq_false_iff_ne.mpr h1
      have e2 : (a.id == s.id) = false := beq_eq_false_iff_ne.mpr h1'
      rw [e1, e2]; simp

/-- stopping the listed markers and then everything that is left leaves nothing -/
theorem stepPoint_closePoint {c : List Setting} (h : (c.map (·.id)).Nodup) (R : List Setting) :
    stepPoint c (closePoint { rem := R } c) = [] := by
  unfold stepPoint closePoint
  simp only [List.append_nil]
  rw [foldl_eraseId_eq_filter _ h]
  apply List.filter_eq_nil_iff.mpr
  intro s hs
  rw [hasId_append_s4]
  cases hr : hasId R s.id
  · have : s ∈ c.filter (fun s => !hasId R s.id) := List.mem_filter.mpr ⟨hs, by simp [hr]⟩
    simp [hasId_of_mem this]
  · simp

theorem stepOk_append_s4 (A B : List Setting) :
    ∀ c, stepOk c (A ++ B) = (stepOk c A && stepOk (A.foldl (fun c s => eraseId c s.id) c) B) := by
  induction A with
  | nil => intro c; simp [stepOk]
  | cons a A ih =>
    intro c
    simp only [List.cons_append, stepOk, List.foldl_cons, ih, Bool.and_assoc]

theorem stepOk_self (c : List Setting) : stepOk c c = true := by
  induction c with
  | nil => rfl
  | cons a l ih =>
    have e : eraseId (a :: l) a.id = l := by
      unfold eraseId
      rw [List.eraseP_cons_of_pos (by simp)]
    simp [stepOk, hasId_cons, e, ih]

theorem stepOk_closePoint {c : List Setting} (h : (c.map (·.id)).Nodup) {R : List Setting}
    (hr : stepOk c R = true) : stepOk c (closePoint { rem := R } c).rem = true := by
  unfold closePoint
  simp only
  rw [stepOk_append_s4, hr, foldl_eraseId_eq_filter _ h, stepOk_self]
  rfl

/-! ## replay of the new table, as a function -/

theorem stepPoint_nil_add (a : List Setting) : stepPoint [] { add := a } = a := by
  simp [stepPoint]

theorem runFrom_nil_of_empty (g : Nat → Point) (lo : Nat) :
    ∀ m, (∀ j, lo ≤ j → j < lo + m → g j = {}) → ∀ c, runFrom g c lo m = c := by
  intro m
  induction m generalizing lo with
  | zero => intros; rfl
  | succ m ih =>
    intro h c
    simp only [runFrom]
    rw [h lo (Nat.le_refl _) (by omega), stepPoint_empty]
    exact ih (lo + 1) (fun j h1 h2 => h j (by omega) (by omega)) c

/-- characters of the slice report what the corresponding characters of the original report -/
theorem activeFn_sliceFn (g : Nat → Point) (aE : List Setting) (st en : Nat) :
    ∀ k, k < en - st →
      activeFn (sliceFn g (activeFn g st) aE st en) k = activeFn g (st + k) := by
  intro k
  induction k with
  | zero =>
    intro _
    rw [activeFn_zero]
    simp [sliceFn, stepPoint_nil_add]
  | succ k ih =>
    intro hk
    rw [activeFn_succ, ih (by omega)]
    have a : ¬ k + 1 = 0 := by omega
    have e : st + (k + 1) = st + k + 1 := by omega
    simp only [sliceFn, a, if_false, hk, if_true]
    rw [e, activeFn_succ]

/-- at the end of the slice everything is stopped -/
theorem activeFn_sliceFn_end (g : Nat → Point) (st en : Nat) (hse : st < en)
    (hn : ((activeFn g (en - 1)).map (·.id)).Nodup) :
    activeFn (sliceFn g (activeFn g st) (activeFn g (en - 1)) st en) (en - st) = [] := by
  have e : en - st = (en - st - 1) + 1 := by omega
  rw [e, activeFn_succ, activeFn_sliceFn g _ st en (en - st - 1) (by omega)]
  have e' : st + (en - st - 1) = en - 1 := by omega
  rw [e', ← e]
  have a : ¬ en - st = 0 := by omega
  have b : ¬ en - st < en - st := by omega
  simp only [sliceFn, a, b, if_false, if_true]
  exact stepPoint_closePoint hn _

theorem activeFn_sliceFn_beyond (g : Nat → Point) (st en : Nat) (hse : st < en)
    (hn : ((activeFn g (en - 1)).map (·.id)).Nodup) :
    ∀ d, activeFn (sliceFn g (activeFn g st) (activeFn g (en - 1)) st en) (en - st + d) = [] := by
  intro d
  induction d with
  | zero => exact activeFn_sliceFn_end g st en hse hn
  | succ d ih =>
    rw [show en - st + (d + 1) = (en - st + d) + 1 by omega, activeFn_succ, ih]
    have b : ¬ en - st + d + 1 < en - st := by omega
    have c : ¬ en - st + d + 1 = en - st := by omega
    simp [sliceFn, b, c, stepPoint_empty]

/-! ## `replayOk` and `Fmts.settings` through the function representation -/

theorem Fmts.toFun_cons_lt {k j : Nat} (p : Point) (rest : Fmts) (h : j < k) :
    Fmts.toFun ((k, p) :: rest) j = {} := by
  unfold Fmts.toFun Fmts.getD
  rw [Fmts.get?_cons_of_gt p rest h]; rfl

theorem Fmts.toFun_cons_self (k : Nat) (p : Point) (rest : Fmts) :
    Fmts.toFun ((k, p) :: rest) k = p := by
  unfold Fmts.toFun Fmts.getD
  rw [Fmts.get?_cons]; simp

theorem Fmts.toFun_cons_gt {k j : Nat} (p : Point) (rest : Fmts) (h : k < j) :
    Fmts.toFun ((k, p) :: rest) j = Fmts.toFun rest j := by
  unfold Fmts.toFun
  exact Fmts.getD_cons_of_lt p rest h

theorem Fmts.toFun_nil (j : Nat) : Fmts.toFun [] j = {} := rfl

theorem stepOk_nil_s4 (c : List Setting) : stepOk c [] = true := by
  cases c <;> rfl

theorem runFrom_cons_head {k lo : Nat} (p : Point) (rest : Fmts) (hlo : lo ≤ k) (cur : List Setting)
    (m : Nat) :
    runFrom (Fmts.toFun ((k, p) :: rest)) cur lo (k - lo + (1 + m)) =
      runFrom (Fmts.toFun rest) (stepPoint cur p) (k + 1) m := by
  rw [runFrom_add, runFrom_nil_of_empty _ lo (k - lo)
    (fun j h1 h2 => Fmts.toFun_cons_lt p rest (by omega)) cur]
  rw [runFrom_add]
  have e : lo + (k - lo) = k := by omega
  rw [e]
  simp only [runFrom, Fmts.toFun_cons_self]
  apply runFrom_congr
  intro j h1 h2
  exact Fmts.toFun_cons_gt p rest (by omega)

theorem replayOkFrom_iff_s4 (f : Fmts) (hs : SortedKeys f) :
    ∀ (lo : Nat), Fmts.LB lo f → ∀ cur : List Setting,
      (replayOkFrom cur f = true ↔
        ∀ m, stepOk (runFrom (Fmts.toFun f) cur lo m) (Fmts.toFun f (lo + m)).rem = true) := by
  induction f with
  | nil =>
    intro lo _ cur
    simp [replayOkFrom, Fmts.toFun_nil, stepOk_nil_s4]
  | cons kp rest ih =>
    obtain ⟨k, p⟩ := kp
    intro lo hlb cur
    have hk : lo ≤ k := hlb (k, p) (by simp)
    have hrest := Fmts.sorted_tail hs
    have hlb' := Fmts.LB_tail_of_sorted hs
    have IH := ih hrest (k + 1) hlb' (stepPoint cur p)
    simp only [replayOkFrom, Bool.and_eq_true]
    constructor
    · rintro ⟨h1, h2⟩ m
      by_cases c1 : lo + m < k
      · rw [Fmts.toFun_cons_lt p rest c1]; exact stepOk_nil_s4 _
      · by_cases c2 : lo + m = k
        · rw [c2, Fmts.toFun_cons_self]
          rw [runFrom_nil_of_empty _ lo m (fun j h1 h2 => Fmts.toFun_cons_lt p rest (by omega)) cur]
          exact h1
        · have e : m = k - lo + (1 + (m - (k - lo) - 1)) := by omega
          rw [e, runFrom_cons_head p rest hk, Fmts.toFun_cons_gt p rest (by omega)]
          have := IH.mp h2 (m - (k - lo) - 1)
          have e2 : lo + (k - lo + (1 + (m - (k - lo) - 1))) = k + 1 + (m - (k - lo) - 1) := by omega
          rw [e2]; exact this
    · intro h
      constructor
      · have := h (k - lo)
        rw [runFrom_nil_of_empty _ lo (k - lo) (fun j h1 h2 => Fmts.toFun_cons_lt p rest (by omega)) cur] at this
        have e : lo + (k - lo) = k := by omega
        rw [e, Fmts.toFun_cons_self] at this
        exact this
      · apply IH.mpr
        intro m
        have := h (k - lo + (1 + m))
        rw [runFrom_cons_head p rest hk, Fmts.toFun_cons_gt p rest (by omega)] at this
        have e2 : lo + (k - lo + (1 + m)) = k + 1 + m := by omega
        rw [e2] at this; exact this

/-- the library's self-check, index by index -/
theorem replayOk_iff_s4 (f : Fmts) (hs : SortedKeys f) :
    replayOk f = true ↔
      ∀ k, stepOk (runFrom (Fmts.toFun f) [] 0 k) (Fmts.toFun f k).rem = true := by
  have := replayOkFrom_iff_s4 f hs 0 (fun _ _ => Nat.zero_le _) []
  simpa [replayOk] using this

theorem settings_iff (f : Fmts) (hs : SortedKeys f) (s : Setting) :
    s ∈ f.settings ↔ ∃ k, s ∈ (Fmts.toFun f k).add ∨ s ∈ (Fmts.toFun f k).rem := by
  unfold Fmts.settings
  rw [List.mem_flatMap]
  constructor
  · rintro ⟨⟨k, p⟩, hm, hin⟩
    refine ⟨k, ?_⟩
    have : Fmts.toFun f k = p := by
      unfold Fmts.toFun Fmts.getD
      rw [Fmts.get?_eq_some_of_mem hs hm]; rfl
    rw [this]
    exact List.mem_append.mp hin
  · rintro ⟨k, hk⟩
    unfold Fmts.toFun Fmts.getD at hk
    cases hg : f.get? k with
    | none => rw [hg] at hk; simp at hk
    | some p =>
      rw [hg] at hk
      exact ⟨(k, p), Fmts.mem_of_get?_eq_some hg, List.mem_append.mpr hk⟩

theorem mem_stepPoint_s4 {s : Setting} {c : List Setting} {p : Point} (h : s ∈ stepPoint c p) :
    s ∈ c ∨ s ∈ p.add := by
  unfold stepPoint at h
  rcases List.mem_append.mp h with h | h
  · left
    have : ∀ (L : List Setting) (c : List Setting), s ∈ L.foldl (fun c s => eraseId c s.id) c → s ∈ c := by
      intro L
      induction L with
      | nil => intro c h; exact h
      | cons a L ih =>
        intro c h
        have := ih _ h
        exact List.mem_of_mem_eraseP this
    exact this _ _ h
  · exact Or.inr h

theorem mem_runFrom {s : Setting} (g : Nat → Point) :
    ∀ (m : Nat) (c : List Setting) (lo : Nat), s ∈ runFrom g c lo m → s ∈ c ∨ ∃ k, s ∈ (g k).add := by
  intro m
  induction m with
  | zero => intro c lo h; exact Or.inl h
  | succ m ih =>
    intro c lo h
    rcases ih _ _ h with h | h
    · rcases mem_stepPoint_s4 h with h | h
      · exact Or.inl h
      · exact Or.inr ⟨lo, h⟩
    · exact Or.inr h

theorem mem_activeFn {s : Setting} {g : Nat → Point} {i : Nat} (h : s ∈ activeFn g i) :
    ∃ k, s ∈ (g k).add := by
  rcases mem_runFrom g _ _ _ h with h | h
  · cases h
  · exact h

/-! ## the slice as a value -/

theorem runFrom_pos (g : Nat → Point) {k : Nat} (h : 0 < k) :
    runFrom g [] 0 k = activeFn g (k - 1) := by
  unfold activeFn; rw [Nat.sub_add_cancel h]

theorem getRange_toFun_eq (x : AStr) (hs : SortedKeys x.fmts) {st en : Nat} (hse : st < en)
    (hen : en ≤ x.len) :
    Fmts.toFun (x.getRange st en).fmts =
      sliceFn (Fmts.toFun x.fmts) (activeFn (Fmts.toFun x.fmts) st)
        (activeFn (Fmts.toFun x.fmts) (en - 1)) st en := by
  funext j
  rw [getRange_toFun x hs hse hen, active_eq_activeFn _ hs, active_eq_activeFn _ hs]

theorem getRange_act (x : AStr) (hs : SortedKeys x.fmts) {st en : Nat} (hse : st < en)
    (hen : en ≤ x.len) {k : Nat} (hk : k < en - st) :
    act (x.getRange st en) k = act x (st + k) := by
  unfold act
  rw [active_eq_activeFn _ (getRange_sorted x hs hse hen), active_eq_activeFn _ hs,
    getRange_toFun_eq x hs hse hen]
  exact activeFn_sliceFn _ _ st en k hk

theorem getRange_act_beyond (x : AStr) (hs : SortedKeys x.fmts) {st en : Nat} (hse : st < en)
    (hen : en ≤ x.len) (hn : ((active x.fmts (en - 1)).map (·.id)).Nodup) {j : Nat}
    (hj : en - st ≤ j) : act (x.getRange st en) j = [] := by
  unfold act
  rw [active_eq_activeFn _ (getRange_sorted x hs hse hen), getRange_toFun_eq x hs hse hen]
  rw [active_eq_activeFn _ hs] at hn
  have := activeFn_sliceFn_beyond (Fmts.toFun x.fmts) st en hse hn (j - (en - st))
  rw [show en - st + (j - (en - st)) = j by omega] at this
  exact this

theorem getRange_len (x : AStr) {st en : Nat} (hen : en ≤ x.len) :
    (x.getRange st en).len = en - st := by
  unfold AStr.len at *
  rw [getRange_s, pySlice_length]; omega

theorem wf_empty : WF { s := [], fmts := [] } where
  sorted := by simp [SortedKeys]
  bound := by simp
  noAddEnd := by simp
  ok := rfl
  nodup := by intro i; simp [active, activeFrom]
  closed := rfl
  coherent := by simp [Fmts.settings]

theorem getRange_wf_of_lt (x : AStr) (h : WF x) {st en : Nat} (hse : st < en) (hen : en ≤ x.len) :
    WF (x.getRange st en) := by
  have hs := h.sorted
  have hsy := getRange_sorted x hs hse hen
  have hlen := getRange_len x (st := st) hen
  have hf := getRange_toFun_eq x hs hse hen
  have hnE : ((activeFn (Fmts.toFun x.fmts) (en - 1)).map (·.id)).Nodup := by
    rw [← active_eq_activeFn _ hs]; exact h.nodup _
  have hact : ∀ i, active (x.getRange st en).fmts i =
      if i < en - st then active x.fmts (st + i) else [] := by
    intro i
    by_cases hi : i < en - st
    · simp only [hi, if_true]; exact getRange_act x hs hse hen hi
    · simp only [hi, if_false]
      exact getRange_act_beyond x hs hse hen (h.nodup _) (by omega)
  refine ⟨hsy, ?_, ?_, ?_, ?_, ?_, ?_⟩
  · intro kp hkp
    rw [hlen]; exact getRange_keys x hs hse hen kp hkp
  · intro kp hkp hk
    obtain ⟨k, p⟩ := kp
    simp only at hk ⊢
    rw [hlen] at hk
    have : Fmts.toFun (x.getRange st en).fmts k = p := by
      unfold Fmts.toFun Fmts.getD
      rw [Fmts.get?_eq_some_of_mem hsy hkp]; rfl
    rw [hf, hk] at this
    have a : ¬ en - st = 0 := by omega
    have b : ¬ en - st < en - st := by omega
    simp only [sliceFn, a, b, if_false, if_true] at this
    rw [← this]; rfl
  · rw [replayOk_iff_s4 _ hsy, hf]
    have hx := (replayOk_iff_s4 _ hs).mp h.ok
    intro k
    by_cases h0 : k = 0
    · subst h0; simp [sliceFn, stepOk_nil_s4]
    · have hk0 : 0 < k := by omega
      by_cases h1 : k < en - st
      · rw [runFrom_pos _ hk0, activeFn_sliceFn _ _ st en (k - 1) (by omega)]
        simp only [sliceFn, h0, h1, if_false, if_true]
        have := hx (st + k)
        rw [runFrom_pos _ (by omega)] at this
        rw [show st + (k - 1) = st + k - 1 by omega]
        exact this
      · by_cases h2 : k = en - st
        · subst h2
          rw [runFrom_pos _ hk0, activeFn_sliceFn _ _ st en (en - st - 1) (by omega)]
          simp only [sliceFn, h0, h1, if_false, if_true]
          have hx' := hx en
          rw [runFrom_pos _ (by omega)] at hx'
          rw [show st + (en - st - 1) = en - 1 by omega]
          exact stepOk_closePoint hnE hx'
        · simp [sliceFn, h0, h1, h2, stepOk_nil_s4]
  · intro i
    rw [hact]
    split
    · exact h.nodup _
    · simp
  · rw [hact, hlen]; simp
  · have sub : ∀ s ∈ (x.getRange st en).fmts.settings, s ∈ x.fmts.settings := by
      intro s hsm
      obtain ⟨k, hk⟩ := (settings_iff _ hsy s).mp hsm
      rw [hf] at hk
      have fromAct : ∀ i, s ∈ activeFn (Fmts.toFun x.fmts) i → s ∈ x.fmts.settings := by
        intro i hi
        obtain ⟨k', hk'⟩ := mem_activeFn hi
        exact (settings_iff _ hs s).mpr ⟨k', Or.inl hk'⟩
      unfold sliceFn at hk
      by_cases h0 : k = 0
      · simp only [h0, if_true] at hk
        rcases hk with hk | hk
        · exact fromAct _ hk
        · cases hk
      · simp only [h0, if_false] at hk
        by_cases h1 : k < en - st
        · simp only [h1, if_true] at hk
          exact (settings_iff _ hs s).mpr ⟨_, hk⟩
        · simp only [h1, if_false] at hk
          by_cases h2 : k = en - st
          · simp only [h2, if_true, closePoint] at hk
            rcases hk with hk | hk
            · cases hk
            · rcases List.mem_append.mp hk with hk | hk
              · exact (settings_iff _ hs s).mpr ⟨_, Or.inr hk⟩
              · exact fromAct _ (List.mem_filter.mp hk).1
          · simp only [h2, if_false] at hk
            rcases hk with hk | hk <;> cases hk
    intro s hs' t ht e
    exact h.coherent s (sub s hs') t (sub t ht) e

theorem getRange_wf_all (x : AStr) (h : WF x) (st : Nat) {en : Nat} (hen : en ≤ x.len) :
    WF (x.getRange st en) := by
  by_cases he : pySlice x.s st en = []
  · rw [getRange_of_empty x he]; exact wf_empty
  · exact getRange_wf_of_lt x h (pySlice_eq_nil_of_not hen he) hen

/-! ## appending plain text -/

theorem iadd_nil_fmts (a : AStr) (t : Str) :
    a.iadd { s := t, fmts := [] } = { s := a.s ++ t, fmts := a.fmts } := by
  simp [AStr.iadd]
