import AnsiModel.RegexCls
import AnsiModel.Render
import AnsiModel.Scrub
/-
  Lemmas for C12d / C14c: two regular expressions of the model's `Re` type match alike when they
  have the same *normal form* up to pointwise-equal character classes.

  * `Re.app r t` / `Re.norm r = Re.app r .eps`: right-nest every `seq`, drop every `eps`
    (so `Re.lit "rgb(".toList` followed by the rest and a flat sequence of literals agree), recursively
    inside `opt`, `cap`, `alt`.  `m_norm : m (norm r) = m r`.
  * `Equiv`: same shape, classes pointwise equal.  `Equiv.eq : Equiv r r' → r = r'` (funext).
  * `matchStart_of_norm : Equiv (norm r) (norm r') → ∀ s, matchStart r s = matchStart r' s`.
  * tactic `re_equiv` (after unfolding the generated definition): applies the criterion, unfolds the
    model's regular expressions, walks the two normal forms in parallel and closes every class goal
    `∀ c, Cls.test ⟨…⟩ c = <model predicate> c` by unfolding to a Boolean combination of comparisons
    with `c` and `grind` (so reordered members, `\d` for `[0-9]`, … are accepted; a different member is not).
-/
namespace RegexEquivL

open Re

/-- `app r t` is `seq r t`, right-nested and without `eps` -/
def app : Re → Re → Re
  | .seq a b, t => app a (app b t)
  | .eps, t => t
  | .cls p, t => .seq (.cls p) t
  | .star p, t => .seq (.star p) t
  | .opt r, t => .seq (.opt (app r .eps)) t
  | .cap n r, t => .seq (.cap n (app r .eps)) t
  | .alt a b, t => .seq (.alt (app a .eps) (app b .eps)) t
  | .eos, t => .seq .eos t

/-- the normal form: a right-nested sequence of atoms ending in `eps` -/
def norm (r : Re) : Re := app r .eps

theorem m_app {α} (r : Re) : ∀ (t : Re) (s : Str) (caps : Caps) (k : Str → Caps → Option α),
    m (app r t) s caps k = m r s caps (fun rest caps' => m t rest caps' k) := by
  induction r with
  | cls p => intro t s caps k; rfl
  | star p => intro t s caps k; rfl
  | eps => intro t s caps k; rfl
  | eos => intro t s caps k; rfl
  | seq a b iha ihb =>
    intro t s caps k
    show m (app a (app b t)) s caps k = m a s caps (fun rest caps' => m b rest caps' _)
    rw [iha]
    congr 1
    funext rest caps'
    exact ihb t rest caps' k
  | opt r ih =>
    intro t s caps k
    simp only [app, Re.m, ih]
  | cap n r ih =>
    intro t s caps k
    simp only [app, Re.m, ih]
  | alt a b iha ihb =>
    intro t s caps k
    simp only [app, Re.m, iha, ihb]

theorem m_norm {α} (r : Re) (s : Str) (caps : Caps) (k : Str → Caps → Option α) :
    m (norm r) s caps k = m r s caps k := by
  unfold norm
  rw [m_app]
  rfl

theorem matchStart_norm (r : Re) (s : Str) : matchStart (norm r) s = matchStart r s := m_norm r s _ _

/-- same shape, character classes pointwise equal -/
inductive Equiv : Re → Re → Prop
  | cls {p q : Char → Bool} : (∀ c, p c = q c) → Equiv (.cls p) (.cls q)
  | star {p q : Char → Bool} : (∀ c, p c = q c) → Equiv (.star p) (.star q)
  | opt {r r' : Re} : Equiv r r' → Equiv (.opt r) (.opt r')
  | cap {n : Nat} {r r' : Re} : Equiv r r' → Equiv (.cap n r) (.cap n r')
  | seq {a b a' b' : Re} : Equiv a a' → Equiv b b' → Equiv (.seq a b) (.seq a' b')
  | alt {a b a' b' : Re} : Equiv a a' → Equiv b b' → Equiv (.alt a b) (.alt a' b')
  | eps : Equiv .eps .eps
  | eos : Equiv .eos .eos

theorem Equiv.eq {r r' : Re} (h : Equiv r r') : r = r' := by
  induction h with
  | cls h => exact congrArg Re.cls (funext h)
  | star h => exact congrArg Re.star (funext h)
  | opt _ ih => rw [ih]
  | cap _ ih => rw [ih]
  | seq _ _ iha ihb => rw [iha, ihb]
  | alt _ _ iha ihb => rw [iha, ihb]
  | eps => rfl
  | eos => rfl

/-- equivalent expressions run alike, with every continuation -/
theorem Equiv.m_eq {α} {r r' : Re} (h : Equiv r r') (s : Str) (caps : Caps) (k : Str → Caps → Option α) :
    m r s caps k = m r' s caps k := by rw [h.eq]

/-- THE CRITERION: equal normal forms (up to pointwise-equal classes) ⇒ the same `matchStart`
    (the same captures, not only the same language) on every string -/
theorem matchStart_of_norm {r r' : Re} (h : Equiv (norm r) (norm r')) (s : Str) :
    matchStart r s = matchStart r' s := by
  rw [← matchStart_norm r, ← matchStart_norm r', h.eq]

/-- `∀ c, Cls.test ⟨neg, items⟩ c = p c` for a model predicate `p` -/
macro "re_cls_eq" : tactic => `(tactic| (
  intro c
  simp only [Cls.test, ClsItem.test, List.any, Render.dot, Render.sign, Render.align, Py.isDigit, Scrub.isHex]
  grind))

/-- `∀ s, matchStart <explicit generated term> s = matchStart <model regex> s` -/
macro "re_equiv" : tactic => `(tactic| (
  intro s
  apply matchStart_of_norm
  simp only [norm, app, Re.lit, Re.plus, String.reduceToList,
    Render.reSpec, Render.reLeft, Render.reAligned,
    Scrub.reRgb3, Scrub.reRgb1, Scrub.reColor, Scrub.rePrefix, Scrub.reOpen, Scrub.reClose, Scrub.reWs,
    Scrub.reNum, Scrub.reComma]
  repeat' first
    | exact Equiv.eps
    | exact Equiv.eos
    | apply Equiv.seq
    | apply Equiv.alt
    | apply Equiv.opt
    | apply Equiv.cap
    | (apply Equiv.cls; re_cls_eq)
    | (apply Equiv.star; re_cls_eq)))

end RegexEquivL
